// Package httpx drives real vgirpc.HttpServer instances in-process
// (httptest recorder) for the HTTP drivers: clusters of instances sharing a
// token key, a header-driven authenticator, request builders and a decoder for
// concatenated Arrow IPC response bodies.
package httpx

import (
	"bytes"
	"encoding/json"
	"fmt"
	"io"
	"net/http"
	"net/http/httptest"
	"runtime/debug"
	"strings"

	"github.com/apache/arrow-go/v18/arrow"
	"github.com/apache/arrow-go/v18/arrow/array"
	"github.com/apache/arrow-go/v18/arrow/ipc"
	"github.com/apache/arrow-go/v18/arrow/memory"

	"github.com/Query-farm/vgi-rpc-go/vgirpc"
)

// Mem is the allocator the harness uses for its own batches (never the
// server's checked allocator).
var Mem = memory.NewGoAllocator()

// ArrowCT is the content type of RPC bodies.
const ArrowCT = "application/vnd.apache.arrow.stream"

// IdentHeader carries the abstract caller identity ("anon", "a@d1", ...).
const IdentHeader = "X-Verif-Ident"

// Authenticate maps the identity header to an AuthContext.
func Authenticate(r *http.Request) (*vgirpc.AuthContext, error) {
	id := r.Header.Get(IdentHeader)
	if id == "" || id == "anon" {
		return vgirpc.Anonymous(), nil
	}
	if id == "reject" {
		return nil, &vgirpc.RpcError{Type: "ValueError", Message: "rejected"}
	}
	p, d, _ := strings.Cut(id, "@")
	return &vgirpc.AuthContext{Domain: d, Principal: p, Authenticated: true}, nil
}

// Batch is one decoded response batch.
type Batch struct {
	Kind   string // log | exc | data | token | void | hdr | empty
	Level  string
	Msg    string
	EType  string
	EKind  string
	TB     bool
	RID    string
	Rows   int64
	Val    any
	Cursor string
	Call   string
	Meta   map[string]string
}

// Resp is a decoded HTTP response.
type Resp struct {
	Status  int
	Header  http.Header
	Body    []byte
	Streams [][]Batch
	DecErr  string
	Panic   string
}

// Do serves one request through h.ServeHTTP.
func Do(h http.Handler, method, path, ident string, body []byte, hdr map[string]string) *Resp {
	req := httptest.NewRequest(method, path, bytes.NewReader(body))
	if body != nil {
		req.Header.Set("Content-Type", ArrowCT)
	}
	if ident != "" {
		req.Header.Set(IdentHeader, ident)
	}
	for k, v := range hdr {
		if v == "" {
			req.Header.Del(k)
		} else {
			req.Header.Set(k, v)
		}
	}
	rec := httptest.NewRecorder()
	out := &Resp{}
	func() {
		defer func() {
			if r := recover(); r != nil {
				st := string(debug.Stack())
				if len(st) > 2500 {
					st = st[:2500]
				}
				out.Panic = fmt.Sprintf("%v\n%s", r, st)
			}
		}()
		h.ServeHTTP(rec, req)
	}()
	res := rec.Result()
	out.Status = res.StatusCode
	out.Header = res.Header
	out.Body, _ = io.ReadAll(res.Body)
	if out.Panic == "" && strings.HasPrefix(res.Header.Get("Content-Type"), ArrowCT) && res.Header.Get("Content-Encoding") == "" && res.Header.Get("X-VGI-Content-Encoding") == "" {
		out.Streams, out.DecErr = DecodeStreams(out.Body)
	}
	return out
}

// DecodeStreams decodes a body of concatenated IPC streams.
func DecodeStreams(body []byte) (streams [][]Batch, decErr string) {
	defer func() {
		if r := recover(); r != nil {
			decErr = fmt.Sprintf("decoder panic: %v", r)
		}
	}()
	rd := bytes.NewReader(body)
	for rd.Len() > 0 {
		rdr, err := ipc.NewReader(rd, ipc.WithAllocator(Mem))
		if err != nil {
			return streams, "open stream: " + err.Error()
		}
		isHdr := rdr.Schema().NumFields() == 1 && rdr.Schema().Field(0).Name == "tag"
		bs := []Batch{}
		for rdr.Next() {
			bs = append(bs, Classify(rdr.RecordBatch(), isHdr))
		}
		if e := rdr.Err(); e != nil && e != io.EOF {
			decErr = "read stream: " + e.Error()
		}
		rdr.Release()
		streams = append(streams, bs)
		if decErr != "" {
			return streams, decErr
		}
	}
	return streams, ""
}

// Classify describes one record batch.
func Classify(rec arrow.RecordBatch, isHdr bool) Batch {
	var md arrow.Metadata
	if m, ok := rec.(arrow.RecordBatchWithMetadata); ok {
		md = m.Metadata()
	}
	b := Batch{Rows: rec.NumRows(), Meta: map[string]string{}}
	for i, k := range md.Keys() {
		b.Meta[k] = md.Values()[i]
	}
	b.Cursor = b.Meta[vgirpc.MetaStreamState]
	b.Call = b.Meta[vgirpc.MetaCallState]
	if lvl, ok := b.Meta[vgirpc.MetaLogLevel]; ok {
		b.Level, b.Msg, b.RID = lvl, b.Meta[vgirpc.MetaLogMessage], b.Meta[vgirpc.MetaRequestID]
		if lvl == "EXCEPTION" {
			var ex struct {
				ExceptionType string `json:"exception_type"`
				Traceback     string `json:"traceback"`
				Frames        []any  `json:"frames"`
			}
			_ = json.Unmarshal([]byte(b.Meta[vgirpc.MetaLogExtra]), &ex)
			b.Kind, b.EType, b.EKind = "exc", ex.ExceptionType, b.Meta[vgirpc.MetaErrorKind]
			b.TB = ex.Traceback != "" || len(ex.Frames) > 0
			return b
		}
		b.Kind = "log"
		return b
	}
	if _, ok := b.Meta[vgirpc.MetaLocation]; ok {
		b.Kind = "pointer"
		return b
	}
	switch {
	case isHdr:
		b.Kind = "hdr"
	case rec.NumRows() == 0 && b.Cursor != "":
		b.Kind = "token"
	case rec.NumCols() == 0:
		b.Kind = "void"
	case rec.NumRows() == 0:
		b.Kind = "empty"
	default:
		b.Kind = "data"
		if _, ok := b.Meta[vgirpc.MetaLocation]; ok {
			b.Kind = "pointer"
		}
		switch c := rec.Column(0).(type) {
		case *array.Int64:
			b.Val = c.Value(0)
		case *array.Binary:
			b.Val = len(c.Value(0))
		default:
			b.Val = fmt.Sprintf("col0:%s", rec.Column(0).DataType())
		}
	}
	return b
}

// Flat returns all batches of all streams.
func (r *Resp) Flat() []Batch {
	var out []Batch
	for _, s := range r.Streams {
		out = append(out, s...)
	}
	return out
}

// Tokens returns the last cursor and the first call token found in the response.
func (r *Resp) Tokens() (cursor, call string) {
	for _, b := range r.Flat() {
		if b.Cursor != "" {
			cursor = b.Cursor
		}
		if b.Call != "" && call == "" {
			call = b.Call
		}
	}
	return
}

// Exc returns the first exception batch, if any.
func (r *Resp) Exc() *Batch {
	for _, b := range r.Flat() {
		if b.Kind == "exc" {
			bb := b
			return &bb
		}
	}
	return nil
}

// ---- request builders ---------------------------------------------------------------

// StrCol builds a utf8 column.
func StrCol(vals ...string) arrow.Array {
	b := array.NewStringBuilder(Mem)
	defer b.Release()
	for _, v := range vals {
		b.Append(v)
	}
	return b.NewArray()
}

// I64Col builds an int64 column.
func I64Col(vals ...int64) arrow.Array {
	b := array.NewInt64Builder(Mem)
	defer b.Release()
	for _, v := range vals {
		b.Append(v)
	}
	return b.NewArray()
}

// I32Col builds an int32 column.
func I32Col(vals ...int32) arrow.Array {
	b := array.NewInt32Builder(Mem)
	defer b.Release()
	for _, v := range vals {
		b.Append(v)
	}
	return b.NewArray()
}

// Stream serialises one IPC stream holding a single batch with custom metadata
// (keys in the given order).
func Stream(schema *arrow.Schema, cols []arrow.Array, rows int64, metaKV ...string) []byte {
	var keys, vals []string
	for i := 0; i+1 < len(metaKV); i += 2 {
		keys = append(keys, metaKV[i])
		vals = append(vals, metaKV[i+1])
	}
	var rec arrow.RecordBatch
	if len(keys) > 0 {
		rec = array.NewRecordBatchWithMetadata(schema, cols, rows, arrow.NewMetadata(keys, vals))
	} else {
		rec = array.NewRecordBatch(schema, cols, rows)
	}
	for _, c := range cols {
		c.Release()
	}
	var buf bytes.Buffer
	w := ipc.NewWriter(&buf, ipc.WithSchema(schema), ipc.WithAllocator(Mem))
	_ = w.Write(rec)
	_ = w.Close()
	rec.Release()
	return buf.Bytes()
}

// ScriptSchema is the parameter schema of the scripted stream methods.
var ScriptSchema = arrow.NewSchema([]arrow.Field{{Name: "script", Type: arrow.BinaryTypes.String}}, nil)

// UnarySchema is the parameter schema of the scripted unary methods.
var UnarySchema = arrow.NewSchema([]arrow.Field{{Name: "script", Type: arrow.BinaryTypes.String}, {Name: "x", Type: arrow.PrimitiveTypes.Int64}}, nil)

// InitBody builds a stream-init (or unary, with x) request body.
func InitBody(method, script string, x *int64, extraMeta ...string) []byte {
	kv := append([]string{vgirpc.MetaMethod, method, vgirpc.MetaRequestVersion, vgirpc.ProtocolVersion}, extraMeta...)
	if x != nil {
		return Stream(UnarySchema, []arrow.Array{StrCol(script), I64Col(*x)}, 1, kv...)
	}
	return Stream(ScriptSchema, []arrow.Array{StrCol(script)}, 1, kv...)
}
