// Package pipex runs one stream call of the scripted service over a real pipe
// connection (Server.ServeWithContext on io.Pipe) and returns the client-visible
// view. It is the pipe side of the HTTP-equals-pipe comparison (C11).
package pipex

import (
	"context"
	"io"
	"time"

	"github.com/apache/arrow-go/v18/arrow"
	"github.com/apache/arrow-go/v18/arrow/array"
	"github.com/apache/arrow-go/v18/arrow/ipc"

	"github.com/Query-farm/vgi-rpc-go/vgirpc"

	"verif/harness/internal/httpx"
)

// View is what a client sees of one stream.
type View struct {
	Hdr  bool       `json:"hdr"`
	Vals []any      `json:"vals"`
	Logs [][]string `json:"logs"`
	Errs [][]string `json:"errs"`
	Meta  []string `json:"meta,omitempty"`  // user metadata keys on data batches
	Metas []int    `json:"metas,omitempty"` // per data batch: 1 when it carries the user.key annotation
	Note string     `json:"note,omitempty"`
}

// Input is one client input batch of the stream.
type Input struct {
	Schema *arrow.Schema
	Cols   []arrow.Array
	Rows   int64
	Meta   []string // key, value, ...
}

// RunStream runs method with the script over a pipe: writes the request and all
// inputs, closes, and decodes every response stream.
func RunStream(srv *vgirpc.Server, method, script string, inSchema *arrow.Schema, inputs []Input) View {
	v := View{Vals: []any{}, Logs: [][]string{}, Errs: [][]string{}, Metas: []int{}}
	sr, cw := io.Pipe()
	cr, sw := io.Pipe()
	done := make(chan struct{})
	go func() {
		defer func() {
			if r := recover(); r != nil {
				v.Note = "panic escaped Serve"
			}
			sw.Close()
			close(done)
		}()
		srv.ServeWithContext(context.Background(), sr, sw)
	}()
	go func() {
		cw.Write(httpx.InitBody(method, script, nil))
		w := ipc.NewWriter(cw, ipc.WithSchema(inSchema), ipc.WithAllocator(httpx.Mem))
		for _, in := range inputs {
			var rec arrow.RecordBatch
			if len(in.Meta) > 0 {
				var ks, vs []string
				for i := 0; i+1 < len(in.Meta); i += 2 {
					ks = append(ks, in.Meta[i])
					vs = append(vs, in.Meta[i+1])
				}
				rec = array.NewRecordBatchWithMetadata(in.Schema, in.Cols, in.Rows, arrow.NewMetadata(ks, vs))
			} else {
				rec = array.NewRecordBatch(in.Schema, in.Cols, in.Rows)
			}
			w.Write(rec)
			rec.Release()
			for _, c := range in.Cols {
				c.Release()
			}
		}
		w.Close()
		cw.Close()
	}()
	body := make(chan []byte, 1)
	go func() {
		b, _ := io.ReadAll(cr)
		body <- b
	}()
	var raw []byte
	select {
	case raw = <-body:
	case <-time.After(10 * time.Second):
		v.Note = "pipe run timed out"
		sr.Close()
		cr.Close()
		return v
	}
	<-done
	streams, derr := httpx.DecodeStreams(raw)
	if derr != "" {
		v.Note = derr
	}
	for _, st := range streams {
		for _, b := range st {
			switch b.Kind {
			case "hdr":
				v.Hdr = true
			case "log":
				v.Logs = append(v.Logs, []string{b.Level, b.Msg})
			case "exc":
				v.Errs = append(v.Errs, []string{b.EType, b.EKind})
			case "data":
				v.Vals = append(v.Vals, b.Val)
				if _, has := b.Meta["user.key"]; has {
					v.Metas = append(v.Metas, 1)
				} else {
					v.Metas = append(v.Metas, 0)
				}
			}
		}
	}
	return v
}
