// Package svc is the scripted service used by the pipe and HTTP drivers: real
// handlers registered through the real registration generics whose behaviour
// (logs, outcome, per-turn stream outcomes) is chosen by a JSON script carried
// in a parameter. Every piece of user code journals its invocation.
package svc

import (
	"context"
	"encoding/json"
	"errors"
	"fmt"
	"strings"
	"sync"

	"github.com/apache/arrow-go/v18/arrow"
	"github.com/apache/arrow-go/v18/arrow/array"

	"github.com/Query-farm/vgi-rpc-go/vgirpc"
)

// Script selects the behaviour of one call.
type Script struct {
	SID   string     `json:"sid"`
	Logs  [][]string `json:"logs,omitempty"` // [level, message]
	Out   string     `json:"out,omitempty"`  // unary outcome
	Init  string     `json:"init,omitempty"` // stream init outcome
	Hdr   bool       `json:"hdr,omitempty"`
	Turns []string   `json:"turns,omitempty"`
	Size  int        `json:"size,omitempty"` // rows per emitted batch (default 1)
	Meta  bool       `json:"meta,omitempty"`
	// PosVal makes exchange turns emit their 1-based turn number instead of input+1000.
	PosVal bool `json:"posval,omitempty"`
	// RecMeta journals the metadata keys the exchange handler sees as "meta:k1,k2".
	RecMeta bool `json:"recmeta,omitempty"`
	// Dual makes prod/exch methods return a state whose Go type implements BOTH ProducerState
	// and ExchangeState (one state struct shared by a producer and an exchange method): which
	// loop runs is decided by the registration, never by what the state happens to implement.
	Dual bool `json:"dual,omitempty"`
}

// Encode renders the script parameter.
func (s Script) Encode() string { b, _ := json.Marshal(s); return string(b) }

func decode(s string) (Script, error) {
	var sc Script
	err := json.Unmarshal([]byte(s), &sc)
	return sc, err
}

// ---- journal ----------------------------------------------------------------

var (
	jmu     sync.Mutex
	journal = map[string][]string{}
)

// Note appends an event to the journal of session sid.
func Note(sid, ev string) {
	jmu.Lock()
	journal[sid] = append(journal[sid], ev)
	jmu.Unlock()
}

// Take returns and clears the journal of sid.
func Take(sid string) []string {
	jmu.Lock()
	defer jmu.Unlock()
	j := journal[sid]
	delete(journal, sid)
	if j == nil {
		j = []string{}
	}
	return j
}

// Peek returns a copy of the journal of sid.
func Peek(sid string) []string {
	jmu.Lock()
	defer jmu.Unlock()
	return append([]string{}, journal[sid]...)
}

// ---- parameter / result types -------------------------------------------------

// UParams are the parameters of the unary methods.
type UParams struct {
	Script string `vgirpc:"script"`
	X      int64  `vgirpc:"x"`
}

// SParams are the parameters of the stream methods.
type SParams struct {
	Script string `vgirpc:"script"`
}

// Header is the stream header.
type Header struct {
	Tag string `arrow:"tag"`
}

// ArrowSchema implements vgirpc.ArrowSerializable.
func (Header) ArrowSchema() *arrow.Schema {
	return arrow.NewSchema([]arrow.Field{{Name: "tag", Type: arrow.BinaryTypes.String}}, nil)
}

// F is the function the unary valued method applies to x.
func F(x int64) int64 { return x*2 + 1 }

// OutSchema is the output schema of every scripted stream.
var OutSchema = arrow.NewSchema([]arrow.Field{{Name: "v", Type: arrow.PrimitiveTypes.Int64}}, nil)

// InSchema is the declared input schema of the exchange methods.
var InSchema = arrow.NewSchema([]arrow.Field{{Name: "a", Type: arrow.PrimitiveTypes.Int64}}, nil)

type customErr struct{ code int }

func (e customErr) Error() string { return fmt.Sprintf("custom failure %d", e.code) }

// Fail turns an outcome class into the error user code returns (or panics).
const upstreamTB = "Traceback (most recent call last):\n  upstream frame\nValueError: relayed"

func Fail(o string) error {
	switch o {
	case "rpcerr", "error", "errlogs":
		// the Traceback field is filled the way a relayed upstream error has it: it may reach the
		// wire only when debug errors are enabled
		return &vgirpc.RpcError{Type: "ValueError", Message: "scripted value error", Traceback: upstreamTB}
	case "rpcerrk":
		return &vgirpc.RpcError{Type: "PermissionError", Message: "scripted permission error", Kind: "custom_kind", Traceback: upstreamTB}
	case "plain":
		return errors.New("scripted plain failure")
	case "wrapped":
		return fmt.Errorf("scripted context: %w", errors.New("inner failure"))
	case "wraprpc":
		// an RpcError that is only reachable through Unwrap is "any other error" on the wire
		return fmt.Errorf("lookup failed: %w", &vgirpc.RpcError{Type: "ValueError", Message: "inner", Kind: "inner_kind"})
	case "wraptyped":
		return fmt.Errorf("open session: %w", &vgirpc.ServerDrainingError{})
	case "custom":
		return customErr{code: 7}
	case "panic":
		panic("scripted panic")
	case "panicerr":
		panic(errors.New("scripted panic error"))
	}
	return nil
}

func emitLogs(cc *vgirpc.CallContext, logs [][]string) {
	for _, l := range logs {
		if len(l) >= 2 {
			cc.ClientLog(vgirpc.LogLevel(l[0]), l[1])
		}
	}
}

// ---- unary ---------------------------------------------------------------------

func uVal(_ context.Context, cc *vgirpc.CallContext, p UParams) (int64, error) {
	sc, err := decode(p.Script)
	if err != nil {
		return 0, err
	}
	Note(sc.SID, "unary")
	emitLogs(cc, sc.Logs)
	if e := Fail(sc.Out); e != nil {
		return 0, e
	}
	return F(p.X), nil
}

func uVoid(_ context.Context, cc *vgirpc.CallContext, p UParams) error {
	sc, err := decode(p.Script)
	if err != nil {
		return err
	}
	Note(sc.SID, "unary")
	emitLogs(cc, sc.Logs)
	return Fail(sc.Out)
}

// ---- stream states ---------------------------------------------------------------

// Core is the serialisable part shared by the scripted states.
type Core struct {
	Script Script
	Pos    int
}

func (c *Core) outcome(defaultOut string) string {
	o := defaultOut
	if c.Pos < len(c.Script.Turns) {
		o = c.Script.Turns[c.Pos]
	}
	c.Pos++
	return o
}

func batchOf(v int64, rows int) arrow.RecordBatch {
	if rows <= 0 {
		rows = 1
	}
	// allocate from the framework's allocator: ownership passes to the collector, and the
	// framework must release it on every path (visible in LeakCheckSummary)
	b := array.NewInt64Builder(vgirpc.VerifAllocator())
	defer b.Release()
	for i := 0; i < rows; i++ {
		b.Append(v)
	}
	arr := b.NewArray()
	defer arr.Release()
	return array.NewRecordBatch(OutSchema, []arrow.Array{arr}, int64(rows))
}

func emptyI64() arrow.Array {
	b := array.NewInt64Builder(vgirpc.VerifAllocator())
	defer b.Release()
	return b.NewArray()
}

func (c *Core) turn(o string, val int64, out *vgirpc.OutputCollector) error {
	emit := func() error {
		if c.Script.Meta {
			return out.EmitWithMetadata(batchOf(val, c.Script.Size), map[string]string{"user.key": "user-value"})
		}
		return out.Emit(batchOf(val, c.Script.Size))
	}
	switch o {
	case "emit":
		return emit()
	case "emitlogs":
		out.ClientLog(vgirpc.LogInfo, "turn")
		return emit()
	case "emitmeta":
		return out.EmitWithMetadata(batchOf(val, c.Script.Size), map[string]string{"user.key": "user-value"})
	case "error":
		return Fail("error")
	case "errlogs":
		out.ClientLog(vgirpc.LogInfo, "turn")
		return Fail("error")
	case "panic":
		panic("scripted turn panic")
	case "emitpanic":
		if err := emit(); err != nil {
			return err
		}
		panic("scripted panic after emit")
	case "noemit":
		return nil
	case "emit0":
		// a genuine zero-row data batch (an empty partition)
		arr := emptyI64()
		defer arr.Release()
		return out.Emit(array.NewRecordBatch(OutSchema, []arrow.Array{arr}, 0))
	case "emit2":
		if err := emit(); err != nil {
			return err
		}
		b := batchOf(val, c.Script.Size)
		if err := out.Emit(b); err != nil {
			b.Release()
			return err
		}
		return nil
	case "finish":
		return out.Finish()
	case "emitfinish":
		if err := emit(); err != nil {
			return err
		}
		return out.Finish()
	}
	return fmt.Errorf("unknown scripted turn outcome %q", o)
}

// ProdState is the scripted producer state.
type ProdState struct{ Core }

// Produce implements vgirpc.ProducerState.
func (s *ProdState) Produce(_ context.Context, out *vgirpc.OutputCollector, _ *vgirpc.CallContext) error {
	Note(s.Script.SID, "produce")
	o := s.outcome("finish")
	return s.turn(o, int64(s.Pos), out)
}

// OnCancel implements vgirpc.StreamCanceller.
func (s *ProdState) OnCancel(context.Context, *vgirpc.CallContext) error {
	Note(s.Script.SID, "cancel")
	return nil
}

// ExchState is the scripted exchange state.
type ExchState struct{ Core }

// Exchange implements vgirpc.ExchangeState.
func (s *ExchState) Exchange(_ context.Context, in arrow.RecordBatch, out *vgirpc.OutputCollector, cc *vgirpc.CallContext) error {
	Note(s.Script.SID, "exchange")
	if s.Script.RecMeta && cc != nil {
		Note(s.Script.SID, "meta:"+strings.Join(cc.InputMetadata.Keys(), ","))
	}
	o := s.outcome("emit")
	var a int64
	if in.NumCols() > 0 && in.NumRows() > 0 {
		if col, ok := in.Column(0).(*array.Int64); ok {
			a = col.Value(0)
		} else {
			Note(s.Script.SID, fmt.Sprintf("input-type:%s", in.Column(0).DataType()))
		}
	}
	if s.Script.PosVal {
		return s.turn(o, int64(s.Pos), out)
	}
	return s.turn(o, a+1000, out)
}

// OnCancel implements vgirpc.StreamCanceller.
func (s *ExchState) OnCancel(context.Context, *vgirpc.CallContext) error {
	Note(s.Script.SID, "cancel")
	return nil
}

// ExchState2 is a second exchange state type (a different method's state).
type ExchState2 struct {
	Core
	Other string
}

// Exchange implements vgirpc.ExchangeState.
func (s *ExchState2) Exchange(_ context.Context, in arrow.RecordBatch, out *vgirpc.OutputCollector, _ *vgirpc.CallContext) error {
	Note(s.Script.SID, "exchange2")
	o := s.outcome("emit")
	var a int64
	if in.NumCols() > 0 && in.NumRows() > 0 {
		if col, ok := in.Column(0).(*array.Int64); ok {
			a = col.Value(0)
		}
	}
	if s.Script.PosVal {
		return s.turn(o, int64(s.Pos), out)
	}
	return s.turn(o, a+2000, out)
}

// DualState implements both stream interfaces and behaves as the scripted producer or
// exchange state, whichever method it was returned from.
type DualState struct{ Core }

// Produce implements vgirpc.ProducerState.
func (s *DualState) Produce(ctx context.Context, out *vgirpc.OutputCollector, cc *vgirpc.CallContext) error {
	p := &ProdState{Core: s.Core}
	err := p.Produce(ctx, out, cc)
	s.Core = p.Core
	return err
}

// Exchange implements vgirpc.ExchangeState.
func (s *DualState) Exchange(ctx context.Context, in arrow.RecordBatch, out *vgirpc.OutputCollector, cc *vgirpc.CallContext) error {
	e := &ExchState{Core: s.Core}
	err := e.Exchange(ctx, in, out, cc)
	s.Core = e.Core
	return err
}

// OnCancel implements vgirpc.StreamCanceller.
func (s *DualState) OnCancel(context.Context, *vgirpc.CallContext) error {
	Note(s.Script.SID, "cancel")
	return nil
}

func init() {
	vgirpc.RegisterStateType(&DualState{})
	vgirpc.RegisterStateType(&ProdState{})
	vgirpc.RegisterStateType(&ExchState{})
	vgirpc.RegisterStateType(&ExchState2{})
}

func streamInit(kind string) func(context.Context, *vgirpc.CallContext, SParams) (*vgirpc.StreamResult, error) {
	return func(_ context.Context, cc *vgirpc.CallContext, p SParams) (*vgirpc.StreamResult, error) {
		sc, err := decode(p.Script)
		if err != nil {
			return nil, err
		}
		Note(sc.SID, "init")
		emitLogs(cc, sc.Logs)
		switch sc.Init {
		case "error":
			return nil, Fail("rpcerr")
		case "panic":
			panic("scripted init panic")
		case "nil":
			return nil, nil
		}
		res := &vgirpc.StreamResult{OutputSchema: OutSchema}
		switch kind {
		case "prod":
			res.State = &ProdState{Core{Script: sc}}
			if sc.Dual {
				res.State = &DualState{Core{Script: sc}}
			}
		case "exch":
			res.State = &ExchState{Core{Script: sc}}
			if sc.Dual {
				res.State = &DualState{Core{Script: sc}}
			}
			res.InputSchema = InSchema
		case "exch2":
			res.State = &ExchState2{Core: Core{Script: sc}, Other: "o"}
			res.InputSchema = InSchema
		case "dynp":
			res.State = &ProdState{Core{Script: sc}}
		case "dynx":
			res.State = &ExchState{Core{Script: sc}}
			res.InputSchema = InSchema
		}
		if sc.Hdr {
			res.Header = Header{Tag: "hdr-" + sc.SID}
		}
		return res, nil
	}
}

// Register registers the scripted methods on s.
func Register(s *vgirpc.Server) {
	vgirpc.Unary(s, "u_val", uVal)
	vgirpc.UnaryVoid(s, "u_void", uVoid)
	hs := Header{}.ArrowSchema()
	vgirpc.Producer(s, "prod", OutSchema, streamInit("prod"))
	vgirpc.ProducerWithHeader(s, "prodh", OutSchema, hs, streamInit("prod"))
	vgirpc.Exchange(s, "exch", OutSchema, InSchema, streamInit("exch"))
	vgirpc.ExchangeWithHeader(s, "exchh", OutSchema, InSchema, hs, streamInit("exch"))
	vgirpc.Exchange(s, "exch2", OutSchema, InSchema, streamInit("exch2"))
	vgirpc.DynamicStreamWithHeader(s, "dynp", hs, streamInit("dynp"))
	vgirpc.DynamicStreamWithHeader(s, "dynx", hs, streamInit("dynx"))
}

// ---- journalling dispatch hook ----------------------------------------------------

// Hook is a journalling vgirpc.DispatchHook with scripted panics.
type Hook struct {
	Mode string // "ok" | "panic_start" | "panic_end"
	mu   sync.Mutex
	ev   [][]any
	rid  []string // request id of each event (parallel to ev)
	n    int
}

type hookTok struct{ n int }

// OnDispatchStart implements vgirpc.DispatchHook.
func (h *Hook) OnDispatchStart(ctx context.Context, info vgirpc.DispatchInfo) (context.Context, vgirpc.HookToken) {
	h.mu.Lock()
	h.n++
	n := h.n
	if h.Mode == "panic_start" {
		h.ev = append(h.ev, []any{"start_panicked", info.Method})
		h.rid = append(h.rid, info.RequestID)
		h.mu.Unlock()
		panic("scripted hook start panic")
	}
	h.ev = append(h.ev, []any{"start", info.Method})
	h.rid = append(h.rid, info.RequestID)
	h.mu.Unlock()
	return ctx, &hookTok{n: n}
}

// OnDispatchEnd implements vgirpc.DispatchHook.
func (h *Hook) OnDispatchEnd(_ context.Context, token vgirpc.HookToken, info vgirpc.DispatchInfo, _ *vgirpc.CallStatistics, err error) {
	h.mu.Lock()
	tok, _ := token.(*hookTok)
	same := tok != nil && tok.n == h.n
	e := []any{"end", info.Method, err != nil}
	if !same {
		e = append(e, "token-mismatch")
	}
	h.ev = append(h.ev, e)
	h.rid = append(h.rid, info.RequestID)
	h.mu.Unlock()
	if h.Mode == "panic_end" {
		panic("scripted hook end panic")
	}
}

// Take returns and clears the recorded hook events.
func (h *Hook) Take() [][]any {
	h.mu.Lock()
	defer h.mu.Unlock()
	e := h.ev
	h.ev, h.rid = nil, nil
	if e == nil {
		e = [][]any{}
	}
	return e
}

// TakeFor returns and removes the events of the dispatch with the given request id (a
// pipelining client observes call n while the server may already be running call n+1).
func (h *Hook) TakeFor(rid string) [][]any {
	h.mu.Lock()
	defer h.mu.Unlock()
	out := [][]any{}
	var kev [][]any
	var krid []string
	for i, e := range h.ev {
		if h.rid[i] == rid {
			out = append(out, e)
		} else {
			kev, krid = append(kev, e), append(krid, h.rid[i])
		}
	}
	h.ev, h.rid = kev, krid
	return out
}
