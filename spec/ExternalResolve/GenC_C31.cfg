SPECIFICATION Spec
CONSTANTS
    Mode = "classes"
    Depth = 0
    Parts = {"fetch"}
    MetaFrom = "batch"
    SizeClasses = {"at"}
    RowClasses = {1}
    MetaClasses = {"none"}
    Vias = {"api"}
    BodyKinds = {"data"}
    MaxBody = 1
    RedirectCfgs = {1, 3}
    RetryCfgs = {0, 1, 2, 7}
VIEW GenView
CHECK_DEADLOCK FALSE
