--------------------------- MODULE ExternalResolve ---------------------------
(***************************************************************************)
(* External-location batches of vgi-rpc-go (vgirpc/external.go).           *)
(*                                                                         *)
(* A large record batch is replaced on the wire by a zero-row *pointer*    *)
(* batch (custom metadata vgi_rpc.location [+ vgi_rpc.location.sha256]);   *)
(* the payload is an Arrow IPC stream uploaded to an ExternalStorage.  The *)
(* reader fetches the URL (validator, redirects, retries, size caps,       *)
(* optional zstd), verifies the checksum, parses the stream and picks the  *)
(* data batch.                                                             *)
(*                                                                         *)
(* The module has three parts that share nothing but the history:          *)
(*   "roundtrip"  externalizeBatchCtx, then ResolveExternalLocation on     *)
(*                what it returned, with the stored object optionally      *)
(*                damaged in between                              (C30)    *)
(*   "crafted"    ResolveExternalLocation on a pointer whose URL serves an *)
(*                arbitrary stream of data / log / exception / pointer /   *)
(*                zero-row batches, intact, tampered or truncated (C30)    *)
(*   "fetch"      the fetch protocol as a reactive system: the code calls  *)
(*                out to the URL validator and to the HTTP transport, the  *)
(*                environment answers one call-out per step       (C31)    *)
(*                                                                         *)
(* Actions are written the way the code decides (one action per branch of  *)
(* externalizeBatchCtx, one per call-out of the fetcher); the properties   *)
(* are stated declaratively at the end and model-checked against them.     *)
(***************************************************************************)
EXTENDS Integers, Sequences, FiniteSets, TLC, VerifEmit

CONSTANTS
    Mode,           \* "mc" | "edges" | "classes" | "tree"
    Depth,          \* tree mode: emit behaviours of this length (or terminal ones)
    Parts,          \* subset of {"roundtrip", "crafted", "fetch"}
    MetaFrom,       \* where the read loop looks for the log-level / location keys:
                    \*   "batch"  = the record batch's custom metadata (where the
                    \*              protocol writes them; what the property needs)
                    \*   "schema" = the stream schema's metadata
                    \*              (external.go:batchMetadata on the pinned tree)
    SizeClasses,    \* roundtrip: batch buffer size relative to the threshold
    RowClasses,     \* roundtrip: 0, 1, 2 (= many)
    MetaClasses,    \* roundtrip: custom metadata carried by the batch
    Vias,           \* roundtrip: how externalize is reached: "api" (MaybeExternalizeBatch),
                    \*   "unary_pipe" (server_unary.go), "unary_http" (http_unary.go),
                    \*   "exchange_http" (http_stream.go, token-bearing data batch)
    BodyKinds,      \* crafted: kinds of batches a fetched stream is built from
    MaxBody,        \* crafted: maximum number of batches in a fetched stream
    RedirectCfgs,   \* fetch: values of ExternalLocationConfig.MaxRedirects
    RetryCfgs       \* fetch: values of ExternalLocationConfig.MaxRetries

VARIABLES
    part,           \* "idle" | "roundtrip" | "crafted" | "fetch"
    w,              \* roundtrip state
    f,              \* fetch state
    hist            \* history / observation channel to the harness

vars == <<part, w, f, hist>>

Max(a, b) == IF a >= b THEN a ELSE b
Min(a, b) == IF a <= b THEN a ELSE b
Last == hist'[Len(hist')]

--------------------------------------------------------------------------
(* Emission                                                                *)
\* sig: class signature of the transition for "classes" mode (one shortest
\* witness per signature; needs -workers 1)
Record(step, terminal, sig) ==
    /\ hist' = Append(hist, step)
    /\ (Mode = "edges") => EmitTrace(hist')
    /\ (Mode = "classes") => EmitOncePerClass(ToString(sig), hist')
    /\ (Mode = "tree" /\ (terminal \/ Len(hist') = Depth)) => EmitTrace(hist')

Budget == (Mode = "tree") => Len(hist) < Depth

--------------------------------------------------------------------------
(* The batch-selection loop of ResolveExternalLocation.                    *)
(* A fetched stream is a sequence of batch kinds:                          *)
(*   "data"  rows > 0, no protocol keys                                    *)
(*   "log"   zero rows, vgi_rpc.log_level = INFO/...                       *)
(*   "exc"   zero rows, vgi_rpc.log_level = EXCEPTION                      *)
(*   "ptr"   zero rows, vgi_rpc.location (another pointer)                 *)
(*   "zrow"  zero rows, no protocol keys                                   *)
(* All protocol keys are per-batch custom metadata on the wire.            *)
SeenAsLog(b)     == MetaFrom = "batch" /\ b \in {"log", "exc"}
SeenAsPointer(b) == MetaFrom = "batch" /\ b = "ptr"

BatchName(i) == "batch" \o ToString(i)

\* for reader.Next() { skip logs; pointer => error; otherwise keep (last one wins) }
RECURSIVE Scan(_, _, _)
Scan(s, i, keep) ==
    IF i > Len(s)
    THEN IF keep = 0 THEN [res |-> "error", why |-> "nodata", idx |-> 0]
         ELSE [res |-> BatchName(keep), why |-> "", idx |-> keep]
    ELSE IF SeenAsLog(s[i]) THEN Scan(s, i + 1, keep)
    ELSE IF SeenAsPointer(s[i]) THEN [res |-> "error", why |-> "loop", idx |-> 0]
    ELSE Scan(s, i + 1, i)

--------------------------------------------------------------------------
(* Part "roundtrip": externalizeBatchCtx then ResolveExternalLocation.     *)
NoW == [stage |-> "none", via |-> "-", sz |-> "-", rows |-> 0, meta |-> "-", cfg |-> "-",
        handle |-> "-", obj |-> "-"]

\* What can reach externalizeBatchCtx through a dispatch path: a unary result is
\* one row without custom metadata; an exchange data batch always carries the
\* continuation token (merged in before externalizing).  Through dispatch the
\* threshold is only placed far below or far above the batch.
ViaOK(b) ==
    CASE b.via = "api" -> TRUE
      [] b.via \in {"unary_pipe", "unary_http"} -> b.rows = 1 /\ b.meta = "none" /\ b.sz \in {"below", "large"}
      [] b.via = "exchange_http" -> b.meta = "token" /\ b.sz \in {"below", "large"} /\ (b.rows = 0 => b.sz = "below")
      [] OTHER -> FALSE

ExtCfgs == {"nil", "nostorage", "plain", "zstd"}   \* config nil | Storage nil | storage | storage+zstd

ExtStep(name, b, c, handle, isPtr) ==
    /\ Budget
    /\ part = "idle" /\ "roundtrip" \in Parts
    /\ ViaOK(b)
    /\ part' = "roundtrip"
    /\ w' = [stage |-> "externalized", via |-> b.via, sz |-> b.sz, rows |-> b.rows, meta |-> b.meta, cfg |-> c,
             handle |-> handle, obj |-> IF isPtr THEN "clean" ELSE "none"]
    /\ UNCHANGED f
    /\ Record([a |-> name,
               args |-> [via |-> b.via, sz |-> b.sz, rows |-> b.rows, meta |-> b.meta, cfg |-> c],
               \* ptr: a pointer batch came back (and exactly one object was uploaded,
               \* zstd-coded iff compression is configured)
               exp |-> [ptr |-> isPtr]], FALSE, <<name, b, c>>)

\* if config == nil || config.Storage == nil { return batch }
Ext_NoStorage(b, c) == c \in {"nil", "nostorage"} /\ ExtStep("Ext_NoStorage", b, c, "same", FALSE)
\* if batch.NumRows() == 0 { return batch }
Ext_ZeroRows(b, c) == c \in {"plain", "zstd"} /\ b.rows = 0 /\ ExtStep("Ext_ZeroRows", b, c, "same", FALSE)
\* if size < config.threshold() { return batch }
Ext_BelowThreshold(b, c) ==
    c \in {"plain", "zstd"} /\ b.rows > 0 /\ b.sz = "below" /\ ExtStep("Ext_BelowThreshold", b, c, "same", FALSE)
\* serialize, sha256, optional zstd, Storage.Upload, MakeExternalLocationBatch
Ext_Upload(b, c) ==
    c \in {"plain", "zstd"} /\ b.rows > 0 /\ b.sz # "below" /\ ExtStep("Ext_Upload", b, c, "ptr", TRUE)

\* the environment damages the stored object: "flip" a byte, "trunc"ate, or
\* "replace" it by another well-formed stream of the same schema
Tamper(kind) ==
    /\ Budget
    /\ part = "roundtrip" /\ w.stage = "externalized" /\ w.handle = "ptr" /\ w.obj = "clean"
    /\ w' = [w EXCEPT !.obj = kind]
    /\ UNCHANGED <<part, f>>
    /\ Record([a |-> "Tamper", args |-> [kind |-> kind], exp |-> [damaged |-> TRUE]], FALSE, <<"Tamper", kind, w>>)

\* ResolveExternalLocation on whatever externalize returned.  The store answers
\* 200 with the object as it now is (Content-Encoding: zstd when it was uploaded
\* compressed; damage is applied to the decoded stream, so the fetch itself
\* succeeds and the checksum -- always present on pointers made by externalize,
\* taken over the stream before compression -- is what has to notice it).
ResolveOutcome(ws) ==
    IF ws.handle = "same"
    THEN [res |-> "orig", why |-> "passthrough"]            \* !IsExternalLocationBatch
    ELSE IF ws.obj # "clean"
    THEN [res |-> "error", why |-> "checksum"]              \* actualSHA != expectedSHA
    ELSE LET s == Scan(<<"data">>, 1, 0) IN
         [res |-> IF s.res = "batch1" THEN "orig" ELSE s.res, why |-> s.why]

Resolve ==
    /\ Budget
    /\ part = "roundtrip" /\ w.stage = "externalized"
    /\ w' = [w EXCEPT !.stage = "resolved"]
    /\ UNCHANGED <<part, f>>
    /\ LET o == ResolveOutcome(w) IN
       Record([a |-> "Resolve", args |-> [x |-> 0],
               exp |-> [res |-> o.res, why |-> o.why]], TRUE, <<"Resolve", w>>)

--------------------------------------------------------------------------
(* Part "crafted": a pointer whose URL serves an arbitrary stream.          *)
Bodies == UNION {[1..n -> BodyKinds] : n \in 0..MaxBody}

HasPointer(s) == \E i \in 1..Len(s) : s[i] = "ptr"
DataIdx(s) == {i \in 1..Len(s) : s[i] = "data"}
\* The property does not say whether a zero-row batch without protocol keys
\* counts as "the data batch", nor which of several data batches is returned.
Ambiguous(s) == (\E i \in 1..Len(s) : s[i] = "zrow") \/ Cardinality(DataIdx(s)) > 1
\* what C30 demands of ResolveExternalLocation for a stream served intact
Demanded(s) ==
    IF HasPointer(s) THEN "error"
    ELSE IF Ambiguous(s) THEN "unspecified"
    ELSE IF DataIdx(s) = {} THEN "error"
    ELSE BatchName(CHOOSE i \in DataIdx(s) : TRUE)

Specified(body, dmg, sha) ==
    \/ dmg # "none" /\ sha = "present"
    \/ dmg = "none" /\ Demanded(body) # "unspecified"

\* the code: fetch, checksum (only if the pointer carries one), parse, scan
CraftedOutcome(body, dmg, sha) ==
    IF dmg # "none" /\ sha = "present" THEN [res |-> "error", why |-> "checksum", idx |-> 0]
    ELSE IF dmg = "trunc"
         THEN IF body = <<>>
              THEN [res |-> "error", why |-> "parse", idx |-> 0]   \* cut inside the schema message
              \* cut inside the last batch message: reader.Next() turns false there and
              \* reader.Err() is never consulted, so the loop saw the batches before the cut
              ELSE Scan(SubSeq(body, 1, Len(body) - 1), 1, 0)
    ELSE Scan(body, 1, 0)

ResolveCrafted(body, dmg, sha, comp) ==
    /\ Budget
    /\ part = "idle" /\ "crafted" \in Parts
    /\ dmg = "tamper" => sha = "present"      \* without a checksum tampered bytes are just another stream
    /\ part' = "crafted"
    /\ UNCHANGED <<w, f>>
    /\ LET o == CraftedOutcome(body, dmg, sha)
           logret == o.idx # 0 /\ body[o.idx] \in {"log", "exc"}
           base == [res_impl |-> o.res, why |-> o.why]
           e == IF Specified(body, dmg, sha)
                THEN base @@ [res |-> o.res, log_returned |-> logret]
                ELSE IF dmg = "none" THEN base @@ [log_returned |-> logret]
                ELSE base
       IN Record([a |-> "ResolveCrafted",
                  args |-> [body |-> body, dmg |-> dmg, sha |-> sha, comp |-> comp],
                  exp |-> e], TRUE, <<"ResolveCrafted", body, dmg, sha, comp>>)

--------------------------------------------------------------------------
(* Part "fetch": ResolveExternalLocation / fetchExternalData as a reactive *)
(* system.  The code is always blocked in exactly one call-out (`pend`):   *)
(*   validate(h)  URLValidator(url of hop h)                               *)
(*   request(h)   RoundTrip(GET url of hop h), "fresh" (first request of   *)
(*                an attempt) or "redirect" (issued by the client's        *)
(*                redirect following)                                      *)
(*   return(r)    the call has returned                                    *)
(* and each step is the environment's answer to it.  URLs form one chain   *)
(* u0 -> u1 -> ...; the validator is a function of the URL, so a hop's     *)
(* verdict is fixed when the hop first appears (in a Location header).     *)

\* --- configuration as the code reads it
EffRetries(r)   == IF r <= 0 THEN 2 ELSE IF r > 2 THEN 2 ELSE r     \* maxRetries()
CodeAttempts(r) == EffRetries(r) + 1                                 \* maxAttempts
EffRedirects(m) == IF m <= 0 THEN 5 ELSE m                           \* maxRedirects()
\* --- configuration as the property reads it
ConfiguredAttempts(r)  == IF r <= 0 THEN 3 ELSE r + 1   \* first try + MaxRetries; zero value = documented default 2
AttemptCap             == 3
ConfiguredRedirects(m) == IF m <= 0 THEN 5 ELSE m       \* zero value = documented default 5

PValidate(h)   == [k |-> "validate", h |-> h, r |-> ""]
PRequest(h, r) == [k |-> "request", h |-> h, r |-> r]
PReturn(r)     == [k |-> "return", h |-> -1, r |-> r]

NoF == [mr |-> 0, rt |-> 0, verd |-> <<>>, att |-> 0, via |-> 0, pend |-> PReturn("-"),
        sentRej |-> FALSE, maxFollowed |-> 0, fresh |-> 0, over |-> FALSE, msg |-> {}]

\* URL components an error text may mention, and what redactExternalURL keeps
AllParts == {"scheme", "userinfo", "host", "path", "query"}
Secret   == {"userinfo", "query"}
Redact(P) == P \ Secret

\* the code hands a request for hop h to the transport
IssueRequest(g, h, kind) ==
    [g EXCEPT !.pend = PRequest(h, kind),
              !.att = IF kind = "fresh" THEN g.att + 1 ELSE g.att,
              !.via = IF kind = "fresh" THEN 1 ELSE g.via + 1,
              \* ledgers the property talks about
              !.fresh = IF kind = "fresh" THEN g.fresh + 1 ELSE g.fresh,
              !.maxFollowed = IF kind = "fresh" THEN g.maxFollowed ELSE Max(g.maxFollowed, g.via),
              !.sentRej = g.sentRej \/ g.verd[h + 1] = "rej"]

\* fetchExternalData returned an error: retry loop of ResolveExternalLocation
AttemptFailed(g, cls, parts) ==
    IF g.att < CodeAttempts(g.rt)
    THEN IssueRequest(g, 0, "fresh")                   \* time.Sleep(retryDelay); next attempt
    ELSE [g EXCEPT !.pend = PReturn("err:" \o cls), !.msg = parts]

\* what the harness can see after a step
Obs(g) ==
    [next |-> g.pend,
     sent_rejected |-> g.sentRej,
     redirects_over |-> g.maxFollowed > ConfiguredRedirects(g.mr),
     attempts_over |-> g.fresh > Min(ConfiguredAttempts(g.rt), AttemptCap),
     accepted_overcap |-> (g.pend = PReturn("ok") /\ g.over),
     leak |-> (g.pend.k = "return" /\ g.msg \cap Secret # {}),
     mentions_url |-> (g.pend.k = "return" /\ "host" \in g.msg)]

\* Class of a fetch transition: everything the code's decision can depend on
\* (configuration, attempt number, requests issued in this attempt, the call-out
\* it is blocked in and the verdict of that hop) plus the environment's answer.
\* The hop index and the length of the chain are abstracted away.
FClass(name, args) ==
    <<name, args, f.mr, f.rt, f.att, f.via, f.pend.k, f.pend.r,
      IF f.pend.h >= 0 THEN f.verd[f.pend.h + 1] ELSE "-">>

FStep(name, args, g) ==
    /\ f' = g
    /\ UNCHANGED <<part, w>>
    /\ Record([a |-> name, args |-> args, exp |-> Obs(g)], g.pend.k = "return", FClass(name, args))

\* ResolveExternalLocation(pointer, meta, config) is called; the first thing
\* the code does is validate the pointer's URL.
Call(mr, rt, v0) ==
    /\ Budget
    /\ part = "idle" /\ "fetch" \in Parts
    /\ part' = "fetch"
    /\ f' = [NoF EXCEPT !.mr = mr, !.rt = rt, !.verd = <<v0>>, !.pend = PValidate(0)]
    /\ UNCHANGED w
    /\ Record([a |-> "Call", args |-> [mr |-> mr, rt |-> rt, v0 |-> v0], exp |-> Obs(f')], FALSE,
              <<"Call", mr, rt, v0>>)

\* the validator answers (its verdict is a function of the URL).
\* flavour: the rejection error either is a fixed text or quotes the URL verbatim.
Validator_Answer(flavour) ==
    /\ Budget
    /\ part = "fetch" /\ f.pend.k = "validate"
    /\ LET h == f.pend.h
           v == f.verd[h + 1] IN
       /\ (v = "acc" \/ f.att > 0) => flavour = "fixed"     \* the text matters only for the first URL
       /\ FStep("Validator_Answer", [v |-> v, msg |-> flavour],
            IF f.att = 0
            THEN \* ResolveExternalLocation: config.URLValidator(locationURL)
                 IF v = "acc" THEN IssueRequest(f, 0, "fresh")
                 ELSE [f EXCEPT !.pend = PReturn("err:validator"),
                                \* strings.ReplaceAll(err.Error(), locationURL, redactExternalURL(locationURL))
                                !.msg = IF flavour = "url" THEN Redact(AllParts) ELSE {}]
            ELSE \* CheckRedirect: validator(req.URL.String())
                 IF v = "acc" THEN IssueRequest(f, h, "redirect")
                 ELSE AttemptFailed(f, "validator", {}))

\* the origin answers 3xx + Location.  tgt: "next" hop of the chain (its verdict v
\* is drawn when the hop is new), the "same" URL again, or back to the "start".
Origin_Redirect(tgt, v) ==
    /\ Budget
    /\ part = "fetch" /\ f.pend.k = "request"
    /\ LET h == f.pend.h
           t == CASE tgt = "next" -> h + 1 [] tgt = "same" -> h [] tgt = "start" -> 0
           known == t + 1 <= Len(f.verd)
           g == IF known THEN f ELSE [f EXCEPT !.verd = Append(f.verd, v)] IN
       /\ known => v = f.verd[t + 1]
       /\ tgt = "start" => h > 0
       /\ FStep("Origin_Redirect", [tgt |-> tgt, to |-> t, v |-> v],
            \* CheckRedirect: if len(via) > maxRedirects { error } -- before the validator
            IF g.via > EffRedirects(g.mr)
            THEN AttemptFailed(g, "redirect_limit", {})
            ELSE [g EXCEPT !.pend = PValidate(t)])

\* the origin answers with a final status other than 200 (5xx, 4xx, 3xx without Location)
Origin_Status ==
    /\ Budget
    /\ part = "fetch" /\ f.pend.k = "request"
    /\ FStep("Origin_Status", [x |-> 0], AttemptFailed(f, "status", Redact(AllParts)))

\* the transport fails (connection refused / reset)
Origin_ConnError ==
    /\ Budget
    /\ part = "fetch" /\ f.pend.k = "request"
    /\ FStep("Origin_ConnError", [x |-> 0], AttemptFailed(f, "get", Redact(AllParts)))

\* 200 with a body.  bsz / dsz: encoded body size and decoded size relative to
\* MaxFetchBytes / MaxDecompressedBytes (-1 = cap-1, 0 = cap, 1 = cap+1);
\* cl: Content-Length present; enc: "" | "zstd".
\* fr: how a zstd body is framed (RFC 8878 allows any number of concatenated
\* frames; dsz is the size of the WHOLE decoded payload):
\*   "one"          a single frame declaring its content size
\*   "multi_fcs"    several frames, each declaring its content size (every
\*                  single frame, the first in particular, is within the cap)
\*   "multi_nofcs"  several frames, none declaring a content size
\*   "multi_mixed"  the first frame declares its (within-cap) size, the rest do not
\* The cap is on the decoded payload, so the framing changes nothing in what
\* the code decides: decompressZstdCapped reads at most cap+1 bytes of output.
Framings == {"one", "multi_fcs", "multi_nofcs", "multi_mixed"}

Origin_200(enc, fr, cl, bsz, dsz) ==
    /\ Budget
    /\ part = "fetch" /\ f.pend.k = "request"
    /\ enc = "" => (dsz = bsz /\ fr = "one")   \* identity coding: decoded size = body size (no separate cap applies)
    /\ fr # "one" => bsz = -1                  \* multi-frame bodies vary only the decoded-size dimension
    /\ LET over == bsz = 1 \/ (enc = "zstd" /\ dsz = 1)
           g == [f EXCEPT !.over = over] IN
       FStep("Origin_200", [enc |-> enc, fr |-> fr, cl |-> cl, bsz |-> bsz, dsz |-> dsz],
            IF cl /\ bsz = 1 THEN AttemptFailed(g, "toolarge", {})          \* resp.ContentLength > maxFetchBytes
            ELSE IF bsz = 1 THEN AttemptFailed(g, "toolarge", {})           \* len(data) > maxFetchBytes after LimitReader(max+1)
            ELSE IF enc = "zstd" /\ dsz = 1
                 THEN AttemptFailed(g, "decompress", Redact(AllParts))      \* decompressZstdCapped, whatever the framing
            ELSE [g EXCEPT !.pend = PReturn("ok")])                          \* no checksum on this pointer; one data batch

\* 200 whose body breaks off with a read error
Origin_200_BodyError ==
    /\ Budget
    /\ part = "fetch" /\ f.pend.k = "request"
    /\ FStep("Origin_200_BodyError", [x |-> 0], AttemptFailed(f, "bodyread", Redact(AllParts)))

\* 200, Content-Encoding: zstd, body is not a zstd frame
Origin_200_BadEncoding ==
    /\ Budget
    /\ part = "fetch" /\ f.pend.k = "request"
    /\ FStep("Origin_200_BadEncoding", [x |-> 0], AttemptFailed(f, "decompress", Redact(AllParts)))

--------------------------------------------------------------------------
Init ==
    /\ part = "idle"
    /\ w = NoW
    /\ f = NoF
    /\ hist = << [a |-> "Init", args |-> [meta_from |-> MetaFrom], exp |-> [x |-> 0]] >>
    /\ (Mode = "classes") => TLCSet(1, {})

RoundtripBatches == [via : Vias, sz : SizeClasses, rows : RowClasses, meta : MetaClasses]

Next ==
    \/ \E b \in RoundtripBatches, c \in ExtCfgs :
          Ext_NoStorage(b, c) \/ Ext_ZeroRows(b, c) \/ Ext_BelowThreshold(b, c) \/ Ext_Upload(b, c)
    \/ \E k \in {"flip", "trunc", "replace"} : Tamper(k)
    \/ Resolve
    \/ \E body \in Bodies, dmg \in {"none", "tamper", "trunc"}, sha \in {"present", "absent"},
          comp \in {"", "zstd"} : ResolveCrafted(body, dmg, sha, comp)
    \/ \E mr \in RedirectCfgs, rt \in RetryCfgs, v0 \in {"acc", "rej"} : Call(mr, rt, v0)
    \/ \E fl \in {"fixed", "url"} : Validator_Answer(fl)
    \/ \E tgt \in {"next", "same", "start"}, v \in {"acc", "rej"} : Origin_Redirect(tgt, v)
    \/ Origin_Status
    \/ Origin_ConnError
    \/ \E enc \in {"", "zstd"}, fr \in Framings, cl \in BOOLEAN, bsz \in {-1, 0, 1}, dsz \in {-1, 0, 1} :
          Origin_200(enc, fr, cl, bsz, dsz)
    \/ Origin_200_BodyError
    \/ Origin_200_BadEncoding

Spec == Init /\ [][Next]_vars

View == <<part, w, f>>
\* generation view: the ledgers (sentRej, maxFollowed, fresh, over, msg) are
\* functions of the history and influence no decision of the code
GenView == <<part, w, [f EXCEPT !.sentRej = FALSE, !.maxFollowed = 0, !.fresh = 0, !.over = FALSE, !.msg = {}]>>

--------------------------------------------------------------------------
(* C30 -- Externalized batches resolve to exactly the uploaded data.        *)
(* These read the observations in hist, so they are action properties.      *)

\* A batch externalized (with or without compression) and then resolved yields
\* the original batch (schema, values, custom metadata) -- whether it travelled
\* as a pointer or inline -- unless the download no longer matches its checksum,
\* which must be refused.
C30_RoundTrip ==
    [][ Last.a = "Resolve" =>
          IF w.obj \in {"none", "clean"} THEN Last.exp.res = "orig" ELSE Last.exp.res = "error" ]_vars

\* Resolution returns only the uploaded data batch: a stream with another
\* pointer or without a data batch is an error, a log batch is never returned,
\* and a checksum mismatch is refused.
C30_Crafted ==
    [][ Last.a = "ResolveCrafted" =>
          LET a == Last.args
              e == Last.exp IN
          /\ (a.dmg # "none" /\ a.sha = "present") => e.res = "error"
          /\ a.dmg = "none" =>
                /\ e.log_returned = FALSE
                /\ HasPointer(a.body) => e.res = "error"
                /\ (~HasPointer(a.body) /\ ~Ambiguous(a.body) /\ DataIdx(a.body) = {}) => e.res = "error"
                /\ (~HasPointer(a.body) /\ ~Ambiguous(a.body) /\ DataIdx(a.body) # {}) =>
                       \E i \in DataIdx(a.body) : e.res = BatchName(i) ]_vars

--------------------------------------------------------------------------
(* C31 -- External fetches obey the URL validator and size limits on every  *)
(* hop.  These read only viewed state, so they are invariants.              *)
NeverContactsRejected == ~f.sentRej
RedirectsBounded      == f.maxFollowed <= ConfiguredRedirects(f.mr)
AttemptsBounded       == f.fresh <= Min(ConfiguredAttempts(f.rt), AttemptCap)
OverCapRefused        == f.pend = PReturn("ok") => ~f.over
NoSecretInErrors      == f.pend.k = "return" => f.msg \cap Secret = {}
\* structural sanity of the model itself
FetchTypeOK ==
    /\ f.pend.k \in {"validate", "request", "return"}
    /\ f.pend.k = "request" => (f.pend.h + 1 <= Len(f.verd) /\ f.via >= 1)
    /\ \A i \in 1..Len(f.verd) - 1 : f.verd[i] = "acc"   \* only the frontier hop can be rejected
=============================================================================
