SPECIFICATION Spec
CONSTANTS
    Mode = "tree"
    Depth = 6
    Parts = {"fetch"}
    MetaFrom = "batch"
    SizeClasses = {"at"}
    RowClasses = {1}
    MetaClasses = {"none"}
    Vias = {"api"}
    BodyKinds = {"data"}
    MaxBody = 1
    RedirectCfgs = {1, 3}
    RetryCfgs = {0, 1, 2, 7}
CHECK_DEADLOCK FALSE
