SPECIFICATION Spec
CONSTANTS
    Mode = "edges"
    Depth = 0
    Parts = {"roundtrip", "crafted"}
    MetaFrom = "batch"
    SizeClasses = {"below", "at", "above", "large"}
    RowClasses = {0, 1, 2}
    MetaClasses = {"none", "user", "token"}
    Vias = {"api", "unary_pipe", "unary_http", "exchange_http"}
    BodyKinds = {"data", "log", "exc", "ptr", "zrow"}
    MaxBody = 3
    RedirectCfgs = {1}
    RetryCfgs = {0}
VIEW View
CHECK_DEADLOCK FALSE
