------------------------- MODULE Trace_AsyncEmitter -------------------------
(***************************************************************************)
(* Trace validation (binding V): executions of the real asyncEmitter under *)
(* free-running producers, recorded at the verif hooks, must be behaviours *)
(* of AsyncEmitter.  Two logs per trace: P (enqueue/close events, totally  *)
(* ordered because the hook runs under a.mu) and W (records handed to the  *)
(* write callback, ordered by the single writer goroutine).  Their         *)
(* interleaving and the writer's takes are NOT logged; TLC infers them.    *)
(***************************************************************************)
EXTENDS AsyncEmitter, Json

VARIABLES ti, lp, lw
tvars == <<vars, ti, lp, lw>>

Traces == JsonDeserialize("trace.json").traces
NT == Len(Traces)
P == Traces[ti].p
W == Traces[ti].w

TInit == Init /\ ti = 1 /\ lp = 1 /\ lw = 1 /\ TLCSet(2, 0)

HaveP == ti <= NT /\ lp <= Len(P)
HaveW == ti <= NT /\ lw <= Len(W)

T_Enqueue ==
    /\ HaveP /\ P[lp].ev = "enqueue"
    /\ P[lp].id = nextId
    /\ \/ P[lp].outcome = "closed" /\ Enqueue_Closed
       \/ P[lp].outcome = "sent" /\ Enqueue_Sent /\ P[lp].stamp = dropped
       \/ P[lp].outcome = "full" /\ Enqueue_Full
    /\ lp' = lp + 1 /\ UNCHANGED <<ti, lw>>

T_Close ==
    /\ HaveP /\ P[lp].ev = "close"
    /\ CloseBegin
    /\ lp' = lp + 1 /\ UNCHANGED <<ti, lw>>

T_Take == ti <= NT /\ WriterTake /\ UNCHANGED <<ti, lp, lw>>

T_Write ==
    /\ HaveW
    /\ inWriter # <<>>
    /\ inWriter[1].id = W[lw].id
    /\ inWriter[1].stamp = W[lw].dropped_records
    /\ WriterWrite
    /\ lw' = lw + 1 /\ UNCHANGED <<ti, lp>>

\* end of one recorded execution: both logs consumed; if close() returned in the
\* execution then the model must allow it to return here (everything drained)
T_Finish ==
    /\ ti <= NT /\ lp > Len(P) /\ lw > Len(W)
    /\ Traces[ti].close_returned => (closed /\ queue = <<>> /\ inWriter = <<>>)
    /\ ti' = ti + 1 /\ lp' = 1 /\ lw' = 1
    /\ queue' = <<>> /\ inWriter' = <<>> /\ dropped' = 0 /\ closed' = FALSE
    /\ closeDone' = FALSE /\ written' = <<>> /\ nextId' = 1 /\ accepted' = 0
    /\ UNCHANGED hist

TNext == T_Enqueue \/ T_Close \/ T_Take \/ T_Write \/ T_Finish
TraceSpec == TInit /\ [][TNext]_tvars

\* acceptance: a state in which every recorded execution has been explained
Accepted == ti > NT
AcceptAndStop == Accepted => /\ PrintT(<<"TRACE-ACCEPTED", NT>>)
                             /\ TLCSet("exit", TRUE)
\* high-water mark for diagnosing a rejection (needs -workers 1)
Progress == ti * 1000000 + lp + lw
HighWater ==
    /\ AcceptAndStop
    /\ IF Progress > TLCGet(2) THEN TLCSet(2, Progress) ELSE TRUE
ReportHighWater == PrintT(<<"TRACE-HIGHWATER", TLCGet(2)>>)
=============================================================================
