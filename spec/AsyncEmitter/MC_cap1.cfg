SPECIFICATION FairSpec
CONSTANTS
    Cap = 1
    NRec = 6
    Mode = "mc"
    Depth = 0
    Eager = FALSE
VIEW View
INVARIANTS Conservation StampsExact NothingLostSilently EnqueueNeverBlocks
PROPERTIES Drains
CHECK_DEADLOCK FALSE
