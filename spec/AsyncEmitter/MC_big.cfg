SPECIFICATION FairSpec
CONSTANTS
    Cap = 3
    NRec = 9
    Mode = "mc"
    Depth = 0
    Eager = FALSE
VIEW View
INVARIANTS Conservation StampsExact NothingLostSilently EnqueueNeverBlocks
PROPERTIES Drains
CHECK_DEADLOCK FALSE
