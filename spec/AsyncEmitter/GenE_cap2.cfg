SPECIFICATION Spec
CONSTANTS
    Cap = 2
    NRec = 7
    Mode = "edges"
    Depth = 0
    Eager = TRUE
VIEW View
CHECK_DEADLOCK FALSE
