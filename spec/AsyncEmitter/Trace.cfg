SPECIFICATION TraceSpec
CONSTANTS
    Cap = 2
    NRec = 100000
    Mode = "trace"
    Depth = 0
    Eager = FALSE
CONSTRAINT HighWater
INVARIANTS Conservation StampsExact NothingLostSilently
POSTCONDITION ReportHighWater
CHECK_DEADLOCK FALSE
