---------------------------- MODULE AsyncEmitter ----------------------------
(***************************************************************************)
(* The access-log async emitter of vgi-rpc-go (vgirpc/accesslog_async.go). *)
(*                                                                         *)
(* enqueue() holds a.mu across "closed? / stamp dropped_records / non-     *)
(* blocking send / undo", so each outcome of enqueue is ONE action.  The   *)
(* writer goroutine is two steps: it takes a record out of the channel     *)
(* (WriterTake, unobservable — inside `for record := range a.ch`) and it   *)
(* runs the write callback (WriterWrite).  close() is CloseBegin (under    *)
(* a.mu: closed = true, close(ch)) and CloseDone (<-a.done).               *)
(*                                                                         *)
(* Records are identified by the order in which enqueue took a.mu          *)
(* (ids 1, 2, ...).  C39 (async half): enqueue never blocks; every record  *)
(* enqueued before close is written, or counted in the dropped_records of  *)
(* the next record that is written, except a trailing run of drops.        *)
(***************************************************************************)
EXTENDS Naturals, Sequences, FiniteSets, TLC, VerifEmit

CONSTANTS
    Cap,      \* channel capacity (queue size)
    NRec,     \* number of enqueue calls in a behaviour
    Mode,     \* "mc" | "edges" | "tree"
    Depth,
    Eager     \* TRUE: generation mode, the writer takes as soon as it can
              \* (what a gated replay can realise deterministically)

VARIABLES
    queue,     \* records buffered in the channel: sequence of [id, stamp]
    inWriter,  \* <<>> or <<r>>: record the writer goroutine holds inside write()
    dropped,   \* a.dropped
    closed,    \* a.closed
    closeDone, \* close() has returned
    written,   \* sequence of [id, stamp] passed to write(), in order
    nextId,    \* id the next enqueue call gets
    accepted,  \* number of enqueue calls that found the emitter open
    hist

vars == <<queue, inWriter, dropped, closed, closeDone, written, nextId, accepted, hist>>

Rec(i, s) == [id |-> i, stamp |-> s]

Record(step) ==
    /\ hist' = IF Mode = "trace" THEN hist ELSE Append(hist, step)
    /\ (Mode = "edges") => EmitTrace(hist')
    /\ (Mode = "tree" /\ Len(hist') = Depth) => EmitTrace(hist')

Budget == (Mode = "tree") => Len(hist) < Depth

TakeEnabled == inWriter = <<>> /\ queue # <<>>
\* in Eager mode every other action waits for the writer to have taken
Settled == Eager => ~TakeEnabled

--------------------------------------------------------------------------
Enqueue_Closed ==
    /\ Budget /\ Settled /\ nextId <= NRec /\ closed
    /\ nextId' = nextId + 1
    /\ UNCHANGED <<queue, inWriter, dropped, closed, closeDone, written, accepted>>
    /\ Record([a |-> "Enqueue", args |-> [id |-> nextId],
               exp |-> [outcome |-> "closed", stamp |-> 0, blocked |-> FALSE]])

Enqueue_Sent ==
    /\ Budget /\ Settled /\ nextId <= NRec /\ ~closed /\ Len(queue) < Cap
    /\ queue' = Append(queue, Rec(nextId, dropped))
    /\ dropped' = 0
    /\ nextId' = nextId + 1
    /\ accepted' = accepted + 1
    /\ UNCHANGED <<inWriter, closed, closeDone, written>>
    /\ Record([a |-> "Enqueue", args |-> [id |-> nextId],
               exp |-> [outcome |-> "sent", stamp |-> dropped, blocked |-> FALSE]])

Enqueue_Full ==
    /\ Budget /\ Settled /\ nextId <= NRec /\ ~closed /\ Len(queue) >= Cap
    /\ dropped' = dropped + 1
    /\ nextId' = nextId + 1
    /\ accepted' = accepted + 1
    /\ UNCHANGED <<queue, inWriter, closed, closeDone, written>>
    /\ Record([a |-> "Enqueue", args |-> [id |-> nextId],
               exp |-> [outcome |-> "full", stamp |-> 0, blocked |-> FALSE]])

WriterTake ==
    /\ Budget /\ TakeEnabled
    /\ inWriter' = <<Head(queue)>>
    /\ queue' = Tail(queue)
    /\ UNCHANGED <<dropped, closed, closeDone, written, nextId, accepted>>
    /\ Record([a |-> "WriterTake", args |-> [x |-> 0],
               exp |-> [holding |-> Head(queue).id]])

WriterWrite ==
    /\ Budget /\ Settled /\ inWriter # <<>>
    /\ written' = Append(written, inWriter[1])
    /\ inWriter' = <<>>
    /\ UNCHANGED <<queue, dropped, closed, closeDone, nextId, accepted>>
    /\ Record([a |-> "WriterWrite", args |-> [x |-> 0],
               exp |-> [id |-> inWriter[1].id, dropped_records |-> inWriter[1].stamp]])

CloseBegin ==
    /\ Budget /\ Settled /\ ~closed
    /\ closed' = TRUE
    /\ UNCHANGED <<queue, inWriter, dropped, closeDone, written, nextId, accepted>>
    /\ Record([a |-> "CloseBegin", args |-> [x |-> 0], exp |-> [started |-> TRUE]])

\* close() returns only after the writer drained everything that was queued
CloseDone ==
    /\ Budget /\ Settled /\ closed /\ ~closeDone /\ queue = <<>> /\ inWriter = <<>>
    /\ closeDone' = TRUE
    /\ UNCHANGED <<queue, inWriter, dropped, closed, written, nextId, accepted>>
    /\ Record([a |-> "CloseDone", args |-> [x |-> 0],
               exp |-> [returned |-> TRUE, written |-> [i \in 1..Len(written) |-> written[i].id]]])

Init ==
    /\ queue = <<>> /\ inWriter = <<>> /\ dropped = 0 /\ closed = FALSE /\ closeDone = FALSE
    /\ written = <<>> /\ nextId = 1 /\ accepted = 0
    /\ hist = << [a |-> "Init", args |-> [Cap |-> Cap, NRec |-> NRec], exp |-> [ok |-> TRUE]] >>

Next == Enqueue_Closed \/ Enqueue_Sent \/ Enqueue_Full \/ WriterTake \/ WriterWrite
        \/ CloseBegin \/ CloseDone

Spec == Init /\ [][Next]_vars
FairSpec == Spec /\ WF_vars(WriterTake) /\ WF_vars(WriterWrite) /\ WF_vars(CloseDone)

--------------------------------------------------------------------------
(* C39, async half.                                                        *)
SumStamps(s) ==
    LET RECURSIVE F(_)
        F(i) == IF i = 0 THEN 0 ELSE s[i].stamp + F(i-1)
    IN F(Len(s))

InFlight == queue \o inWriter
\* conservation: every accepted record is in flight, written, reported by a stamp,
\* or still in the dropped counter waiting to ride the next record through
Conservation ==
    accepted = Len(InFlight) + Len(written) + SumStamps(InFlight) + SumStamps(written) + dropped

\* ids leave in enqueue order, and each stamp counts exactly the records dropped since
\* the previous record that got through
AllOut == written \o inWriter \o queue
StampsExact ==
    \A i \in 1..Len(AllOut) :
        LET prev == IF i = 1 THEN 0 ELSE AllOut[i-1].id
        IN /\ AllOut[i].id > prev
           /\ AllOut[i].stamp = AllOut[i].id - prev - 1

\* nothing is lost silently once close() has returned: written + reported + trailing run
NothingLostSilently ==
    closeDone => /\ queue = <<>> /\ inWriter = <<>>
                 /\ accepted = Len(written) + SumStamps(written) + dropped

\* enqueue never blocks: whatever the writer is doing, some Enqueue outcome is enabled
EnqueueNeverBlocks ==
    (nextId <= NRec /\ ((Mode = "tree") => Len(hist) < Depth) /\ Settled) =>
        ENABLED (Enqueue_Closed \/ Enqueue_Sent \/ Enqueue_Full)

\* every record sent is eventually written once close was requested
Drains == closed ~> closeDone

View == <<queue, inWriter, dropped, closed, closeDone, written, nextId, accepted>>
=============================================================================
