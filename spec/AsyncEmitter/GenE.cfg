SPECIFICATION Spec
CONSTANTS
    Cap = 1
    NRec = 6
    Mode = "edges"
    Depth = 0
    Eager = TRUE
VIEW View
CHECK_DEADLOCK FALSE
