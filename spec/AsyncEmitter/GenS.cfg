SPECIFICATION Spec
CONSTANTS
    Cap = 3
    NRec = 30
    Mode = "tree"
    Depth = 30
    Eager = TRUE
CHECK_DEADLOCK FALSE
