SPECIFICATION Spec
CONSTANTS
    Callers = {"other", "a", "b"}
    Creds = {"opaque", "jws3", "cl_over_small"}
    Outcomes = {"hit60", "miss"}
    AuthFn = {TRUE}
    RateCfg = 2
    DefTTLCfg = 120
    W = 2
    MaxT = 4
    Ticks = {1}
    Mode = "mc"
    Depth = 0
VIEW ViewMC
INVARIANTS TypeOK AdmittedPerWindow SlidingBound
PROPERTIES ResolverOnlyWhen RateObserved Refused403 RejectedUnread Unresolvable404 DisabledResolvesNothing NoLeak ResolvesWhenEntitled
CHECK_DEADLOCK FALSE
