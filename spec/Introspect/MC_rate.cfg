SPECIFICATION Spec
CONSTANTS
    Callers = {"rej401", "anon", "other", "a", "b"}
    Creds = {"opaque", "jws3", "not_json", "cl_over_small"}
    Outcomes = {"hit60", "miss", "unavail"}
    AuthFn = {TRUE}
    RateCfg = 2
    DefTTLCfg = 120
    W = 2
    MaxT = 6
    Mode = "mc"
    Depth = 0
VIEW ViewMC
INVARIANTS TypeOK AdmittedPerWindow SlidingBound
PROPERTIES ResolverOnlyWhen RateObserved Refused403 RejectedUnread Unresolvable404 DisabledResolvesNothing NoLeak ResolvesWhenEntitled
CHECK_DEADLOCK FALSE
