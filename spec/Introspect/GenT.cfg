SPECIFICATION Spec
CONSTANTS
    Callers = {"other", "a"}
    Creds = {"opaque", "jws3"}
    Outcomes = {"hit60", "miss"}
    AuthFn = {TRUE}
    RateCfg = 1
    DefTTLCfg = 0
    W = 1
    MaxT = 3
    Ticks = {1}
    Mode = "tree"
    Depth = 6
CHECK_DEADLOCK FALSE
