------------------------------ MODULE Introspect ------------------------------
(***************************************************************************)
(* Token introspection of vgi-rpc-go (vgirpc/introspect_token.go):         *)
(*   POST {prefix}/__introspect_token__   ->  handleIntrospectToken        *)
(*                                                                         *)
(* One action per exit of the handler; the exits are guarded so that they  *)
(* are taken in the order the code checks (each guard negates the earlier  *)
(* ones; guards are written before effects only because TLC evaluates      *)
(* conjuncts left to right):                                               *)
(*   NotEnabled_404 -> AuthReject -> NotIntrospector_403 ->                *)
(*   RateLimited_429 -> ContentLengthOverCap_404 -> BodyReadFails_404 ->   *)
(*   BodyOverCap_404 -> BadJSON_404 -> NoToken_404 -> TokenOversized_404   *)
(*   -> JWS_404 -> Resolver_503 | Resolver_404 | Resolver_200              *)
(* plus Enable / EnableRejected (EnableTokenIntrospection) and Tick.       *)
(*                                                                         *)
(* The limiter is the code's: ONE fixed window for all callers, anchored   *)
(* at the first request that reaches it after the previous window ran out  *)
(* (now - windowStart >= window clears the whole map), one counter per     *)
(* caller, and it is charged BEFORE the body is looked at.                 *)
(*                                                                         *)
(* Time is in ticks; the code's window is fixed at 1 s, so a tick is       *)
(* 1000/W ms of (virtual) time in the harness.                             *)
(*                                                                         *)
(* Callers, request bodies and resolver outcomes are *classes*, described  *)
(* by the attribute tables below; the harness builds concrete principals,  *)
(* bodies and credentials from the attributes.  C26 is stated at the end,  *)
(* declaratively, over the attributes -- not over the order of checks.     *)
(***************************************************************************)
EXTENDS Integers, Sequences, FiniteSets, TLC, VerifEmit

CONSTANTS
    Callers,     \* caller classes offered            (subset of DOMAIN CallerAttr)
    Creds,       \* request body / credential classes (subset of DOMAIN CredAttr)
    Outcomes,    \* resolver outcomes                 (subset of DOMAIN OutcomeAttr)
    AuthFn,      \* subset of BOOLEAN: is an authenticate callback installed?
    RateCfg,     \* TokenIntrospectionConfig.RateLimitPerSecond (0 = default 20)
    DefTTLCfg,   \* TokenIntrospectionConfig.DefaultTTLSeconds  (0 = default 300)
    W,           \* ticks per limiter window
    MaxT,        \* last tick
    Ticks,       \* lengths (in ticks) the clock may advance by in one Tick step
    Mode,        \* "mc" | "edges" | "tree"
    Depth        \* tree mode: emit behaviours of exactly this length

VARIABLES
    enabled,     \* h.introspect # nil
    authfn,      \* h.authenticateFunc # nil (fixed per behaviour)
    now,         \* clock, in ticks
    lim,         \* the limiter: [start, cnt]  (start = NoWin: zero windowStart)
    reach,       \* ghost: ticks at which some request reached the limiter
    adm,         \* ghost: adm[p][t] = requests of principal p admitted at tick t
    ran,         \* ghost: ran[p][t] = introspections (requests of principal p that
                 \*        reached the resolver, whatever it answered) at tick t
    win,         \* ghost: win[p] = what became of the requests of p the limiter admitted
                 \*        in ITS current window, in order: the resolver outcome handed
                 \*        out ("hit60", "miss", "unavail", ...) or "pre" (screened before
                 \*        the resolver).  Never read by an action; generation VIEWs that
                 \*        show it (ViewMix) make TLC follow every request class from every
                 \*        ORDER of outcomes within a window, not only from every count.
    hist         \* history / observation channel to the harness

vars == <<enabled, authfn, now, lim, reach, adm, ran, win, hist>>

EffRate == IF RateCfg <= 0 THEN 20 ELSE RateCfg
EffTTL  == IF DefTTLCfg <= 0 THEN 300 ELSE DefTTLCfg
Allow   == {"a", "b"}          \* the configured Principals (besides a filtered "")
NoWin   == -1

--------------------------------------------------------------------------
(* Caller classes.  auth: what the authenticate callback does with the     *)
(* request; authd / prin: the AuthContext it returns when it passes.       *)
(* prin: "none" (empty), "blank" (Authenticated but empty principal),      *)
(* "other" (not on the list), "a_variant" (case / whitespace / prefix      *)
(* variant of a's principal), "a", "b".                                    *)
CA(auth, authd, prin) == [auth |-> auth, authd |-> authd, prin |-> prin]
CallerAttr ==
  [ rej401     |-> CA("reject401", FALSE, "none"),   \* *AuthFailure / ValueError / PermissionError
    rej503     |-> CA("reject503", FALSE, "none"),   \* *AuthUnavailableError (possibly wrapped)
    rej500     |-> CA("reject500", FALSE, "none"),   \* any other error
    anon       |-> CA("pass", FALSE, "none"),        \* Anonymous()
    unauth_a   |-> CA("pass", FALSE, "a"),           \* names a but Authenticated = false
    auth_blank |-> CA("pass", TRUE,  "blank"),       \* authenticated, empty principal
    other      |-> CA("pass", TRUE,  "other"),
    a_variant  |-> CA("pass", TRUE,  "a_variant"),
    a          |-> CA("pass", TRUE,  "a"),
    b          |-> CA("pass", TRUE,  "b") ]

\* status the authenticate() helper answers a rejection with (C23; not judged here)
AuthStatus(kind) == CASE kind = "reject401" -> 401
                      [] kind = "reject503" -> 503
                      [] kind = "reject500" -> 500

(* Request body classes.                                                   *)
(*  cl   declared Content-Length: "exact" | "unknown" (-1) | "over" (says  *)
(*       cap+1.., body is small) | "cap" (says exactly cap, body small) |  *)
(*       "under" (says less than is sent)                                  *)
(*  size bytes actually delivered by the reader: "small" | "at" (= cap) |  *)
(*       "over" (> cap) | "err" (reader fails part-way)                    *)
(*  doc  top-level JSON document: "obj" | "garbage" | "empty" | "array" |  *)
(*       "null" | "trailing" (object followed by junk)                     *)
(*  fld  how the token member is written in an "obj":                      *)
(*       "plain" | "absent" | "null" | "nested" | "number" | "emptystr" |  *)
(*       "upper" (key TOKEN) | "escaped" (dots as backslash-u002e) |                *)
(*       "dup" (two token members; the LAST one is the one in segs)        *)
(*  segs the decoded token as dot-separated segments:                      *)
(*       "u" non-empty base64url, "e" empty, "p" base64url with '=' pad,   *)
(*       "s" has a '+' or '/', "n" base64url followed by a newline,        *)
(*       "x" other printable characters                                    *)
(*  len  decoded token length: "normal" | "at" (4096 B) | "over" (4097 B) |*)
(*       "mb_over" (<= 4096 runes but > 4096 bytes)                        *)
K(cl, size, doc, fld, segs, len) ==
    [cl |-> cl, size |-> size, doc |-> doc, fld |-> fld, segs |-> segs, len |-> len]
T(fld, segs, len) == K("exact", "small", "obj", fld, segs, len)
CredAttr ==
  [ opaque          |-> T("plain", <<"u">>, "normal"),
    opaque_x        |-> T("plain", <<"x">>, "normal"),
    opaque_4096     |-> T("plain", <<"u">>, "at"),
    opaque_4097     |-> T("plain", <<"u">>, "over"),
    opaque_mb       |-> T("plain", <<"x">>, "mb_over"),
    jws3            |-> T("plain", <<"u","u","u">>, "normal"),
    jws_sig_empty   |-> T("plain", <<"u","u","e">>, "normal"),
    jws_4096        |-> T("plain", <<"u","u","u">>, "at"),
    jws_4097        |-> T("plain", <<"u","u","u">>, "over"),
    jws_escaped     |-> T("escaped", <<"u","u","u">>, "normal"),
    jws_upperkey    |-> T("upper", <<"u","u","u">>, "normal"),
    seg2            |-> T("plain", <<"u","u">>, "normal"),
    seg4            |-> T("plain", <<"u","u","u","u">>, "normal"),
    seg5            |-> T("plain", <<"u","u","u","u","u">>, "normal"),
    seg_e1          |-> T("plain", <<"e","u","u">>, "normal"),
    seg_e2          |-> T("plain", <<"u","e","u">>, "normal"),
    seg_pad         |-> T("plain", <<"u","u","p">>, "normal"),
    seg_std         |-> T("plain", <<"s","u","u">>, "normal"),
    seg_nl          |-> T("plain", <<"u","u","n">>, "normal"),
    tok_empty       |-> T("emptystr", <<>>, "normal"),
    tok_absent      |-> T("absent", <<>>, "normal"),
    tok_null        |-> T("null", <<>>, "normal"),
    tok_nested      |-> T("nested", <<>>, "normal"),
    tok_number      |-> T("number", <<>>, "normal"),
    upperkey        |-> T("upper", <<"u">>, "normal"),
    dup_real_last   |-> T("dup", <<"u">>, "normal"),
    dup_jws_last    |-> T("dup", <<"u","u","u">>, "normal"),
    not_json        |-> K("exact", "small", "garbage", "absent", <<>>, "normal"),
    empty_body      |-> K("exact", "small", "empty", "absent", <<>>, "normal"),
    json_array      |-> K("exact", "small", "array", "absent", <<>>, "normal"),
    json_null       |-> K("exact", "small", "null", "absent", <<>>, "normal"),
    json_trailing   |-> K("exact", "small", "trailing", "plain", <<"u">>, "normal"),
    body_at_cap     |-> K("exact", "at", "obj", "plain", <<"u">>, "normal"),
    body_over_cap   |-> K("exact", "over", "obj", "plain", <<"u">>, "normal"),
    cl_unknown      |-> K("unknown", "small", "obj", "plain", <<"u">>, "normal"),
    cl_unknown_at   |-> K("unknown", "at", "obj", "plain", <<"u">>, "normal"),
    cl_unknown_over |-> K("unknown", "over", "obj", "plain", <<"u">>, "normal"),
    cl_under_over   |-> K("under", "over", "obj", "plain", <<"u">>, "normal"),
    cl_over_small   |-> K("over", "small", "obj", "plain", <<"u">>, "normal"),
    cl_cap_small    |-> K("cap", "small", "obj", "plain", <<"u">>, "normal"),
    body_err        |-> K("unknown", "err", "obj", "plain", <<"u">>, "normal") ]

(* Resolver outcomes: what the TokenResolver returns (identity, ok, err).   *)
(*  err: "none" | "unavail" (NewAuthUnavailable) | "unavail_retry"          *)
(*       (RetryAfter set) | "wrapped" (%w around one with RetryAfter) |     *)
(*       "plain" (errors.New)                                               *)
O(ok, err, ttl, retry) == [ok |-> ok, err |-> err, ttl |-> ttl, retry |-> retry]
OutcomeAttr ==
  [ hit0      |-> O(TRUE,  "none", 0, 0),
    hit60     |-> O(TRUE,  "none", 60, 0),
    hitneg    |-> O(TRUE,  "none", -5, 0),
    miss      |-> O(FALSE, "none", 0, 0),
    miss_id   |-> O(FALSE, "none", 60, 0),        \* ok=false but an identity filled in
    unavail   |-> O(FALSE, "unavail", 0, 0),
    unavail9  |-> O(FALSE, "unavail_retry", 0, 9),
    wrapped7  |-> O(FALSE, "wrapped", 0, 7),
    plain     |-> O(FALSE, "plain", 0, 0),
    hit_err   |-> O(TRUE,  "unavail", 60, 0),     \* ok=true AND an error: the error wins
    none      |-> O(TRUE,  "none", 60, 0) ]       \* resolver not expected to run: the
                                                  \* harness arms it with a hit
RetryOf(o) == IF o.retry > 0 THEN o.retry ELSE 5

--------------------------------------------------------------------------
(* The individual checks of the handler, as predicates on the classes.     *)

\* h.authenticate + the caller test of handleIntrospectToken
Eff(c) == IF authfn THEN CallerAttr[c] ELSE CallerAttr["anon"]
AuthPasses(c) == Eff(c).auth = "pass"
Introspector(c) == AuthPasses(c) /\ Eff(c).authd /\ Eff(c).prin \in Allow

\* readIntrospectToken
DeclaredOverCap(k) == k.cl = "over" \/ (k.cl = "exact" /\ k.size = "over")   \* r.ContentLength > 8192
ReadFails(k)       == k.size = "err"                                         \* io.ReadAll error
DeliveredOverCap(k) == k.size = "over"                                       \* len(raw) > 8192
ParseFails(k)      == k.doc \in {"garbage", "empty", "array", "trailing"}
                      \/ (k.doc = "obj" /\ k.fld = "number")                 \* json.Unmarshal error
TokenEmpty(k)      == k.doc = "null" \/ k.fld \in {"absent", "null", "nested", "emptystr"}
TokenOversized(k)  == k.len \in {"over", "mb_over"}                          \* len(token) > 4096 (bytes)
\* introspectJWSShaped: \A[A-Za-z0-9_-]+\.[A-Za-z0-9_-]+\.[A-Za-z0-9_-]*\z
JWSShaped(s) == Len(s) = 3 /\ s[1] = "u" /\ s[2] = "u" /\ s[3] \in {"u", "e"}

\* introspectRateLimiter.allow(key) at tick t
FreshLim == [start |-> NoWin, cnt |-> [p \in Allow |-> 0]]
WindowOver(l, t) == l.start = NoWin \/ t - l.start >= W
LimAllow(l, p, t) ==
    LET l1 == IF WindowOver(l, t)
              THEN [start |-> t, cnt |-> [q \in Allow |-> 0]]     \* clear(l.counts)
              ELSE l
    IN IF l1.cnt[p] >= EffRate
       THEN [ok |-> FALSE, lim |-> l1]
       ELSE [ok |-> TRUE,  lim |-> [l1 EXCEPT !.cnt[p] = @ + 1]]

--------------------------------------------------------------------------
(* What the handler writes: log lines (level + attribute names) and the    *)
(* response members.  "credential" is the subject credential itself; no    *)
(* action below ever puts it anywhere -- NoLeak checks exactly that.       *)
L(lvl, attrs) == [lvl |-> lvl, attrs |-> attrs]
LogNotIntrospector == <<L("WARN", {"remote_addr", "principal", "authenticated"})>>
LogRateLimited     == <<L("WARN", {"remote_addr", "principal"})>>
LogJWS             == <<L("WARN", {"principal", "token_digest"})>>
LogUnavailable     == <<L("WARN", {"principal", "token_digest", "err"})>>
LogUnresolved      == <<L("INFO", {"principal", "token_digest"})>>
LogResolved        == <<L("INFO", {"principal", "token_digest", "resolved_principal"})>>
LogAuth(kind) == CASE kind = "reject401" -> <<>>
                   [] kind = "reject503" -> <<L("WARN", {"err", "remote_addr"})>>
                   [] kind = "reject500" -> <<L("ERROR", {"err", "remote_addr"})>>

--------------------------------------------------------------------------
(* The windows the PROPERTY speaks of.                                       *)
\* The fixed windows, recovered from history alone: the first window starts at
\* the first request that reached the limiter; the next one at the first such
\* request at or after the previous start + W.
Min(S) == CHOOSE x \in S : \A y \in S : x <= y
RECURSIVE StartsFrom(_, _)
StartsFrom(R, t) ==
    LET S == {u \in R : u >= t} IN
    IF S = {} THEN {} ELSE LET s == Min(S) IN {s} \cup StartsFrom(R, s + W)
WindowOf(R, t) == CHOOSE s \in StartsFrom(R \cup {t}, 0) : s <= t /\ t < s + W
RECURSIVE SumF(_, _, _)
SumF(f, lo, hi) == IF lo > hi THEN 0 ELSE f[lo] + SumF(f, lo + 1, hi)
Min2(x, y) == IF x < y THEN x ELSE y

--------------------------------------------------------------------------
\* In "mc" mode only the last step is kept (the properties read nothing older; the
\* history they need is in the ghosts reach/adm/ran), which keeps states small.
Record(step) ==
    /\ hist' = IF Mode = "mc" THEN <<step>> ELSE Append(hist, step)
    /\ (Mode = "edges" /\ step.a # "Tick") => EmitTrace(hist')
    /\ (Mode = "tree" /\ Len(hist') = Depth) => EmitTrace(hist')

Budget == (Mode = "tree") => Len(hist) < Depth

\* win_start: first tick of the window the request falls in -- the window as the
\* PROPERTY defines it (recovered from the history of requests, see WindowOf below),
\* not the limiter's.  The harness counts the resolver invocations it journalled for
\* the caller since that instant: exp.runs.
ReqArgs(c, k, o) ==
    [caller |-> c, cattr |-> Eff(c), cred |-> k, body |-> CredAttr[k],
     outcome |-> o, oattr |-> OutcomeAttr[o], now |-> now,
     win_start |-> WindowOf(reach, now)]

\* introspections of principal p in the window of the present request, before it
RunsSoFar(p) == SumF(ran[p], WindowOf(reach, now), now)

\* a request that never reaches the limiter
Untouched == UNCHANGED <<enabled, authfn, now, lim, reach, adm, ran, win>>

NotEnabled_404(c, k) ==
    /\ Budget
    /\ ~enabled
    /\ Untouched
    /\ Record([a |-> "NotEnabled_404", args |-> ReqArgs(c, k, "none"),
               exp |-> [code |-> 404, body_x |-> "not_enabled", read_x |-> FALSE,
                        resolver |-> 0, leak |-> FALSE, adv |-> FALSE,
                        logs |-> <<>>, fields |-> {"error"}]])

AuthReject(c, k) ==
    /\ Budget
    /\ enabled
    /\ ~AuthPasses(c)
    /\ Untouched
    /\ Record([a |-> "AuthReject", args |-> ReqArgs(c, k, "none"),
               exp |-> [auth_status |-> AuthStatus(Eff(c).auth), body_read |-> FALSE,
                        resolver |-> 0, leak |-> FALSE, adv |-> TRUE,
                        logs |-> LogAuth(Eff(c).auth)]])

NotIntrospector_403(c, k) ==
    /\ Budget
    /\ enabled
    /\ AuthPasses(c)
    /\ ~(Eff(c).authd /\ Eff(c).prin \in Allow)
    /\ Untouched
    /\ Record([a |-> "NotIntrospector_403", args |-> ReqArgs(c, k, "none"),
               exp |-> [status |-> 403, body |-> "ref403", body_read |-> FALSE,
                        resolver |-> 0, leak |-> FALSE, adv |-> TRUE,
                        logs |-> LogNotIntrospector, fields |-> {"error"}]])

\* every action below passed the caller test and calls cfg.limiter.allow(caller)
Limiter(c) == LimAllow(lim, Eff(c).prin, now)

RateLimited_429(c, k) ==
    /\ Budget
    /\ enabled
    /\ Introspector(c)
    /\ ~Limiter(c).ok
    /\ lim' = Limiter(c).lim
    /\ reach' = reach \cup {now}
    /\ win' = IF WindowOver(lim, now) THEN [q \in Allow |-> <<>>] ELSE win
    /\ UNCHANGED <<enabled, authfn, now, adm, ran>>
    /\ Record([a |-> "RateLimited_429", args |-> ReqArgs(c, k, "none"),
               exp |-> [limited |-> TRUE, code |-> 429, body_x |-> "rate_limited",
                        retry_after |-> "1", read_x |-> FALSE,
                        resolver |-> 0, runs |-> RunsSoFar(Eff(c).prin),
                        leak |-> FALSE, adv |-> TRUE,
                        logs |-> LogRateLimited, fields |-> {"error"}]])

\* common part of every exit after the limiter admitted the request
\* (guards first, then the effect: TLC evaluates conjuncts left to right)
AdmitGuard(c) ==
    /\ Budget
    /\ enabled
    /\ Introspector(c)
    /\ Limiter(c).ok
\* sym: what becomes of the admitted request -- "pre" or the resolver outcome.  The
\* charge is the same whatever sym is: allow() ran before the body was looked at and
\* nothing ever gives an admission back.
AdmitEffect(c, sym) ==
    /\ lim' = Limiter(c).lim
    /\ reach' = reach \cup {now}
    /\ adm' = [adm EXCEPT ![Eff(c).prin][now] = @ + 1]
    /\ ran' = IF sym = "pre" THEN ran ELSE [ran EXCEPT ![Eff(c).prin][now] = @ + 1]
    /\ win' = LET w0 == IF WindowOver(lim, now) THEN [q \in Allow |-> <<>>] ELSE win
              IN [w0 EXCEPT ![Eff(c).prin] = Append(@, sym)]
    /\ UNCHANGED <<enabled, authfn, now>>

\* introspections of the caller in the window, this request included
Runs(c, nran) == RunsSoFar(Eff(c).prin) + nran

Unresolved(name, c, k, o, read, nran, logs) ==
    Record([a |-> name, args |-> ReqArgs(c, k, o),
            exp |-> [limited |-> FALSE, status |-> 404, body |-> "ref404", read_x |-> read,
                     resolver |-> nran, runs |-> Runs(c, nran), leak |-> FALSE, adv |-> TRUE,
                     logs |-> logs, fields |-> {"error"}]])

ContentLengthOverCap_404(c, k) ==
    /\ DeclaredOverCap(CredAttr[k])
    /\ AdmitGuard(c)
    /\ AdmitEffect(c, "pre")
    /\ Unresolved("ContentLengthOverCap_404", c, k, "none", FALSE, 0, <<>>)

BodyReadFails_404(c, k) ==
    /\ LET b == CredAttr[k] IN ~DeclaredOverCap(b) /\ ReadFails(b)
    /\ AdmitGuard(c)
    /\ AdmitEffect(c, "pre")
    /\ Unresolved("BodyReadFails_404", c, k, "none", TRUE, 0, <<>>)

BodyOverCap_404(c, k) ==
    /\ LET b == CredAttr[k] IN ~DeclaredOverCap(b) /\ ~ReadFails(b) /\ DeliveredOverCap(b)
    /\ AdmitGuard(c)
    /\ AdmitEffect(c, "pre")
    /\ Unresolved("BodyOverCap_404", c, k, "none", TRUE, 0, <<>>)

Readable(b) == ~DeclaredOverCap(b) /\ ~ReadFails(b) /\ ~DeliveredOverCap(b)

BadJSON_404(c, k) ==
    /\ LET b == CredAttr[k] IN Readable(b) /\ ParseFails(b)
    /\ AdmitGuard(c)
    /\ AdmitEffect(c, "pre")
    /\ Unresolved("BadJSON_404", c, k, "none", TRUE, 0, <<>>)

NoToken_404(c, k) ==
    /\ LET b == CredAttr[k] IN Readable(b) /\ ~ParseFails(b) /\ TokenEmpty(b)
    /\ AdmitGuard(c)
    /\ AdmitEffect(c, "pre")
    /\ Unresolved("NoToken_404", c, k, "none", TRUE, 0, <<>>)

TokenOversized_404(c, k) ==
    /\ LET b == CredAttr[k] IN
          Readable(b) /\ ~ParseFails(b) /\ ~TokenEmpty(b) /\ TokenOversized(b)
    /\ AdmitGuard(c)
    /\ AdmitEffect(c, "pre")
    /\ Unresolved("TokenOversized_404", c, k, "none", TRUE, 0, <<>>)

HasCredential(b) == Readable(b) /\ ~ParseFails(b) /\ ~TokenEmpty(b) /\ ~TokenOversized(b)

JWS_404(c, k) ==
    /\ LET b == CredAttr[k] IN HasCredential(b) /\ JWSShaped(b.segs)
    /\ AdmitGuard(c)
    /\ AdmitEffect(c, "pre")
    /\ Unresolved("JWS_404", c, k, "none", TRUE, 0, LogJWS)

ReachesResolver(b) == HasCredential(b) /\ ~JWSShaped(b.segs)

Resolver_503(c, k, o) ==
    /\ ReachesResolver(CredAttr[k])
    /\ OutcomeAttr[o].err # "none"
    /\ AdmitGuard(c)
    /\ AdmitEffect(c, o)
    /\ Record([a |-> "Resolver_503", args |-> ReqArgs(c, k, o),
               exp |-> [limited |-> FALSE, code |-> 503, body_x |-> "unavailable",
                        retry_after |-> ToString(RetryOf(OutcomeAttr[o])), read_x |-> TRUE,
                        resolver |-> 1, runs |-> Runs(c, 1), leak |-> FALSE, adv |-> TRUE,
                        logs |-> LogUnavailable, fields |-> {"error"}]])

Resolver_404(c, k, o) ==
    /\ ReachesResolver(CredAttr[k])
    /\ OutcomeAttr[o].err = "none" /\ ~OutcomeAttr[o].ok
    /\ AdmitGuard(c)
    /\ AdmitEffect(c, o)
    /\ Unresolved("Resolver_404", c, k, o, TRUE, 1, LogUnresolved)

Resolver_200(c, k, o) ==
    /\ ReachesResolver(CredAttr[k])
    /\ OutcomeAttr[o].err = "none" /\ OutcomeAttr[o].ok
    /\ AdmitGuard(c)
    /\ AdmitEffect(c, o)
    /\ Record([a |-> "Resolver_200", args |-> ReqArgs(c, k, o),
               exp |-> [limited |-> FALSE, code |-> 200, body_x |-> "ok",
                        ok_body |-> [principal |-> "subject", token_name |-> "name",
                                     ttl_seconds |-> IF OutcomeAttr[o].ttl > 0
                                                     THEN OutcomeAttr[o].ttl ELSE EffTTL],
                        read_x |-> TRUE, resolver |-> 1, runs |-> Runs(c, 1),
                        leak |-> FALSE, adv |-> TRUE,
                        logs |-> LogResolved,
                        fields |-> {"principal", "token_name", "ttl_seconds"}]])

\* EnableTokenIntrospection with a valid config: a fresh limiter
Enable ==
    /\ Budget
    /\ ~enabled
    /\ enabled' = TRUE
    /\ lim' = FreshLim
    /\ UNCHANGED <<authfn, now, reach, adm, ran, win>>
    /\ Record([a |-> "Enable", args |-> [rate |-> RateCfg, ttl |-> DefTTLCfg],
               exp |-> [err |-> FALSE, adv |-> TRUE]])

\* ... refused at construction: nil Resolver, no Principals, only "" in Principals
EnableRejected(why) ==
    /\ Budget
    /\ ~enabled
    /\ Untouched
    /\ Record([a |-> "EnableRejected", args |-> [why |-> why, rate |-> RateCfg, ttl |-> DefTTLCfg],
               exp |-> [err |-> TRUE, adv |-> FALSE]])

Tick(d) ==
    /\ Budget
    /\ now + d <= MaxT
    /\ now' = now + d
    /\ UNCHANGED <<enabled, authfn, lim, reach, adm, ran, win>>
    /\ Record([a |-> "Tick", args |-> [d |-> d], exp |-> [x |-> 0]])

Init ==
    /\ enabled = FALSE
    /\ authfn \in AuthFn
    /\ now = 0
    /\ lim = FreshLim
    /\ reach = {}
    /\ adm = [p \in Allow |-> [t \in 0..MaxT |-> 0]]
    /\ ran = [p \in Allow |-> [t \in 0..MaxT |-> 0]]
    /\ win = [p \in Allow |-> <<>>]
    /\ hist = << [a |-> "Init",
                  args |-> [authfn |-> authfn, W |-> W, RateCfg |-> RateCfg,
                            DefTTLCfg |-> DefTTLCfg],
                  exp |-> [adv |-> FALSE]] >>

RealOutcomes == Outcomes \ {"none"}

Next ==
    \/ \E d \in Ticks : Tick(d)
    \/ Enable
    \/ \E why \in {"no_resolver", "no_principals", "blank_principals"} : EnableRejected(why)
    \/ \E c \in Callers, k \in Creds :
          \/ NotEnabled_404(c, k)
          \/ AuthReject(c, k)
          \/ NotIntrospector_403(c, k)
          \/ RateLimited_429(c, k)
          \/ ContentLengthOverCap_404(c, k)
          \/ BodyReadFails_404(c, k)
          \/ BodyOverCap_404(c, k)
          \/ BadJSON_404(c, k)
          \/ NoToken_404(c, k)
          \/ TokenOversized_404(c, k)
          \/ JWS_404(c, k)
          \/ \E o \in RealOutcomes :
                \/ Resolver_503(c, k, o)
                \/ Resolver_404(c, k, o)
                \/ Resolver_200(c, k, o)

Spec == Init /\ [][Next]_vars

--------------------------------------------------------------------------
(*                               C26                                        *)
(* stated over the class attributes, the configuration and the HISTORY of   *)
(* requests (ghosts reach/adm), never over the limiter's own variables or   *)
(* the order in which the handler happens to test things.                   *)

Last == hist'[Len(hist')]
IsReq(s) == s.a \notin {"Init", "Tick", "Enable", "EnableRejected"}
Ran(s) == s.exp.resolver = 1
Body(s) == CredAttr[s.args.cred]
Has(s, f) == f \in DOMAIN s.exp

\* a caller that may introspect: authenticated as a principal on the list
MayIntrospect(c) ==
    /\ Eff(c).auth = "pass"
    /\ Eff(c).authd
    /\ Eff(c).prin \in Allow

\* a body that carries a credential the resolver may see
WellFormed(b) ==
    /\ b.cl # "over" /\ b.size \in {"small", "at"}        \* within the 8192-byte cap, declared and actual
    /\ b.doc = "obj"
    /\ b.fld \in {"plain", "upper", "escaped", "dup"}     \* a non-empty string member
NotJWSNorOversized(b) ==
    /\ b.len \in {"normal", "at"}
    /\ ~(Len(b.segs) = 3 /\ b.segs[1] = "u" /\ b.segs[2] = "u" /\ b.segs[3] \in {"u", "e"})
Resolvable(b) == WellFormed(b) /\ NotJWSNorOversized(b)

\* (the fixed windows recovered from history alone -- StartsFrom / WindowOf / SumF --
\* are defined above, before ReqArgs)

\* principal p has budget left in the window the present request falls in
WithinRate(p) == SumF(adm[p], WindowOf(reach, now), now) < EffRate

\* (1) per caller and window, admitted <= rate            [viewed state: INVARIANT]
AdmittedPerWindow ==
    \A p \in Allow : \A s \in StartsFrom(reach, 0) :
        SumF(adm[p], s, Min2(s + W - 1, MaxT)) <= EffRate
\* the ghost win is in step with the limiter (for cfgs whose VIEW shows win)
WinMatchesLim == \A p \in Allow : Len(win[p]) = lim.cnt[p]
\* (1') per caller and window, INTROSPECTIONS <= rate: the resolver is handed at most
\*      the configured number of credentials by one caller in one window, whatever it
\*      answers -- resolved, unresolved or failing       [viewed state: INVARIANT]
IntrospectionsPerWindow ==
    /\ \A p \in Allow : \A t \in 0..MaxT : ran[p][t] \in 0..adm[p][t]
    /\ \A p \in Allow : \A s \in StartsFrom(reach, 0) :
          SumF(ran[p], s, Min2(s + W - 1, MaxT)) <= EffRate
\* corollary the code comments on: at most twice the rate across any window-long span
SlidingBound ==
    \A p \in Allow : \A t \in 0..MaxT :
        SumF(adm[p], t, Min2(t + W - 1, MaxT)) <= 2 * EffRate
TypeOK ==
    /\ enabled \in BOOLEAN /\ authfn \in BOOLEAN /\ now \in 0..MaxT
    /\ lim.start \in {NoWin} \cup 0..MaxT
    /\ \A p \in Allow : lim.cnt[p] \in 0..EffRate
    /\ reach \subseteq 0..now

\* (2) the resolver runs only when enabled, caller allowlisted, within rate, and the
\*     credential well-formed, not JWS-shaped, not oversized
ResolverOnlyWhen ==
    [][ (IsReq(Last) /\ Ran(Last)) =>
          /\ enabled
          /\ MayIntrospect(Last.args.caller)
          /\ WithinRate(Eff(Last.args.caller).prin)
          /\ Resolvable(Body(Last)) ]_vars

\* ... and the observed 429 is exactly "no budget left"
RateObserved ==
    [][ (IsReq(Last) /\ enabled /\ MayIntrospect(Last.args.caller)) =>
          /\ Has(Last, "limited")
          /\ Last.exp.limited = ~WithinRate(Eff(Last.args.caller).prin) ]_vars

\* ... and the count of introspections the harness is told to observe (exp.runs) is the
\* caller's count in the window of the request, never above the rate, and goes up by
\* exactly the resolver's invocations for this request -- whichever way it answered
RunsObserved ==
    [][ (IsReq(Last) /\ enabled /\ MayIntrospect(Last.args.caller)) =>
          LET p == Eff(Last.args.caller).prin IN
          /\ Has(Last, "runs")
          /\ Last.exp.runs = SumF(ran'[p], WindowOf(reach', now'), now')
          /\ Last.exp.runs = SumF(ran[p], WindowOf(reach, now), now) + Last.exp.resolver
          /\ Last.exp.runs <= EffRate
          /\ Last.args.win_start = WindowOf(reach', now') ]_vars

\* (3) a caller that passes authentication but may not introspect gets THE 403 body,
\*     and the request body has not been touched
Refused403 ==
    [][ (IsReq(Last) /\ enabled /\ Eff(Last.args.caller).auth = "pass"
            /\ ~MayIntrospect(Last.args.caller)) =>
          /\ Has(Last, "status") /\ Last.exp.status = 403
          /\ Has(Last, "body") /\ Last.exp.body = "ref403"
          /\ Has(Last, "body_read") /\ Last.exp.body_read = FALSE
          /\ Last.exp.resolver = 0 ]_vars
\* a caller the authenticator turns away is answered by authenticate(); nothing is read
RejectedUnread ==
    [][ (IsReq(Last) /\ enabled /\ Eff(Last.args.caller).auth # "pass") =>
          /\ Has(Last, "body_read") /\ Last.exp.body_read = FALSE
          /\ Last.exp.resolver = 0 ]_vars

\* (4) every admitted request whose credential does not resolve gets THE 404 body
Unresolvable404 ==
    [][ (IsReq(Last) /\ enabled /\ MayIntrospect(Last.args.caller)
            /\ (~Resolvable(Body(Last))
                \/ (OutcomeAttr[Last.args.outcome].err = "none" /\ ~OutcomeAttr[Last.args.outcome].ok))
            /\ WithinRate(Eff(Last.args.caller).prin)) =>
          /\ Has(Last, "status") /\ Last.exp.status = 404
          /\ Has(Last, "body") /\ Last.exp.body = "ref404"
          /\ (~Resolvable(Body(Last)) => Last.exp.resolver = 0) ]_vars

\* (5) not enabled: nothing is resolved, whoever asks and whatever is posted; a refused
\*     EnableTokenIntrospection leaves the route disabled
DisabledResolvesNothing ==
    [][ /\ (IsReq(Last) /\ ~enabled) => (Last.exp.resolver = 0 /\ Last.a = "NotEnabled_404")
        /\ (Last.a = "EnableRejected") => ~enabled' ]_vars

\* (6) the credential is in no response member and no log attribute
NoLeak ==
    [][ IsReq(Last) =>
          /\ Last.exp.leak = FALSE
          /\ \A i \in 1..Len(Last.exp.logs) : "credential" \notin Last.exp.logs[i].attrs
          /\ (Has(Last, "fields") => "credential" \notin Last.exp.fields) ]_vars

\* sanity (not C26): an entitled request for a resolvable credential does reach the
\* resolver -- keeps ResolverOnlyWhen from being satisfied by a handler that never resolves
ResolvesWhenEntitled ==
    [][ (IsReq(Last) /\ enabled /\ MayIntrospect(Last.args.caller)
            /\ Resolvable(Body(Last)) /\ WithinRate(Eff(Last.args.caller).prin)) => Ran(Last) ]_vars

ViewMC  == <<enabled, authfn, now, lim, reach, adm>>
\* ... for cfgs that check IntrospectionsPerWindow / RunsObserved (they read ran)
ViewMCr == <<enabled, authfn, now, lim, reach, adm, ran>>
ViewGen == <<enabled, authfn, now, lim>>
\* generation by outcome ORDER: the limiter state plus, per caller, what became of every
\* request admitted in the current window (lim.cnt[p] = Len(win[p]))
ViewMix == <<enabled, authfn, now, lim, win>>
=============================================================================
