SPECIFICATION Spec
CONSTANTS
    Callers = {"other", "a", "b"}
    Creds = {"opaque", "jws3", "not_json", "cl_over_small"}
    Outcomes = {"hit60", "miss", "unavail"}
    AuthFn = {TRUE}
    RateCfg = 2
    DefTTLCfg = 0
    W = 2
    MaxT = 60
    Ticks = {1, 2, 3}
    Mode = "tree"
    Depth = 40
CHECK_DEADLOCK FALSE
