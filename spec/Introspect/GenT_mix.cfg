SPECIFICATION Spec
CONSTANTS
    Callers = {"a", "b"}
    Creds = {"opaque"}
    Outcomes = {"hit60", "miss", "unavail"}
    AuthFn = {TRUE}
    RateCfg = 2
    DefTTLCfg = 0
    W = 1
    MaxT = 2
    Ticks = {1}
    Mode = "tree"
    Depth = 7
CHECK_DEADLOCK FALSE
