SPECIFICATION Spec
CONSTANTS
    Callers = {"anon", "a", "b"}
    Creds = {"opaque", "jws_sig_empty"}
    Outcomes = {"hitneg", "wrapped7"}
    AuthFn = {TRUE}
    RateCfg = 3
    DefTTLCfg = 45
    W = 1
    MaxT = 3
    Ticks = {1}
    Mode = "edges"
    Depth = 0
VIEW ViewGen
CHECK_DEADLOCK FALSE
