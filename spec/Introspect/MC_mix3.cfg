SPECIFICATION Spec
CONSTANTS
    Callers = {"other", "a", "b"}
    Creds = {"opaque", "jws3"}
    Outcomes = {"hit60", "miss", "unavail", "plain"}
    AuthFn = {TRUE}
    RateCfg = 2
    DefTTLCfg = 0
    W = 2
    MaxT = 3
    Ticks = {1}
    Mode = "mc"
    Depth = 0
VIEW ViewMCr
INVARIANTS TypeOK AdmittedPerWindow IntrospectionsPerWindow SlidingBound
PROPERTIES ResolverOnlyWhen RateObserved RunsObserved Refused403 RejectedUnread Unresolvable404 DisabledResolvesNothing NoLeak ResolvesWhenEntitled
CHECK_DEADLOCK FALSE
