SPECIFICATION Spec
CONSTANTS
    Callers = {"a", "b"}
    Creds = {"opaque"}
    Outcomes = {"hit60", "miss", "unavail"}
    AuthFn = {TRUE}
    RateCfg = 2
    DefTTLCfg = 0
    W = 2
    MaxT = 3
    Ticks = {1}
    Mode = "edges"
    Depth = 0
VIEW ViewMix
INVARIANTS WinMatchesLim IntrospectionsPerWindow
CHECK_DEADLOCK FALSE
