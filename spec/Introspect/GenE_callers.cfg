SPECIFICATION Spec
CONSTANTS
    Callers = {"rej401", "rej503", "rej500", "anon", "unauth_a", "auth_blank", "other", "a_variant", "a", "b"}
    Creds = {"opaque", "jws3", "not_json", "cl_over_small", "opaque_4097", "body_over_cap"}
    Outcomes = {"hit60", "miss", "unavail"}
    AuthFn = {TRUE, FALSE}
    RateCfg = 2
    DefTTLCfg = 120
    W = 2
    MaxT = 4
    Ticks = {1}
    Mode = "edges"
    Depth = 0
VIEW ViewGen
CHECK_DEADLOCK FALSE
