SPECIFICATION Spec
CONSTANTS
    Callers = {"a"}
    Creds = {"opaque"}
    Outcomes = {"hit0"}
    AuthFn = {TRUE}
    RateCfg = 0
    DefTTLCfg = 0
    W = 2
    MaxT = 2
    Ticks = {1, 2}
    Mode = "edges"
    Depth = 0
VIEW ViewGen
CHECK_DEADLOCK FALSE
