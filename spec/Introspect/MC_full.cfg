SPECIFICATION Spec
CONSTANTS
    Callers = {"rej401", "rej503", "rej500", "anon", "unauth_a", "auth_blank", "other", "a_variant", "a", "b"}
    Creds = {"opaque", "opaque_x", "opaque_4096", "opaque_4097", "opaque_mb", "jws3", "jws_sig_empty", "jws_4096", "jws_4097", "jws_escaped", "jws_upperkey", "seg2", "seg4", "seg5", "seg_e1", "seg_e2", "seg_pad", "seg_std", "seg_nl", "tok_empty", "tok_absent", "tok_null", "tok_nested", "tok_number", "upperkey", "dup_real_last", "dup_jws_last", "not_json", "empty_body", "json_array", "json_null", "json_trailing", "body_at_cap", "body_over_cap", "cl_unknown", "cl_unknown_at", "cl_unknown_over", "cl_under_over", "cl_over_small", "cl_cap_small", "body_err"}
    Outcomes = {"hit0", "hit60", "miss", "unavail9", "plain"}
    AuthFn = {TRUE, FALSE}
    RateCfg = 2
    DefTTLCfg = 0
    W = 2
    MaxT = 3
    Ticks = {1}
    Mode = "mc"
    Depth = 0
VIEW ViewMC
INVARIANTS TypeOK AdmittedPerWindow SlidingBound
PROPERTIES ResolverOnlyWhen RateObserved Refused403 RejectedUnread Unresolvable404 DisabledResolvesNothing NoLeak ResolvesWhenEntitled
CHECK_DEADLOCK FALSE
