SPECIFICATION Spec
CONSTANTS
    Callers = {"other", "a", "b"}
    Creds = {"opaque", "jws3", "not_json"}
    Outcomes = {"hit0", "hit60", "miss", "miss_id", "unavail", "unavail9", "wrapped7", "plain", "hit_err"}
    AuthFn = {TRUE}
    RateCfg = 3
    DefTTLCfg = 0
    W = 2
    MaxT = 24
    Ticks = {1, 2}
    Mode = "tree"
    Depth = 40
CHECK_DEADLOCK FALSE
