SPECIFICATION Spec
CONSTANTS
    Callers = {"a"}
    Creds = {"opaque", "not_json"}
    Outcomes = {"hit60", "miss", "unavail", "plain"}
    AuthFn = {TRUE}
    RateCfg = 3
    DefTTLCfg = 0
    W = 4
    MaxT = 5
    Ticks = {1, 3}
    Mode = "edges"
    Depth = 0
VIEW ViewMix
INVARIANTS WinMatchesLim IntrospectionsPerWindow
CHECK_DEADLOCK FALSE
