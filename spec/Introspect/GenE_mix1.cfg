SPECIFICATION Spec
CONSTANTS
    Callers = {"a"}
    Creds = {"opaque", "jws3"}
    Outcomes = {"hit0", "miss_id", "unavail9", "wrapped7", "plain", "hit_err"}
    AuthFn = {TRUE}
    RateCfg = 2
    DefTTLCfg = 0
    W = 2
    MaxT = 2
    Ticks = {1}
    Mode = "edges"
    Depth = 0
VIEW ViewMix
INVARIANTS WinMatchesLim IntrospectionsPerWindow
CHECK_DEADLOCK FALSE
