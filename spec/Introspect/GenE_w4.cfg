SPECIFICATION Spec
CONSTANTS
    Callers = {"other", "a", "b"}
    Creds = {"opaque", "not_json"}
    Outcomes = {"hit60", "miss"}
    AuthFn = {TRUE}
    RateCfg = 2
    DefTTLCfg = 0
    W = 4
    MaxT = 9
    Ticks = {1, 3}
    Mode = "edges"
    Depth = 0
VIEW ViewGen
CHECK_DEADLOCK FALSE
