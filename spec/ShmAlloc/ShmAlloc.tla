------------------------------ MODULE ShmAlloc ------------------------------
(***************************************************************************)
(* Shared-memory segment allocator of vgi-rpc-go (vgirpc/shm.go).          *)
(*                                                                         *)
(* The allocation table lives in the segment header and is what another   *)
(* process attaching the segment reads.  One action per allocator entry   *)
(* point, written the way the code does it (scan in offset order, first   *)
(* gap that fits, else the tail); the properties of C34 are stated        *)
(* declaratively below and model-checked against those actions.           *)
(*                                                                         *)
(* Offsets are in abstract units counted from the start of the data area; *)
(* the harness maps unit u to byte  HeaderSize + Prefill + u*Scale.        *)
(***************************************************************************)
EXTENDS Naturals, Sequences, FiniteSets, TLC, VerifEmit

CONSTANTS
    DataUnits,   \* size of the data area in units
    Sizes,       \* request sizes offered to Alloc (may include 0 and > DataUnits)
    MaxAllocs,   \* maximum number of table entries
    Mode,        \* "mc" | "edges" | "tree"
    Depth        \* tree mode: emit behaviours of exactly this length

VARIABLES
    table,       \* sequence of <<off, len>> in offset order
    hist         \* observation/history variable: sequence of step records

vars == <<table, hist>>

Off(e) == e[1]
Len_(e) == e[2]
End(e) == e[1] + e[2]

--------------------------------------------------------------------------
(* The documented header layout, as another process decodes it:            *)
(* magic "VGIS" @0, version 1 @4, data_size u64 @8, count u32 @16,         *)
(* 16-byte entries (offset u64, length u64) from @24.                       *)
Header(t) == [magic |-> "VGIS", version |-> 1, data_size |-> DataUnits,
              count |-> Len(t), entries |-> t]

--------------------------------------------------------------------------
(* allocateLocked: first fit.                                              *)
\* index of the first entry before which a gap of n units exists, 0 if none
GapBefore(t, i) == Off(t[i]) - (IF i = 1 THEN 0 ELSE End(t[i-1]))

FirstGapIndex(t, n) ==
    LET S == {i \in 1..Len(t) : GapBefore(t, i) >= n}
    IN IF S = {} THEN 0 ELSE CHOOSE i \in S : \A j \in S : i <= j

TailStart(t) == IF Len(t) = 0 THEN 0 ELSE End(t[Len(t)])

InsertAt(t, i, e) == SubSeq(t, 1, i-1) \o <<e>> \o SubSeq(t, i, Len(t))
RemoveAt(t, i) == SubSeq(t, 1, i-1) \o SubSeq(t, i+1, Len(t))

\* result of Alloc(n) on table t: [ok, off, table]
AllocResult(t, n) ==
    IF n <= 0 \/ Len(t) >= MaxAllocs
    THEN [ok |-> FALSE, off |-> 0, table |-> t]
    ELSE LET i == FirstGapIndex(t, n) IN
         IF i # 0
         THEN LET o == IF i = 1 THEN 0 ELSE End(t[i-1])
              IN [ok |-> TRUE, off |-> o, table |-> InsertAt(t, i, <<o, n>>)]
         ELSE IF DataUnits - TailStart(t) >= n
              THEN [ok |-> TRUE, off |-> TailStart(t),
                    table |-> Append(t, <<TailStart(t), n>>)]
              ELSE [ok |-> FALSE, off |-> 0, table |-> t]

\* freeAtLocked: remove exactly the entry starting at o
FreeResult(t, o) ==
    LET S == {i \in 1..Len(t) : Off(t[i]) = o}
    IN IF S = {} THEN [ok |-> FALSE, table |-> t]
       ELSE [ok |-> TRUE, table |-> RemoveAt(t, CHOOSE i \in S : TRUE)]

--------------------------------------------------------------------------
Record(step) ==
    /\ hist' = Append(hist, step)
    /\ (Mode = "edges") => EmitTrace(hist')
    /\ (Mode = "tree" /\ Len(hist') = Depth) => EmitTrace(hist')

Budget == (Mode = "tree") => Len(hist) < Depth

Alloc(n) ==
    /\ Budget
    /\ LET r == AllocResult(table, n) IN
       /\ table' = r.table
       /\ Record([a |-> "Alloc", args |-> [n |-> n],
                  exp |-> [ok |-> r.ok, off |-> r.off, table |-> r.table,
                           hdr |-> Header(r.table)]])

Free(o) ==
    /\ Budget
    /\ LET r == FreeResult(table, o) IN
       /\ table' = r.table
       /\ Record([a |-> "Free", args |-> [off |-> o],
                  exp |-> [ok |-> r.ok, table |-> r.table, hdr |-> Header(r.table)]])

Reset ==
    /\ Budget
    /\ table' = <<>>
    /\ Record([a |-> "Reset", args |-> [x |-> 0],
               exp |-> [table |-> <<>>, hdr |-> Header(<<>>)]])

Init ==
    /\ table = <<>>
    /\ hist = << [a |-> "Init",
                  args |-> [DataUnits |-> DataUnits, MaxAllocs |-> MaxAllocs],
                  exp |-> [table |-> <<>>, hdr |-> Header(<<>>)]] >>

Next ==
    \/ \E n \in Sizes : Alloc(n)
    \/ \E o \in 0..DataUnits : Free(o)
    \/ Reset

Spec == Init /\ [][Next]_vars

--------------------------------------------------------------------------
(* C34, stated on the viewed state (INVARIANTs) ...                        *)
Sorted == \A i \in 1..Len(table)-1 : Off(table[i]) < Off(table[i+1])
Disjoint == \A i \in 1..Len(table)-1 : End(table[i]) <= Off(table[i+1])
InsideDataArea == \A i \in 1..Len(table) :
                     /\ Len_(table[i]) > 0
                     /\ End(table[i]) <= DataUnits
CountBounded == Len(table) <= MaxAllocs
TableConsistent == Sorted /\ Disjoint /\ InsideDataArea /\ CountBounded

(* ... and on transitions (action properties, evaluated on every edge).    *)
\* a gap (including the tail) of at least n units exists in t
HasGap(t, n) ==
    \/ \E i \in 1..Len(t) : GapBefore(t, i) >= n
    \/ DataUnits - TailStart(t) >= n

Last == hist'[Len(hist')]

\* An allocation fails only when the request is empty, the table is full, or
\* no free gap is large enough.
FailsOnlyWithoutGap ==
    [][ (Last.a = "Alloc" /\ ~Last.exp.ok) =>
            (Last.args.n <= 0 \/ Len(table) >= MaxAllocs \/ ~HasGap(table, Last.args.n)) ]_vars

\* A successful allocation takes the lowest-offset gap that fits (first fit),
\* adds exactly that region and touches nothing else.
FirstFit ==
    [][ (Last.a = "Alloc" /\ Last.exp.ok) =>
          LET n == Last.args.n  o == Last.exp.off IN
          /\ \A i \in 1..Len(table) :
                (GapBefore(table, i) >= n) => o <= (IF i = 1 THEN 0 ELSE End(table[i-1]))
          /\ {table'[i] : i \in 1..Len(table')} = {table[i] : i \in 1..Len(table)} \cup {<<o, n>>}
          /\ Len(table') = Len(table) + 1 ]_vars

\* A free removes exactly the region starting at that offset, or fails and
\* changes nothing.
FreeExact ==
    [][ (Last.a = "Free") =>
          LET o == Last.args.off
              Old == {table[i] : i \in 1..Len(table)}
              New == {table'[i] : i \in 1..Len(table')} IN
          IF \E e \in Old : Off(e) = o
          THEN Last.exp.ok /\ New = {e \in Old : Off(e) # o} /\ Len(table') = Len(table) - 1
          ELSE ~Last.exp.ok /\ table' = table ]_vars

View == table
=============================================================================
