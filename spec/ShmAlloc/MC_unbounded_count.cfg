SPECIFICATION Spec
CONSTANTS
    DataUnits = 8
    Sizes = {0, 1, 2, 3, 5, 8, 9}
    MaxAllocs = 99
    Mode = "mc"
    Depth = 0
VIEW View
INVARIANTS TableConsistent
PROPERTIES FailsOnlyWithoutGap FirstFit FreeExact
CHECK_DEADLOCK FALSE
