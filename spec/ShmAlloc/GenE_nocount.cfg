SPECIFICATION Spec
CONSTANTS
    DataUnits = 6
    Sizes = {0, 1, 2, 3, 7}
    MaxAllocs = 99
    Mode = "edges"
    Depth = 0
VIEW View
CHECK_DEADLOCK FALSE
