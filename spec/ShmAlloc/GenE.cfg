SPECIFICATION Spec
CONSTANTS
    DataUnits = 8
    Sizes = {0, 1, 2, 3, 5, 8, 9}
    MaxAllocs = 3
    Mode = "edges"
    Depth = 0
VIEW View
CHECK_DEADLOCK FALSE
