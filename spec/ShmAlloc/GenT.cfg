SPECIFICATION Spec
CONSTANTS
    DataUnits = 8
    Sizes = {0, 1, 3, 5}
    MaxAllocs = 3
    Mode = "tree"
    Depth = 6
CHECK_DEADLOCK FALSE
