SPECIFICATION Spec
CONSTANTS
    DataUnits = 8
    Sizes = {0, 1, 2, 3, 5, 8, 9}
    MaxAllocs = 99
    Mode = "tree"
    Depth = 40
CHECK_DEADLOCK FALSE
