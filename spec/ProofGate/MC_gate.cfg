\* gate decision table: one presentation of one proof, every form with <= 2 fields off canonical,
\* timestamp at now-3, now-2, now, now+2, now+3 (Skew = 2), every mode x inner authenticator x cache on/off
SPECIFICATION Spec
CONSTANTS
    Skew = 2
    NonceTTL = 5
    Sub = 1
    Start = 3
    MaxNow = 3
    TickSteps = {1}
    NProofs = 1
    TsChoices = {0, 1, 3, 5, 6}
    FarChoices = {"near", "fut9", "fut10", "fut12", "fut15", "futmax", "past9", "past10", "past12", "past15"}
    NonceIds = {1}
    ShareNonces = FALSE
    KidChoices = {"k1", "k2"}
    Caps = {0}
    DefaultCap = 100000
    CacheModes = {TRUE, FALSE}
    Modes = {"require", "allow"}
    Inners = {"none", "accept", "reject", "unavailable"}
    Builds = {"ok"}
    MaxDev = 2
    DevVals = {"*"}
    PresentBudget = 1
    BurstN = 0
    PressMax = 0
    TouchOn = {}
    Mode = "mc"
    Depth = 0
VIEW View
INVARIANTS TypeOK CacheConsistent
PROPERTIES GateOnlyIf UniformRefusal WrapperShape NoReplayWhileValid BurstAdmitsOne GateComplete
CHECK_DEADLOCK FALSE
