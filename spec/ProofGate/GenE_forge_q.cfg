\* quick: refused presentations must not change the cache.  Capacities 1, 2, 3; two proofs dated expired /
\* in window / not yet valid; forged forms = {own, fresh, the other proof's} nonce x {flipped MAC, stranger's key};
\* runs of up to 3 refusals at one exit (ghost press), then the canonical form of every proof
SPECIFICATION Spec
CONSTANTS
    Skew = 2
    NonceTTL = 5
    Sub = 1
    Start = 3
    MaxNow = 5
    TickSteps = {2}
    NProofs = 2
    TsChoices = {0, 3, 6}
    FarChoices = {"near"}
    NonceIds = {1, 2}
    ShareNonces = FALSE
    KidChoices = {"k1"}
    Caps = {1, 2, 3}
    DefaultCap = 100000
    CacheModes = {TRUE}
    Modes = {"require"}
    Inners = {"accept"}
    Builds = {"ok"}
    MaxDev = 2
    DevVals = {"flip", "strangerKey", "nfresh", "nother"}
    PresentBudget = 0
    BurstN = 0
    PressMax = 3
    TouchOn = {}
    Mode = "edges"
    Depth = 0
VIEW View
CHECK_DEADLOCK FALSE
