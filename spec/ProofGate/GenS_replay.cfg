\* thorough: seeded random walks
SPECIFICATION Spec
CONSTANTS
    Skew = 2
    NonceTTL = 5
    Sub = 1
    Start = 3
    MaxNow = 12
    TickSteps = {1, 2}
    NProofs = 3
    TsChoices = {0, 1, 3, 5, 6}
    FarChoices = {"near", "fut10", "futmax", "past12"}
    NonceIds = {1, 2, 3}
    ShareNonces = TRUE
    KidChoices = {"k1"}
    Caps = {1, 2, 0}
    DefaultCap = 100000
    CacheModes = {TRUE, FALSE}
    Modes = {"require"}
    Inners = {"accept"}
    Builds = {"ok"}
    MaxDev = 1
    DevVals = {"flip", "otherOrigin", "none"}
    PresentBudget = 0
    BurstN = 64
    PressMax = 0
    TouchOn = {}
    Mode = "tree"
    Depth = 40
CHECK_DEADLOCK FALSE
