\* thorough: refused presentations must not change the cache.  Capacities 1..4, runs of up to 4 refusals at
\* one exit - the window exits, the MAC exit and two exits before them (version, unknown key id) -
\* with own / fresh / the other proof's nonce; clock ticks of 1 s over 3 s
SPECIFICATION Spec
CONSTANTS
    Skew = 2
    NonceTTL = 5
    Sub = 1
    Start = 3
    MaxNow = 6
    TickSteps = {1}
    NProofs = 2
    TsChoices = {0, 3, 6}
    FarChoices = {"near"}
    NonceIds = {1, 2}
    ShareNonces = FALSE
    KidChoices = {"k1"}
    Caps = {1, 2, 3, 4}
    DefaultCap = 100000
    CacheModes = {TRUE}
    Modes = {"require"}
    Inners = {"accept"}
    Builds = {"ok"}
    MaxDev = 3
    DevVals = {"flip", "strangerKey", "otherOrigin", "nfresh", "nother", "unknown", "v2"}
    PresentBudget = 0
    BurstN = 0
    PressMax = 4
    TouchOn = {}
    Mode = "mc"
    Depth = 0
VIEW View
INVARIANTS TypeOK CacheConsistent
PROPERTIES GateOnlyIf UniformRefusal WrapperShape NoReplayWhileValid BurstAdmitsOne GateComplete
CHECK_DEADLOCK FALSE
