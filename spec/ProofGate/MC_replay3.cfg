\* replay part, 3 proofs (thorough): capacity eviction among three distinct proofs
SPECIFICATION Spec
CONSTANTS
    Skew = 2
    NonceTTL = 5
    Sub = 1
    Start = 3
    MaxNow = 9
    TickSteps = {1}
    NProofs = 3
    TsChoices = {1, 3, 5}
    FarChoices = {"near"}
    NonceIds = {1, 2, 3}
    ShareNonces = TRUE
    KidChoices = {"k1"}
    Caps = {1, 2}
    DefaultCap = 100000
    CacheModes = {TRUE}
    Modes = {"require"}
    Inners = {"accept"}
    Builds = {"ok"}
    MaxDev = 1
    DevVals = {"flip"}
    PresentBudget = 0
    BurstN = 64
    PressMax = 0
    TouchOn = {}
    Mode = "mc"
    Depth = 0
VIEW View
INVARIANTS TypeOK CacheConsistent
PROPERTIES GateOnlyIf UniformRefusal WrapperShape NoReplayWhileValid BurstAdmitsOne GateComplete
CHECK_DEADLOCK FALSE
