\* thorough: gate table, <= 3 deviating fields, require mode
SPECIFICATION Spec
CONSTANTS
    Skew = 2
    NonceTTL = 5
    Sub = 1
    Start = 3
    MaxNow = 3
    TickSteps = {1}
    NProofs = 1
    TsChoices = {0, 1, 3, 5, 6}
    FarChoices = {"near", "fut9", "fut10", "fut12", "fut15", "futmax", "past9", "past10", "past12", "past15"}
    NonceIds = {1}
    ShareNonces = FALSE
    KidChoices = {"k1"}
    Caps = {0}
    DefaultCap = 100000
    CacheModes = {TRUE}
    Modes = {"require"}
    Inners = {"accept"}
    Builds = {"ok"}
    MaxDev = 3
    DevVals = {"*"}
    PresentBudget = 1
    BurstN = 0
    PressMax = 0
    TouchOn = {}
    Mode = "edges"
    Depth = 0
VIEW View
CHECK_DEADLOCK FALSE
