------------------------------ MODULE ProofGate ------------------------------
(***************************************************************************)
(* Proxy-proof gate of vgi-rpc-go (vgirpc/proof.go): ProofAuthenticate,    *)
(* verifyRequestProof, VerifyProof and the nonce cache.                     *)
(*                                                                         *)
(* A proof is the header value  v1.<kid>.<ts>.<nonce>.<mac>  where mac is  *)
(* HMAC-SHA256 over (domain, kid, ts, nonce, origin) under the key that    *)
(* the worker has configured for <kid>.  The worker supplies its own       *)
(* origin, so a proof minted for another worker does not verify.           *)
(*                                                                         *)
(* What is modelled, the way the code does it:                             *)
(*   - the clock (ProofConfig.Now): ticks of 1/Sub second.  The timestamp  *)
(*     window is evaluated on whole seconds (Now().Unix()), the nonce      *)
(*     cache on the full-resolution time.                                  *)
(*   - the nonce cache: insertion-ordered entries [nonce, expiresAt]; one  *)
(*     locked operation checkAndAdd = sweep the expired prefix, test       *)
(*     membership, evict from the front while full, push.  It is keyed by  *)
(*     the nonce alone.                                                    *)
(*   - a presentation = one request = (which proof, in which form).  The   *)
(*     form says for every field of the header in which class it lies.     *)
(*     The checks run in the order of the code; every exit of the code is  *)
(*     one named action (Gate_* refuse without touching the cache,         *)
(*     Cache_* are the two outcomes of checkAndAdd).                       *)
(*   - ProofAuthenticate's wrapper: require/allow mode, optional inner     *)
(*     authenticator which runs only after the gate let the request pass.  *)
(*   - Burst: BurstN goroutines presenting the same proof at one instant   *)
(*     (checkAndAdd is one critical section: at most one of them is        *)
(*     admitted).                                                          *)
(*                                                                         *)
(* NonceTTL (seconds an entry lives) is a constant of the model so that    *)
(* both designs can be checked:                                            *)
(*     NonceTTL = Skew          the code as it is (ProofAuthenticate passes *)
(*                              SkewSeconds as ttl)  -> NoReplayWhileValid  *)
(*                              is VIOLATED (MC_asis.cfg)                   *)
(*     NonceTTL = 2*Skew + 1    the entry outlives the whole acceptance     *)
(*                              window of its proof -> the property holds   *)
(* All registered cfgs use the second value: the behaviours replayed into  *)
(* the code are those of the design that satisfies C25.                    *)
(*                                                                         *)
(* Refused presentations and the cache.  Every exit of VerifyProof before   *)
(* checkAndAdd leaves the cache alone, whatever nonce the refused header    *)
(* carried.  Two things make that a checked statement rather than a         *)
(* self-loop nobody walks twice:                                            *)
(*   - the nonce field of a form can be "nfresh" (a well-formed nonce no    *)
(*     proof carries and nobody presented before) or "nother" (the nonce of *)
(*     the next proof of the palette: pre-burning) - always under a MAC     *)
(*     that is not right, a forger has no key;                              *)
(*   - the ghost `press` counts the run of refused, nonce-carrying          *)
(*     presentations at one exit (up to PressMax of them, the first with    *)
(*     any nonce, the following ones with fresh nonces).  It is part of the *)
(*     VIEW, so edges mode walks "k refusals at exit X, then the canonical  *)
(*     form of every proof" from every cache state, for k up to the         *)
(*     largest capacity.                                                    *)
(* TouchOn names the refusing exits that run checkAndAdd on the presented   *)
(* nonce before they refuse: {} is the code; {"Gate_BadMac"} is the design  *)
(* "look the nonce up before paying for the HMAC" (MC_premac.cfg: refused   *)
(* forgeries evict an accepted proof's nonce -> NoReplayWhileValid VIOLATED,*)
(* and pre-burn a nonce -> GateComplete VIOLATED).                          *)
(*                                                                         *)
(* Property C25 is stated declaratively at the end (GateOnlyIf,            *)
(* UniformRefusal, NoReplayWhileValid, BurstAdmitsOne).                    *)
(***************************************************************************)
EXTENDS Integers, Sequences, FiniteSets, TLC, VerifEmit

CONSTANTS
    Skew,          \* cfg.SkewSeconds: half width of the timestamp window, seconds
    NonceTTL,      \* lifetime of a nonce-cache entry, seconds (see above)
    Sub,           \* clock ticks per second (1, or 2 to expose the Unix() truncation)
    Start,         \* the clock runs Start..MaxNow ticks (cfg files cannot hold negative
    MaxNow,        \*   numbers, so timestamps "in the past" need a clock that starts above 0)
    TickSteps,     \* increments offered to Tick, in ticks
    NProofs,       \* proofs minted up front: 1..NProofs
    TsChoices,     \* timestamps (seconds on the same axis as the clock) a proof may carry
    FarChoices,    \* subset of FarClasses: "near" = the timestamp is the number ts; the others put
                   \*   it 1e9 .. 1e15 seconds or nearly MaxInt64 away from the clock
    NonceIds,      \* nonce identities a proof may carry
    ShareNonces,   \* TRUE: two proofs may carry the same nonce; FALSE: proof p carries nonce p
    KidChoices,    \* subset of {"k1","k2"}: configured key id a proof is minted under
    Caps,          \* cfg.ReplayCapacity values offered; <= 0 means "use the default"
    DefaultCap,    \* defaultReplayCapacity
    CacheModes,    \* subset of BOOLEAN: replay cache enabled?
    Modes,         \* subset of {"require","allow"}
    Inners,        \* subset of {"none","accept","reject","unavailable"}
    Builds,        \* subset of BuildClasses: configuration classes offered to ProofAuthenticate
    MaxDev,        \* forms offered: at most this many header fields off the canonical value
    DevVals,       \* ... and every deviating value is in this set ({"*"} = any)
    PresentBudget, \* number of presentations per behaviour; 0 = unlimited
    BurstN,        \* goroutines of a Burst; 0 disables the action
    PressMax,      \* longest run of refused nonce-carrying presentations the ghost `press`
                   \*   tells apart (>= the largest capacity on offer); 0 = ghost off
    TouchOn,       \* refusing exits that run checkAndAdd before refusing; {} = the code
    Mode,          \* "mc" | "edges" | "tree"
    Depth          \* tree mode: emit behaviours of exactly this length

VARIABLES
    conf,          \* configuration chosen by Init: [build, mode, inner, cache, cap]
    proofs,        \* 1..NProofs -> [ts, nonce, kid, far]   (fixed by Init)
    now,           \* clock, ticks
    cache,         \* nonce cache: sequence of [n |-> nonce, e |-> expiresAt (ticks)]
    since,         \* ghost: since[p] = the distinct proofs the cache has admitted since p was
                   \*        last accepted, p included; {} while p was never accepted
    spent,         \* presentations made (stays 0 when the budget is unlimited)
    press,         \* ghost: the current run of refused presentations [br, k, o]: k of them, all
                   \*        at exit br, the first carrying nonce id o (0 = a fresh one), the
                   \*        others fresh nonces; k = 0: no run
    hist           \* observation/history variable: sequence of step records

vars == <<conf, proofs, now, cache, since, spent, press, hist>>

PIds == 1..NProofs
Abs(x) == IF x < 0 THEN -x ELSE x

--------------------------------------------------------------------------
(* Time.                                                                   *)
Sec(t) == t \div Sub                 \* Now().Unix(): whole seconds of tick t
TTLTicks == NonceTTL * Sub
Capacity == IF conf.cap <= 0 THEN DefaultCap ELSE conf.cap

--------------------------------------------------------------------------
(* Forms: in which class every field of the presented header lies.  The   *)
(* first value of every field is the canonical one (what MintProof makes). *)
HdrC   == {"one",     \* exactly one VGI-Proxy-Proof header
           "none",    \* no header
           "hempty",  \* header present, empty value
           "two",     \* two header lines
           "comma"}   \* one line holding a comma-joined list
ShapeC == {"f5", "f4", "f6"}                      \* number of dot-separated fields
VerC   == {"v1", "v2", "vempty"}
KidC   == {"kown",      \* the key id the proof was minted under (configured)
           "unknown",   \* well-formed, not configured
           "kcharset",  \* character outside [A-Za-z0-9_-]
           "k65",       \* 65+ characters (header still <= 512)
           "kempty",
           "khuge"}     \* so long that the header exceeds 512 bytes
TscC   == {"town",      \* decimal rendering of the proof's timestamp
           "nondigit", "digits21", "tempty",
           "overflow"}  \* 20 digits, does not fit int64
NonceC == {"n22",        \* the proof's own nonce
           "n21", "n23", "ncharset",
           "nfresh",     \* 22 url-safe characters that no proof carries and nobody has presented
           "nother"}     \* the nonce of the next proof of the palette
MacC   == {"right",        \* key configured for the claimed kid, this worker's origin
           "otherOrigin",  \* minted for another worker
           "otherKey",     \* key of the other configured kid
           "strangerKey",  \* a key this worker does not hold
           "flip",         \* right MAC with one character changed
           "m42", "m44", "mcharset"}

Canon == [hdr |-> "one", shape |-> "f5", ver |-> "v1", kid |-> "kown",
          tsc |-> "town", nonce |-> "n22", mac |-> "right"]
Fields == DOMAIN Canon
Classes == [hdr |-> HdrC, shape |-> ShapeC, ver |-> VerC, kid |-> KidC,
            tsc |-> TscC, nonce |-> NonceC, mac |-> MacC]
\* single deviations <<field, value>> on offer: every non-canonical class, or those in DevVals
Devs == {d \in UNION {{<<k, v>> : v \in Classes[k] \ {Canon[k]}} : k \in Fields} :
            "*" \in DevVals \/ d[2] \in DevVals}
DevFields(f) == {k \in Fields : f[k] # Canon[k]}
\* forms with at most n fields off the canonical value
RECURSIVE FormsUpTo(_)
FormsUpTo(n) ==
    IF n = 0 THEN {Canon}
    ELSE LET F == FormsUpTo(n - 1) IN
         F \cup {[f EXCEPT ![d[1]] = d[2]] : f \in F, d \in Devs}
\* (TLCEval: enumerate once instead of at every use)
Forms == TLCEval({f \in FormsUpTo(MaxDev) :
            \* without a header value the other fields do not exist
            /\ f.hdr \in {"none", "hempty"} => DevFields(f) = {"hdr"}
            \* another nonce under a right MAC would be another genuine proof: those are the
            \* palette proofs[]; a form is what someone without the key does to a header
            /\ f.nonce \in {"nfresh", "nother"} => f.mac # "right"
            /\ f.nonce = "nother" => NProofs > 1})

BuildClasses == {"ok", "mode_off", "mode_bogus", "origin_bad", "no_secrets",
                 "kid_bad", "secret_short", "skew_zero", "skew_negative"}

--------------------------------------------------------------------------
(* verifyRequestProof + VerifyProof, in the order of the code.             *)
(*                                                                         *)
(* PreLadder: the checks that depend on the header alone (and on which     *)
(* key ids are configured), in code order; the first one that fails names  *)
(* the exit.  Then the two-sided window on whole seconds, then the MAC,    *)
(* then the nonce cache.                                                   *)
PreLadder(f) == <<
  [br |-> "Gate_NoProof",         reason |-> "no_proof",    fails |-> f.hdr \in {"none", "hempty"}],
  [br |-> "Gate_MultipleHeaders", reason |-> "malformed",   fails |-> f.hdr \in {"two", "comma"}],
  [br |-> "Gate_TooLong",         reason |-> "malformed",   fails |-> f.kid = "khuge"],
  [br |-> "Gate_FieldCount",      reason |-> "malformed",   fails |-> f.shape # "f5"],
  [br |-> "Gate_Version",         reason |-> "malformed",   fails |-> f.ver # "v1"],
  [br |-> "Gate_KidCharset",      reason |-> "malformed",   fails |-> f.kid \in {"kcharset", "k65", "kempty", "khuge"}],
  [br |-> "Gate_TsCharset",       reason |-> "malformed",   fails |-> f.tsc \in {"nondigit", "digits21", "tempty"}],
  [br |-> "Gate_NonceCharset",    reason |-> "malformed",   fails |-> f.nonce \in {"n21", "n23", "ncharset"}],
  [br |-> "Gate_MacCharset",      reason |-> "malformed",   fails |-> f.mac \in {"m42", "m44", "mcharset"}],
  [br |-> "Gate_UnknownKid",      reason |-> "unknown_kid", fails |-> f.kid = "unknown"],
  [br |-> "Gate_TsOverflow",      reason |-> "malformed",   fails |-> f.tsc = "overflow"] >>
NPre == 11

\* index of the first failing header check, 0 when the timestamp is parsed and compared
PreFail(f) ==
    LET L == PreLadder(f)
        S == {i \in 1..NPre : L[i].fails}
    IN IF S = {} THEN 0 ELSE CHOOSE i \in S : \A j \in S : i <= j

\* the offered forms by exit (constant: evaluated once)
FormsAt == TLCEval([i \in 0..NPre |-> TLCEval({f \in Forms : PreFail(f) = i})])

\* Timestamps that lie further from the clock than any model clock runs (and than TLC's
\* 32-bit integers reach) are symbolic: the class says on which side and how far, the driver
\* picks the number.  They are 10..19-digit decimals, i.e. inside the 1-20 digit charset, and
\* all fit int64, so they reach the window comparison like any other timestamp.  The code
\* compares int64 seconds, which cannot overflow for two non-negative operands.
FutClasses == {"fut9",     \* now + 1e9   (31 years: representable as a time.Duration)
               "fut10",    \* now + 1e10  (317 years: beyond the range of time.Duration)
               "fut12", "fut15",
               "futmax"}   \* MaxInt64 and its neighbourhood
PastClasses == {"past9", "past10", "past12", "past15"}     \* now - 1e9 .. now - 1e15
FarClasses == {"near"} \cup FutClasses \cup PastClasses
Near(p) == proofs[p].far = "near"

Age(p) == Sec(now) - proofs[p].ts          \* age := nowFn().Unix() - ts   (near timestamps)
TooOld(p) == IF Near(p) THEN Age(p) > Skew      \* if age > skew   -> expired
             ELSE proofs[p].far \in PastClasses
TooNew(p) == IF Near(p) THEN -Age(p) > Skew     \* if -age > skew  -> not_yet_valid
             ELSE proofs[p].far \in FutClasses

--------------------------------------------------------------------------
(* nonceCache.checkAndAdd, one critical section.                           *)
RECURSIVE SweepPrefix(_, _)
SweepPrefix(c, t) ==          \* for front.expiresAt.After(now) is false: drop front
    IF c # <<>> /\ Head(c).e <= t THEN SweepPrefix(Tail(c), t) ELSE c

RECURSIVE EvictWhileFull(_, _)
EvictWhileFull(c, cap) ==     \* for order.Len() >= capacity: drop front
    IF Len(c) >= cap THEN EvictWhileFull(Tail(c), cap) ELSE c

Nonces(c) == {c[i].n : i \in 1..Len(c)}

\* checkAndAdd(n) on cache c at time t: the cache afterwards
CheckAndAdd(c, n, t) ==
    LET swept == SweepPrefix(c, t) IN
    IF n \in Nonces(swept) THEN swept
    ELSE Append(EvictWhileFull(swept, Capacity), [n |-> n, e |-> t + TTLTicks])

--------------------------------------------------------------------------
(* Which nonce a presentation carries.                                      *)
OtherP(p) == (p % NProofs) + 1
\* the header has a nonce field the code gets to see: one header line of five fields
CarriesNonce(f) == /\ f.hdr = "one" /\ f.shape = "f5" /\ f.kid # "khuge"
                   /\ f.nonce \in {"n22", "nfresh", "nother"}
\* its identity: a nonce id of the palette, or 0 for a fresh one
NonceOf(p, f) == CASE f.nonce = "nother" -> proofs[OtherP(p)].nonce
                   [] f.nonce = "nfresh" -> 0
                   [] OTHER              -> proofs[p].nonce
\* an id for a fresh nonce should it ever get into a cache (TouchOn # {}): any id that is
\* neither a palette nonce nor in the cache is as good as a never-seen one
MaxNonceId == CHOOSE m \in NonceIds : \A n \in NonceIds : n <= m
FreshId(c) == CHOOSE n \in (MaxNonceId + 1)..(MaxNonceId + Len(c) + 1) : n \notin Nonces(c)

NoPress == [br |-> "-", k |-> 0, o |-> 0]
Idle == press.k = 0
PressOn == PressMax > 0 /\ conf.cache
\* While a run is on, the only things that happen are one more refusal of the same kind
\* with a fresh nonce, or a probe: the canonical form of some proof (which ends the run).
\* (IF, not \/: TLC would walk every true disjunct of an action guard and emit the step twice)
MayRefuse(f, br) ==
    IF Idle THEN TRUE
    ELSE IF f = Canon THEN TRUE
    ELSE /\ press.br = br /\ press.k < PressMax
         /\ CarriesNonce(f) /\ f.nonce = "nfresh"
MayAccept(f) == IF Idle THEN TRUE ELSE f = Canon
PressAfterRefusal(p, f, br) ==
    IF ~PressOn THEN press
    ELSE IF ~Idle THEN (IF f = Canon THEN NoPress ELSE [press EXCEPT !.k = @ + 1])
    ELSE IF CarriesNonce(f) THEN [br |-> br, k |-> 1, o |-> NonceOf(p, f)]
    ELSE press

--------------------------------------------------------------------------
(* ProofAuthenticate's wrapper around the verdict of the gate.             *)
Label(k) == k      \* ProofSecret.Label of a configured kid (the driver picks the strings)

Answer(verified, reason, p) ==
    IF ~verified /\ conf.mode = "require"
    THEN [pass |-> FALSE, answer |-> "proxy_required", inner |-> 0,
          verified |-> FALSE, reason |-> reason, principal |-> ""]
    ELSE LET pr == IF verified THEN Label(proofs[p].kid) ELSE "" IN
         CASE conf.inner = "none" ->
                [pass |-> TRUE, answer |-> "ok", inner |-> 0,
                 verified |-> verified, reason |-> reason, principal |-> pr]
           [] conf.inner = "accept" ->
                [pass |-> TRUE, answer |-> "ok", inner |-> 1,
                 verified |-> verified, reason |-> reason, principal |-> "inner"]
           [] conf.inner = "reject" ->
                [pass |-> TRUE, answer |-> "inner_reject", inner |-> 1,
                 verified |-> verified, reason |-> reason, principal |-> ""]
           [] conf.inner = "unavailable" ->
                [pass |-> TRUE, answer |-> "inner_unavailable", inner |-> 1,
                 verified |-> verified, reason |-> reason, principal |-> ""]

--------------------------------------------------------------------------
Record(step) ==
    /\ hist' = Append(hist, step)
    /\ (Mode = "edges") => EmitTrace(hist')
    /\ (Mode = "tree" /\ Len(hist') = Depth) => EmitTrace(hist')

Budget == (Mode = "tree") => Len(hist) < Depth

CanPresent == Budget /\ conf.build = "ok" /\ (PresentBudget = 0 \/ spent < PresentBudget)
Spend == spent' = IF PresentBudget = 0 THEN 0 ELSE spent + 1

\* ghost update when the cache admits proof p
SinceAfterAdmit(p) ==
    [q \in PIds |-> IF q = p THEN {p}
                    ELSE IF since[q] # {} THEN since[q] \cup {p} ELSE {}]

(* Every exit of VerifyProof before the cache: nothing is remembered -      *)
(* unless the exit is in TouchOn (not the code): then checkAndAdd has run   *)
(* on the presented nonce first, and a nonce it knew is reported as such.   *)
Touches(f, br) == br \in TouchOn /\ conf.cache /\ CarriesNonce(f)
Refuse(p, f, br, reason) ==
    /\ MayRefuse(f, br)
    /\ Spend
    /\ press' = PressAfterRefusal(p, f, br)
    /\ UNCHANGED <<conf, proofs, now, since>>
    /\ IF Touches(f, br)
       THEN LET swept == SweepPrefix(cache, now)
                n == IF NonceOf(p, f) = 0 THEN FreshId(swept) ELSE NonceOf(p, f) IN
            /\ cache' = CheckAndAdd(cache, n, now)
            /\ Record([a |-> br, args |-> [p |-> p, f |-> f, now |-> now],
                       exp |-> Answer(FALSE, IF n \in Nonces(swept) THEN "replayed" ELSE reason, p)])
       ELSE /\ UNCHANGED cache
            /\ Record([a |-> br, args |-> [p |-> p, f |-> f, now |-> now],
                       exp |-> Answer(FALSE, reason, p)])

PreRefusal(i) ==
    \E p \in PIds, f \in FormsAt[i] :
       /\ CanPresent
       /\ Refuse(p, f, PreLadder(f)[i].br, PreLadder(f)[i].reason)

Gate_NoProof         == PreRefusal(1)
Gate_MultipleHeaders == PreRefusal(2)
Gate_TooLong         == PreRefusal(3)
Gate_FieldCount      == PreRefusal(4)
Gate_Version         == PreRefusal(5)
Gate_KidCharset      == PreRefusal(6)
Gate_TsCharset       == PreRefusal(7)
Gate_NonceCharset    == PreRefusal(8)
Gate_MacCharset      == PreRefusal(9)
Gate_UnknownKid      == PreRefusal(10)
Gate_TsOverflow      == PreRefusal(11)

Gate_Expired ==
    \E p \in PIds, f \in FormsAt[0] :
       /\ CanPresent /\ TooOld(p)
       /\ Refuse(p, f, "Gate_Expired", "expired")

Gate_NotYetValid ==
    \E p \in PIds, f \in FormsAt[0] :
       /\ CanPresent /\ ~TooOld(p) /\ TooNew(p)
       /\ Refuse(p, f, "Gate_NotYetValid", "not_yet_valid")

Gate_BadMac ==
    \E p \in PIds, f \in FormsAt[0] :
       /\ CanPresent /\ ~TooOld(p) /\ ~TooNew(p) /\ f.mac # "right"
       /\ Refuse(p, f, "Gate_BadMac", "bad_mac")

\* the proof verified: header well-formed, kid configured, inside the window, MAC right
ReachesCache(p, f) == f \in FormsAt[0] /\ ~TooOld(p) /\ ~TooNew(p) /\ f.mac = "right"

(* cache == nil: the MAC verified, nothing else is consulted.               *)
NoCache_Verified ==
    \E p \in PIds, f \in Forms :
       /\ CanPresent /\ ReachesCache(p, f) /\ ~conf.cache
       /\ Spend
       /\ UNCHANGED <<conf, proofs, now, cache, since, press>>
       /\ Record([a |-> "NoCache_Verified", args |-> [p |-> p, f |-> f, now |-> now],
                  exp |-> Answer(TRUE, "ok", p)])

(* checkAndAdd returns false: the sweep has run, nothing is added.          *)
Cache_Replayed ==
    \E p \in PIds, f \in Forms :
       /\ CanPresent /\ ReachesCache(p, f) /\ conf.cache /\ MayAccept(f)
       /\ LET swept == SweepPrefix(cache, now) IN
          /\ proofs[p].nonce \in Nonces(swept)
          /\ cache' = swept
       /\ Spend
       /\ press' = NoPress
       /\ UNCHANGED <<conf, proofs, now, since>>
       /\ Record([a |-> "Cache_Replayed", args |-> [p |-> p, f |-> f, now |-> now],
                  exp |-> Answer(FALSE, "replayed", p)])

(* checkAndAdd returns true: swept, evicted from the front while full,      *)
(* pushed with expiresAt = now + ttl.                                       *)
Cache_Admitted ==
    \E p \in PIds, f \in Forms :
       /\ CanPresent /\ ReachesCache(p, f) /\ conf.cache /\ MayAccept(f)
       /\ LET swept == SweepPrefix(cache, now) IN
          /\ proofs[p].nonce \notin Nonces(swept)
          /\ cache' = Append(EvictWhileFull(swept, Capacity),
                             [n |-> proofs[p].nonce, e |-> now + TTLTicks])
       /\ since' = SinceAfterAdmit(p)
       /\ Spend
       /\ press' = NoPress
       /\ UNCHANGED <<conf, proofs, now>>
       /\ Record([a |-> "Cache_Admitted", args |-> [p |-> p, f |-> f, now |-> now],
                  exp |-> Answer(TRUE, "ok", p)])

(* BurstN goroutines present the canonical form of p at the same instant    *)
(* (require mode).  checkAndAdd is atomic, so the outcome is that of one    *)
(* sequential presentation followed by BurstN-1 replays of it.              *)
Burst ==
    \E p \in PIds :
       /\ CanPresent /\ BurstN > 0 /\ conf.mode = "require" /\ Idle
       /\ LET ok    == ReachesCache(p, Canon)
              swept == SweepPrefix(cache, now)
              fresh == proofs[p].nonce \notin Nonces(swept)
              n     == IF ~ok THEN 0 ELSE IF ~conf.cache THEN BurstN
                       ELSE IF fresh THEN 1 ELSE 0 IN
          /\ cache' = IF ok /\ conf.cache
                      THEN IF fresh
                           THEN Append(EvictWhileFull(swept, Capacity),
                                       [n |-> proofs[p].nonce, e |-> now + TTLTicks])
                           ELSE swept
                      ELSE cache
          /\ since' = IF ok /\ conf.cache /\ fresh THEN SinceAfterAdmit(p) ELSE since
          /\ Record([a |-> "Burst", args |-> [p |-> p, n |-> BurstN, now |-> now],
                     exp |-> [admitted |-> n,
                              inner |-> IF conf.inner = "none" THEN 0 ELSE n]])
       /\ Spend
       /\ UNCHANGED <<conf, proofs, now, press>>

Tick ==
    \E d \in TickSteps :
       /\ Budget /\ conf.build = "ok" /\ Idle
       /\ now + d <= MaxNow
       /\ now' = now + d
       /\ UNCHANGED <<conf, proofs, cache, since, spent, press>>
       /\ Record([a |-> "Tick", args |-> [d |-> d, now |-> now + d], exp |-> [now |-> now + d]])

(* ProofAuthenticate refuses to build a gate from a bad configuration.      *)
Build_Refused ==
    /\ Budget /\ conf.build # "ok" /\ spent = 0
    /\ spent' = 1
    /\ UNCHANGED <<conf, proofs, now, cache, since, press>>
    /\ Record([a |-> "Build_Refused", args |-> [build |-> conf.build], exp |-> [built |-> FALSE]])

Init ==
    /\ conf \in [build : Builds, mode : Modes, inner : Inners, cache : CacheModes, cap : Caps]
    /\ proofs \in [PIds -> [ts : TsChoices, nonce : NonceIds, kid : KidChoices, far : FarChoices]]
    \* a far timestamp makes ts meaningless: pin it, and list far proofs after near ones of that ts
    /\ \A p \in PIds : ~Near(p) => \A t \in TsChoices : proofs[p].ts <= t
    /\ \A p \in PIds : (p + 1 \in PIds /\ proofs[p].ts = proofs[p + 1].ts /\ ~Near(p)) => ~Near(p + 1)
    \* symmetry: proofs are listed in non-decreasing (ts, nonce) order, and nonce ids are used
    \* from the smallest up
    /\ \A p \in PIds : p + 1 \in PIds =>
          \/ proofs[p].ts < proofs[p + 1].ts
          \/ proofs[p].ts = proofs[p + 1].ts /\ proofs[p].nonce <= proofs[p + 1].nonce
    /\ \A p \in PIds : \A m \in NonceIds :
          m < proofs[p].nonce => \E q \in PIds : q < p /\ proofs[q].nonce = m
    /\ ~ShareNonces => \A p \in PIds : proofs[p].nonce = p
    /\ now = Start
    /\ cache = <<>>
    /\ since = [p \in PIds |-> {}]
    /\ spent = 0
    /\ press = NoPress
    /\ hist = << [a |-> "Init",
                  args |-> [Skew |-> Skew, Sub |-> Sub, now |-> Start, conf |-> conf,
                            proofs |-> proofs, BurstN |-> BurstN, DefaultCap |-> DefaultCap],
                  exp |-> [built |-> conf.build = "ok"]] >>

Next ==
    \/ Gate_NoProof \/ Gate_MultipleHeaders \/ Gate_TooLong \/ Gate_FieldCount
    \/ Gate_Version \/ Gate_KidCharset \/ Gate_TsCharset \/ Gate_NonceCharset
    \/ Gate_MacCharset \/ Gate_UnknownKid \/ Gate_TsOverflow \/ Gate_Expired
    \/ Gate_NotYetValid \/ Gate_BadMac
    \/ NoCache_Verified \/ Cache_Replayed \/ Cache_Admitted
    \/ Burst \/ Tick \/ Build_Refused

Spec == Init /\ [][Next]_vars

--------------------------------------------------------------------------
(* Properties of the viewed state (INVARIANTs).                             *)
TypeOK ==
    /\ now \in Start..MaxNow
    /\ \A i \in 1..Len(cache) : cache[i].n \in NonceIds \/ (TouchOn # {} /\ cache[i].n \in Nat)
    /\ press.k \in 0..PressMax /\ press.o \in NonceIds \cup {0}
    /\ \A p \in PIds : since[p] \subseteq PIds

\* "Uniform TTL means insertion order is expiry order, so expired entries are always a prefix"
CacheOrderedByExpiry == \A i \in 1..Len(cache) - 1 : cache[i].e <= cache[i + 1].e
CacheBounded == Len(cache) <= Capacity
CacheNoDuplicates == \A i, j \in 1..Len(cache) : i # j => cache[i].n # cache[j].n
CacheConsistent == CacheOrderedByExpiry /\ CacheBounded /\ CacheNoDuplicates

--------------------------------------------------------------------------
(* C25, stated declaratively on transitions.  Last is the step just taken;  *)
(* unprimed variables are the state in which the request arrived.           *)
Last == hist'[Len(hist')]
IsPresentation(s) == s.a \notin {"Init", "Tick", "Burst", "Build_Refused"}

\* "its timestamp is within the skew window" -- two-sided, on whole seconds
WithinWindow(p, t) == Near(p) /\ Abs(Sec(t) - proofs[p].ts) <= Skew

\* "carries exactly one proof header whose MAC verifies under a configured key id for this
\*  worker's origin and whose timestamp is within the skew window"
ValidProof(p, f) ==
    /\ f.hdr = "one"
    /\ f.kid = "kown"             \* claims the configured key id it was minted under
    /\ f.mac = "right"            \* MAC under that key id's secret and this worker's origin
    /\ f.tsc = "town"
    /\ WithinWindow(p, now)

\* In require mode a request passes the gate only if it carries a valid proof.
GateOnlyIf ==
    [][ (IsPresentation(Last) /\ conf.mode = "require" /\ Last.exp.pass)
           => ValidProof(Last.args.p, Last.args.f) ]_vars

\* Every other request is refused with the same proxy_required answer and the inner
\* authenticator is not called.  (A request that passes is never answered proxy_required.)
UniformRefusal ==
    [][ (IsPresentation(Last) /\ conf.mode = "require")
           => IF Last.exp.pass
              THEN Last.exp.answer # "proxy_required"
              ELSE Last.exp.answer = "proxy_required" /\ Last.exp.inner = 0 ]_vars

\* The gate's verdict is the request's fate in require mode; allow mode never denies;
\* the inner authenticator runs exactly when there is one and the request passed.
WrapperShape ==
    [][ IsPresentation(Last) =>
          /\ Last.exp.pass = (Last.exp.verified \/ conf.mode = "allow")
          /\ Last.exp.inner = (IF Last.exp.pass /\ conf.inner # "none" THEN 1 ELSE 0) ]_vars

\* With the replay cache enabled, a proof that was accepted once is refused on every later
\* presentation for as long as its timestamp would still be accepted, unless the cache has
\* since admitted more distinct proofs than its capacity.
\*   "accepted once"            since[p] # {}
\*   "admitted since"           since[p]: the distinct proofs admitted from that acceptance on,
\*                              the proof itself included (a cache of capacity C remembers C
\*                              proofs: p and C-1 later ones; the C-th later one makes C+1 > C)
\*   "refused"                  not verified (in require mode: does not pass)
NoReplayWhileValid ==
    [][ (IsPresentation(Last) /\ conf.cache) =>
          LET p == Last.args.p IN
          (/\ since[p] # {}
           /\ WithinWindow(p, now)
           /\ Cardinality(since[p]) <= Capacity)
             => ~Last.exp.verified ]_vars

\* Concurrent presentations of one proof: the cache admits at most one of them, and none if
\* NoReplayWhileValid obliges the gate to refuse it.
BurstAdmitsOne ==
    [][ (Last.a = "Burst" /\ conf.cache) =>
          LET p == Last.args.p IN
          /\ Last.exp.admitted <= 1
          /\ (since[p] # {} /\ WithinWindow(p, now)
                /\ Cardinality(since[p]) <= Capacity) => Last.exp.admitted = 0 ]_vars

\* Not part of C25's text, but the sanity direction of the gate: a valid proof whose nonce no
\* accepted proof has used passes.  (Keeps the model honest: a gate refusing everything
\* satisfies all of the above.)
GateComplete ==
    [][ (IsPresentation(Last) /\ ValidProof(Last.args.p, Last.args.f)
           /\ Last.args.f.shape = "f5" /\ Last.args.f.ver = "v1" /\ Last.args.f.nonce = "n22"
           /\ (conf.cache => \A q \in PIds :
                  proofs[q].nonce = proofs[Last.args.p].nonce => since[q] = {}))
           => Last.exp.verified /\ Last.exp.pass ]_vars

View == <<conf, proofs, now, cache, since, spent, press>>
=============================================================================
