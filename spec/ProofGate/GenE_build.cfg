\* configuration classes
SPECIFICATION Spec
CONSTANTS
    Skew = 2
    NonceTTL = 5
    Sub = 1
    Start = 3
    MaxNow = 3
    TickSteps = {1}
    NProofs = 1
    TsChoices = {3}
    FarChoices = {"near"}
    NonceIds = {1}
    ShareNonces = FALSE
    KidChoices = {"k1"}
    Caps = {0}
    DefaultCap = 100000
    CacheModes = {TRUE, FALSE}
    Modes = {"require", "allow"}
    Inners = {"accept"}
    Builds = {"ok", "mode_off", "mode_bogus", "origin_bad", "no_secrets", "kid_bad", "secret_short", "skew_zero", "skew_negative"}
    MaxDev = 0
    DevVals = {"*"}
    PresentBudget = 1
    BurstN = 0
    PressMax = 0
    TouchOn = {}
    Mode = "edges"
    Depth = 0
VIEW View
CHECK_DEADLOCK FALSE
