\* thorough: allow mode never denies (verdict only visible in the recorded claims)
SPECIFICATION Spec
CONSTANTS
    Skew = 2
    NonceTTL = 5
    Sub = 1
    Start = 3
    MaxNow = 10
    TickSteps = {1}
    NProofs = 2
    TsChoices = {0, 1, 3, 5, 6}
    FarChoices = {"near"}
    NonceIds = {1, 2}
    ShareNonces = FALSE
    KidChoices = {"k1"}
    Caps = {1, 0}
    DefaultCap = 100000
    CacheModes = {TRUE}
    Modes = {"allow"}
    Inners = {"none", "reject"}
    Builds = {"ok"}
    MaxDev = 0
    DevVals = {"flip", "otherOrigin", "none"}
    PresentBudget = 0
    BurstN = 64
    PressMax = 0
    TouchOn = {}
    Mode = "edges"
    Depth = 0
VIEW View
CHECK_DEADLOCK FALSE
