\* THE DESIGN "look the nonce up before paying for the HMAC": checkAndAdd runs ahead of the MAC comparison, so the
\* Gate_BadMac exit has already put the presented nonce into the cache (TouchOn).  EXPECTED RESULT: action
\* property GateComplete is violated (a forged header pre-burns the nonce of a genuine proof) and, checked alone,
\* NoReplayWhileValid is violated (proof admitted; capacity-many forged headers with fresh nonces refused; the
\* proof admitted again inside its window).  Not registered in module.json; model-level non-vacuity witness for
\* the press/nfresh/nother part of the model (constants of MC_forge_q.cfg).
SPECIFICATION Spec
CONSTANTS
    Skew = 2
    NonceTTL = 5
    Sub = 1
    Start = 3
    MaxNow = 5
    TickSteps = {2}
    NProofs = 2
    TsChoices = {0, 3, 6}
    FarChoices = {"near"}
    NonceIds = {1, 2}
    ShareNonces = FALSE
    KidChoices = {"k1"}
    Caps = {1, 2, 3}
    DefaultCap = 100000
    CacheModes = {TRUE}
    Modes = {"require"}
    Inners = {"accept"}
    Builds = {"ok"}
    MaxDev = 2
    DevVals = {"flip", "strangerKey", "nfresh", "nother"}
    PresentBudget = 0
    BurstN = 0
    PressMax = 3
    TouchOn = {"Gate_BadMac"}
    Mode = "mc"
    Depth = 0
VIEW View
INVARIANTS TypeOK CacheConsistent
PROPERTIES GateOnlyIf UniformRefusal WrapperShape NoReplayWhileValid BurstAdmitsOne GateComplete
CHECK_DEADLOCK FALSE
