\* quick: replay part, cache on, 2 proofs with distinct nonces, canonical form only
SPECIFICATION Spec
CONSTANTS
    Skew = 2
    NonceTTL = 5
    Sub = 1
    Start = 3
    MaxNow = 9
    TickSteps = {1}
    NProofs = 2
    TsChoices = {0, 1, 3, 5, 6}
    FarChoices = {"near", "fut12"}
    NonceIds = {1, 2}
    ShareNonces = FALSE
    KidChoices = {"k1"}
    Caps = {1, 2, 0}
    DefaultCap = 100000
    CacheModes = {TRUE}
    Modes = {"require"}
    Inners = {"accept"}
    Builds = {"ok"}
    MaxDev = 0
    DevVals = {"flip", "otherOrigin", "none"}
    PresentBudget = 0
    BurstN = 64
    PressMax = 0
    TouchOn = {}
    Mode = "mc"
    Depth = 0
VIEW View
INVARIANTS TypeOK CacheConsistent
PROPERTIES GateOnlyIf UniformRefusal WrapperShape NoReplayWhileValid BurstAdmitsOne GateComplete
CHECK_DEADLOCK FALSE
