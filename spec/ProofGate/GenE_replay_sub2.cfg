\* thorough: half-second clock
SPECIFICATION Spec
CONSTANTS
    Skew = 1
    NonceTTL = 3
    Sub = 2
    Start = 4
    MaxNow = 13
    TickSteps = {1}
    NProofs = 2
    TsChoices = {0, 1, 2, 3, 4}
    FarChoices = {"near"}
    NonceIds = {1, 2}
    ShareNonces = TRUE
    KidChoices = {"k1"}
    Caps = {1, 2, 0}
    DefaultCap = 100000
    CacheModes = {TRUE}
    Modes = {"require"}
    Inners = {"accept"}
    Builds = {"ok"}
    MaxDev = 1
    DevVals = {"flip"}
    PresentBudget = 0
    BurstN = 64
    PressMax = 0
    TouchOn = {}
    Mode = "edges"
    Depth = 0
VIEW View
CHECK_DEADLOCK FALSE
