\* quick: replay cache disabled - only the window bounds replay
SPECIFICATION Spec
CONSTANTS
    Skew = 2
    NonceTTL = 5
    Sub = 1
    Start = 3
    MaxNow = 10
    TickSteps = {1}
    NProofs = 2
    TsChoices = {0, 1, 3, 5, 6}
    FarChoices = {"near", "futmax"}
    NonceIds = {1, 2}
    ShareNonces = FALSE
    KidChoices = {"k1"}
    Caps = {0}
    DefaultCap = 100000
    CacheModes = {FALSE}
    Modes = {"require"}
    Inners = {"accept"}
    Builds = {"ok"}
    MaxDev = 1
    DevVals = {"flip"}
    PresentBudget = 0
    BurstN = 64
    PressMax = 0
    TouchOn = {}
    Mode = "edges"
    Depth = 0
VIEW View
CHECK_DEADLOCK FALSE
