\* quick: 3 proofs against capacity 2 (eviction order), no bursts, one tick of 2 s
SPECIFICATION Spec
CONSTANTS
    Skew = 2
    NonceTTL = 5
    Sub = 1
    Start = 3
    MaxNow = 5
    TickSteps = {2}
    NProofs = 3
    TsChoices = {3, 5}
    FarChoices = {"near"}
    NonceIds = {1, 2, 3}
    ShareNonces = FALSE
    KidChoices = {"k1"}
    Caps = {2}
    DefaultCap = 100000
    CacheModes = {TRUE}
    Modes = {"require"}
    Inners = {"accept"}
    Builds = {"ok"}
    MaxDev = 0
    DevVals = {"flip"}
    PresentBudget = 0
    BurstN = 0
    PressMax = 0
    TouchOn = {}
    Mode = "edges"
    Depth = 0
VIEW View
CHECK_DEADLOCK FALSE
