\* THE CODE AS IT IS: ProofAuthenticate gives the nonce cache ttl = SkewSeconds.
\* EXPECTED RESULT: action property NoReplayWhileValid is violated (proof dated now+Skew accepted, replayed
\* Skew+... later while its timestamp still passes).  Not registered in module.json; kept as the model-level
\* statement of the defect (DESIGN 8, C25).  NonceTTL = 4 (= 2*Skew) is violated too; 5 is the least value that holds.
SPECIFICATION Spec
CONSTANTS
    Skew = 2
    NonceTTL = 2
    Sub = 1
    Start = 3
    MaxNow = 10
    TickSteps = {1}
    NProofs = 2
    TsChoices = {0, 1, 3, 5, 6}
    FarChoices = {"near"}
    NonceIds = {1, 2}
    ShareNonces = TRUE
    KidChoices = {"k1"}
    Caps = {1, 2, 0}
    DefaultCap = 100000
    CacheModes = {TRUE, FALSE}
    Modes = {"require"}
    Inners = {"accept"}
    Builds = {"ok"}
    MaxDev = 1
    DevVals = {"flip", "otherOrigin", "none"}
    PresentBudget = 0
    BurstN = 64
    PressMax = 0
    TouchOn = {}
    Mode = "mc"
    Depth = 0
VIEW View
INVARIANTS TypeOK CacheConsistent
PROPERTIES GateOnlyIf UniformRefusal WrapperShape NoReplayWhileValid BurstAdmitsOne GateComplete
CHECK_DEADLOCK FALSE
