\* replay part, fixed design (nonce lives 2*Skew+1 s): 2 proofs around the window, whole-second clock,
\* capacities 1, 2, default; cache on/off; a few refused forms interleaved
SPECIFICATION Spec
CONSTANTS
    Skew = 2
    NonceTTL = 5
    Sub = 1
    Start = 3
    MaxNow = 10
    TickSteps = {1}
    NProofs = 2
    TsChoices = {0, 1, 3, 5, 6}
    FarChoices = {"near", "fut10", "past10"}
    NonceIds = {1, 2}
    ShareNonces = TRUE
    KidChoices = {"k1"}
    Caps = {1, 2, 0}
    DefaultCap = 100000
    CacheModes = {TRUE, FALSE}
    Modes = {"require"}
    Inners = {"accept"}
    Builds = {"ok"}
    MaxDev = 1
    DevVals = {"flip", "otherOrigin", "none"}
    PresentBudget = 0
    BurstN = 64
    PressMax = 0
    TouchOn = {}
    Mode = "mc"
    Depth = 0
VIEW View
INVARIANTS TypeOK CacheConsistent
PROPERTIES GateOnlyIf UniformRefusal WrapperShape NoReplayWhileValid BurstAdmitsOne GateComplete
CHECK_DEADLOCK FALSE
