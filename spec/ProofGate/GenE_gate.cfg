\* quick: gate table, <= 2 deviating fields, cache on, every mode x inner
SPECIFICATION Spec
CONSTANTS
    Skew = 2
    NonceTTL = 5
    Sub = 1
    Start = 3
    MaxNow = 3
    TickSteps = {1}
    NProofs = 1
    TsChoices = {0, 1, 3, 5, 6}
    FarChoices = {"near"}
    NonceIds = {1}
    ShareNonces = FALSE
    KidChoices = {"k1"}
    Caps = {0}
    DefaultCap = 100000
    CacheModes = {TRUE}
    Modes = {"require", "allow"}
    Inners = {"none", "accept", "reject", "unavailable"}
    Builds = {"ok"}
    MaxDev = 2
    DevVals = {"*"}
    PresentBudget = 1
    BurstN = 0
    PressMax = 0
    TouchOn = {}
    Mode = "edges"
    Depth = 0
VIEW View
CHECK_DEADLOCK FALSE
