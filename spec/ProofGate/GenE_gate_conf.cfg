\* quick: gate table, <= 1 deviating field, both key ids, cache on/off, every mode x inner
SPECIFICATION Spec
CONSTANTS
    Skew = 2
    NonceTTL = 5
    Sub = 1
    Start = 3
    MaxNow = 3
    TickSteps = {1}
    NProofs = 1
    TsChoices = {0, 1, 3, 5, 6}
    FarChoices = {"near", "fut10", "fut15", "futmax", "past10"}
    NonceIds = {1}
    ShareNonces = FALSE
    KidChoices = {"k1", "k2"}
    Caps = {0}
    DefaultCap = 100000
    CacheModes = {TRUE, FALSE}
    Modes = {"require", "allow"}
    Inners = {"none", "accept", "reject", "unavailable"}
    Builds = {"ok"}
    MaxDev = 1
    DevVals = {"*"}
    PresentBudget = 1
    BurstN = 0
    PressMax = 0
    TouchOn = {}
    Mode = "edges"
    Depth = 0
VIEW View
CHECK_DEADLOCK FALSE
