\* thorough: all histories of 7 Tick|Present steps after Init (path dependence), capacity 1 and 2
SPECIFICATION Spec
CONSTANTS
    Skew = 2
    NonceTTL = 5
    Sub = 1
    Start = 3
    MaxNow = 10
    TickSteps = {1}
    NProofs = 2
    TsChoices = {1, 5, 6}
    FarChoices = {"near"}
    NonceIds = {1, 2}
    ShareNonces = FALSE
    KidChoices = {"k1"}
    Caps = {1, 2}
    DefaultCap = 100000
    CacheModes = {TRUE}
    Modes = {"require"}
    Inners = {"accept"}
    Builds = {"ok"}
    MaxDev = 0
    DevVals = {"flip", "otherOrigin", "none"}
    PresentBudget = 0
    BurstN = 0
    PressMax = 0
    TouchOn = {}
    Mode = "tree"
    Depth = 8
CHECK_DEADLOCK FALSE
