\* quick: every transition of the replay model (2 proofs with distinct nonces, cache on, capacity 1 and 2)
SPECIFICATION Spec
CONSTANTS
    Skew = 2
    NonceTTL = 5
    Sub = 1
    Start = 3
    MaxNow = 10
    TickSteps = {1}
    NProofs = 2
    TsChoices = {0, 1, 3, 5, 6}
    FarChoices = {"near", "fut12"}
    NonceIds = {1, 2}
    ShareNonces = FALSE
    KidChoices = {"k1"}
    Caps = {1, 2}
    DefaultCap = 100000
    CacheModes = {TRUE}
    Modes = {"require"}
    Inners = {"accept"}
    Builds = {"ok"}
    MaxDev = 0
    DevVals = {"flip"}
    PresentBudget = 0
    BurstN = 64
    PressMax = 0
    TouchOn = {}
    Mode = "edges"
    Depth = 0
VIEW View
CHECK_DEADLOCK FALSE
