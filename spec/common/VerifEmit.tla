---------------------------- MODULE VerifEmit ----------------------------
(* Shared emission helpers: every specification prints the behaviours the *)
(* Go harness replays as lines  <<"TRACE", "<json array of steps>">>.      *)
EXTENDS TLC, Json, Sequences, Naturals

\* Print one behaviour (a sequence of step records) as a JSON array.
EmitTrace(h) == PrintT(<<"TRACE", ToJson(h)>>)

\* Class-witness emission: print h only the first time signature sig is seen.
\* Needs -workers 1 (TLCGet/TLCSet registers are per worker).
EmitOncePerClass(sig, h) ==
    LET seen == TLCGet(1) IN
    IF sig \in seen THEN TRUE
    ELSE TLCSet(1, seen \cup {sig}) /\ EmitTrace(h)
=============================================================================
