SPECIFICATION Spec
CONSTANTS
    Dom <- DomFull
    Bases <- BasesOnOff
    MaxDev = 2
    UploadAuthBug = FALSE
    Mode = "mc"
    Depth = 0
VIEW View
INVARIANTS ExposeCoversEmittable
PROPERTIES RequestIdRule CapabilityRule HookOnce EmittableCoversModel ExposeRule AuthGate OnlyExemptReachable ExemptReachable
CHECK_DEADLOCK FALSE
