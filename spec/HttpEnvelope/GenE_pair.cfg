SPECIFICATION Spec
CONSTANTS
    Dom <- DomFull
    Bases <- BasesOnOff
    MaxDev = 2
    UploadAuthBug = FALSE
    Mode = "edges"
    Depth = 0
VIEW View

CHECK_DEADLOCK FALSE
