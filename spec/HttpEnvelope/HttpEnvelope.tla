---------------------------- MODULE HttpEnvelope ----------------------------
(***************************************************************************)
(* The HTTP envelope of vgi-rpc-go: HttpServer.ServeHTTP (vgirpc/http.go)  *)
(* and the first decision points of every route it dispatches to.          *)
(*                                                                         *)
(* The module is a decision table with one evolving bit of state.  A CASE  *)
(* is a server configuration together with one request; the state is       *)
(* whether the lazily fired serve-start hook has succeeded yet.  One       *)
(* action per decision branch of the code, in the order the code takes     *)
(* them:                                                                   *)
(*                                                                         *)
(*   resolveRequestID -> notifyTransport (serve-start hook)                *)
(*     -> addCapabilityHeaders -> OPTIONS preflight -> addCorsHeaders      *)
(*     -> max_request_bytes by Content-Length -> mux -> route handler      *)
(*     (authenticate -> content type -> method lookup -> body -> user code)*)
(*                                                                         *)
(* Each action predicts what a client observes (status, request-id class,  *)
(* capability headers, CORS expose list, framework headers on the response)*)
(* and what user code ran (the work journal).  C20 and C22 are stated      *)
(* declaratively at the end and model-checked against those actions.       *)
(*                                                                         *)
(* Every dimension value is a string, so a case is a record of strings and *)
(* cases can be built by deviation from a base case (pairwise reduction).  *)
(* Header names are lower case throughout.                                 *)
(***************************************************************************)
EXTENDS Naturals, Sequences, FiniteSets, TLC, VerifEmit

CONSTANTS
    Dom,            \* record: dimension name -> set of values explored
    Bases,          \* set of base cases (records over all dimensions)
    MaxDev,         \* cases = those deviating from a base in <= MaxDev dimensions;
                    \* MaxDev >= number of dimensions means the full product of Dom
    UploadAuthBug,  \* TRUE models handleUploadURLInit as shipped (never authenticates)
    Mode,           \* "mc" | "edges" | "tree"
    Depth

VARIABLES
    case,           \* the configuration and request under test
    n,              \* requests served so far
    started,        \* the serve-start hook has succeeded (transport binding committed)
    hookCalls,      \* times the serve-start hook ran
    hist

vars == <<case, n, started, hookCalls, hist>>

--------------------------------------------------------------------------
(* Dimensions.                                                             *)
CfgDims == {"prefix", "cors", "maxreq", "maxresp", "maxext", "storage", "upload",
            "proof", "xproxy", "introspect", "sticky", "comp", "auth", "hook",
            "oauth", "dhook"}
ReqDims == {"verb", "route", "shape", "rid", "aenc"}
Dims == CfgDims \cup ReqDims

(* Full domains.  cfgs substitute Dom by one of the tables below.          *)
DomFull == [
    prefix     |-> {"", "/vgi"},
    cors       |-> {"off", "*", "origin"},
    maxreq     |-> {"0", "set"},              \* SetMaxRequestBytes
    maxresp    |-> {"0", "set"},              \* SetMaxResponseBytes
    maxext     |-> {"0", "set"},              \* SetMaxExternalizedResponseBytes
    storage    |-> {"none", "set"},           \* Server.SetExternalLocation(Storage)
    upload     |-> {"none", "set", "setmax"}, \* SetUploadURLProvider (+ SetMaxUploadBytes)
    proof      |-> {"off", "on"},             \* SetProxyProofRequired
    xproxy     |-> {"none", "set"},           \* SetProxyAuthHeaders
    introspect |-> {"off", "on"},             \* EnableTokenIntrospection
    sticky     |-> {"off", "on", "echo", "echoonly"},  \* EnableSticky / SetStickyEchoHeaders
    comp       |-> {"0", "1"},                \* SetCompressionLevel
    \* reject kinds; "<kind>_ctx" returns a non-nil *AuthContext together with the error
    \* ("identified the caller, but ..."): the error alone is the verdict
    auth       |-> {"none", "accept", "authfail", "valueerr", "permerr", "unavail", "other",
                    "authfail_ctx", "valueerr_ctx", "permerr_ctx", "unavail_ctx", "other_ctx"},
    hook       |-> {"none", "ok", "failfirst"},        \* Server.SetServeStartHook
    oauth      |-> {"none", "meta", "pkce"},  \* SetOAuthResourceMetadata / SetOAuthPkce
    dhook      |-> {"off", "on"},             \* Server.SetDispatchHook (installs the egress recorder)
    verb       |-> {"GET", "HEAD", "POST", "OPTIONS", "DELETE"},
    route      |-> {"unary", "describe", "init", "exchange", "upload", "introspect",
                    "health", "healthp", "wellknown", "landing", "descpage", "unknown",
                    "sessdel", "custom", "cb", "logout", "token"},
    shape      |-> {"valid", "badct", "overcl", "overbody", "badenc", "nomethod", "herr", "open"},
    rid        |-> {"absent", "blank", "len1", "len128", "len129", "padded", "padded128", "padded129"},
    aenc       |-> {"none", "custom", "std"} ]

BaseOff == [prefix |-> "", cors |-> "off", maxreq |-> "0", maxresp |-> "0", maxext |-> "0",
            storage |-> "none", upload |-> "none", proof |-> "off", xproxy |-> "none",
            introspect |-> "off", sticky |-> "off", comp |-> "1", auth |-> "none",
            hook |-> "none", oauth |-> "none", dhook |-> "off",
            verb |-> "POST", route |-> "unary", shape |-> "valid", rid |-> "absent",
            aenc |-> "none"]

BaseOn  == [prefix |-> "/vgi", cors |-> "*", maxreq |-> "set", maxresp |-> "set", maxext |-> "set",
            storage |-> "set", upload |-> "setmax", proof |-> "on", xproxy |-> "set",
            introspect |-> "on", sticky |-> "echo", comp |-> "1", auth |-> "accept",
            hook |-> "ok", oauth |-> "pkce", dhook |-> "on",
            verb |-> "POST", route |-> "unary", shape |-> "valid", rid |-> "len1",
            aenc |-> "custom"]

\* an always-rejecting authenticator in front of every feature
BaseReject == [BaseOn EXCEPT !.auth = "authfail", !.rid = "padded"]
\* the same without browser login (pages are not wrapped)
BaseRejectNoPkce == [BaseOn EXCEPT !.auth = "valueerr", !.oauth = "meta", !.prefix = ""]

BasesOnOff == {BaseOff, BaseOn}
BasesAll == {BaseOff, BaseOn, BaseReject, BaseRejectNoPkce}

(* Restricted tables for exhaustive products (MaxDev = 99).                *)
One(v) == {v}
\* C20, headers: every capability / CORS / rejection-header configuration bit, on the
\* success, rejection and preflight exits of one route
DomCaps == [DomFull EXCEPT
    !.prefix = One(""), !.auth = {"none", "authfail"}, !.hook = One("ok"),
    !.oauth = {"none", "meta"}, !.dhook = One("off"), !.verb = {"POST", "OPTIONS"},
    !.route = One("unary"), !.shape = One("valid"), !.rid = One("absent"),
    !.aenc = One("none"), !.sticky = {"off", "echo"}]
\* C20, request ids: every request (verb x route x shape x id class) against servers
\* that accept, reject (401 / 503) and fail their first start
DomRid == [DomFull EXCEPT
    !.prefix = One("/vgi"), !.cors = One("*"), !.maxreq = One("set"), !.maxresp = One("0"),
    !.maxext = One("0"), !.storage = One("none"), !.upload = One("set"), !.proof = One("off"),
    !.xproxy = One("none"), !.introspect = One("on"), !.sticky = One("on"), !.comp = One("1"),
    !.oauth = One("pkce"), !.dhook = One("off"), !.aenc = One("none"),
    !.auth = {"none", "authfail", "unavail"}, !.hook = {"none", "failfirst"},
    !.verb = {"GET", "POST", "OPTIONS", "DELETE"}]
\* C22, the gate: every route x verb x authenticator x feature subset x prefix
DomGate == [DomFull EXCEPT
    !.cors = One("off"), !.maxreq = One("0"), !.maxresp = One("0"), !.maxext = One("0"),
    !.storage = One("none"), !.upload = {"none", "set"}, !.proof = One("off"),
    !.xproxy = One("none"), !.sticky = {"off", "on"}, !.comp = One("1"), !.hook = One("none"),
    !.dhook = One("off"), !.rid = One("absent"), !.aenc = One("none"),
    !.shape = {"valid", "badct", "nomethod", "herr"}]
\* the same without HEAD (served by the GET patterns) and OPTIONS (always the preflight)
DomGateGen == [DomGate EXCEPT !.verb = {"GET", "POST", "DELETE"}]
\* C22 quick: every route x verb x authenticator on the two "everything on" configurations
DomGateQuick == [DomGate EXCEPT
    !.upload = One("set"), !.introspect = One("on"), !.sticky = One("on"),
    !.oauth = {"meta", "pkce"}, !.prefix = One("/vgi"),
    !.shape = {"valid", "badct", "nomethod"}]
\* small table for the model-mutation (vacuity) runs
DomTiny == [DomGateQuick EXCEPT !.shape = One("valid"), !.oauth = One("meta")]

--------------------------------------------------------------------------
(* Case construction.                                                      *)
Product(D) == [prefix: D.prefix, cors: D.cors, maxreq: D.maxreq, maxresp: D.maxresp,
               maxext: D.maxext, storage: D.storage, upload: D.upload, proof: D.proof,
               xproxy: D.xproxy, introspect: D.introspect, sticky: D.sticky, comp: D.comp,
               auth: D.auth, hook: D.hook, oauth: D.oauth, dhook: D.dhook,
               verb: D.verb, route: D.route, shape: D.shape, rid: D.rid, aenc: D.aenc]

Deviate(S) == S \cup UNION { { [c EXCEPT ![d] = v] : v \in Dom[d] } : c \in S, d \in Dims }

RECURSIVE DevK(_, _)
DevK(S, k) == IF k = 0 THEN S ELSE DevK(Deviate(S), k - 1)

Cases == IF MaxDev >= Cardinality(Dims) THEN Product(Dom) ELSE DevK(Bases, MaxDev)

--------------------------------------------------------------------------
(* Configuration predicates.                                               *)
Rejects == {"authfail", "valueerr", "permerr", "unavail", "other",
            "authfail_ctx", "valueerr_ctx", "permerr_ctx", "unavail_ctx", "other_ctx"}
AuthRejects(c) == c.auth \in Rejects
\* SetOAuthPkce refuses to enable login without an authenticator
PkceOn(c)   == c.oauth = "pkce" /\ c.auth # "none"
StickyOn(c) == c.sticky \in {"on", "echo"}
EchoSet(c)  == c.sticky \in {"echo", "echoonly"}
ProxyDep(c) == c.proof = "on" \/ c.xproxy = "set"        \* proxyAuthHeaders() non-empty
UploadOn(c) == c.upload # "none"
EchoHeader  == "vgi-echo-x-route-key"                    \* SetStickyEchoHeaders({"X-Route-Key": ..})

(* Every framework header name, in lexicographic order (the order in which *)
(* the harness reports header sets).                                       *)
HdrOrder == << "vgi-auth-proxy-required", "vgi-auth-reason", "vgi-echo-x-route-key",
               "vgi-externalization-enabled", "vgi-max-externalized-response-bytes",
               "vgi-max-request-bytes", "vgi-max-response-bytes", "vgi-max-upload-bytes",
               "vgi-proxy-proof-required", "vgi-session", "vgi-session-close",
               "vgi-sticky-default-ttl", "vgi-sticky-echo-headers", "vgi-sticky-enabled",
               "vgi-supported-encodings", "vgi-token-introspection", "vgi-upload-url-support",
               "www-authenticate", "x-request-id", "x-vgi-content-encoding", "x-vgi-rpc-error" >>
AllHdrs == {HdrOrder[i] : i \in 1..Len(HdrOrder)}
HdrSeq(S) == SelectSeq(HdrOrder, LAMBDA h : h \in S)

WorkOrder == << "body", "dispatch", "unary", "init", "state", "provider", "resolver", "custom" >>
WorkSeq(S) == SelectSeq(WorkOrder, LAMBDA w : w \in S)

If(b, S) == IF b THEN S ELSE {}

(* addCapabilityHeaders                                                    *)
CapSet(c) ==
    {"vgi-supported-encodings", "vgi-externalization-enabled"}
    \cup If(c.maxreq = "set", {"vgi-max-request-bytes"})
    \cup If(c.maxresp = "set", {"vgi-max-response-bytes"})
    \cup If(c.maxext = "set", {"vgi-max-externalized-response-bytes"})
    \cup If(UploadOn(c), {"vgi-upload-url-support"})
    \cup If(c.upload = "setmax", {"vgi-max-upload-bytes"})
    \cup If(c.proof = "on", {"vgi-proxy-proof-required"})
    \cup If(c.introspect = "on", {"vgi-token-introspection"})
    \cup If(StickyOn(c), {"vgi-sticky-enabled", "vgi-sticky-default-ttl"})
    \cup If(c.sticky = "echo", {"vgi-sticky-echo-headers"})

\* values of the two capability headers every started server sends
CapCore(c) == [enc |-> IF c.comp = "0" THEN "" ELSE "zstd, gzip",
               ext |-> IF c.storage = "set" THEN "true" ELSE "false"]

(* addCorsHeaders: the Access-Control-Expose-Headers list                  *)
Expose(c) ==
    {"www-authenticate", "x-request-id", "x-vgi-content-encoding", "x-vgi-rpc-error",
     "vgi-max-response-bytes", "vgi-max-externalized-response-bytes",
     "vgi-externalization-enabled", "vgi-supported-encodings",
     "vgi-sticky-enabled", "vgi-sticky-default-ttl", "vgi-sticky-echo-headers",
     "vgi-session", "vgi-session-close", "vgi-auth-reason"}
    \cup If(c.maxreq = "set", {"vgi-max-request-bytes"})
    \cup If(UploadOn(c), {"vgi-upload-url-support"})
    \cup If(c.upload = "setmax", {"vgi-max-upload-bytes"})
    \cup If(c.proof = "on", {"vgi-proxy-proof-required"})
    \cup If(c.introspect = "on", {"vgi-token-introspection"})
    \cup If(ProxyDep(c), {"vgi-auth-proxy-required"})
    \cup If(EchoSet(c), {EchoHeader})

(* Every capability / rejection / correlation header a configuration can   *)
(* emit on some response, collected from the emission sites: capability    *)
(* headers, writeUnauthorized, writeArrow, the compressing writer, the     *)
(* sticky response writer and handleStickyDelete.                          *)
Emittable(c) ==
    {"x-request-id", "x-vgi-rpc-error"} \cup CapSet(c)
    \cup If(c.comp = "1", {"x-vgi-content-encoding"})
    \cup If(c.auth # "none", {"vgi-auth-reason"})
    \cup If(c.auth # "none" /\ ProxyDep(c), {"vgi-auth-proxy-required"})
    \cup If(c.auth # "none" /\ c.oauth # "none", {"www-authenticate"})
    \cup If(StickyOn(c), {"vgi-session", "vgi-session-close"})
    \cup If(c.sticky = "echo", {EchoHeader})

--------------------------------------------------------------------------
(* The request.                                                            *)
\* <<raw length, trimmed length>> of the X-Request-ID value sent (absent = no header)
RidLens(r) == CASE r = "absent"    -> <<0, 0>>
                [] r = "blank"     -> <<3, 0>>
                [] r = "len1"      -> <<1, 1>>
                [] r = "len128"    -> <<128, 128>>
                [] r = "len129"    -> <<129, 129>>
                [] r = "padded"    -> <<9, 5>>
                [] r = "padded128" -> <<132, 128>>
                [] r = "padded129" -> <<133, 129>>

\* resolveRequestID: id := TrimSpace(header); if id == "" || len(id) > 128 mint, else echo
ResolveRequestID(c) ==
    LET t == RidLens(c.rid)[2] IN IF t = 0 \/ t > 128 THEN "fresh" ELSE "echo"

MethodSeg(c) == IF c.shape = "nomethod" THEN "zzz"
                ELSE IF c.route = "unary" THEN "u" ELSE "x"

Path(c) ==
    LET P == c.prefix IN
    CASE c.route = "unary"      -> P \o "/" \o MethodSeg(c)
      [] c.route = "describe"   -> P \o "/__describe__"
      [] c.route = "init"       -> P \o "/" \o MethodSeg(c) \o "/init"
      [] c.route = "exchange"   -> P \o "/" \o MethodSeg(c) \o "/exchange"
      [] c.route = "upload"     -> P \o "/__upload_url__/init"
      [] c.route = "introspect" -> P \o "/__introspect_token__"
      [] c.route = "health"     -> "/health"
      [] c.route = "healthp"    -> P \o "/health"
      [] c.route = "wellknown"  -> "/.well-known/oauth-protected-resource" \o P
      [] c.route = "landing"    -> IF P = "" THEN "/" ELSE P
      [] c.route = "descpage"   -> P \o "/describe"
      [] c.route = "unknown"    -> "/no/such/route/here"
      [] c.route = "sessdel"    -> P \o "/__session__"
      [] c.route = "custom"     -> "/ops/custom"
      [] c.route = "cb"         -> P \o "/_oauth/callback"
      [] c.route = "logout"     -> P \o "/_oauth/logout"
      [] c.route = "token"      -> P \o "/_oauth/token"

\* Content-Type the harness sends
ContentType(c) == IF c.shape = "badct" THEN "application/json"
                  ELSE IF c.route = "introspect" THEN "application/json"
                  ELSE IF c.route = "token" THEN "application/x-www-form-urlencoded"
                  ELSE "application/vnd.apache.arrow.stream"

\* isMaxBytesExempt
HealthPath(c) == c.route \in {"health", "healthp"}

(* http.ServeMux resolution of (verb, path) over the patterns registered   *)
(* by initRoutes, initPages, EnableSticky and Handle.  The catch-all "/"   *)
(* (not-found page) takes every request no method-specific pattern takes.  *)
Handler(c) ==
    LET v == c.verb  r == c.route
        get == v \in {"GET", "HEAD"}      \* a GET pattern also serves HEAD
        post == v = "POST"
    IN
    CASE r \in {"unary", "describe"} -> IF post THEN "Unary" ELSE "NotFound"
      [] r = "init"       -> IF post THEN "StreamInit" ELSE "NotFound"
      [] r = "exchange"   -> IF post THEN "StreamExchange" ELSE "NotFound"
      [] r = "upload"     -> IF post THEN "UploadURL" ELSE "NotFound"
      [] r = "introspect" -> IF post THEN "Introspect" ELSE "NotFound"
      [] r = "health"     -> IF get THEN "Health"
                             ELSE IF post /\ c.prefix = "" THEN "Unary"   \* POST /{method}
                             ELSE "NotFound"
      [] r = "healthp"    -> IF get THEN "Health" ELSE IF post THEN "Unary" ELSE "NotFound"
      [] r = "wellknown"  -> IF get THEN "WellKnown" ELSE "NotFound"
      [] r = "landing"    -> IF get THEN "Landing" ELSE "NotFound"
      [] r = "descpage"   -> IF get THEN "DescribePage" ELSE IF post THEN "Unary" ELSE "NotFound"
      [] r = "unknown"    -> "NotFound"
      [] r = "sessdel"    -> IF v = "DELETE" /\ StickyOn(c) THEN "StickyDelete"
                             ELSE IF post THEN "Unary" ELSE "NotFound"
      [] r = "custom"     -> IF post THEN "Custom" ELSE "NotFound"
      [] r = "cb"         -> IF get /\ PkceOn(c) THEN "OAuthCallback" ELSE "NotFound"
      [] r = "logout"     -> IF get /\ PkceOn(c) THEN "OAuthLogout" ELSE "NotFound"
      [] r = "token"      -> IF post /\ PkceOn(c) THEN "OAuthToken" ELSE "NotFound"

\* the {method} path value seen by handleUnary
UnaryMethod(c) == IF c.route = "unary" /\ c.shape # "nomethod" THEN "u"
                  ELSE IF c.route = "describe" THEN "__describe__"
                  ELSE "unregistered"

GatedHandlers  == {"Unary", "StreamInit", "StreamExchange", "UploadURL", "Introspect"}

--------------------------------------------------------------------------
(* Handler outcomes.  st: status; work: user code / body consumption that  *)
(* happened; fw: framework headers the handler adds; arrow: Arrow body     *)
(* (eligible for response compression); auth: "rejected" | "passed" | "na" *)
R(st, work, fw, arrow, auth) == [st |-> st, work |-> work, fw |-> fw, arrow |-> arrow, auth |-> auth]

\* the status depends on the error only, never on a context returned next to it
AuthStatus(c) == CASE c.auth \in {"authfail", "valueerr", "permerr",
                                  "authfail_ctx", "valueerr_ctx", "permerr_ctx"} -> 401
                   [] c.auth \in {"unavail", "unavail_ctx"} -> 503
                   [] c.auth \in {"other", "other_ctx"}     -> 500

\* writeUnauthorized
UnauthorizedHdrs(c) == {"vgi-auth-reason"}
                       \cup If(ProxyDep(c), {"vgi-auth-proxy-required"})
                       \cup If(c.oauth # "none", {"www-authenticate"})

\* HttpServer.authenticate failing
AuthRejected(c) == R(AuthStatus(c), {}, IF AuthStatus(c) = 401 THEN UnauthorizedHdrs(c) ELSE {},
                     FALSE, "rejected")

Disp(c) == If(c.dhook = "on", {"dispatch"})
RpcErr == {"x-vgi-rpc-error"}

\* readHTTPBody outcomes shared by the RPC handlers (body has been consumed)
OverBody(c) == c.maxreq = "set" /\ c.shape = "overbody"
BodyExit(c) == IF OverBody(c) THEN R(413, {"body"}, {}, TRUE, "passed")
               ELSE R(415, {"body"}, {}, TRUE, "passed")      \* unsupported Content-Encoding
BodyFails(c) == OverBody(c) \/ c.shape = "badenc"

HUnary(c) ==
    LET m == UnaryMethod(c) IN
    IF AuthRejects(c) THEN AuthRejected(c)
    ELSE IF c.shape = "badct" THEN R(415, {}, {}, TRUE, "passed")
    ELSE IF m = "__describe__" THEN
            IF BodyFails(c) THEN BodyExit(c) ELSE R(200, {"body"}, {}, TRUE, "passed")
    ELSE IF m = "unregistered" THEN R(404, {}, {}, TRUE, "passed")
    ELSE IF BodyFails(c) THEN BodyExit(c)
    ELSE IF c.shape = "herr" THEN R(200, {"body", "unary"} \cup Disp(c), RpcErr, TRUE, "passed")
    ELSE IF c.shape = "open" /\ StickyOn(c)
         THEN R(200, {"body", "unary"} \cup Disp(c),
                {"vgi-session"} \cup If(c.sticky = "echo", {EchoHeader}), TRUE, "passed")
    ELSE R(200, {"body", "unary"} \cup Disp(c), {}, TRUE, "passed")

HStreamInit(c) ==
    IF AuthRejects(c) THEN AuthRejected(c)
    ELSE IF c.shape = "badct" THEN R(415, {}, {}, TRUE, "passed")
    ELSE IF c.shape = "nomethod" THEN R(404, {}, {}, TRUE, "passed")
    ELSE IF BodyFails(c) THEN BodyExit(c)
    ELSE IF c.shape = "herr" THEN R(200, {"body", "init"} \cup Disp(c), RpcErr, TRUE, "passed")
    ELSE R(200, {"body", "init"} \cup Disp(c), {}, TRUE, "passed")

HStreamExchange(c) ==
    IF AuthRejects(c) THEN AuthRejected(c)
    ELSE IF c.shape = "badct" THEN R(415, {}, {}, TRUE, "passed")
    ELSE IF c.shape = "nomethod" THEN R(404, {}, {}, TRUE, "passed")
    ELSE IF BodyFails(c) THEN BodyExit(c)
    ELSE IF c.shape = "herr" THEN R(200, {"body", "state"} \cup Disp(c), RpcErr, TRUE, "passed")
    ELSE R(200, {"body", "state"} \cup Disp(c), {}, TRUE, "passed")

\* handleUploadURLInit as the property requires it: authenticate like the other RPC
\* routes.  UploadAuthBug = TRUE is the handler as shipped (no authenticate call).
HUploadURL(c) ==
    IF ~UploadAuthBug /\ AuthRejects(c) THEN AuthRejected(c)
    ELSE LET a == IF UploadAuthBug THEN "na" ELSE "passed" IN
    IF ~UploadOn(c) THEN R(404, {}, {}, FALSE, a)
    ELSE IF c.shape = "badct" THEN R(415, {}, {}, TRUE, a)
    ELSE IF BodyFails(c) THEN [BodyExit(c) EXCEPT !.auth = a]
    ELSE IF c.shape = "herr" THEN R(200, {"body", "provider"}, RpcErr, TRUE, a)
    ELSE R(200, {"body", "provider"}, {}, TRUE, a)

HIntrospect(c) ==
    IF c.introspect = "off" THEN R(404, {}, {}, FALSE, "na")          \* not_enabled, no lookup
    ELSE IF AuthRejects(c) THEN AuthRejected(c)
    ELSE IF c.auth = "none" THEN R(403, {}, {}, FALSE, "passed")      \* anonymous is no introspector
    ELSE IF c.shape = "herr" THEN R(503, {"body", "resolver"}, {}, FALSE, "passed")
    ELSE R(200, {"body", "resolver"}, {}, FALSE, "passed")

\* wrapPageWithPkce: with browser login enabled the HTML pages consult the authenticator
HPage(c) == IF PkceOn(c) /\ AuthRejects(c)
            THEN R(401, {}, {"www-authenticate"}, FALSE, "rejected")
            ELSE R(200, {}, {}, FALSE, IF PkceOn(c) THEN "passed" ELSE "na")

HOAuthToken(c) == IF c.shape = "badct" THEN R(415, {}, {}, FALSE, "na")
                  ELSE R(400, {"body"}, {}, FALSE, "na")       \* unsupported grant, nothing forwarded

HandlerOutcome(c) ==
    LET h == Handler(c) IN
    CASE h = "Unary"          -> HUnary(c)
      [] h = "StreamInit"     -> HStreamInit(c)
      [] h = "StreamExchange" -> HStreamExchange(c)
      [] h = "UploadURL"      -> HUploadURL(c)
      [] h = "Introspect"     -> HIntrospect(c)
      [] h = "Health"         -> R(200, {}, {}, FALSE, "na")
      [] h = "WellKnown"      -> R(IF c.oauth = "none" THEN 404 ELSE 200, {}, {}, FALSE, "na")
      [] h = "Landing"        -> HPage(c)
      [] h = "DescribePage"   -> HPage(c)
      [] h = "NotFound"       -> R(404, {}, {}, FALSE, "na")
      [] h = "StickyDelete"   -> R(200, {}, {}, FALSE, "na")   \* no VGI-Session presented
      [] h = "Custom"         -> R(200, {"custom"}, {}, FALSE, "na")
      [] h = "OAuthCallback"  -> R(400, {}, {}, FALSE, "na")   \* no code/state
      [] h = "OAuthLogout"    -> R(302, {}, {}, FALSE, "na")
      [] h = "OAuthToken"     -> HOAuthToken(c)

--------------------------------------------------------------------------
(* Envelope decisions.                                                     *)
HookFails(c, calls) == c.hook = "failfirst" /\ calls = 0
IsPreflight(c)      == c.verb = "OPTIONS"
IsTokenPreflight(c) == IsPreflight(c) /\ PkceOn(c) /\ c.route = "token"
TooLargeByLength(c) == c.maxreq = "set" /\ c.shape = "overcl" /\ ~HealthPath(c)
\* the compressing writer stamps X-VGI-Content-Encoding on Arrow bodies when the client
\* could only say so on X-VGI-Accept-Encoding
CustomEncoded(c, o) == c.comp = "1" /\ c.aenc = "custom" /\ o.arrow

Requests(c) == IF c.hook = "failfirst" THEN 2 ELSE 1

(* The observation predicted for one response.                             *)
(*   status, capset, expose, fw, cors, work_ok, hookcalls : exact model    *)
(*                                               predictions (drift only)  *)
(*   rid, capcore, missing_expose, unexposed   : what C20 promises         *)
(*   work, blocked, estatus                    : what C22 promises         *)
Observation(c, st, work, fw, caps, cors, gated, reach) ==
    \* hookcalls: how often the serve-start hook has run once this response is out
    LET allfw == {"x-request-id"} \cup fw \cup If(caps, CapSet(c))
        base == [status |-> st,
                 rid |-> ResolveRequestID(c),
                 capset |-> HdrSeq(If(caps, CapSet(c))),
                 fw |-> HdrSeq(allfw),
                 cors |-> cors,
                 hookcalls |-> hookCalls',
                 work_ok |-> WorkSeq(work)]
        c20a == IF caps THEN [capcore |-> CapCore(c)] ELSE [capcore_prestart |-> "absent"]
        c20b == IF cors THEN [expose |-> HdrSeq(Expose(c)),
                              missing_expose |-> HdrSeq(Emittable(c) \ Expose(c)),
                              unexposed |-> HdrSeq(allfw \ Expose(c))]
                ELSE [nocors |-> TRUE]
        c22  == IF ~AuthRejects(c) THEN [noreject |-> TRUE]
                ELSE IF gated THEN [work |-> WorkSeq(work), blocked |-> st \notin 200..299]
                ELSE IF reach THEN [work |-> WorkSeq(work), estatus |-> st]
                ELSE [work |-> WorkSeq(work)]
    IN base @@ c20a @@ c20b @@ c22

ReqArgs(c) == [verb |-> c.verb, route |-> c.route, shape |-> c.shape, rid |-> c.rid,
               aenc |-> c.aenc, path |-> Path(c), ct |-> ContentType(c),
               emittable |-> HdrSeq(Emittable(c)), handler |-> Handler(c)]

--------------------------------------------------------------------------
Record(step) ==
    /\ hist' = Append(hist, step)
    /\ (Mode = "edges") => EmitTrace(hist')
    /\ (Mode = "tree" /\ Len(hist') = Depth) => EmitTrace(hist')

Budget == /\ n < Requests(case)
          /\ (Mode = "tree") => Len(hist) < Depth

Step(name, obs) == Record([a |-> name, args |-> ReqArgs(case), exp |-> obs])

CorsOn(c) == c.cors # "off"
Gated(c)  == Handler(c) \in GatedHandlers /\ ~IsPreflight(c)

\* notifyTransport returned an error: 500 before capability and CORS headers
Serve_HookFailed ==
    /\ hookCalls' = hookCalls + 1
    /\ UNCHANGED started
    /\ Step("Serve_HookFailed",
            Observation(case, 500, {}, {}, FALSE, FALSE, Gated(case), FALSE))

\* everything below runs after the hook has succeeded (or none is registered)
HookPasses ==
    /\ hookCalls' = IF case.hook # "none" /\ ~started THEN hookCalls + 1 ELSE hookCalls
    /\ started' = TRUE

\* OPTIONS {prefix}/_oauth/token with login enabled: the token proxy answers with its own
\* origin-allowlist CORS; the global CORS headers are not added
Serve_TokenPreflight ==
    Step("Serve_TokenPreflight", Observation(case, 204, {}, {}, TRUE, FALSE, FALSE, TRUE))

\* CORS preflight: answered before authentication or dispatch, on every path
Serve_Preflight ==
    Step("Serve_Preflight", Observation(case, 204, {}, {}, TRUE, CorsOn(case), FALSE, TRUE))

\* Content-Length over max_request_bytes on a non-health path
Serve_TooLarge ==
    Step("Serve_TooLarge", Observation(case, 413, {}, {}, TRUE, CorsOn(case), Gated(case), FALSE))

\* mux dispatch: one action per handler, named Route_<handler>
Mux(h) ==
    LET o == HandlerOutcome(case)
        fw == o.fw \cup If(CustomEncoded(case, o), {"x-vgi-content-encoding"})
    IN Step("Route_" \o h,
            Observation(case, o.st, o.work, fw, TRUE, CorsOn(case),
                        h \in GatedHandlers, o.auth = "na"))

Init ==
    /\ case \in Cases
    /\ n = 0
    /\ started = FALSE
    /\ hookCalls = 0
    /\ hist = << [a |-> "Init",
                  args |-> [prefix |-> case.prefix, cors |-> case.cors, maxreq |-> case.maxreq,
                            maxresp |-> case.maxresp, maxext |-> case.maxext,
                            storage |-> case.storage, upload |-> case.upload,
                            proof |-> case.proof, xproxy |-> case.xproxy,
                            introspect |-> case.introspect, sticky |-> case.sticky,
                            comp |-> case.comp, auth |-> case.auth, hook |-> case.hook,
                            oauth |-> case.oauth, dhook |-> case.dhook,
                            hdrorder |-> HdrOrder, workorder |-> WorkOrder],
                  exp |-> [ok |-> TRUE]] >>

\* ServeHTTP: the decisions in the order the code takes them
Next ==
    /\ Budget
    /\ n' = n + 1
    /\ UNCHANGED case
    /\ IF HookFails(case, hookCalls) THEN Serve_HookFailed
       ELSE /\ HookPasses
            /\ IF IsTokenPreflight(case) THEN Serve_TokenPreflight
               ELSE IF IsPreflight(case) THEN Serve_Preflight
               ELSE IF TooLargeByLength(case) THEN Serve_TooLarge
               ELSE Mux(Handler(case))

Spec == Init /\ [][Next]_vars

View == <<case, n, started, hookCalls>>

--------------------------------------------------------------------------
(* C20 -- correlation and capability headers.                              *)
Last == hist'[Len(hist')]
Has(r, k) == k \in DOMAIN r

\* Every response, on every route and exit path, carries an X-Request-ID that echoes the
\* caller's trimmed id when it is 1..128 bytes and is otherwise freshly minted.
RequestIdRule ==
    [][ LET t == RidLens(case.rid)[2] IN
        /\ Has(Last.exp, "rid")
        /\ Last.exp.rid = (IF t >= 1 /\ t <= 128 THEN "echo" ELSE "fresh")
        /\ "x-request-id" \in {Last.exp.fw[i] : i \in 1..Len(Last.exp.fw)} ]_vars

\* Every response produced after the serve-start hook has succeeded carries the
\* supported-encodings and externalization capability headers.
CapabilityRule ==
    [][ started' =>
          /\ Has(Last.exp, "capcore")
          /\ Last.exp.capcore.enc = (IF case.comp = "0" THEN "" ELSE "zstd, gzip")
          /\ Last.exp.capcore.ext = (IF case.storage = "set" THEN "true" ELSE "false")
          /\ {"vgi-supported-encodings", "vgi-externalization-enabled"}
                \subseteq {Last.exp.fw[i] : i \in 1..Len(Last.exp.fw)} ]_vars

\* ... and the hook runs until it has succeeded once, never again.
HookOnce == [][ hookCalls' <= (IF case.hook = "failfirst" THEN 2 ELSE 1)
                /\ (started /\ started' => hookCalls' = hookCalls) ]_vars

\* With CORS enabled, every capability or rejection header the configuration can emit is
\* in Access-Control-Expose-Headers (statically, per configuration) ...
ExposeCoversEmittable == (case.cors # "off") => Emittable(case) \subseteq Expose(case)

\* ... what a response is predicted to carry is something the configuration can emit ...
EmittableCoversModel ==
    [][ {Last.exp.fw[i] : i \in 1..Len(Last.exp.fw)} \subseteq Emittable(case) ]_vars

\* ... and every response that carries the CORS headers lists every framework header it
\* carries itself.
ExposeRule ==
    [][ (case.cors # "off" /\ Last.exp.cors) =>
          /\ Last.exp.missing_expose = <<>>
          /\ Last.exp.unexposed = <<>> ]_vars

(* C22 -- every RPC and control route is behind the authenticator.         *)
\* When the authenticator rejects, no gated route does any work or answers 2xx, whatever
\* the exit taken.
AuthGate ==
    [][ (AuthRejects(case) /\ Handler(case) \in GatedHandlers /\ ~IsPreflight(case)) =>
          /\ Last.exp.work = <<>>
          /\ Last.exp.blocked
          /\ Last.exp.status \notin 200..299 ]_vars

\* Only the listed exempt routes do anything or answer 2xx under a rejecting authenticator.
ExemptActions == {"Serve_Preflight", "Serve_TokenPreflight", "Route_Health", "Route_WellKnown",
                  "Route_OAuthCallback", "Route_OAuthLogout", "Route_OAuthToken",
                  "Route_Landing", "Route_DescribePage", "Route_NotFound",
                  "Route_Custom", "Route_StickyDelete"}
OnlyExemptReachable ==
    [][ (AuthRejects(case) /\ (Last.exp.status \in 200..399 \/ Last.exp.work_ok # <<>>)) =>
          Last.a \in ExemptActions ]_vars

\* The exempt routes answer a rejected caller exactly as they answer an accepted one
\* (the HTML pages only while browser login does not wrap them).
AuthBlind == {"Serve_Preflight", "Serve_TokenPreflight", "Route_Health", "Route_WellKnown",
              "Route_OAuthCallback", "Route_OAuthLogout", "Route_OAuthToken", "Route_NotFound",
              "Route_Custom", "Route_StickyDelete"}
ExemptReachable ==
    [][ (AuthRejects(case) /\ (Last.a \in AuthBlind
                               \/ (Last.a \in {"Route_Landing", "Route_DescribePage"} /\ ~PkceOn(case)))) =>
          LET acc == [case EXCEPT !.auth = "accept"] IN
          /\ Has(Last.exp, "estatus")
          /\ Last.exp.estatus = (IF IsPreflight(case) THEN 204 ELSE HandlerOutcome(acc).st)
          /\ Last.exp.work = WorkSeq(IF IsPreflight(case) THEN {} ELSE HandlerOutcome(acc).work) ]_vars
=============================================================================
