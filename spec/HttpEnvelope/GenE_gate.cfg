SPECIFICATION Spec
CONSTANTS
    Dom <- DomGateGen
    Bases <- BasesAll
    MaxDev = 99
    UploadAuthBug = FALSE
    Mode = "edges"
    Depth = 0
VIEW View

CHECK_DEADLOCK FALSE
