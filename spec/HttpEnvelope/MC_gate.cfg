SPECIFICATION Spec
CONSTANTS
    Dom <- DomGate
    Bases <- BasesAll
    MaxDev = 99
    UploadAuthBug = FALSE
    Mode = "mc"
    Depth = 0
VIEW View
INVARIANTS ExposeCoversEmittable
PROPERTIES RequestIdRule CapabilityRule HookOnce EmittableCoversModel ExposeRule AuthGate OnlyExemptReachable ExemptReachable
CHECK_DEADLOCK FALSE
