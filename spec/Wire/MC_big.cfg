SPECIFICATION Spec
CONSTANTS
    Suites <- MCThoroughSuites
    Tails = {"clean", "cut_in", "junk"}
    SweepTails = FALSE
    Garbles = 0
    Mode = "mc"
    Depth = 0
VIEW View
INVARIANTS TypeOK TailIndependent
PROPERTIES FindersRecoverStamps UnaryNotMisread RequestsRoundTrip WritersFrame NeverPanics
CHECK_DEADLOCK FALSE
