-------------------------------- MODULE Wire --------------------------------
(***************************************************************************)
(* Public wire helpers of vgi-rpc-go for intermediaries                    *)
(* (vgirpc/wire.go, wire_intermediary.go, metadata.go) -- property C01.    *)
(*                                                                         *)
(* A BODY is what travels in one HTTP request/response or one pipe frame:  *)
(* a concatenation of Arrow IPC streams.  A stream is a schema (abstracted *)
(* to a CLASS: does it have a "result" column, is it binary, has it any    *)
(* field at all) followed by record batches.  A batch is abstracted to its *)
(* row count and to the vgi_rpc.* keys its custom_metadata carries.  The   *)
(* bytes may end cleanly, without the last end-of-stream marker, in the    *)
(* middle of a message, or in garbage (the TAIL).                          *)
(*                                                                         *)
(* The helpers are written operationally, the way the code walks the bytes *)
(* (one recursive walk per Go loop, one action per exit of the Go          *)
(* function); property C01 is stated declaratively at the end and is       *)
(* model-checked against those walks.  TLC enumerates bodies; the Go       *)
(* driver renders every body to real IPC bytes (concrete schemas, values,  *)
(* method names, versions and tokens are drawn per class), calls the real  *)
(* helpers and compares with `exp`.                                        *)
(*                                                                         *)
(* A position <<s, b>> names batch b of stream s; the driver stamps a      *)
(* distinct concrete token / version / payload at every position, so       *)
(* "which one was returned" is observable.  [s |-> 0, b |-> 0] is "none".  *)
(***************************************************************************)
EXTENDS Naturals, Sequences, FiniteSets, TLC, VerifEmit

CONSTANTS
    Suites,         \* set of enumeration suites (see Suite* below): each bounds the bodies
                    \* built under it -- [name, ms, mb, first, later, kinds, wreq, wres]
    Tails,          \* how the bytes end: "clean","noeos","cut_in","cut_next","junk"
    SweepTails,     \* TRUE: one behaviour carries the whole set Tails (driver renders
                    \* every tail and demands one common observation); FALSE: one tail each
    Garbles,        \* number of byte-garbled copies per body in the Malformed step
    Mode,           \* "mc" | "edges" | "tree"
    Depth           \* unused bound kept for cfg uniformity (emission is at the last step)

VARIABLES
    sname,    \* name of the enumeration suite this behaviour was generated under
    body,     \* sequence of streams [cls, batches]
    origin,   \* how the body came to be: built by hand, or written by a real writer
    tails,    \* set of tails under which the helpers are evaluated
    pc,       \* "build" -> "tokens" -> "pver" -> "unary" -> "request" -> "neg" -> "done"
    hist

vars == <<sname, body, origin, tails, pc, hist>>

--------------------------------------------------------------------------
(* Batches.                                                                *)
(* cur / call / pver : "none" | "empty" (key present, empty value) | "tok" *)
(* log    : "" (no vgi_rpc.log_level) | "lvl" (any non-EXCEPTION level)    *)
(*          | "EXCEPTION"                                                  *)
(* method : "none" | "ok" (valid UTF-8, may be empty) | "badutf8"          *)
(* rv     : "none" | "ok" (= "1") | "bad"   (vgi_rpc.request_version)      *)
(* loc    : vgi_rpc.location present;  shm : vgi_rpc.shm_offset present    *)
Tri == {"none", "empty", "tok"}
BatchDomain == [rows : Nat, cur : Tri, call : Tri, pver : Tri,
                log : {"", "lvl", "EXCEPTION"}, method : {"none", "ok", "badutf8"},
                rv : {"none", "ok", "bad"}, loc : BOOLEAN, shm : BOOLEAN]

Zero == [rows |-> 0, cur |-> "none", call |-> "none", pver |-> "none", log |-> "",
         method |-> "none", rv |-> "none", loc |-> FALSE, shm |-> FALSE]
Data(n)  == [Zero EXCEPT !.rows = n]
Log      == [Zero EXCEPT !.log = "lvl"]
Exc      == [Zero EXCEPT !.log = "EXCEPTION"]
Cur      == [Zero EXCEPT !.cur = "tok"]
Call     == [Zero EXCEPT !.call = "tok"]
Both     == [Zero EXCEPT !.cur = "tok", !.call = "tok"]
ECur     == [Zero EXCEPT !.cur = "empty"]
ECall    == [Zero EXCEPT !.call = "empty"]
PverOnly == [Zero EXCEPT !.pver = "tok"]
EPver    == [Zero EXCEPT !.pver = "empty"]
Req(n)   == [Zero EXCEPT !.rows = n, !.method = "ok", !.rv = "ok"]        \* unversioned request
ReqV(n)  == [Req(n) EXCEPT !.pver = "tok"]                               \* WriteRequest output
XReq     == [ReqV(1) EXCEPT !.cur = "tok"]                               \* exchange request
XReq2    == [XReq EXCEPT !.call = "tok"]                                 \* ... of a split-state server
DataCur  == [Data(1) EXCEPT !.cur = "tok"]                               \* token on a row-bearing batch
LogData  == [Data(1) EXCEPT !.log = "lvl"]

\* palettes (sets of batch kinds) the enumeration suites below draw from
PalTokens  == {Zero, Cur, Call, Both}
PalTokens5 == {Zero, Data(1), Cur, Call, Both}
PalEmpty   == {Zero, Cur, Call, Both, ECur, ECall}
PalUnary   == {Data(1), Data(2), Zero, Log, Exc, Cur, PverOnly}
PalPver    == {Zero, PverOnly, EPver, ReqV(1), Req(1), Cur}
PalMixed   == {Data(1), Zero, Log, Exc, Cur, Call, Both, PverOnly, ReqV(1), XReq}
PalAll     == PalMixed \cup {Data(2), ECur, ECall, EPver, Req(1), XReq2, DataCur, LogData}
\* ReadRequest decision table: every combination the validation chain looks at
PalRequest == {[Zero EXCEPT !.rows = n, !.method = m, !.rv = r, !.loc = l, !.shm = h, !.log = g] :
                 n \in 0..2, m \in {"none", "ok", "badutf8"}, r \in {"none", "ok", "bad"},
                 l \in BOOLEAN, h \in BOOLEAN, g \in {"", "lvl"}}
PalRequestQ == {k \in PalRequest : k.log = "" /\ (k.loc => ~k.shm)} \cup {Data(1)}

Classes == {"empty", "other", "bin1", "binN", "nonbin", "any"}
(* empty : no fields;  other : >= 1 field, none named "result";           *)
(* bin1  : exactly one field, result: binary  (the unary envelope);        *)
(* binN  : result: binary plus other columns;  nonbin : result: non-binary *)
(* any   : drawn by the driver (only for streams no helper decodes).       *)
HasFields(c)   == c # "empty"
HasResult(c)   == c \in {"bin1", "binN", "nonbin"}
ResultBinary(c) == c \in {"bin1", "binN"}

AllTails == {"clean", "noeos", "cut_in", "cut_next", "junk"}
(* clean    : every stream ends with its EOS marker, nothing follows        *)
(* noeos    : the last stream lacks its EOS marker (bytes end on a message  *)
(*            boundary -- legal Arrow: EOF instead of EOS)                  *)
(* cut_in   : the last stream lacks EOS and a PARTIAL message follows       *)
(*            (an empty body: a partial schema message)                     *)
(* cut_next : after the last EOS a partial schema message follows           *)
(* junk     : after the last EOS arbitrary non-IPC bytes follow             *)

NonePos == [s |-> 0, b |-> 0]
Pos(s, b) == [s |-> s, b |-> b]

TypeOK ==
    /\ body \in Seq([cls : Classes, batches : Seq(BatchDomain)])
    /\ tails \subseteq AllTails
    /\ pc \in {"build", "tokens", "pver", "unary", "request", "neg", "done"}

--------------------------------------------------------------------------
(* How the reader of the LAST stream / of the bytes after it ends.          *)
BrokenEnd(bd, s, t)  == s = Len(bd) /\ t = "cut_in"            \* reader.Err() # nil at the end of stream s
Trailing(bd, t)      == t \in {"cut_next", "junk"} \/ (bd = <<>> /\ t = "cut_in")
                                                                \* bytes remain after the last stream

--------------------------------------------------------------------------
(* wire_intermediary.go: scanStreamForTokens -- one stream.                *)
(* for reader.Next(): remember the first non-empty call token, return at   *)
(* the first non-empty cursor; at the end return reader.Err().             *)
ScanStream(bs, broken) ==
    LET RECURSIVE Walk(_, _)
        Walk(i, call) ==
            IF i > Len(bs) THEN [state |-> 0, call |-> call, err |-> broken]
            ELSE LET c2 == IF bs[i].call = "tok" /\ call = 0 THEN i ELSE call IN
                 IF bs[i].cur = "tok" THEN [state |-> i, call |-> c2, err |-> FALSE]
                 ELSE Walk(i + 1, c2)
    IN Walk(1, 0)

(* wire_intermediary.go: FindStreamTokens -- `for r.Len() > 0`.            *)
FindStreamTokensOp(bd, t) ==
    LET RECURSIVE Loop(_, _, _)
        Loop(s, state, call) ==
            IF s > Len(bd)
            THEN IF Trailing(bd, t)      \* r.Len() > 0 still: ipc.NewReader fails on the rest
                 THEN [state |-> state, call |-> call, br |-> "StreamError"]
                 ELSE [state |-> state, call |-> call, br |-> "Exhausted"]
            ELSE LET r  == ScanStream(bd[s].batches, BrokenEnd(bd, s, t))
                     s2 == IF state = NonePos /\ r.state # 0 THEN Pos(s, r.state) ELSE state
                     c2 == IF call = NonePos /\ r.call # 0 THEN Pos(s, r.call) ELSE call
                 IN IF s2 # NonePos THEN [state |-> s2, call |-> c2, br |-> "CursorFound"]
                    ELSE IF r.err THEN [state |-> s2, call |-> c2, br |-> "StreamError"]
                    ELSE Loop(s + 1, s2, c2)
    IN Loop(1, NonePos, NonePos)

(* wire_intermediary.go: FindProtocolVersion -- first stream only.         *)
FindProtocolVersionOp(bd, t) ==
    IF bd = <<>> THEN [pos |-> NonePos, br |-> "OpenFail"]
    ELSE LET bs == bd[1].batches
             RECURSIVE Walk(_)
             Walk(i) == IF i > Len(bs) THEN [pos |-> NonePos, br |-> "NotFound"]
                        ELSE IF bs[i].pver = "tok" THEN [pos |-> Pos(1, i), br |-> "Found"]
                        ELSE Walk(i + 1)
         IN Walk(1)

(* wire_intermediary.go: ReadUnaryResult -- first stream only.             *)
ReadUnaryResultOp(bd, t) ==
    IF bd = <<>> THEN [pos |-> NonePos, br |-> "OpenFail"]
    ELSE LET bs == bd[1].batches
             c  == bd[1].cls
             RECURSIVE Walk(_)
             Walk(i) ==
                IF i > Len(bs) THEN [pos |-> NonePos, br |-> "Exhausted"]
                ELSE IF bs[i].rows > 0
                     THEN IF ~HasResult(c) THEN [pos |-> NonePos, br |-> "NoResultColumn"]
                          ELSE IF ~ResultBinary(c) THEN [pos |-> NonePos, br |-> "NotBinary"]
                          ELSE [pos |-> Pos(1, i), br |-> "Result"]
                     ELSE IF bs[i].log = "lvl" THEN Walk(i + 1)      \* skip a log batch
                          ELSE [pos |-> NonePos, br |-> "NotALog"]   \* EXCEPTION, or zero rows without a level
         IN Walk(1)

(* shm.go: IsShmPointerBatch                                               *)
IsShmPointer(b) == b.rows = 0 /\ b.shm /\ b.log = ""

(* wire.go: ReadRequest -- first batch of the first stream, after draining. *)
(* rest = number of streams left unread behind the request stream.          *)
ReadRequestOp(bd, t) ==
    IF bd = <<>> THEN [ok |-> FALSE, br |-> "OpenFail", pver |-> "n/a", rest |-> 0]
    ELSE LET bs == bd[1].batches
             rest == Len(bd) - 1
             No(br) == [ok |-> FALSE, br |-> br, pver |-> "n/a", rest |-> rest] IN
         IF bs = <<>> THEN No("NoBatch")
         ELSE LET b == bs[1] IN
              IF b.method = "none" THEN No("MissingMethod")
              ELSE IF b.method = "badutf8" THEN No("BadUtf8Method")
              ELSE IF b.rv = "none" THEN No("MissingVersion")
              ELSE IF b.rv = "bad" THEN No("BadVersion")
              ELSE IF HasFields(bd[1].cls) /\ b.rows # 1 /\ ~b.loc /\ ~IsShmPointer(b)
                   THEN No("RowCount")
              ELSE [ok |-> TRUE, br |-> "OK",
                    pver |-> IF b.pver = "none" THEN "absent" ELSE IF b.pver = "tok" THEN "same" ELSE "empty",
                    rest |-> rest]

--------------------------------------------------------------------------
(* What the real writers produce, as abstract bodies.                      *)
MethodClasses  == {"empty", "ascii", "multi", "long"}
ParamClasses   == {"cols0", "cols1", "colsN", "meta"}   \* meta: the params batch already carries
                                                        \* custom metadata (tokens included)
VersionClasses == {"none", "semver", "text", "multi"}
AllWriteReq == [m : MethodClasses, p : ParamClasses, v : VersionClasses]
FewWriteReq == {c \in AllWriteReq : c.m \in {"empty", "multi"} /\ c.p \in {"cols0", "meta"}}
EnvClasses == {"result_bin", "other_bin", "two_fields", "nonbin", "nofields"}
PayClasses == {"empty", "short", "long"}
AllWriteRes == [env : EnvClasses, pay : PayClasses]
NoCases == {}

(* WriteRequest: schema + ONE batch stamped method, request_version = "1"  *)
(* and, unless the version is "", protocol_version; metadata of the params *)
(* batch is not carried over; + EOS.                                       *)
WrittenRequest(c) ==
    << [cls |-> IF c.p = "cols0" THEN "empty" ELSE "other",
        batches |-> << IF c.v = "none" THEN Req(1) ELSE ReqV(1) >>] >>
WrittenKeys(c) == IF c.v = "none" THEN <<"vgi_rpc.method", "vgi_rpc.request_version">>
                  ELSE <<"vgi_rpc.method", "vgi_rpc.protocol_version", "vgi_rpc.request_version">>

(* WriteUnaryResult: refuses anything but a single binary field; else     *)
(* schema + one 1-row batch + EOS.                                         *)
EnvAccepted(c) == c.env \in {"result_bin", "other_bin"}
WrittenResult(c) ==
    IF ~EnvAccepted(c) THEN <<>>
    ELSE << [cls |-> IF c.env = "result_bin" THEN "bin1" ELSE "other", batches |-> <<Data(1)>>] >>

--------------------------------------------------------------------------
(* Enumeration suites.  The space of bodies is cut along the dimensions    *)
(* each helper looks at, so that every cut is enumerated EXHAUSTIVELY      *)
(* within its bounds: the schema class matters to ReadUnaryResult /        *)
(* ReadRequest only and only for stream 1; streams 2.. matter to the token *)
(* walk only; the request keys matter on batch <<1,1>> only.               *)
AllFirst == {"empty", "other", "bin1", "binN", "nonbin"}
Suite(n, ms, mb, first, kinds) ==
    [name |-> n, ms |-> ms, mb |-> mb, first |-> first, later |-> {"any"}, kinds |-> kinds,
     wreq |-> NoCases, wres |-> NoCases, minS |-> 0]
SuiteWrite(n, wreq, wres) ==
    [name |-> n, ms |-> 0, mb |-> 0, first |-> {}, later |-> {}, kinds |-> {}, wreq |-> wreq, wres |-> wres,
     minS |-> 0]

PalUnaryQ == {Data(1), Zero, Log, Exc, Cur}
GenQuickSuites == {
    Suite("unary",   1, 3, AllFirst, PalUnaryQ),            \* 5 * 156  result / log / error shapes
    Suite("tokens",  2, 2, {"other"}, PalTokens5),          \* 993      token walks over 2 streams
    Suite("tokens3", 3, 1, {"empty"}, PalTokens),           \* 156      ... over 3 streams
    Suite("request", 1, 1, {"empty", "other"}, PalRequestQ),\* 166      ReadRequest decision table
    Suite("mixed",   2, 1, AllFirst, PalMixed),             \* 660      everything on short bodies
    Suite("stamps",  2, 1, {"other"}, PalPver \cup PalEmpty),\* version stamps, empty-valued keys
    Suite("pver",    1, 3, {"other"}, {Zero, PverOnly, ReqV(1)}),  \* 40  several stamps on one stream
    Suite("rows",    1, 2, {"bin1", "binN", "nonbin"}, {Data(1), Data(2), Log}),   \* 39  multi-row batches
    SuiteWrite("write", AllWriteReq, AllWriteRes) }         \* 79       the real writers
GenThoroughSuites == {
    Suite("unary",   1, 3, AllFirst, PalUnary),                          \* 5 * 400
    Suite("tokens",  3, 2, {"other"}, PalTokens),                        \* 9724
    Suite("tokens23",2, 3, {"empty"}, {Cur, Call, Both}),                \* 1641
    Suite("request", 1, 1, {"empty", "other"}, PalRequest),              \* 1298
    Suite("request2",2, 2, {"other"}, {Req(1), ReqV(1), XReq, Data(1), Req(0)}),  \* 993: drain + rest
    Suite("mixed",   2, 2, {"bin1"}, PalMixed \ {Both, Call}),           \* 5403
    Suite("stamps",  2, 2, {"other"}, PalPver \cup {ECur}),              \* 3307
    SuiteWrite("write", AllWriteReq, AllWriteRes) }
\* random long bodies for -simulate
\* (minS: seal only bodies of at least that many streams, so that walks get long)
GenWalkSuites == { [Suite("walk", 3, 3, AllFirst, PalAll) EXCEPT !.minS = 3] }
MCQuickSuites == {
    Suite("mc",      1, 3, AllFirst, {Data(1), Log, Exc}),
    Suite("mc2",     2, 2, {"other"}, {Zero, Cur, Call, Both, ReqV(1)}),
    SuiteWrite("write", AllWriteReq, AllWriteRes) }
MCThoroughSuites == {
    Suite("mc",      2, 2, {"bin1"}, PalMixed \ {Both, Call}),
    Suite("mcU",     1, 3, AllFirst, PalUnary),
    Suite("mc3",     3, 2, {"other"}, {Cur, Call, Both}),
    Suite("mcreq",   1, 1, {"empty", "other"}, PalRequest),
    Suite("mcstamp", 1, 3, {"other"}, PalPver \cup PalEmpty),
    Suite("mcstamp2",2, 1, {"other"}, PalPver \cup PalEmpty),
    SuiteWrite("write", AllWriteReq, AllWriteRes) }

--------------------------------------------------------------------------
(* Which observations C01 pins down (judged keys); everything else the     *)
(* code does is still predicted, under a key ending in "_x" (drift only).  *)
AllPositions(bd) == UNION {{Pos(s, b) : b \in 1..Len(bd[s].batches)} : s \in 1..Len(bd)}
At(bd, p) == bd[p.s].batches[p.b]
Before(p, q) == p.s < q.s \/ (p.s = q.s /\ p.b < q.b)
MinPos(S) == IF S = {} THEN NonePos ELSE CHOOSE p \in S : \A q \in S : p = q \/ Before(p, q)

EmptyTokenStamp(bd) == \E p \in AllPositions(bd) : At(bd, p).cur = "empty" \/ At(bd, p).call = "empty"
\* a call token stamped only behind the first cursor: the documentation says
\* the walk stops at the cursor, the property text says "recover what was stamped"
LateCall(bd) == LET c == MinPos({p \in AllPositions(bd) : At(bd, p).cur = "tok"}) IN
                /\ c # NonePos
                /\ \E p \in AllPositions(bd) : At(bd, p).call = "tok" /\ Before(c, p)
                /\ ~\E p \in AllPositions(bd) : At(bd, p).call = "tok" /\ ~Before(c, p)
StateJudged(bd) == ~EmptyTokenStamp(bd)
CallJudged(bd)  == ~EmptyTokenStamp(bd) /\ ~LateCall(bd)
\* FindProtocolVersion reads a REQUEST body, i.e. one stream
PverJudged(bd) ==
    /\ \A s \in 2..Len(bd) : \A b \in 1..Len(bd[s].batches) : bd[s].batches[b].pver = "none"
    /\ bd # <<>> => \A b \in 1..Len(bd[1].batches) : bd[1].batches[b].pver # "empty"
\* a unary result batch has ONE row; which row of a longer batch is "the"
\* result, and a result column next to other columns, are not C01's business
MultiRow(bd) == bd # <<>> /\ \E i \in 1..Len(bd[1].batches) : bd[1].batches[i].rows > 1
UnaryJudged(bd, o) ==
    /\ bd # <<>> => (bd[1].cls # "binN" /\ ~(ResultBinary(bd[1].cls) /\ MultiRow(bd)))
    /\ ~(o.kind = "wres" /\ o.c.env = "other_bin")
\* the zero-row pointer exemptions and the zero-field exemption of the row-count
\* rule belong to external/shm resolution, not to C01
RequestJudged(bd) ==
    bd # <<>> /\ bd[1].batches # <<>> =>
        LET b == bd[1].batches[1] IN
        (b.method = "ok" /\ b.rv = "ok" /\ b.rows # 1) => (HasFields(bd[1].cls) /\ ~b.loc /\ ~b.shm)

K(judged, k, v) == IF judged THEN k :> v ELSE (k \o "_x") :> v

--------------------------------------------------------------------------
\* constant-level table, evaluated once
SuiteByName == [n \in {u.name : u \in Suites} |-> CHOOSE u \in Suites : u.name = n]
suite == SuiteByName[sname]

Rep(T) == IF "clean" \in T THEN "clean" ELSE CHOOSE t \in T : TRUE

Emit(h) == (Mode # "mc") => EmitTrace(h)
\* model checking never reads the copy of the body kept in hist (the properties
\* read the variable); leaving it out keeps the states TLC stores small
InHist(bd) == IF Mode = "mc" THEN <<>> ELSE bd
Record(step) == hist' = Append(hist, step)
RecordLast(step) == hist' = Append(hist, step) /\ Emit(hist')   \* the behaviour is complete

(* ---- building a body by hand ---------------------------------------- *)
OpenStream(c) ==
    /\ pc = "build" /\ origin.kind = "built"
    /\ Len(body) < suite.ms
    /\ body' = Append(body, [cls |-> c, batches |-> <<>>])
    /\ UNCHANGED <<sname, origin, tails, pc, hist>>

AddBatch(k) ==
    /\ pc = "build" /\ origin.kind = "built"
    /\ body # <<>>
    /\ Len(body[Len(body)].batches) < suite.mb
    /\ body' = [body EXCEPT ![Len(body)].batches = Append(@, k)]
    /\ UNCHANGED <<sname, origin, tails, pc, hist>>

Seal(T) ==
    /\ pc = "build" /\ origin.kind = "built"
    /\ Len(body) >= suite.minS
    /\ tails' = T /\ pc' = "tokens"
    /\ UNCHANGED <<sname, body, origin>>
    /\ Record([a |-> "Body", h |-> "Body", args |-> [streams |-> InHist(body), tails |-> T],
               exp |-> [nstreams |-> Len(body)]])

(* ---- or letting the real writers produce it -------------------------- *)
WriteRequest(c, T) ==
    /\ pc = "build" /\ body = <<>>
    /\ body' = WrittenRequest(c)
    /\ origin' = [kind |-> "wreq", c |-> c]
    /\ tails' = T /\ pc' = "tokens" /\ UNCHANGED sname
    /\ Record([a |-> "WriteRequest", h |-> "WriteRequest", args |-> [m |-> c.m, p |-> c.p, v |-> c.v, tails |-> T],
               exp |-> [w_ok |-> TRUE, w_keys |-> WrittenKeys(c), w_rv |-> "1",
                        w_batches |-> 1, w_eos |-> TRUE]])

WriteUnaryResult(c, T) ==
    /\ pc = "build" /\ body = <<>>
    /\ body' = WrittenResult(c)
    /\ origin' = [kind |-> "wres", c |-> c]
    /\ tails' = T /\ pc' = "tokens" /\ UNCHANGED sname
    /\ Record([a |-> IF EnvAccepted(c) THEN "WriteUnaryResult_OK" ELSE "WriteUnaryResult_BadEnvelope", h |-> "WriteUnaryResult",
               args |-> [env |-> c.env, pay |-> c.pay, tails |-> T],
               exp |-> [w_ok |-> EnvAccepted(c), w_batches |-> IF EnvAccepted(c) THEN 1 ELSE 0]])

(* ---- the helpers, one action per exit of the Go function -------------- *)
FindStreamTokens ==
    /\ pc = "tokens"
    /\ LET r == FindStreamTokensOp(body, Rep(tails)) IN
       Record([a |-> "FindStreamTokens_" \o r.br, h |-> "FindStreamTokens", args |-> [x |-> 0],
               exp |-> K(StateJudged(body), "state", r.state)
                       @@ K(CallJudged(body), "call", r.call)
                       @@ ("single" :> TRUE)])   \* FindStateToken / FindCallStateToken agree
    /\ pc' = "pver"
    /\ UNCHANGED <<sname, body, origin, tails>>

FindProtocolVersion ==
    /\ pc = "pver"
    /\ LET r == FindProtocolVersionOp(body, Rep(tails)) IN
       Record([a |-> "FindProtocolVersion_" \o r.br, h |-> "FindProtocolVersion", args |-> [x |-> 0],
               exp |-> K(PverJudged(body), "pver", r.pos)])
    /\ pc' = "unary"
    /\ UNCHANGED <<sname, body, origin, tails>>

ReadUnaryResult ==
    /\ pc = "unary"
    /\ LET r == ReadUnaryResultOp(body, Rep(tails))
           j == UnaryJudged(body, origin) IN
       Record([a |-> "ReadUnaryResult_" \o r.br, h |-> "ReadUnaryResult", args |-> [x |-> 0],
               exp |-> K(j, "unary", r.pos)
                       @@ K(j, "payload", IF r.pos = NonePos THEN "n/a" ELSE "same")
                       \* re-wrapping what was unwrapped gives the same bytes again;
                       \* the writer refuses an envelope with extra columns
                       @@ K(j, "rewrap", IF r.pos = NonePos THEN "n/a"
                                         ELSE IF body[1].cls = "bin1" THEN "same" ELSE "refused")])
    /\ pc' = "request"
    /\ UNCHANGED <<sname, body, origin, tails>>

ReadRequest ==
    /\ pc = "request"
    /\ LET r == ReadRequestOp(body, Rep(tails))
           j == RequestJudged(body) IN
       Record([a |-> "ReadRequest_" \o r.br, h |-> "ReadRequest", args |-> [x |-> 0],
               exp |-> K(j, "req_ok", r.ok)
                       @@ K(j, "method", IF r.ok THEN "same" ELSE "n/a")
                       @@ K(j, "params", IF r.ok THEN "same" ELSE "n/a")
                       @@ K(j /\ r.pver # "empty", "req_pver", r.pver)
                       @@ ("rest_x" :> r.rest)])
    /\ pc' = "neg"
    /\ UNCHANGED <<sname, body, origin, tails>>

(* Negative direction.  The rendered body truncated at every message      *)
(* boundary and one byte either side, Garbles byte-garbled copies of it,   *)
(* and a handful of arbitrary byte strings go through every helper:        *)
(*  - nothing panics (a recovered Go panic) and nothing takes the whole    *)
(*    process down (the driver runs garbled/arbitrary bytes in a child     *)
(*    process: fatal_alloc = it died or stalled inside a memory            *)
(*    allocation, fatal_other = any other death);                          *)
(*  - a truncation (a PREFIX of the body) is never misread: whatever a     *)
(*    helper still returns for it is what it returns for the whole body;   *)
(*  - nothing at all comes out of the arbitrary strings.                   *)
Malformed ==
    /\ pc = "neg"
    /\ RecordLast([a |-> "Malformed", h |-> "Malformed", args |-> [garbles |-> Garbles],
               exp |-> [panics |-> 0, fatal_alloc |-> 0, fatal_other |-> 0, misread |-> 0, junk_accepted |-> 0]])
    /\ pc' = "done"
    /\ UNCHANGED <<sname, body, origin, tails>>

Init ==
    /\ sname \in {u.name : u \in Suites}
    /\ body = <<>>
    /\ origin = [kind |-> "built"]
    /\ tails = {}
    /\ pc = "build"
    /\ hist = << [a |-> "Init", h |-> "Init", args |-> [suite |-> suite.name, ms |-> suite.ms, mb |-> suite.mb],
                  exp |-> [x |-> 0]] >>

TailSets == IF SweepTails THEN {Tails} ELSE {{t} : t \in Tails}

Next ==
    \/ \E c \in (IF body = <<>> THEN suite.first ELSE suite.later) : OpenStream(c)
    \/ \E k \in suite.kinds : AddBatch(k)
    \/ \E T \in TailSets : Seal(T)
    \/ \E c \in suite.wreq, T \in TailSets : WriteRequest(c, T)
    \/ \E c \in suite.wres, T \in TailSets : WriteUnaryResult(c, T)
    \/ FindStreamTokens \/ FindProtocolVersion \/ ReadUnaryResult \/ ReadRequest
    \/ Malformed

Spec == Init /\ [][Next]_vars

View == <<sname, body, origin, tails, pc>>

--------------------------------------------------------------------------
(*                     C01, stated declaratively                          *)
(*                                                                         *)
(* (a) the stream-token finders recover what was stamped: the cursor is    *)
(*     the first one in byte order; the call token is the first one that   *)
(*     was stamped no later than that cursor (all of them when there is no *)
(*     cursor) -- and the bytes after the found token do not matter.       *)
(* (b) the protocol-version finder recovers the version stamped on the     *)
(*     request stream.                                                     *)
(* (c) a body is unwrapped as a unary result exactly when its first stream *)
(*     is { non-EXCEPTION log }* followed by a row-bearing batch with a    *)
(*     binary result column -- in particular never for an error stream, a  *)
(*     log-only stream or a non-binary result; the bytes are the wrapped   *)
(*     ones.                                                               *)
(* (d) what WriteRequest frames, ReadRequest reads back identically and    *)
(*     FindProtocolVersion recovers; what WriteUnaryResult wraps,          *)
(*     ReadUnaryResult unwraps.                                            *)
(* (e) a body whose first stream is not a well-formed request (nothing     *)
(*     parseable, no batch, no/invalid method, no/unsupported version,     *)
(*     wrong row count) is rejected, and no input makes a helper panic.    *)
(* (f) none of this depends on how the bytes end after the decisive batch. *)
(***************************************************************************)
Last == hist'[Len(hist')]
Stepped == hist' # hist
Has(r, k) == k \in DOMAIN r
IsStep(name) == Stepped /\ Last.h = name

Cursors(bd) == {p \in AllPositions(bd) : At(bd, p).cur = "tok"}
FirstCursor(bd) == MinPos(Cursors(bd))
CallFor(bd) == LET c == FirstCursor(bd) IN
               MinPos({p \in AllPositions(bd) :
                         At(bd, p).call = "tok" /\ (c = NonePos \/ p = c \/ Before(p, c))})

FindersRecoverStamps ==
    [][ /\ IsStep("FindStreamTokens") =>
             /\ Has(Last.exp, "state") => Last.exp.state = FirstCursor(body)
             /\ Has(Last.exp, "call")  => Last.exp.call = CallFor(body)
        /\ IsStep("FindProtocolVersion") =>
             (Has(Last.exp, "pver") =>
                Last.exp.pver = (IF body = <<>> THEN NonePos
                                 ELSE MinPos({p \in AllPositions(body) : p.s = 1 /\ At(body, p).pver = "tok"})))
      ]_vars

IsLogBatch(b) == b.rows = 0 /\ b.log = "lvl"
ResultAt(bd) ==    \* where the result of a unary response sits, NonePos if it is not one
    IF bd = <<>> \/ ~ResultBinary(bd[1].cls) THEN NonePos
    ELSE LET bs == bd[1].batches
             S == {i \in 1..Len(bs) : bs[i].rows > 0 /\ \A j \in 1..(i-1) : IsLogBatch(bs[j])}
         IN IF S = {} THEN NonePos ELSE Pos(1, CHOOSE i \in S : TRUE)
ErrorStream(bd) == bd # <<>> /\ \E i \in 1..Len(bd[1].batches) :
                      /\ bd[1].batches[i].rows = 0 /\ bd[1].batches[i].log = "EXCEPTION"
                      /\ \A j \in 1..(i-1) : IsLogBatch(bd[1].batches[j])
LogOnly(bd) == bd # <<>> /\ \A i \in 1..Len(bd[1].batches) : IsLogBatch(bd[1].batches[i])
NonBinary(bd) == bd # <<>> /\ ~ResultBinary(bd[1].cls)

UnaryNotMisread ==
    [][ (IsStep("ReadUnaryResult") /\ Has(Last.exp, "unary")) =>
          /\ Last.exp.unary = ResultAt(body)
          /\ (ErrorStream(body) \/ LogOnly(body) \/ NonBinary(body)) => Last.exp.unary = NonePos
          /\ (Last.exp.unary # NonePos) => Last.exp.payload = "same"
      ]_vars

WellFormedRequest(bd) ==
    /\ bd # <<>> /\ bd[1].batches # <<>>
    /\ LET b == bd[1].batches[1] IN
       b.method = "ok" /\ b.rv = "ok" /\ (HasFields(bd[1].cls) => b.rows = 1)

RequestsRoundTrip ==
    [][ /\ (IsStep("ReadRequest") /\ Has(Last.exp, "req_ok")) =>
             /\ Last.exp.req_ok = WellFormedRequest(body)
             /\ Last.exp.req_ok => Last.exp.method = "same" /\ Last.exp.params = "same"
        \* inverse pairs
        /\ (IsStep("ReadRequest") /\ origin.kind = "wreq") =>
             /\ Last.exp.req_ok /\ Last.exp.method = "same" /\ Last.exp.params = "same"
             /\ Last.exp.req_pver = (IF origin.c.v = "none" THEN "absent" ELSE "same")
        /\ (IsStep("FindProtocolVersion") /\ origin.kind = "wreq") =>
             Last.exp.pver = (IF origin.c.v = "none" THEN NonePos ELSE Pos(1, 1))
        /\ (IsStep("FindStreamTokens") /\ origin.kind = "wreq") =>
             Last.exp.state = NonePos /\ Last.exp.call = NonePos     \* params metadata is not carried over
        /\ (IsStep("ReadUnaryResult") /\ origin.kind = "wres" /\ origin.c.env = "result_bin") =>
             Last.exp.unary = Pos(1, 1) /\ Last.exp.payload = "same" /\ Last.exp.rewrap = "same"
      ]_vars

\* what the writers put on the wire (decoded independently of the readers)
RangeOf(q) == {q[i] : i \in 1..Len(q)}
WritersFrame ==
    [][ /\ IsStep("WriteRequest") =>
             /\ Last.exp.w_ok /\ Last.exp.w_batches = 1 /\ Last.exp.w_eos /\ Last.exp.w_rv = "1"
             /\ {"vgi_rpc.method", "vgi_rpc.request_version"} \subseteq RangeOf(Last.exp.w_keys)
             /\ ("vgi_rpc.protocol_version" \in RangeOf(Last.exp.w_keys)) <=> (Last.args.v # "none")
        /\ IsStep("WriteUnaryResult") =>
             /\ Last.exp.w_ok <=> (Last.args.env \in {"result_bin", "other_bin"})
             /\ Last.exp.w_batches = (IF Last.exp.w_ok THEN 1 ELSE 0)
      ]_vars

NeverPanics ==
    [][ IsStep("Malformed") => Last.exp.panics = 0 /\ Last.exp.fatal_alloc = 0 /\ Last.exp.fatal_other = 0 /\ Last.exp.misread = 0 /\ Last.exp.junk_accepted = 0 ]_vars

\* (f) as a state predicate over the viewed state: the judged part of every
\* helper's answer is the same under every tail.
JFST(bd, t) == LET r == FindStreamTokensOp(bd, t) IN <<r.state, r.call>>
JRR(bd, t)  == LET r == ReadRequestOp(bd, t) IN <<r.ok, r.pver>>
TailIndependent ==
    \A t \in AllTails :
        /\ JFST(body, t) = JFST(body, "clean")
        /\ FindProtocolVersionOp(body, t).pos = FindProtocolVersionOp(body, "clean").pos
        /\ ReadUnaryResultOp(body, t).pos = ReadUnaryResultOp(body, "clean").pos
        /\ JRR(body, t) = JRR(body, "clean")
=============================================================================
