SPECIFICATION Spec
CONSTANTS
    Suites <- GenThoroughSuites
    Tails = {"clean", "noeos", "cut_in", "cut_next", "junk"}
    SweepTails = TRUE
    Garbles = 1
    Mode = "edges"
    Depth = 0
VIEW View
CHECK_DEADLOCK FALSE
