SPECIFICATION Spec
CONSTANTS
    Suites <- GenWalkSuites
    Tails = {"clean", "noeos", "cut_in", "cut_next", "junk"}
    SweepTails = TRUE
    Garbles = 2
    Mode = "tree"
    Depth = 0

CHECK_DEADLOCK FALSE
