SPECIFICATION Spec
CONSTANTS
    MaxStreams = 1
    MaxBatches = 3
    FirstClasses = {"empty", "other", "bin1", "binN", "nonbin"}
    LaterClasses = {"any"}
    Kinds <- PalUnary
    Tails = {"clean", "noeos", "cut_in", "cut_next", "junk"}
    SweepTails = TRUE
    WriteReqCases <- NoCases
    WriteResCases <- AllWriteRes
    Garbles = 2
    Mode = "edges"
    Depth = 0
VIEW View
CHECK_DEADLOCK FALSE
