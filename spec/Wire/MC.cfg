SPECIFICATION Spec
CONSTANTS
    MaxStreams = 2
    MaxBatches = 2
    FirstClasses = {"empty", "other", "bin1", "binN", "nonbin"}
    LaterClasses = {"any"}
    Kinds <- PalMCQuick
    Tails = {"clean", "cut_in", "junk"}
    SweepTails = FALSE
    WriteReqCases <- AllWriteReq
    WriteResCases <- AllWriteRes
    Garbles = 0
    Mode = "mc"
    Depth = 0
VIEW View
INVARIANTS TypeOK TailIndependent
PROPERTIES FindersRecoverStamps UnaryNotMisread RequestsRoundTrip NeverPanics
CHECK_DEADLOCK FALSE
