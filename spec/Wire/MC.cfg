SPECIFICATION Spec
CONSTANTS
    Suites <- MCQuickSuites
    Tails = {"clean", "cut_in"}
    SweepTails = FALSE
    Garbles = 0
    Mode = "mc"
    Depth = 0
VIEW View
INVARIANTS TypeOK TailIndependent
PROPERTIES FindersRecoverStamps UnaryNotMisread RequestsRoundTrip WritersFrame NeverPanics
CHECK_DEADLOCK FALSE
