SPECIFICATION Spec
CONSTANTS
    GoodRates = {"0", "0.3", "0.7"}
    BadRates = {}
    Sids = {}
    Rids = {"r1", "r2"}
    Window = 2
    Mode = "mc"
    Depth = 0
VIEW View
INVARIANTS TypeOK AllOrNothing BadRatesRejected
PROPERTIES ErrorsAlwaysKept KeptCarryRate HookFollowsSampler NoSamplingKeepsAll RateZeroKeepsOnlyErrors FateFixed DecidedByFate ErrorsLeaveNoTrace
CHECK_DEADLOCK FALSE
