SPECIFICATION Spec
CONSTANTS
    GoodRates = {"0.3", "0.7"}
    BadRates = {}
    Sids = {"s1"}
    Rids = {"r1"}
    Window = 3
    Mode = "mc"
    Depth = 0
VIEW View
INVARIANTS TypeOK AllOrNothing BadRatesRejected
PROPERTIES ErrorsAlwaysKept KeptCarryRate HookFollowsSampler NoSamplingKeepsAll RateZeroKeepsOnlyErrors FateFixed DecidedByFate ErrorsLeaveNoTrace
CHECK_DEADLOCK FALSE
