------------------------------- MODULE Sampler -------------------------------
(***************************************************************************)
(* The access-log sampler of vgi-rpc-go (vgirpc/accesslog_sample.go) and   *)
(* its use by AccessLogHook.emit (vgirpc/accesslog.go).                    *)
(*                                                                         *)
(*   newAccessLogSampler(rate)   rejects NaN and rates outside 0.0..1.0    *)
(*   keep(record)                rate >= 1       -> true (nothing stamped) *)
(*                               status = error  -> true (hash not looked  *)
(*                                                  at, nothing stamped)   *)
(*                               h(key) > thr    -> false                  *)
(*                               otherwise       -> stamp sample_rate, true*)
(*   key(record)                 stream_id if a non-empty string, else     *)
(*                               request_id if a non-empty string, else a  *)
(*                               fresh fallback key (per-record decision)  *)
(*                                                                         *)
(* The hash is an UNKNOWN BUT FIXED function of the key.  The model has a  *)
(* variable fate[k], unset until the code first evaluates the hash of k,   *)
(* chosen nondeterministically then (TLC explores both fates) and fixed    *)
(* thereafter.  Which fates exist depends on the rate: at rate 0 the       *)
(* threshold is 0 and every key drops; at rate 1 the hash is never read.   *)
(*                                                                         *)
(* Binding (trace-validation style replay): every Keep step carries in     *)
(* args the fate the model consulted; the driver binds each abstract key   *)
(* to a concrete identifier whose REAL first decision has that fate        *)
(* (rejection sampling through the sampler under test), so exp is a        *)
(* deterministic function of args.  A record without any identifier gets a *)
(* fresh key whose fate the driver cannot steer: TLC generates both fates  *)
(* and the driver declares the step unobservable (__skip__) in the branch  *)
(* that the real execution did not take.                                   *)
(*                                                                         *)
(* Every record is pushed through two real paths: the bare sampler (keys   *)
(* kept/stamp) and a real AccessLogHook with SetSampleRate writing JSON    *)
(* lines to a buffer (keys hkept/hstamp = line written / sample_rate in    *)
(* the written line).                                                      *)
(*                                                                         *)
(* HISTORY.  keep is a function of (key, status, rate) and of nothing      *)
(* else: the code holds no per-key or per-call memory (the only mutable    *)
(* field is the fallback counter).  A sampler that remembers anything      *)
(* about earlier records (a memo of the last decision, a cache, a "this    *)
(* stream failed" mark) differs only in ORDERED histories, which a state   *)
(* made of (rate, fate, outcomes) cannot tell apart: an error record is a  *)
(* self-loop there.  The variable recent holds the last Window records in  *)
(* order; it changes no decision of the model, but it is part of the VIEW, *)
(* so the generated behaviours contain, for every reachable (fate map,     *)
(* outcomes) and every ordered Window-tuple of preceding records (same id  *)
(* repeated, other ids interleaved, errors before / between / after),      *)
(* every next record.  Window = 0 gives the history-blind graph.           *)
(* The fate of an id is bound by the driver on a VIRGIN sampler (never on  *)
(* the instance under test), so the instance under test sees exactly the   *)
(* records of the behaviour, in order, and nothing else.                   *)
(***************************************************************************)
EXTENDS Naturals, Sequences, FiniteSets, TLC, VerifEmit

CONSTANTS
    GoodRates,   \* subset of {"0", "0.3", "0.7", "1"}: rates the constructor accepts
    BadRates,    \* e.g. {"-0.1", "1.1", "100", "NaN"}: rates it must reject
    Sids,        \* abstract stream ids, e.g. {"s1", "s2"}
    Rids,        \* abstract request ids, e.g. {"r1", "r2"}
    Window,      \* how many preceding records (in order) the state distinguishes
    Mode,        \* "mc" | "edges" | "tree"
    Depth

None == "none"
Keys == Sids \cup Rids

VARIABLES
    rate,        \* "unset" or the accepted rate
    fate,        \* [Keys -> {"unset", "keep", "drop"}]: h(key) <= threshold ?
    outcomes,    \* [Keys -> SUBSET BOOLEAN]: keep decisions OBSERVED so far for the
                 \* non-error records whose sampling key is k (ghost, for the property)
    recent,      \* the last Window records <<sid, rid, status>>, oldest first (ghost:
                 \* the code keeps no such memory; see HISTORY above)
    hist

vars == <<rate, fate, outcomes, recent, hist>>

\* a record, as far as the sampler reads it
Records == [sid : Sids \cup {None}, rid : Rids \cup {None}, status : {"ok", "error"}]

\* key(record): stream id first, then request id, else a fresh fallback key
KeyOf(rec) == IF rec.sid # None THEN rec.sid
              ELSE IF rec.rid # None THEN rec.rid
              ELSE "fresh"

Sampling == rate # "1"              \* SetSampleRate(1) / rate >= 1.0: sampler inactive
\* fates the real hash can produce under the rate: threshold = rate * MaxUint32,
\* drop iff h > threshold; at rate 0 only h = 0 (one key in 2^32) would be kept
Achievable == IF rate = "0" THEN {"drop"} ELSE {"keep", "drop"}

--------------------------------------------------------------------------
Record(step) ==
    /\ hist' = Append(hist, step)
    /\ (Mode = "edges") => EmitTrace(hist')
    /\ (Mode = "tree" /\ Len(hist') = Depth) => EmitTrace(hist')

Budget == (Mode = "tree") => Len(hist) < Depth

\* the record joins the ordered window of preceding records
Push(rec) ==
    recent' = IF Window = 0 THEN <<>>
              ELSE LET s == Append(recent, <<rec.sid, rec.rid, rec.status>>)
                   IN  IF Len(s) > Window THEN Tail(s) ELSE s

Args(rec, f) == [sid |-> rec.sid, rid |-> rec.rid, status |-> rec.status,
                 key |-> KeyOf(rec), fate |-> f]

\* newAccessLogSampler: NaN / out of range
Configure_Rejected(r) ==
    /\ Budget /\ rate = "unset" /\ r \in BadRates
    /\ UNCHANGED <<rate, fate, outcomes, recent>>
    /\ Record([a |-> "Configure", args |-> [rate |-> r],
               exp |-> [accepted |-> FALSE, haccepted |-> FALSE]])

Configure_OK(r) ==
    /\ Budget /\ rate = "unset" /\ r \in GoodRates
    /\ rate' = r
    /\ UNCHANGED <<fate, outcomes, recent>>
    /\ Record([a |-> "Configure", args |-> [rate |-> r],
               exp |-> [accepted |-> TRUE, haccepted |-> TRUE]])

\* keep: `if s.rate >= 1.0 { return true }`
Keep_RateOne(rec) ==
    /\ Budget /\ rate = "1"
    /\ UNCHANGED <<rate, fate, outcomes>> /\ Push(rec)
    /\ Record([a |-> "Keep", args |-> Args(rec, "none"),
               exp |-> [kept |-> TRUE, stamp_x |-> "absent",
                        hkept |-> TRUE, hstamp_x |-> "absent"]])

\* keep: `if record["status"] == "error" { return true }` -- before the hash
Keep_Error(rec) ==
    /\ Budget /\ rate \notin {"unset", "1"} /\ rec.status = "error"
    /\ UNCHANGED <<rate, fate, outcomes>> /\ Push(rec)
    /\ Record([a |-> "Keep", args |-> Args(rec, "none"),
               exp |-> [kept |-> TRUE, stamp_x |-> "absent",
                        hkept |-> TRUE, hstamp_x |-> "absent"]])

\* the hash of the record's key is consulted: first use fixes the fate
Consult(rec, f) ==
    LET k == KeyOf(rec) IN
    IF k = "fresh" THEN f \in Achievable /\ UNCHANGED fate
    ELSE /\ IF fate[k] = "unset" THEN f \in Achievable ELSE f = fate[k]
         /\ fate' = [fate EXCEPT ![k] = f]

Observe(rec, kept) ==
    LET k == KeyOf(rec) IN
    IF k = "fresh" THEN UNCHANGED outcomes
    ELSE outcomes' = [outcomes EXCEPT ![k] = @ \cup {kept}]

\* keep: `if h.Sum32() > s.threshold { return false }`
Keep_HashDrop(rec) ==
    /\ Budget /\ rate \notin {"unset", "1"} /\ rec.status # "error"
    /\ Consult(rec, "drop")
    /\ Observe(rec, FALSE)
    /\ UNCHANGED rate /\ Push(rec)
    /\ Record([a |-> "Keep", args |-> Args(rec, "drop"),
               exp |-> [kept |-> FALSE, untouched |-> TRUE, hkept |-> FALSE]])

\* keep: `record["sample_rate"] = s.rate; return true`
Keep_HashKeep(rec) ==
    /\ Budget /\ rate \notin {"unset", "1"} /\ rec.status # "error"
    /\ Consult(rec, "keep")
    /\ Observe(rec, TRUE)
    /\ UNCHANGED rate /\ Push(rec)
    /\ Record([a |-> "Keep", args |-> Args(rec, "keep"),
               exp |-> [kept |-> TRUE, stamp |-> rate, hkept |-> TRUE, hstamp |-> rate]])

Init ==
    /\ rate = "unset"
    /\ fate = [k \in Keys |-> "unset"]
    /\ outcomes = [k \in Keys |-> {}]
    /\ recent = <<>>
    /\ hist = << [a |-> "Init", args |-> [x |-> 0], exp |-> [ok |-> TRUE]] >>

Next ==
    \/ \E r \in BadRates : Configure_Rejected(r)
    \/ \E r \in GoodRates : Configure_OK(r)
    \/ \E rec \in Records :
          Keep_RateOne(rec) \/ Keep_Error(rec) \/ Keep_HashDrop(rec) \/ Keep_HashKeep(rec)

Spec == Init /\ [][Next]_vars

--------------------------------------------------------------------------
(* C39, sampling half.                                                     *)
Last == hist'[Len(hist')]
IsKeep == Len(hist') > Len(hist) /\ Last.a = "Keep"

TypeOK ==
    /\ rate \in GoodRates \cup {"unset"}
    /\ fate \in [Keys -> {"unset", "keep", "drop"}]
    /\ outcomes \in [Keys -> SUBSET BOOLEAN]
    /\ Len(recent) <= Window

\* an error record is always kept, through the sampler and through the hook
ErrorsAlwaysKept ==
    [][ (IsKeep /\ Last.args.status = "error") => (Last.exp.kept /\ Last.exp.hkept) ]_vars

\* records sharing a stream id -- or, absent one, a request id -- are all kept or all
\* dropped: no key has ever shown two different decisions
AllOrNothing == \A k \in Keys : Cardinality(outcomes[k]) <= 1

\* the decision is a function of the id: the fate of a key, once the hash has been
\* consulted, never changes, and every non-error record of that key is decided by it
\* -- whatever records (of this or other ids, errors or not) came before
FateFixed == [][ \A k \in Keys : fate[k] # "unset" => fate'[k] = fate[k] ]_vars
DecidedByFate ==
    [][ (IsKeep /\ Last.args.status # "error" /\ Sampling /\ Last.args.key \in Keys) =>
            (Last.exp.kept <=> fate'[Last.args.key] = "keep") ]_vars
\* an error record leaves no trace: it changes neither a fate nor an observed decision
ErrorsLeaveNoTrace ==
    [][ (IsKeep /\ Last.args.status = "error") => (fate' = fate /\ outcomes' = outcomes) ]_vars

\* every kept non-error record carries the rate (when a sampler is active at all)
KeptCarryRate ==
    [][ (IsKeep /\ Last.args.status # "error" /\ Sampling /\ Last.exp.kept) =>
            ( /\ "stamp" \in DOMAIN Last.exp /\ Last.exp.stamp = rate
              /\ "hstamp" \in DOMAIN Last.exp /\ Last.exp.hstamp = rate ) ]_vars

\* the hook writes a line exactly for the records the sampler keeps
HookFollowsSampler == [][ IsKeep => (Last.exp.hkept = Last.exp.kept) ]_vars

\* behaviour around the property: without sampling nothing is dropped; rate 0 keeps
\* exactly the errors; out-of-range rates never become the rate
NoSamplingKeepsAll == [][ (IsKeep /\ ~Sampling) => Last.exp.kept ]_vars
RateZeroKeepsOnlyErrors ==
    [][ (IsKeep /\ rate = "0") => (Last.exp.kept <=> Last.args.status = "error") ]_vars
BadRatesRejected == rate \notin BadRates

View == <<rate, fate, outcomes, recent>>
=============================================================================
