SPECIFICATION Spec
CONSTANTS
    GoodRates = {"0.3", "0.7"}
    BadRates = {}
    Sids = {"s1"}
    Rids = {"r1"}
    Window = 3
    Mode = "edges"
    Depth = 0
VIEW View
CHECK_DEADLOCK FALSE
