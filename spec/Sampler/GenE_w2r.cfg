SPECIFICATION Spec
CONSTANTS
    GoodRates = {"0", "0.3", "0.7"}
    BadRates = {}
    Sids = {}
    Rids = {"r1", "r2"}
    Window = 2
    Mode = "edges"
    Depth = 0
VIEW View
CHECK_DEADLOCK FALSE
