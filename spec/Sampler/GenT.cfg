SPECIFICATION Spec
CONSTANTS
    GoodRates = {"0.3", "0.7"}
    BadRates = {}
    Sids = {"s1", "s2"}
    Rids = {"r1"}
    Mode = "tree"
    Depth = 6
CHECK_DEADLOCK FALSE
