SPECIFICATION Spec
CONSTANTS
    GoodRates = {"0", "0.3", "0.7", "1"}
    BadRates = {"-0.1", "1.1", "100", "NaN", "-Inf", "+Inf"}
    Sids = {"s1", "s2"}
    Rids = {"r1", "r2"}
    Window = 0
    Mode = "edges"
    Depth = 0
VIEW View
CHECK_DEADLOCK FALSE
