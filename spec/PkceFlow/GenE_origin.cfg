SPECIFICATION Spec
CONSTANTS
    Cfgs <- OriginCfgs
    Pages = {"landing"}
    Accepts = {"html"}
    AuthClasses = {"none", "valid", "invalid", "jwt_expired"}
    RtClasses <- OriginRt
    QClasses = {"none"}
    CookieMuts = {"valid"}
    StateClasses = {"equal"}
    Forms = {"code"}
    Ages = {0}
    FieldClasses = {}
    DirectMuts = {}
    DirectAges = {}
    OrigClasses = {}
    MaxDev = 99
    Mode = "edges"
    Depth = 0
VIEW View
CHECK_DEADLOCK FALSE
