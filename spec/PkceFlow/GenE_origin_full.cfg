SPECIFICATION Spec
CONSTANTS
    Cfgs <- OriginCfgsWide
    Pages = {"landing"}
    Accepts = {"html"}
    AuthClasses = {"none", "valid", "invalid", "jwt_expired", "header_valid"}
    RtClasses <- OriginRt
    QClasses = {"none", "with_rt"}
    CookieMuts = {"valid", "nopad"}
    StateClasses = {"equal", "different"}
    Forms = {"code"}
    Ages = {0}
    FieldClasses = {}
    DirectMuts = {}
    DirectAges = {}
    OrigClasses = {}
    MaxDev = 99
    Mode = "edges"
    Depth = 0
VIEW View
CHECK_DEADLOCK FALSE
