------------------------------ MODULE PkceFlow ------------------------------
(***************************************************************************)
(* Browser OAuth (PKCE) login of vgi-rpc-go (property C27).                *)
(*                                                                         *)
(*   vgirpc/oauth_pkce_handlers.go  wrapPageWithPkce, pkceEarlyReturn-      *)
(*                                  Redirect, pkceRedirectToOAuth,          *)
(*                                  handleOAuthCallback, handleOAuthLogout  *)
(*   vgirpc/oauth_pkce_cookie.go    packOAuthCookie / unpackOAuthCookie     *)
(*   vgirpc/oauth_pkce_oidc.go      validateReturnTo, validateOriginalURL,  *)
(*                                  exchangeCodeForToken, OIDC discovery    *)
(*                                                                         *)
(* A behaviour is a short chain                                            *)
(*     Init(cfg) -> PageRequest -> Callback          (the login flow)      *)
(*     Init(cfg) -> PackUnpack | CheckReturnTo | CheckOriginal | Logout    *)
(* in which every input the browser / an adversary controls is a class     *)
(* chosen by TLC: the _vgi_return_to value, the query string, the          *)
(* credentials on the page request, what is done to the session cookie     *)
(* between redirect and callback, the returned state, the shape of the     *)
(* callback query, how much time passes.  The harness maps every class to  *)
(* concrete strings / byte mutations.                                      *)
(* The operator's side varies too: one allowlist entry is spelled in every *)
(* way an operator may write an origin (cfg.escheme / eport / eform) and   *)
(* the "E.*" return URLs vary scheme, host and port against it; the        *)
(* allowlist is the verbatim map SetOAuthPkce builds (cfgs named _origin). *)
(*                                                                         *)
(* Actions are written operationally, branch by branch as the handlers     *)
(* are; what C27 promises is stated declaratively at the bottom, over the  *)
(* attributes of the classes, and model-checked against the actions.       *)
(*                                                                         *)
(* Observation keys.  m_*  keys are the model's exact prediction of what   *)
(* the code does (status, branch, ...): they document the code and are     *)
(* reported as drift when they differ, never as a verdict.  The judged     *)
(* keys (roundtrip, refused, exchanged, loc_safe, bearer_safe,             *)
(* ret_refused, orig_safe) are present in a step's exp only when the text  *)
(* of C27 determines their value for that step, and are derived from the   *)
(* declarative predicates, not from the operational branch taken.          *)
(***************************************************************************)
EXTENDS Integers, Sequences, FiniteSets, TLC, VerifEmit

CONSTANTS
    Cfgs,          \* set of configurations (subset of AllCfgs)
    Pages, Accepts, AuthClasses, RtClasses, QClasses,     \* PageRequest inputs
    CookieMuts, StateClasses, Forms, Ages,                \* Callback inputs
    FieldClasses, DirectMuts, DirectAges,                 \* PackUnpack inputs
    OrigClasses,                                          \* CheckOriginal inputs
    MaxDev,        \* bound on the number of non-baseline choices per behaviour,
                   \* configuration components included (99 = no thinning)
    Mode, Depth

VARIABLES
    cfg,      \* [prefix, idtoken, idp, escheme, eport, eform] fixed per behaviour
    phase,    \* "idle" | "redirected" | "done"
    sess,     \* what pkceRedirectToOAuth packed into the session cookie
    hist

vars == <<cfg, phase, sess, hist>>

MaxAge == 600      \* sessionMaxAge, seconds

--------------------------------------------------------------------------
(* Configurations.                                                         *)
(*   prefix   "" | "/vgi"             HttpServer.SetPrefix                 *)
(*   idtoken  use_id_token_as_bearer  (bearer = id_token, not access_token)*)
(*   idp      "up" | "down" (discovery fails) | "token_error" (token       *)
(*            endpoint answers with an error / without a token)            *)
(* The operator's allowlist holds one more entry, for the frontend host E, *)
(* and HOW that entry is spelled is configuration too:                     *)
(*   escheme  "https" | "http"                                             *)
(*   eport    "none" (no port) | "default" (the scheme's default port      *)
(*            written out: https://E:443, http://E:80) | "other" (a        *)
(*            non-default port N)                                          *)
(*   eform    "bare" | "upper_scheme" (HTTPS://e) | "upper_host"           *)
(*            (https://E.EXAMPLE) | "slash" (trailing /) | "path" (/app)   *)
ESchemes == {"https", "http"}
EPorts   == {"none", "default", "other"}
EForms   == {"bare", "upper_scheme", "upper_host", "slash", "path"}
AllCfgs == [prefix : {"", "/vgi"}, idtoken : BOOLEAN, idp : {"up", "down", "token_error"},
            escheme : ESchemes, eport : EPorts, eform : EForms]
BaseCfg == [prefix |-> "/vgi", idtoken |-> FALSE, idp |-> "up",
            escheme |-> "https", eport |-> "none", eform |-> "bare"]
\* number of components in which a configuration differs from the baseline
CfgDev(c) == Cardinality({k \in DOMAIN BaseCfg : c[k] # BaseCfg[k]})
BaseEntry(c) == c.escheme = BaseCfg.escheme /\ c.eport = BaseCfg.eport /\ c.eform = BaseCfg.eform
\* configuration sets for the cfg files: every server configuration with the
\* baseline spelling of the E entry / every spelling of the E entry on the
\* baseline server / every spelling on every server whose IdP works
MainCfgs       == {c \in AllCfgs : BaseEntry(c)}
OriginCfgs     == {c \in AllCfgs : c.prefix = BaseCfg.prefix /\ c.idtoken = BaseCfg.idtoken /\ c.idp = "up"}
OriginCfgsWide == {c \in AllCfgs : c.idp = "up"}

--------------------------------------------------------------------------
(* The allowlist of return origins the harness configures, abstractly.     *)
(*   A  https entry without port       D  the built-in default entry       *)
(*   P  https entry naming port 8443   H  http entry without port          *)
(* Other host codes:  L  localhost / 127.0.0.1    L6  [::1]                *)
(*   X  unrelated host   S  look-alike of an entry   -  no host            *)
Allow == { [scheme |-> "https", host |-> "A", port |-> "any"],
           [scheme |-> "https", host |-> "D", port |-> "any"],
           [scheme |-> "https", host |-> "P", port |-> "8443"],
           [scheme |-> "http",  host |-> "H", port |-> "any"] }

(* Attributes of a _vgi_return_to class.                                   *)
(*   len     "ok" | "empty" | "toolong" (> 2048 bytes)                     *)
(*   parse   "ok" | "err"   does Go's url.Parse accept it                  *)
(*   scheme, host, port     what url.Parse reports (Scheme, Hostname(),    *)
(*                          Port(): "none" | "8443" | "other")             *)
(*   bscheme, bhost, bport  where a browser following the URL ends up      *)
(*                          (backslashes, tabs, missing slashes, userinfo  *)
(*                          and percent-escapes are read the browser's way)*)
RtRec(len, parse, sch, h, p, bsch, bh, bp) ==
    [len |-> len, parse |-> parse, scheme |-> sch, host |-> h, port |-> p,
     bscheme |-> bsch, bhost |-> bh, bport |-> bp]
Same(sch, h, p) == RtRec("ok", "ok", sch, h, p, sch, h, p)

Rt(c) ==
    CASE c = "none"               -> RtRec("empty", "ok", "none", "-", "none", "none", "-", "none")
      [] c = "entry"              -> Same("https", "A", "none")
      [] c = "entry_default"      -> Same("https", "D", "none")
      [] c = "entry_anyport"      -> Same("https", "A", "other")
      [] c = "entry_frag"         -> Same("https", "A", "none")      \* carries a #fragment
      [] c = "port_match"         -> Same("https", "P", "8443")
      [] c = "port_missing"       -> Same("https", "P", "none")
      [] c = "port_other"         -> Same("https", "P", "other")
      [] c = "http_entry"         -> Same("http",  "H", "none")
      [] c = "scheme_swap"        -> Same("http",  "A", "none")      \* right host, other scheme
      [] c = "other_host"         -> Same("https", "X", "none")
      [] c = "lookalike"          -> Same("https", "S", "none")      \* suffix / prefix / subdomain
      [] c = "upper_host"         -> RtRec("ok", "ok", "https", "S", "none", "https", "A", "none")
      [] c = "userinfo_evil"      -> Same("https", "X", "none")      \* https://A@X/
      [] c = "userinfo_benign"    -> Same("https", "A", "none")      \* https://X@A/
      [] c = "scheme_other"       -> Same("other", "A", "none")      \* javascript:, data:, ftp://A
      [] c = "scheme_relative"    -> RtRec("ok", "ok", "none", "A", "none", "https", "A", "none")
      [] c = "opaque_entry"       -> RtRec("ok", "ok", "https", "-", "none", "https", "A", "none")
      [] c = "localhost_http"     -> Same("http",  "L", "other")
      [] c = "localhost_https"    -> Same("https", "L", "other")
      [] c = "localhost_v6"       -> Same("http",  "L6", "other")
      [] c = "localhost_lookalike"-> Same("http",  "S", "none")
      [] c = "backslash_evil"     -> RtRec("ok", "err", "https", "-", "none", "https", "X", "none")
      [] c = "encoded_evil"       -> RtRec("ok", "err", "https", "-", "none", "https", "S", "none")
      [] c = "ctrl_evil"          -> RtRec("ok", "err", "https", "-", "none", "https", "X", "none")
      [] c = "toolong_entry"      -> RtRec("toolong", "ok", "https", "A", "none", "https", "A", "none")
      [] c = "toolong_evil"       -> RtRec("toolong", "ok", "https", "X", "none", "https", "X", "none")

AllRt == {"none", "entry", "entry_default", "entry_anyport", "entry_frag", "port_match",
          "port_missing", "port_other", "http_entry", "scheme_swap", "other_host", "lookalike",
          "upper_host", "userinfo_evil", "userinfo_benign", "scheme_other", "scheme_relative",
          "opaque_entry", "localhost_http", "localhost_https", "localhost_v6",
          "localhost_lookalike", "backslash_evil", "encoded_evil", "ctrl_evil",
          "toolong_entry", "toolong_evil"}

(* Return URLs aimed at the frontend host E, whose allowlist entry the     *)
(* operator spelled as cfg.escheme / cfg.eport / cfg.eform says.  Scheme,  *)
(* host and port of the return URL vary independently:                     *)
(*   scheme  "https" | "http"                                              *)
(*   host    "lower" (e.example) | "upper" (E.EXAMPLE) | "look" (another   *)
(*           host: sub.e.example, e.example.evil, xe.example ...)          *)
(*   port    "none" | "default" (the URL scheme's default port written     *)
(*           out) | "other" (the non-default port N an eport = "other"     *)
(*           entry names) | "third" (any port that is neither)             *)
(* The class name is "E.<scheme>.<host>.<port>"; the harness splits it.    *)
ERtSet == [scheme : ESchemes, host : {"lower", "upper", "look"},
           port : {"none", "default", "other", "third"}]
ERtName(r) == "E." \o r.scheme \o "." \o r.host \o "." \o r.port
ENames == {ERtName(r) : r \in ERtSet}
ERtOf(c) == CHOOSE r \in ERtSet : ERtName(r) = c
OriginRt == {"none"} \cup ENames          \* RtClasses of the *_origin cfgs

\* port tokens: "" no port, "443" / "80", "N" the entry's non-default port,
\* "M" some other port
PortTok(scheme, p) ==
    CASE p = "none" -> "" [] p = "default" -> (IF scheme = "https" THEN "443" ELSE "80")
      [] p = "other" -> "N" [] p = "third" -> "M"
HostTok(h) == CASE h = "lower" -> "e" [] h = "upper" -> "E" [] h = "look" -> "x"

(* SetOAuthPkce stores every configured entry verbatim as a key of the     *)
(* allowlist map; the key for E, as <<scheme, host, port, rest>>:          *)
EntryKey ==
    << IF cfg.eform = "upper_scheme" THEN (IF cfg.escheme = "https" THEN "HTTPS" ELSE "HTTP") ELSE cfg.escheme,
       IF cfg.eform = "upper_host" THEN "E" ELSE "e",
       PortTok(cfg.escheme, cfg.eport),
       CASE cfg.eform = "slash" -> "/" [] cfg.eform = "path" -> "/app" [] OTHER -> "" >>

(* validateReturnTo on such a URL: url.Parse lower-cases the scheme and    *)
(* keeps the host as written; the map is probed with "scheme://hostname"   *)
(* and, when the URL has a port, with "scheme://hostname:port".  (The      *)
(* other entries are for other hosts and cannot match; E is not localhost.)*)
EAccepts(r) ==
    \/ <<r.scheme, HostTok(r.host), "", "">> = EntryKey
    \/ /\ r.port # "none"
       /\ <<r.scheme, HostTok(r.host), PortTok(r.scheme, r.port), "">> = EntryKey

(* What C27 says about it: scheme and host match the entry (both compare   *)
(* case-insensitively; a trailing slash or path does not change which      *)
(* origin the entry names), and the port too when the entry names one - a  *)
(* URL without a port goes to its scheme's default port.                   *)
EAllowed(r) ==
    /\ r.scheme = cfg.escheme
    /\ r.host \in {"lower", "upper"}
    /\ \/ cfg.eport = "none"
       \/ PortTok(r.scheme, IF r.port = "none" THEN "default" ELSE r.port)
             = PortTok(cfg.escheme, cfg.eport)

(* validateReturnTo, branch by branch.                                     *)
MatchNoPort(s, h)  == \E e \in Allow : e.port = "any" /\ e.scheme = s /\ e.host = h
MatchPort(s, h, p) == \E e \in Allow : e.port = p /\ e.scheme = s /\ e.host = h
\* isLocalhost(parsed.Hostname()): the list holds "[::1]", Hostname() strips the
\* brackets, so only the two dotted/plain names can match
IsLocalName(h) == h = "L"

ReturnToAccepts(c) ==
    IF c \in ENames THEN EAccepts(ERtOf(c)) ELSE
    LET r == Rt(c) IN
    IF r.len # "ok" THEN FALSE                                   \* "" or > 2048
    ELSE IF r.parse = "err" THEN FALSE                           \* url.Parse error
    ELSE IF r.scheme \notin {"http", "https"} THEN FALSE
    ELSE IF r.host = "-" THEN FALSE                              \* parsed.Host == ""
    ELSE IF IsLocalName(r.host) /\ r.scheme = "http" THEN TRUE   \* localhost, any port
    ELSE IF MatchNoPort(r.scheme, r.host) THEN TRUE              \* scheme://hostname
    ELSE IF r.port # "none" /\ MatchPort(r.scheme, r.host, r.port) THEN TRUE
    ELSE FALSE

--------------------------------------------------------------------------
(* Original-URL classes for the direct validator check.                    *)
(*   parse  url.Parse ok / err        abs    has a scheme or a host         *)
(*   pfx    strings.HasPrefix(u, "/vgi")      long   > 2048 bytes           *)
(*   under  is it, followed by a browser from the callback page, a         *)
(*          same-origin path under the prefix ("yes" | "no" | "gray")      *)
(*   "gray" = a shape the handlers can never pack (the mux pins the page    *)
(*   path) on which the validator is weaker than a strict reading; the      *)
(*   model states what the code does, C27 is not judged on it.             *)
OrRec(parse, abs, pfx, long, under, underRoot) ==
    [parse |-> parse, abs |-> abs, pfx |-> pfx, long |-> long,
     under |-> under, underRoot |-> underRoot]
Orig(c) ==
    CASE c = "exact"       -> OrRec("ok", FALSE, TRUE, FALSE, "yes", "yes")   \* the prefix itself
      [] c = "under"       -> OrRec("ok", FALSE, TRUE, FALSE, "yes", "yes")   \* /vgi/describe?x=1
      [] c = "query"       -> OrRec("ok", FALSE, TRUE, FALSE, "yes", "yes")   \* /vgi?next=//evil
      [] c = "long"        -> OrRec("ok", FALSE, TRUE, TRUE,  "yes", "yes")
      [] c = "abs_url"     -> OrRec("ok", TRUE,  FALSE, FALSE, "no", "no")    \* https://evil/vgi
      [] c = "scheme_rel"  -> OrRec("ok", TRUE,  FALSE, FALSE, "no", "no")    \* //evil/vgi
      [] c = "other_path"  -> OrRec("ok", FALSE, FALSE, FALSE, "no", "yes")   \* /other
      [] c = "unparsable"  -> OrRec("err", FALSE, TRUE, FALSE, "no", "no")    \* /vgi/%zz
      [] c = "sibling"     -> OrRec("ok", FALSE, TRUE, FALSE, "gray", "yes")  \* /vgiX
      [] c = "dotdot"      -> OrRec("ok", FALSE, TRUE, FALSE, "gray", "yes")  \* /vgi/../x
      [] c = "backslash"   -> OrRec("ok", FALSE, FALSE, FALSE, "no", "gray")  \* /\evil.example
AllOrig == {"exact", "under", "query", "long", "abs_url", "scheme_rel", "other_path",
            "unparsable", "sibling", "dotdot", "backslash"}

(* validateOriginalURL(u, prefix), branch by branch.                       *)
OrigResult(c, prefix) ==
    LET o == Orig(c) IN
    IF o.parse = "err" THEN "fallback"
    ELSE IF o.abs THEN "fallback"
    ELSE IF prefix # "" /\ ~o.pfx THEN "fallback"
    ELSE IF o.long THEN "trunc" ELSE "same"

OrigUnder(c, prefix) == IF prefix = "" THEN Orig(c).underRoot ELSE Orig(c).under

--------------------------------------------------------------------------
(* Session-cookie mutation classes (applied to the value the server set).  *)
MustRefuseMuts == {"flip_payload", "flip_mac", "trunc_tail", "trunc_short", "trunc_field",
                   "trunc_b64", "extend", "splice", "foreign_key", "garbage"}
\* encodings of the very same signed bytes, and re-packing the same fields
\* with the server's own key: not alterations of the cookie's content
SameBytesMuts == {"valid", "nopad", "repacked"}
\* signed with the server's key but not something the server packs
OddSignedMuts == {"badversion", "future"}
NoCookieMuts  == {"absent", "emptyval"}
AllCookieMuts == MustRefuseMuts \cup SameBytesMuts \cup OddSignedMuts \cup NoCookieMuts

\* unpackOAuthCookie(value, key, maxAge) succeeds
UnpackOK(mut, age) ==
    /\ mut \in SameBytesMuts
    /\ age >= 0 /\ age <= MaxAge          \* code: refuse when age < 0 || age > maxAge

AllStates == {"equal", "different", "prefix", "extended", "case", "other_session", "padded"}
AllForms  == {"code", "nocode", "nostate", "error"}
AllAuth   == {"none", "valid", "invalid", "jwt_expired", "header_valid"}
AllQ      == {"none", "simple", "with_rt", "long", "hash", "slashes"}
AllFields == {"typical", "empty", "max", "binary", "unicode", "lenlike"}

--------------------------------------------------------------------------
(* What C27 promises, over class attributes (declarative side).            *)

\* a return URL a redirect may target: scheme and host match an allowlist
\* entry (and the port too when the entry names one), or http localhost
Allowed(c) ==
    IF c \in ENames THEN EAllowed(ERtOf(c)) ELSE
    LET r == Rt(c) IN
    /\ r.len # "empty"
    /\ \/ \E e \in Allow : /\ e.scheme = r.bscheme /\ e.host = r.bhost
                           /\ (e.port # "any" => r.bport = e.port)
       \/ (r.bscheme = "http" /\ r.bhost \in {"L", "L6"})

\* "any altered, truncated, foreign-key or expired cookie"
MustRefuse(mut, age) == mut \in MustRefuseMuts \/ age > MaxAge
\* "round-trips exactly what the server packed"
MustRoundTrip(mut, age) == mut = "valid" /\ age >= 0 /\ age < MaxAge
\* "the returned state equals the packed state"
StateMatches(sc, form) == sc = "equal" /\ form # "nostate"

--------------------------------------------------------------------------
Dev(b) == IF b THEN 1 ELSE 0
None == [x \in {} |-> 0]                      \* the empty record
Opt(c, r) == IF c THEN r ELSE None

Record(step) ==
    /\ hist' = Append(hist, step)
    /\ (Mode = "edges") => EmitTrace(hist')
    /\ (Mode = "tree" /\ Len(hist') = Depth) => EmitTrace(hist')

\* the original URL is the page path plus the whole query string, which
\* includes the _vgi_return_to parameter: it exceeds 2048 bytes when either does
OrigLong(rt, q) == q = "long" \/ (rt \notin ENames /\ Rt(rt).len = "toolong")

NoSess == [rt |-> "none", sub |-> "none", q |-> "none", page |-> "landing", dev |-> 0]

(* ---------------------------------------------------------------------- *)
(* GET of a PKCE-wrapped page (landing or describe): wrapPageWithPkce.     *)
(*   auth   none | valid / invalid (opaque token in the _vgi_auth cookie)  *)
(*          | jwt_expired (JWT-shaped cookie with exp in the past)         *)
(*          | header_valid (Authorization: Bearer, no cookie)              *)
PageBranch(accept, auth, rt) ==
    IF ReturnToAccepts(rt) /\ auth \in {"valid", "invalid"}
    THEN "early_return"              \* pkceEarlyReturnRedirect: token cookie present, not an expired JWT
    ELSE IF auth \in {"valid", "header_valid"} THEN "page"        \* authenticateFunc accepts
    ELSE IF accept = "html"
         THEN IF cfg.idp = "down" THEN "fallthrough"              \* discovery failed: handler returns without writing
              ELSE "redirect"                                     \* pkceRedirectToOAuth
         ELSE "unauthorized"                                      \* non-browser: 401 + WWW-Authenticate

PageRequest(page, accept, auth, rt, q) ==
    /\ phase = "idle"
    /\ LET d == Dev(page # "landing") + Dev(accept # "html") + Dev(auth # "none")
                + Dev(rt # "none") + Dev(q # "none")
           br == PageBranch(accept, auth, rt)
           status == CASE br = "early_return" -> 302 [] br = "page" -> 200
                       [] br = "fallthrough" -> 200 [] br = "redirect" -> 302
                       [] br = "unauthorized" -> 401
           loc == CASE br = "early_return" -> "return" [] br = "redirect" -> "idp" [] OTHER -> "none"
           packedRt == IF ReturnToAccepts(rt) THEN rt ELSE "none"
       IN
       /\ CfgDev(cfg) + d <= MaxDev
       /\ cfg' = cfg
       /\ IF br = "redirect"
          THEN /\ phase' = "redirected"
               /\ sess' = [rt |-> packedRt, sub |-> rt, q |-> q, page |-> page, dev |-> CfgDev(cfg) + d]
          ELSE /\ phase' = "done"
               /\ sess' = NoSess
       /\ Record([a |-> "PageRequest",
                  args |-> [page |-> page, accept |-> accept, auth |-> auth, rt |-> rt, q |-> q,
                            rt_allowed |-> Allowed(rt)],
                  exp |-> [m_status |-> status, m_branch |-> br, m_loc |-> loc,
                           m_bearer |-> (br = "early_return"),
                           loc_safe |-> TRUE, bearer_safe |-> TRUE]
                          @@ Opt(br = "redirect", [roundtrip |-> TRUE])])

(* ---------------------------------------------------------------------- *)
(* GET {prefix}/_oauth/callback: handleOAuthCallback, exit by exit.        *)
(*   mut   what happened to the session cookie since the redirect          *)
(*   sc    the state query parameter relative to the packed nonce          *)
(*   form  "code" (code+state) | "nocode" | "nostate" | "error" (error=... *)
(*         next to code+state)                                             *)
(*   age   seconds between redirect and callback                           *)
CallbackExit(mut, sc, form, age) ==
    IF form = "error" THEN "as_error"                       \* 400, before anything is read
    ELSE IF form \in {"nocode", "nostate"} THEN "missing_param"          \* 400
    ELSE IF mut \in NoCookieMuts THEN "no_cookie"                        \* 400
    ELSE IF ~UnpackOK(mut, age) THEN "bad_cookie"                        \* 400
    ELSE IF sc # "equal" THEN "state_mismatch"                           \* 400
    ELSE IF cfg.idp = "down" THEN "no_discovery"                         \* 502 (unreachable: redirect needs discovery)
    ELSE IF cfg.idp = "token_error" THEN "exchange_failed"               \* 502, after the POST
    ELSE IF sess.rt # "none" THEN "to_return_url"                        \* 302 rt#token=...
    ELSE "to_original"                                                   \* 302 validated original URL + auth cookie

Callback(mut, sc, form, age) ==
    /\ phase = "redirected"
    /\ LET d == Dev(mut # "valid") + Dev(sc # "equal") + Dev(form # "code") + Dev(age # 0)
           ex == CallbackExit(mut, sc, form, age)
           status == CASE ex \in {"as_error", "missing_param", "no_cookie", "bad_cookie", "state_mismatch"} -> 400
                       [] ex \in {"no_discovery", "exchange_failed"} -> 502
                       [] OTHER -> 302
           exchanged == ex \in {"exchange_failed", "to_return_url", "to_original"}
           loc == CASE ex = "to_return_url" -> "return" [] ex = "to_original" -> "path" [] OTHER -> "none"
       IN
       /\ sess.dev + d <= MaxDev
       /\ UNCHANGED <<cfg, sess>>
       /\ phase' = "done"
       /\ Record([a |-> "Callback",
                  args |-> [mut |-> mut, state |-> sc, form |-> form, age |-> age],
                  exp |-> [m_status |-> status, m_exit |-> ex, m_loc |-> loc,
                           m_bearer |-> (ex = "to_return_url"),
                           m_auth_cookie |-> (ex = "to_original"),
                           \* what the redirect step packed (reported here, with the
                           \* judged keys, so that a difference cannot end the replay early)
                           m_packed_rt |-> (sess.rt # "none"),
                           m_packed_orig |-> (IF OrigLong(sess.sub, sess.q) THEN "trunc" ELSE "same"),
                           m_orig |-> (IF ex # "to_original" THEN "-"
                                       ELSE IF OrigLong(sess.sub, sess.q) THEN "trunc" ELSE "same"),
                           loc_safe |-> TRUE, bearer_safe |-> TRUE]
                          @@ Opt(MustRefuse(mut, age), [refused |-> TRUE])
                          @@ (IF StateMatches(sc, form) THEN [m_exchanged |-> exchanged]
                              ELSE [exchanged |-> FALSE])])

(* ---------------------------------------------------------------------- *)
(* GET {prefix}/_oauth/logout: clears the cookies, redirects to the prefix.*)
Logout(auth) ==
    /\ phase = "idle"
    /\ CfgDev(cfg) + Dev(auth # "none") <= MaxDev
    /\ UNCHANGED <<cfg, sess>>
    /\ phase' = "done"
    /\ Record([a |-> "Logout", args |-> [auth |-> auth],
               exp |-> [m_status |-> 302, m_loc |-> "path", loc_safe |-> TRUE, bearer_safe |-> TRUE]])

(* ---------------------------------------------------------------------- *)
(* The cookie codec on its own: pack fields of a class, apply a mutation,  *)
(* unpack at the given age (packOAuthCookie / unpackOAuthCookie).          *)
PackUnpack(fc, mut, age) ==
    /\ phase = "idle"
    /\ CfgDev(cfg) + Dev(fc # "typical") + Dev(mut # "valid") + Dev(age # 0) <= MaxDev
    /\ UNCHANGED <<cfg, sess>>
    /\ phase' = "done"
    /\ Record([a |-> "PackUnpack", args |-> [fields |-> fc, mut |-> mut, age |-> age],
               exp |-> [m_ok |-> UnpackOK(mut, age)]
                       @@ Opt(MustRefuse(mut, age), [refused |-> TRUE])
                       @@ Opt(MustRoundTrip(mut, age), [roundtrip |-> TRUE])])

(* validateReturnTo on its own, with an allowlist map the harness builds.  *)
(* The E family is about the map the SERVER builds from its configuration, *)
(* so it is exercised through the handlers only.                           *)
CheckReturnTo(rt) ==
    /\ phase = "idle"
    /\ rt \notin ENames
    /\ CfgDev(cfg) + 1 <= MaxDev
    /\ UNCHANGED <<cfg, sess>>
    /\ phase' = "done"
    /\ Record([a |-> "CheckReturnTo", args |-> [rt |-> rt, rt_allowed |-> Allowed(rt)],
               exp |-> [m_accepted |-> ReturnToAccepts(rt)]
                       @@ Opt(~Allowed(rt), [ret_refused |-> TRUE])])

(* validateOriginalURL on its own.                                         *)
CheckOriginal(oc) ==
    /\ phase = "idle"
    /\ CfgDev(cfg) + 1 <= MaxDev
    /\ UNCHANGED <<cfg, sess>>
    /\ phase' = "done"
    /\ Record([a |-> "CheckOriginal", args |-> [orig |-> oc],
               exp |-> [m_result |-> OrigResult(oc, cfg.prefix)]
                       @@ Opt(OrigUnder(oc, cfg.prefix) # "gray", [orig_safe |-> TRUE])])

--------------------------------------------------------------------------
Init ==
    /\ cfg \in Cfgs
    /\ phase = "idle"
    /\ sess = NoSess
    /\ hist = << [a |-> "Init", args |-> cfg, exp |-> [x |-> 0]] >>

\* Input choices are enumerated dimension by dimension with the remaining
\* deviation budget threaded through, so that thinning prunes early.
Left(b, isDev) == b - Dev(isDev)

NextPage(b0) ==
    \E page \in Pages : LET b1 == Left(b0, page # "landing") IN b1 >= 0 /\
    \E accept \in Accepts : LET b2 == Left(b1, accept # "html") IN b2 >= 0 /\
    \E auth \in AuthClasses : LET b3 == Left(b2, auth # "none") IN b3 >= 0 /\
    \E rt \in RtClasses : LET b4 == Left(b3, rt # "none") IN b4 >= 0 /\
    \E q \in QClasses : Left(b4, q # "none") >= 0 /\ PageRequest(page, accept, auth, rt, q)

NextCallback(b0) ==
    \E mut \in CookieMuts : LET b1 == Left(b0, mut # "valid") IN b1 >= 0 /\
    \E sc \in StateClasses : LET b2 == Left(b1, sc # "equal") IN b2 >= 0 /\
    \E form \in Forms : LET b3 == Left(b2, form # "code") IN b3 >= 0 /\
    \E age \in Ages : Left(b3, age # 0) >= 0 /\ Callback(mut, sc, form, age)

NextPack(b0) ==
    \E fc \in FieldClasses : LET b1 == Left(b0, fc # "typical") IN b1 >= 0 /\
    \E mut \in DirectMuts : LET b2 == Left(b1, mut # "valid") IN b2 >= 0 /\
    \E age \in DirectAges : Left(b2, age # 0) >= 0 /\ PackUnpack(fc, mut, age)

Next ==
    \/ /\ phase = "idle"
       /\ \/ NextPage(MaxDev - CfgDev(cfg))
          \/ \E auth \in AuthClasses : Logout(auth)
          \/ NextPack(MaxDev - CfgDev(cfg))
          \/ \E rt \in RtClasses : CheckReturnTo(rt)
          \/ \E oc \in OrigClasses : CheckOriginal(oc)
    \/ /\ phase = "redirected"
       /\ NextCallback(MaxDev - sess.dev)

Spec == Init /\ [][Next]_vars

--------------------------------------------------------------------------
(* C27, stated once, declaratively, over the predicted observations.       *)
Last == hist'[Len(hist')]

\* (1) the cookie round-trips what was packed; (2) an altered, truncated,
\* foreign-key or expired cookie is refused - by the codec and by the callback
CookieSafe ==
    [][ /\ (Last.a = "PackUnpack") =>
              /\ MustRoundTrip(Last.args.mut, Last.args.age) => Last.exp.m_ok
              /\ MustRefuse(Last.args.mut, Last.args.age) => ~Last.exp.m_ok
        /\ (Last.a = "Callback" /\ MustRefuse(Last.args.mut, Last.args.age)) =>
              /\ Last.exp.m_loc = "none" /\ ~Last.exp.m_bearer /\ ~Last.exp.m_auth_cookie
              /\ Last.exp.m_exit \notin {"exchange_failed", "to_return_url", "to_original"} ]_vars

\* (3) a code is exchanged only when the returned state equals the packed state
ExchangeOnlyOnStateMatch ==
    [][ (Last.a = "Callback" /\ Last.exp.m_exit \in {"exchange_failed", "to_return_url", "to_original"}) =>
            StateMatches(Last.args.state, Last.args.form) ]_vars

\* (4) a redirect goes to a same-origin path under the prefix or to an allowed
\* return URL (the page request may also send the browser to the IdP);
\* (5) a bearer appears only in a redirect to an allowed return URL
RedirectSafe ==
    [][ (Last.a \in {"PageRequest", "Callback", "Logout"}) =>
          LET rtc == IF Last.a = "PageRequest" THEN Last.args.rt ELSE sess.rt
              bearer == IF Last.a = "Logout" THEN FALSE ELSE Last.exp.m_bearer IN
          /\ Last.exp.m_loc \in {"none", "path", "return"} \cup (IF Last.a = "PageRequest" THEN {"idp"} ELSE {})
          /\ (Last.exp.m_loc = "return") => Allowed(rtc)
          /\ bearer => (Last.exp.m_loc = "return" /\ Allowed(rtc)) ]_vars

\* the validators on their own
ReturnToSafe ==
    [][ (Last.a = "CheckReturnTo" /\ Last.exp.m_accepted) => Allowed(Last.args.rt) ]_vars
OriginalSafe ==
    [][ (Last.a = "CheckOriginal" /\ OrigUnder(Last.args.orig, cfg.prefix) # "gray") =>
            (Last.exp.m_result = "fallback" \/ OrigUnder(Last.args.orig, cfg.prefix) = "yes") ]_vars

\* what is packed is an accepted return URL or nothing
PackedIsAllowed == sess.rt = "none" \/ (ReturnToAccepts(sess.rt) /\ Allowed(sess.rt))

TypeOK ==
    /\ cfg \in AllCfgs
    /\ phase \in {"idle", "redirected", "done"}
    /\ (phase = "redirected") => cfg.idp # "down"

View == <<cfg, phase, sess>>
=============================================================================
