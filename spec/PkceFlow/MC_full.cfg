SPECIFICATION Spec
CONSTANTS
    Cfgs <- MainCfgs
    Pages = {"landing", "describe"}
    Accepts = {"html", "other"}
    AuthClasses = {"none", "valid", "invalid", "jwt_expired", "header_valid"}
    RtClasses = {"none", "entry", "entry_default", "entry_anyport", "entry_frag", "port_match", "port_missing", "port_other", "http_entry", "scheme_swap", "other_host", "lookalike", "upper_host", "userinfo_evil", "userinfo_benign", "scheme_other", "scheme_relative", "opaque_entry", "localhost_http", "localhost_https", "localhost_v6", "localhost_lookalike", "backslash_evil", "encoded_evil", "ctrl_evil", "toolong_entry", "toolong_evil"}
    QClasses = {"none", "simple", "with_rt", "long", "hash", "slashes"}
    CookieMuts = {"valid", "nopad", "repacked", "flip_payload", "flip_mac", "trunc_tail", "trunc_short", "trunc_field", "trunc_b64", "extend", "splice", "foreign_key", "garbage", "badversion", "future", "absent", "emptyval"}
    StateClasses = {"equal", "different", "prefix", "extended", "case", "other_session", "padded"}
    Forms = {"code", "nocode", "nostate", "error"}
    Ages = {0, 599, 600, 601, 90000}
    FieldClasses = {"typical", "empty", "max", "binary", "unicode", "lenlike"}
    DirectMuts = {"valid", "nopad", "repacked", "flip_payload", "flip_mac", "trunc_tail", "trunc_short", "trunc_field", "trunc_b64", "extend", "splice", "foreign_key", "garbage", "badversion", "future"}
    DirectAges = {0, 599, 600, 601, 90000}
    OrigClasses = {"exact", "under", "query", "long", "abs_url", "scheme_rel", "other_path", "unparsable", "sibling", "dotdot", "backslash"}
    MaxDev = 4
    Mode = "mc"
    Depth = 0
VIEW View
INVARIANTS TypeOK PackedIsAllowed
PROPERTIES CookieSafe ExchangeOnlyOnStateMatch RedirectSafe ReturnToSafe OriginalSafe
CHECK_DEADLOCK FALSE
