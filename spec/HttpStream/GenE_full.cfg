SPECIFICATION Spec
CONSTANTS
    Mode = "edges"
    Depth = 0
    Calls <- FullCalls
    MaxCalls = 1
    Inst = {1, 2}
    Limit = 1
    CapN = 0
    Cache = 4096
    Compress = FALSE
    ExtK = 0
    CapProbe = FALSE
    Debug = FALSE
    HookMode = "ok"
VIEW View
CHECK_DEADLOCK FALSE
