SPECIFICATION Spec
CONSTANTS
    Mode = "edges"
    Depth = 0
    Calls <- QuickCalls
    MaxCalls = 1
    Inst = {1, 2, 3}
    Limit = 2
    CapN = 0
    Cache = 0
    Compress = TRUE
    ExtK = 0
    CapProbe = FALSE
    Debug = TRUE
    HookMode = "panic_end"
VIEW View
CHECK_DEADLOCK FALSE
