SPECIFICATION Spec
CONSTANTS
    Mode = "mc"
    Depth = 0
    Calls <- CapCalls
    MaxCalls = 1
    Inst = {1, 2}
    Limit = 3
    CapN = 2
    Cache = 4096
    Compress = FALSE
    ExtK = 0
    CapProbe = TRUE
    Debug = FALSE
    HookMode = "ok"
VIEW View
PROPERTIES HttpEqualsPipe OneTurnPerContinuation CapsHold ExtCapHolds CapReplaces HookBalanced
CHECK_DEADLOCK FALSE
