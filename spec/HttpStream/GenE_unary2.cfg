SPECIFICATION Spec
CONSTANTS
    Mode = "edges"
    Depth = 0
    Calls <- UnaryCalls
    MaxCalls = 1
    Inst = {1}
    Limit = 0
    CapN = 0
    Cache = 4096
    Compress = TRUE
    ExtK = 0
    CapProbe = FALSE
    Debug = TRUE
    HookMode = "panic_start"
VIEW View
CHECK_DEADLOCK FALSE
