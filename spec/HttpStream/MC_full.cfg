\* HttpEqualsPipe is model-checked on the quick, Limit-0 and Limit-2 alphabets (MC.cfg, MC_l0.cfg, MC_l2.cfg); on the full
\* alphabet the faithful model contains the known deviation of the code (finding C11 dynx-cast, see MC_full_asis.cfg),
\* so here only the other properties are checked; the pipe comparison of the full alphabet is made by replay (GenE_full).
SPECIFICATION Spec
CONSTANTS
    Mode = "mc"
    Depth = 0
    Calls <- FullCalls
    MaxCalls = 1
    Inst = {1, 2}
    Limit = 2
    CapN = 0
    Cache = 4096
    Compress = FALSE
    ExtK = 0
    CapProbe = FALSE
    Debug = FALSE
    HookMode = "ok"
VIEW View
PROPERTIES OneTurnPerContinuation CapsHold ExtCapHolds CapReplaces HookBalanced
CHECK_DEADLOCK FALSE
