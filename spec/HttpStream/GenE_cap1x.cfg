\* the wire cap with every data batch externalized: pointer batches count toward max_response_bytes
SPECIFICATION Spec
CONSTANTS
    Mode = "edges"
    Depth = 0
    Calls <- CapCalls
    MaxCalls = 1
    Inst = {1, 2}
    Limit = 0
    CapN = 1
    Cache = 4096
    Compress = FALSE
    ExtK = 9
    CapProbe = FALSE
    Debug = FALSE
    HookMode = "ok"
VIEW View
CHECK_DEADLOCK FALSE
