SPECIFICATION Spec
CONSTANTS
    Mode = "edges"
    Depth = 0
    Calls <- ExtCalls
    MaxCalls = 1
    Inst = {1, 2}
    Limit = 1
    CapN = 0
    Cache = 4096
    Compress = FALSE
    ExtK = 9
    CapProbe = FALSE
    Debug = FALSE
    HookMode = "ok"
VIEW View
CHECK_DEADLOCK FALSE
