SPECIFICATION Spec
CONSTANTS
    Mode = "mc"
    Depth = 0
    Calls <- QuickCalls
    MaxCalls = 1
    Inst = {1}
    Limit = 0
    CapN = 0
    Cache = 0
    Compress = TRUE
    ExtK = 0
    CapProbe = FALSE
    Debug = FALSE
    HookMode = "ok"
VIEW View
PROPERTIES HttpEqualsPipe OneTurnPerContinuation CapsHold ExtCapHolds CapReplaces HookBalanced
CHECK_DEADLOCK FALSE
