--------------------------- MODULE HttpStreamFull ---------------------------
(* HttpStream with the full call alphabet (all six scripted stream methods, two pre-turns, all   *)
(* casts and metadata classes).  A separate root module so that only the cfgs that use it pay   *)
(* for enumerating it at TLC start-up.                                                           *)
EXTENDS HttpStream

FullCalls == NoHdrCalls \cup
             StreamOK({"prod", "prodh", "exch", "exchh", "dynp", "dynx"}, 2, {0, 1, 2, 3}, {"eq", "castable", "bad"},
                      {"none", "user", "collide", "dup"}, Lg1)
             \cup StreamBad({"prod", "prodh", "exch", "exchh", "dynp", "dynx"})
=============================================================================
