\* root module: HttpStreamFull.tla (unregistered since the Limit=3 generator was dropped)
SPECIFICATION Spec
CONSTANTS
    Mode = "edges"
    Depth = 0
    Calls <- FullCalls
    MaxCalls = 1
    Inst = {1}
    Limit = 3
    CapN = 0
    Cache = 4096
    Compress = FALSE
    ExtK = 0
    CapProbe = FALSE
    Debug = FALSE
    HookMode = "none"
VIEW View
CHECK_DEADLOCK FALSE
