SPECIFICATION Spec
CONSTANTS
    Mode = "mc"
    Depth = 0
    Calls <- QuickCalls
    MaxCalls = 1
    Inst = {1}
    Limit = 2
    CapN = 0
    Cache = 4096
    Compress = FALSE
    ExtK = 0
    CapProbe = FALSE
    Debug = TRUE
    HookMode = "panic_end"
VIEW View
PROPERTIES HttpEqualsPipe OneTurnPerContinuation CapsHold ExtCapHolds CapReplaces HookBalanced
CHECK_DEADLOCK FALSE
