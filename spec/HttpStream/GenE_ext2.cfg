SPECIFICATION Spec
CONSTANTS
    Mode = "edges"
    Depth = 0
    Calls <- CapCalls
    MaxCalls = 1
    Inst = {1}
    Limit = 3
    CapN = 0
    Cache = 0
    Compress = FALSE
    ExtK = 2
    CapProbe = TRUE
    Debug = FALSE
    HookMode = "ok"
VIEW View
CHECK_DEADLOCK FALSE
