\* expected violation: HttpEqualsPipe fails on the class "dynx-cast" (known finding C11)
SPECIFICATION Spec
CONSTANTS
    Mode = "mc"
    Depth = 0
    Calls <- FullCalls
    MaxCalls = 1
    Inst = {1, 2}
    Limit = 2
    CapN = 0
    Cache = 4096
    Compress = FALSE
    ExtK = 0
    CapProbe = FALSE
    Debug = FALSE
    HookMode = "ok"
VIEW View
PROPERTIES HttpEqualsPipe OneTurnPerContinuation CapsHold ExtCapHolds CapReplaces HookBalanced
CHECK_DEADLOCK FALSE
