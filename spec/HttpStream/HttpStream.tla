------------------------------ MODULE HttpStream ------------------------------
(***************************************************************************)
(* Calls over the HTTP transport of vgi-rpc-go (vgirpc/http_unary.go,      *)
(* http_stream.go): a unary call is one POST; a stream is a POST /init     *)
(* followed by POST /exchange continuations, each carrying the cursor the  *)
(* previous response returned.  Producers run their state in a loop per    *)
(* HTTP turn until they finish, fail, or hit the producer batch limit /    *)
(* the response-size cap (then the response ends with a cursor);           *)
(* exchanges run exactly one turn per continuation.  Every request may be  *)
(* served by any instance sharing the token key.                           *)
(*                                                                         *)
(* One action per exit of handleUnary / handleStreamInit /                 *)
(* handleStreamExchange / runProduceLoop / handleExchangeCall.  The        *)
(* client-visible view of a stream (header, data values, logs, final       *)
(* error) is accumulated in `view` and compared with the pipe semantics    *)
(* (PipeView) when the stream ends: C11.  C16 one turn per continuation,   *)
(* C19 response caps, and the HTTP halves of C03/C04/C05/C37/C41.          *)
(***************************************************************************)
EXTENDS Naturals, Sequences, FiniteSets, TLC, VerifEmit

CONSTANTS
    Mode, Depth,
    Calls,        \* call alphabet (see below)
    MaxCalls,
    Inst,         \* instances sharing the key
    Limit,        \* producer batch limit (0 = none)
    CapN,         \* response-size cap expressed as "trips after CapN data batches" (0 = none)
    Cache,        \* call-state cache entries (0 = disabled)
    Compress,     \* response compression on/off (client asks for zstd)
    ExtK,         \* external storage: 0 = off; 9 = on, no cap; K in {1,2} = on with
                  \* max_externalized_response_bytes admitting exactly K uploads per HTTP turn
    CapProbe,     \* TRUE: also offer the unary / exchange response-cap probes
    Debug, HookMode

VARIABLES
    ph,      \* "idle" | "open" (a stream holds a cursor) | "done"
    cur,     \* the call in progress
    pos,     \* state turns run so far
    sent,    \* exchange inputs / producer continuations sent so far
    view,    \* client-visible accumulation: [hdr, vals, logs, errs]
    ncalls,
    hist
vars == <<ph, cur, pos, sent, view, ncalls, hist>>

--------------------------------------------------------------------------
Log(l, m) == <<"log", l, m>>
Data(v)   == <<"data", v, 0>>
DataM(v)  == <<"data", v, 1>>   \* a data batch carrying user metadata
Exc(t, k) == <<"exc", t, k>>
Prio(l) == CASE l = "EXCEPTION" -> 0 [] l = "ERROR" -> 1 [] l = "WARN" -> 2 [] l = "INFO" -> 3
             [] l = "DEBUG" -> 4 [] l = "TRACE" -> 5 [] OTHER -> 6
ReqPrio(l) == IF l = "" THEN 5 ELSE Prio(l)
Kept(logs, lvl) == SelectSeq(logs, LAMBDA e : Prio(e[1]) <= ReqPrio(lvl))
LogBatches(logs, lvl) == [i \in 1..Len(Kept(logs, lvl)) |-> Log(Kept(logs, lvl)[i][1], Kept(logs, lvl)[i][2])]
ErrOf(o) ==
    CASE o = "rpcerr"  -> <<"ValueError", "">>
      [] o = "rpcerrk" -> <<"PermissionError", "custom_kind">>
      [] OTHER         -> <<"RuntimeError", "">>
IsFail(o) == o \in {"rpcerr", "rpcerrk", "plain", "wrapped", "wraprpc", "wraptyped", "custom", "panic", "panicerr"}
IsProd(m) == m \in {"prod", "prodh", "dynp"}
HasHdr(c) == c.hdr

Kinds(bs) == [i \in 1..Len(bs) |-> bs[i][1]]
LogsOf(bs) == LET f == SelectSeq(bs, LAMBDA b : b[1] = "log") IN [i \in 1..Len(f) |-> <<f[i][2], f[i][3]>>]
ValsOf(bs) == LET f == SelectSeq(bs, LAMBDA b : b[1] = "data") IN [i \in 1..Len(f) |-> f[i][2]]
MetasOf_(bs) == LET f == SelectSeq(bs, LAMBDA b : b[1] = "data") IN [i \in 1..Len(f) |-> f[i][3]]
ErrsOf(bs) == LET f == SelectSeq(bs, LAMBDA b : b[1] = "exc") IN [i \in 1..Len(f) |-> <<f[i][2], f[i][3]>>]

--------------------------------------------------------------------------
(* Call alphabets.                                                         *)
Outcomes == {"value", "rpcerr", "rpcerrk", "plain", "wrapped", "wraprpc", "wraptyped", "custom", "panic", "panicerr"}
OneLog == { <<>>, << <<"INFO", "m1">> >>, << <<"DEBUG", "m1">>, <<"ERROR", "m2">> >> }
UnaryCalls == [k : {"unary"}, m : {"u_val", "u_void"}, pm : {"ok"}, logs : OneLog, lvl : {"", "EXCEPTION", "ERROR", "INFO"}, o : Outcomes]
              \cup [k : {"unary"}, m : {"u_val"}, pm : {"mismatch"}, logs : {<<>>}, lvl : {""}, o : {"value"}]
PreSeqs(n) == UNION { [1..k -> {"emit", "emitlogs", "emitmeta"}] : k \in 0..n }
ProdTerms == {"finish", "emitfinish", "error", "errlogs", "panic", "emitpanic", "noemit", "emit2"}
ExchTerms == {"finish", "error", "panic", "emitpanic", "noemit", "emit2"}
TurnSeqs(n, terms) == PreSeqs(n) \cup { p \o <<t>> : p \in PreSeqs(n), t \in terms }
TermsOf(m) == IF IsProd(m) THEN ProdTerms ELSE ExchTerms
CastsOf(m, casts) == IF IsProd(m) THEN {"eq"} ELSE casts
MetasOf(m, metas) == IF IsProd(m) THEN {"none"} ELSE metas
InCombos(nins) == { <<n, c>> \in nins \X (0..3) : c <= n }
StreamOK(ms, npre, nins, casts, metas, logsets) ==
    UNION { { [k |-> "stream", m |-> m, hdr |-> (m \in {"prodh", "exchh", "dynp", "dynx"}), pm |-> "ok", init |-> "ok",
               logs |-> l, lvl |-> "", turns |-> t, nin |-> nc[1], cancel |-> nc[2], cast |-> ca, meta |-> me] :
                l \in logsets, nc \in InCombos(nins), ca \in CastsOf(m, casts), me \in MetasOf(m, metas),
                t \in TurnSeqs(npre, TermsOf(m)) } : m \in ms }
StreamBad(ms) ==
    { [k |-> "stream", m |-> m, hdr |-> (m \in {"prodh", "exchh", "dynp", "dynx"}), pm |-> pm, init |-> i,
       logs |-> <<>>, lvl |-> "", turns |-> <<>>, nin |-> 1, cancel |-> 0, cast |-> "eq", meta |-> "none"] :
        m \in ms, pm \in {"ok", "mismatch"}, i \in {"error", "panic", "nil"} }
Lg1 == { <<>>, << <<"INFO", "m1">> >> }
\* methods that DECLARE a header but whose init handler returns none (StreamResult.Header = nil):
\* no header stream; the init handler's logs travel on the main stream like those of a plain method
NoHdr(S) == { [c EXCEPT !.hdr = FALSE] : c \in S }
NoHdrCalls == NoHdr(StreamOK({"prodh", "exchh", "dynp"}, 1, {1, 3}, {"eq"}, {"none"}, { << <<"INFO", "m1">> >> }))
QuickCalls == NoHdrCalls \cup StreamOK({"prod", "exch"}, 2, {0, 2, 3}, {"eq", "bad"}, {"none", "user", "dup"}, Lg1)
              \cup StreamOK({"prodh", "exchh", "dynp"}, 1, {1, 3}, {"castable"}, {"collide"}, {<<>>})
              \cup StreamBad({"prod", "exchh"})
SmallCalls == StreamOK({"prod", "exch"}, 1, {0, 2}, {"eq"}, {"none"}, {<<>>}) \cup StreamBad({"prod"})
\* FullCalls (the six-method alphabet) lives in HttpStreamFull.tla: TLC pre-computes every constant-level
\* definition of the root module at start-up and that set takes six minutes to enumerate -- every
\* cfg paid for it, also those that never use it.
\* streams whose data batches are externalized (ExtK = 9): plain, annotated and logged emits,
\* every terminator -- the externalize branch of each flush loop has its own ownership rules
ExtCalls == StreamOK({"prod", "exch"}, 1, {0, 2}, {"eq"}, {"none", "user"}, {<<>>}) \cup StreamBad({"prod"})
\* producers that only emit: the population for the response-size cap (sizes are uniform)
CapCalls == { [k |-> "stream", m |-> "prod", hdr |-> FALSE, pm |-> "ok", init |-> "ok", logs |-> <<>>, lvl |-> "",
               turns |-> t, nin |-> 3, cancel |-> 0, cast |-> "eq", meta |-> "none"] :
               t \in { [i \in 1..n |-> "emit"] : n \in 1..4 } \cup { [i \in 1..n |-> "emit"] \o <<"error">> : n \in 1..3 } }

--------------------------------------------------------------------------
(* The pipe semantics of a stream call: what a pipe client that sends nin inputs (ticks for a   *)
(* producer) with the cancel-th one carrying the cancel flag sees.  This is the C11 reference.  *)
TurnOut(c, t) == IF t <= Len(c.turns) THEN c.turns[t] ELSE IF IsProd(c.m) THEN "finish" ELSE "emit"
RECURSIVE PipeRun(_, _, _)
\* i = next input index, t = next turn index; returns <<batches, ended>>
PipeRun(c, i, t) ==
    IF i > c.nin THEN <<>>
    ELSE IF c.cancel = i THEN <<>>
    ELSE IF ~IsProd(c.m) /\ c.cast = "bad" THEN << Exc("TypeError", "") >>
    ELSE LET o == TurnOut(c, t)
             v == IF IsProd(c.m) THEN t ELSE i IN
         CASE o = "emit"     -> << Data(v) >> \o PipeRun(c, i+1, t+1)
           [] o = "emitlogs" -> << Log("INFO", "turn"), Data(v) >> \o PipeRun(c, i+1, t+1)
           [] o = "emitmeta" -> << DataM(v) >> \o PipeRun(c, i+1, t+1)
           [] o = "finish" /\ IsProd(c.m) -> <<>>
           [] o = "emitfinish" -> << Data(v) >>
           [] o \in {"error", "errlogs"} -> << Exc("ValueError", "") >>
           [] OTHER -> << Exc("RuntimeError", "") >>
PipeView(c) ==
    LET bs == LogBatches(c.logs, c.lvl) \o PipeRun(c, 1, 1) IN
    [hdr |-> c.hdr, vals |-> ValsOf(bs), metas |-> MetasOf_(bs), logs |-> LogsOf(bs), errs |-> ErrsOf(bs)]
EmptyView == [hdr |-> FALSE, vals |-> <<>>, metas |-> <<>>, logs |-> <<>>, errs |-> <<>>]
AddView(v, bs, h) == [hdr |-> v.hdr \/ h, vals |-> v.vals \o ValsOf(bs), metas |-> v.metas \o MetasOf_(bs),
                      logs |-> v.logs \o LogsOf(bs), errs |-> v.errs \o ErrsOf(bs)]

--------------------------------------------------------------------------
RecordC(step) ==
    /\ hist' = IF Mode = "mc" THEN <<step>> ELSE Append(hist, step)
    /\ (Mode = "edges") => EmitTrace(hist')
    /\ (Mode = "tree" /\ Len(hist') = Depth) => EmitTrace(hist')
Budget == (Mode = "tree") => Len(hist) < Depth

HookEv(m, failed) ==
    CASE HookMode = "none" -> <<>>
      [] HookMode = "panic_start" -> << <<"start_panicked", m>> >>
      [] OTHER -> << <<"start", m>>, <<"end", m, failed>> >>

\* the response of one HTTP request, as the step's predicted observation
Resp(action, args, status, bs, token, hdr, journal, hooked, failed) ==
    [a |-> action, args |-> args,
     exp |-> [status |-> status, kinds |-> Kinds(bs), vals |-> ValsOf(bs), metas |-> MetasOf_(bs), logs |-> LogsOf(bs),
              errs |-> ErrsOf(bs), token |-> token, hdr |-> hdr, journal |-> journal,
              hooks |-> IF hooked THEN HookEv(args.m, failed) ELSE <<>>,
              tb |-> (Debug /\ ErrsOf(bs) # <<>>), leak |-> 0, complete |-> TRUE,
              uploads |-> IF ExtK = 0 THEN 0 ELSE Len(ValsOf(bs))]]

--------------------------------------------------------------------------
(* Unary over HTTP (handleUnary).  Application failures answer 200 + X-VGI-RPC-Error.         *)
Unary(c, i) ==
    /\ Budget /\ ph = "idle" /\ c.k = "unary" /\ ncalls < MaxCalls
    /\ ncalls' = ncalls + 1
    /\ UNCHANGED <<ph, cur, pos, sent, view>>
    /\ LET a == c @@ [inst |-> i] IN
       IF c.pm = "mismatch"
       THEN RecordC(Resp("Unary", a, 400, << Exc("TypeError", "") >>, FALSE, FALSE, <<>>, TRUE, TRUE))
       ELSE IF IsFail(c.o)
       THEN RecordC(Resp("Unary", a, 200, LogBatches(c.logs, c.lvl) \o << Exc(ErrOf(c.o)[1], ErrOf(c.o)[2]) >>,
                         FALSE, FALSE, <<"unary">>, TRUE, TRUE) )
       ELSE RecordC(Resp("Unary", a, 200,
                         LogBatches(c.logs, c.lvl) \o << IF c.m = "u_void" THEN <<"void", 0, 0>> ELSE Data("x") >>,
                         FALSE, FALSE, <<"unary">>, TRUE, FALSE))

(* The producer loop of one HTTP turn (runProduceLoop): run turns from p until finish / error / *)
(* batch limit / size cap.  Returns [bs, p, more] (more = a cursor follows).                   *)
PerTurn == IF Limit = 0 THEN CapN ELSE IF CapN = 0 THEN Limit ELSE IF Limit < CapN THEN Limit ELSE CapN
RECURSIVE Loop(_, _, _)
Loop(c, p, n) ==
    LET o == TurnOut(c, p + 1) IN
    CASE o \in {"emit", "emitlogs", "emitmeta"} /\ ExtK \in {1, 2} /\ n >= ExtK ->
            \* checkExternalBudget: uploading this cycle would pass max_externalized_response_bytes;
            \* the cap is hard for producers: the turn (and the stream) ends with the refusal
            [bs |-> << Exc("RuntimeError", "") >>, p |-> p + 1, more |-> FALSE, calls |-> 1]
      [] o \in {"emit", "emitlogs", "emitmeta"} ->
            LET b == (IF o = "emitlogs" THEN << Log("INFO", "turn") >> ELSE <<>>)
                     \o << IF o = "emitmeta" THEN DataM(p + 1) ELSE Data(p + 1) >> IN
            IF PerTurn > 0 /\ n + 1 >= PerTurn
            THEN [bs |-> b, p |-> p + 1, more |-> TRUE, calls |-> 1]
            ELSE LET r == Loop(c, p + 1, n + 1) IN [bs |-> b \o r.bs, p |-> r.p, more |-> r.more, calls |-> r.calls + 1]
      [] o = "finish"     -> [bs |-> <<>>, p |-> p + 1, more |-> FALSE, calls |-> 1]
      [] o = "emitfinish" -> [bs |-> << Data(p + 1) >>, p |-> p + 1, more |-> FALSE, calls |-> 1]
      [] o \in {"error", "errlogs"} -> [bs |-> << Exc("ValueError", "") >>, p |-> p + 1, more |-> FALSE, calls |-> 1]
      [] OTHER            -> [bs |-> << Exc("RuntimeError", "") >>, p |-> p + 1, more |-> FALSE, calls |-> 1]
Produces(n) == [i \in 1..n |-> "produce"]

\* adds stream-level information to a response record: the view accumulated so far, whether the
\* stream ended here, and (when it ended and the pipe reference applies) that it equals the pipe view
NoRec == [x \in {} |-> 0]
WithEnd(r, v, ended, cmp) ==
    [r EXCEPT !.exp = @ @@ [view |-> v, ended |-> ended] @@ (IF ended /\ cmp THEN [pipe_eq |-> TRUE] ELSE NoRec)]
\* "dup": the request repeats the framework keys after the real ones (Arrow metadata is a list);
\* the handler must see none of them
MetaKeys(me) == CASE me = "user" -> <<"user.a", "user.b">>
                  [] me = "dup" -> <<"user.a">>
                  [] me = "collide" -> <<"vgi_rpc.stream_state", "user.a", "vgi_rpc.cancelled">>
                  [] OTHER -> <<>>
\* (a hard external cap is an HTTP-only refusal: no pipe reference then)
PipeComparable(c, nsent) == IF ExtK \in {1, 2} THEN FALSE
                           ELSE IF IsProd(c.m) THEN (c.cancel = 0 \/ c.cancel > nsent) ELSE TRUE

(* POST /{m}/init (handleStreamInit).                                                           *)
StreamInit(c, i) ==
    /\ Budget /\ ph = "idle" /\ c.k = "stream" /\ ncalls < MaxCalls
    /\ ncalls' = ncalls + 1
    /\ LET a == c @@ [inst |-> i] IN
       IF c.pm = "mismatch" THEN
            /\ UNCHANGED <<ph, cur, pos, sent, view>>
            /\ RecordC(Resp("Init", a, 400, << Exc("TypeError", "") >>, FALSE, FALSE, <<>>, TRUE, TRUE))
       ELSE IF c.init # "ok" THEN
            /\ UNCHANGED <<ph, cur, pos, sent, view>>
            /\ RecordC(Resp("Init", a, 200,
                            << IF c.init = "error" THEN Exc("ValueError", "") ELSE Exc("RuntimeError", "") >>,
                            FALSE, FALSE, <<"init">>, TRUE, TRUE))
       ELSE IF IsProd(c.m) THEN
            LET r == Loop(c, 0, 0)
                bs == LogBatches(c.logs, c.lvl) \o r.bs IN
            /\ cur' = c /\ pos' = r.p /\ sent' = 0
            /\ ph' = IF r.more THEN "open" ELSE "idle"
            /\ view' = IF r.more THEN AddView(EmptyView, bs, c.hdr) ELSE EmptyView
            /\ RecordC(WithEnd(Resp("Init", a, 200, bs, r.more, c.hdr, <<"init">> \o Produces(r.calls), TRUE, ErrsOf(bs) # <<>>),
                               AddView(EmptyView, bs, c.hdr), ~r.more, PipeComparable(c, 0)))
       ELSE \* exchange init: no turn runs; the response carries the cursor (and the header / init logs)
            \* a client with no input to send simply abandons the stream
            LET bs == LogBatches(c.logs, c.lvl) IN
            /\ cur' = c /\ pos' = 0 /\ sent' = 0 /\ ph' = IF c.nin > 0 THEN "open" ELSE "idle"
            /\ view' = IF c.nin > 0 THEN AddView(EmptyView, bs, c.hdr) ELSE EmptyView
            /\ RecordC(WithEnd(Resp("Init", a, 200, bs, TRUE, c.hdr, <<"init">>, TRUE, FALSE),
                               AddView(EmptyView, bs, c.hdr), c.nin = 0, TRUE))

(* POST /{m}/exchange with the held cursor (handleStreamExchange).                              *)
Continue(i) ==
    /\ Budget /\ ph = "open"
    /\ UNCHANGED <<cur, ncalls>>
    /\ LET a == [m |-> cur.m, inst |-> i, n |-> sent + 1, cast |-> cur.cast, meta |-> cur.meta,
                 cancel |-> (cur.cancel = sent + 1)] IN
       IF IsProd(cur.m) THEN
            IF cur.cancel = sent + 1 THEN
                /\ ph' = "idle" /\ pos' = pos /\ sent' = sent + 1 /\ view' = EmptyView
                /\ RecordC(WithEnd(Resp("Continue", a, 200, <<>>, FALSE, FALSE, <<"cancel">>, TRUE, FALSE), view, TRUE, FALSE))
            ELSE
            LET r == Loop(cur, pos, 0) IN
            /\ pos' = r.p /\ sent' = sent + 1
            /\ ph' = IF r.more THEN "open" ELSE "idle"
            /\ view' = IF r.more THEN AddView(view, r.bs, FALSE) ELSE EmptyView
            /\ RecordC(WithEnd(Resp("Continue", a, 200, r.bs, r.more, FALSE, Produces(r.calls), TRUE, ErrsOf(r.bs) # <<>>),
                               AddView(view, r.bs, FALSE), ~r.more, PipeComparable(cur, sent + 1)))
       ELSE
            IF cur.cancel = sent + 1 THEN
                /\ ph' = "idle" /\ pos' = pos /\ sent' = sent + 1 /\ view' = EmptyView
                /\ RecordC(WithEnd(Resp("Continue", a, 200, <<>>, FALSE, FALSE, <<"cancel">>, TRUE, FALSE), view, TRUE, TRUE))
            ELSE IF cur.cast = "bad" /\ cur.m # "dynx" THEN
                \* refused before the tokens are looked at: no hook, no user code, no cursor
                /\ ph' = "idle" /\ pos' = pos /\ sent' = sent + 1 /\ view' = EmptyView
                /\ RecordC(WithEnd(Resp("Continue", a, 400, << Exc("TypeError", "") >>, FALSE, FALSE, <<>>, FALSE, TRUE),
                                   AddView(view, << Exc("TypeError", "") >>, FALSE), TRUE, TRUE))
            ELSE
            LET o == TurnOut(cur, pos + 1)
                ok == o \in {"emit", "emitlogs", "emitmeta"}
                bs == CASE o = "emit" -> << Data(sent + 1) >>
                        [] o = "emitmeta" -> << DataM(sent + 1) >>
                        [] o = "emitlogs" -> << Log("INFO", "turn"), Data(sent + 1) >>
                        [] o = "error" -> << Exc("ValueError", "") >>
                        [] OTHER -> << Exc("RuntimeError", "") >>
                more == ok /\ sent + 1 < cur.nin IN
            /\ pos' = pos + 1 /\ sent' = sent + 1
            /\ ph' = IF more THEN "open" ELSE "idle"
            /\ view' = IF more THEN AddView(view, bs, FALSE) ELSE EmptyView
            \* an accepted exchange turn returns exactly one data batch carrying a fresh cursor;
            \* a failed one an error and no cursor
            \* class tag: a dynamic exchange whose input is not already in the run-time input schema
            \* (the HTTP path casts against the registered schema only -- see DESIGN 14)
            /\ RecordC([WithEnd(Resp("Continue", a, 200, bs, ok, FALSE, <<"exchange">>, TRUE, ~ok),
                                AddView(view, bs, FALSE), ~more, TRUE)
                        EXCEPT !.exp = @ @@ [inmeta |-> MetaKeys(cur.meta)]]
                       @@ (IF cur.m = "dynx" /\ cur.cast # "eq" THEN [cls |-> "dynx-cast"] ELSE NoRec))

(* C19, first sentence: with max_response_bytes set, a unary or exchange response whose body     *)
(* would exceed the cap is replaced by an error.  The driver measures the uncapped response      *)
(* and sets the cap relative to it: "over" = the body exceeds the cap, "fits" = it does not.      *)
\* the probes say nothing about how many uploads happen before a refusal
NoUploads(r) == [r EXCEPT !.exp = [k \in (DOMAIN r.exp) \ {"uploads"} |-> r.exp[k]]]
UnaryCap(rel, ch, i) ==
    /\ Budget /\ CapProbe /\ ph = "idle" /\ ncalls < MaxCalls
    /\ (ch = "ext") => ExtK # 0
    /\ ncalls' = ncalls + 1
    /\ UNCHANGED <<ph, cur, pos, sent, view>>
    /\ LET a == [m |-> "u_val", rel |-> rel, chan |-> ch, inst |-> i] IN
       IF rel = "over"
       THEN RecordC(NoUploads(Resp("UnaryCap", a, 200, << Exc("RuntimeError", "") >>, FALSE, FALSE, <<"unary">>, TRUE, TRUE)))
       ELSE RecordC(NoUploads(Resp("UnaryCap", a, 200, << Data("x") >>, FALSE, FALSE, <<"unary">>, TRUE, FALSE)))
ExchCap(rel, ch, i) ==
    /\ Budget /\ CapProbe /\ ph = "idle" /\ ncalls < MaxCalls
    /\ (ch = "ext") => ExtK # 0
    /\ ncalls' = ncalls + 1
    /\ UNCHANGED <<ph, cur, pos, sent, view>>
    /\ LET a == [m |-> "exch", rel |-> rel, chan |-> ch, inst |-> i] IN
       IF rel = "over"
       THEN RecordC(NoUploads(Resp("ExchCap", a, 200, << Exc("RuntimeError", "") >>, FALSE, FALSE, <<"exchange">>, TRUE, TRUE)))
       ELSE RecordC(NoUploads(Resp("ExchCap", a, 200, << Data(2) >>, TRUE, FALSE, <<"exchange">>, TRUE, FALSE)))

\* the client stops an exchange stream after its last input (it simply stops sending)
Init ==
    /\ ph = "idle" /\ cur = [k |-> "none"] /\ pos = 0 /\ sent = 0 /\ view = EmptyView /\ ncalls = 0
    /\ hist = << [a |-> "Setup",
                  args |-> [limit |-> Limit, capn |-> CapN, extk |-> ExtK, cache |-> Cache, compress |-> Compress,
                            debug |-> Debug, hook |-> HookMode, ninst |-> Cardinality(Inst)],
                  exp |-> [ok |-> TRUE]] >>

Next ==
    \/ \E c \in Calls, i \in Inst : Unary(c, i) \/ StreamInit(c, i)
    \/ \E i \in Inst : Continue(i)
    \/ \E rel \in {"over", "fits"}, ch \in {"wire", "ext"}, i \in Inst : UnaryCap(rel, ch, i) \/ ExchCap(rel, ch, i)

Spec == Init /\ [][Next]_vars

--------------------------------------------------------------------------
Last == hist'[Len(hist')]
Stepped == hist' # hist
E == Last.exp

\* C11: when a stream ends, what the client saw over HTTP is what it would have seen on a pipe.
\* (An exchange client stops after nin inputs; a producer client keeps continuing until the
\* stream ends, i.e. the pipe client with unboundedly many ticks -- PipeView is taken with the
\* number of continuations the HTTP client actually needed.)
\* a producer's pipe client ticks until the stream ends
ProdRef(c) == PipeView([c EXCEPT !.nin = Len(c.turns) + 1, !.cancel = 0])
HttpEqualsPipe ==
    [][ (Stepped /\ Last.a \in {"Init", "Continue"} /\ "pipe_eq" \in DOMAIN E) =>
            E.view = IF IsProd(cur'.m) THEN ProdRef(cur') ELSE PipeView(cur') ]_vars

\* The same, outside the class the code is KNOWN to get wrong and the model reproduces (a dynamic
\* exchange stream fed a castable-but-unequal input: known finding C11 "dynx-cast", DESIGN 14).
\* MC_full.cfg checks this one; MC_full_asis.cfg checks HttpEqualsPipe itself and is expected to be
\* violated by exactly that class (it is not registered in module.json).
HttpEqualsPipeKnown ==
    [][ (Stepped /\ Last.a \in {"Init", "Continue"} /\ "pipe_eq" \in DOMAIN E
         /\ ~("cls" \in DOMAIN Last /\ Last.cls = "dynx-cast")) =>
            E.view = IF IsProd(cur'.m) THEN ProdRef(cur') ELSE PipeView(cur') ]_vars

\* C16: an accepted exchange continuation returns exactly one data batch and a fresh cursor; a
\* failed turn an error and no cursor; a cancel an empty stream, no cursor, OnCancel once
OneTurnPerContinuation ==
    [][ (Stepped /\ Last.a = "Continue" /\ ~IsProd(Last.args.m)) =>
          /\ (E.token => (Len(E.vals) = 1 /\ E.errs = <<>>))
          /\ (E.errs # <<>> => ~E.token /\ E.vals = <<>>)
          /\ (Last.args.cancel => (E.kinds = <<>> /\ ~E.token /\ E.journal = <<"cancel">>))
          /\ Len(SelectSeq(E.journal, LAMBDA x : x = "exchange")) <= 1 ]_vars

\* C19 (producer): a turn never carries more than the cap allows plus one data batch, and it
\* ends with a cursor unless the stream itself ended
CapsHold ==
    [][ (Stepped /\ Last.a \in {"Init", "Continue"} /\ CapN > 0 /\ "ended" \in DOMAIN E) =>
          /\ Len(E.vals) <= CapN
          /\ (Len(E.vals) = CapN /\ E.errs = <<>> /\ ~E.ended) => E.token ]_vars

\* C37: every dispatched HTTP call has one start and one end; err non-nil iff an error went out
HookBalanced ==
    [][ Stepped => LET h == E.hooks IN
          (Len(h) > 0 /\ h[1][1] = "start") => (Len(h) = 2 /\ h[2][1] = "end" /\ h[2][3] = (E.errs # <<>>)) ]_vars

\* C19 (external channel, producer): a turn never uploads more than the cap admits
ExtCapHolds ==
    [][ (Stepped /\ Last.a \in {"Init", "Continue"} /\ ExtK \in {1, 2}) => E.uploads <= ExtK ]_vars

\* C19 (unary / exchange): an over-cap body is replaced by an error and nothing else
CapReplaces ==
    [][ (Stepped /\ Last.a \in {"UnaryCap", "ExchCap"}) =>
          IF Last.args.rel = "over" THEN E.vals = <<>> /\ Len(E.errs) = 1 /\ ~E.token
          ELSE Len(E.vals) = 1 /\ E.errs = <<>> ]_vars

View == <<ph, cur, pos, sent, view, ncalls>>
=============================================================================
