SPECIFICATION Spec
CONSTANTS
    Mode = "edges"
    Depth = 0
    Calls <- CapCalls
    MaxCalls = 1
    Inst = {1, 2}
    Limit = 0
    CapN = 0
    Cache = 4096
    Compress = FALSE
    ExtK = 1
    CapProbe = TRUE
    Debug = FALSE
    HookMode = "ok"
VIEW View
CHECK_DEADLOCK FALSE
