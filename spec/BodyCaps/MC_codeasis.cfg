SPECIFICATION Spec
CONSTANTS
    MaxBodyVals = {0, 3000}
    MaxReqVals = {0, 2000, 3000, 4000}
    MaxDecVals <- DecValsFull
    OrderBases = {3000}
    Gaps = {1, 500}
    Small = 1000
    Codings = {"none", "identity", "zstd", "gzip", "unknown", "list"}
    ZstdFrames = {"fcs", "nofcs", "multi", "multi_nofcs", "nofcs_bigwin", "corrupt"}
    GzipFrames = {"single", "multi", "corrupt"}
    CLs = {"declared", "chunked"}
    CLReduced = FALSE
    DceLimits <- DceLimitsStd
    DceTokens = {"zstd:fcs", "zstd:nofcs", "zstd:multi", "gzip:single", "gzip:multi", "identity", "unknown"}
    DceMaxStack = 3
    DceBig = 5000
    Parts = {"http", "dce"}
    Faithful = TRUE
    Mode = "mc"
    Depth = 0
VIEW View
INVARIANTS TypeOK DecodedCapSound
PROPERTIES C18_Http C18_Dce
CHECK_DEADLOCK FALSE
