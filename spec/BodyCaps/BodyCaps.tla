------------------------------ MODULE BodyCaps ------------------------------
(***************************************************************************)
(* Request-body decoding and its caps in vgi-rpc-go (property C18).        *)
(*                                                                         *)
(* Two decision pipelines, written the way the code takes its decisions,   *)
(* one action per decision point, in the order of the code:                *)
(*                                                                         *)
(*  HTTP   HttpServer.ServeHTTP   (vgirpc/http.go)          Serve_*        *)
(*         HttpServer.readHTTPBody (vgirpc/http_helpers.go) Read_*         *)
(*         decompressBounded  (vgirpc/http_compression.go)  Decode_*       *)
(*         the unary handler                                Handler_Echo   *)
(*  DCE    DecodeContentEncoding (vgirpc/http_compression.go)  DCE_*       *)
(*         -- the intermediary decoder: a stack of codings undone in       *)
(*         reverse order, decompressBounded per coding.                    *)
(*                                                                         *)
(* All sizes and caps are BYTES (plain integers): "exact boundary" means   *)
(* cap-1, cap, cap+1 bytes.  The harness concretises a case to a real      *)
(* request of exactly these raw/decoded sizes.                             *)
(*                                                                         *)
(* The property C18 is stated once, declaratively, at the end (Allowed,    *)
(* C18_Http, C18_Dce) without reference to the pipeline variables.         *)
(*                                                                         *)
(* Faithful = TRUE   the decision rules exactly as the code has them today *)
(* Faithful = FALSE  the design the property requires.  They differ in two *)
(*   named places (search "Faithful"):                                     *)
(*   (1) OverStatus: the code answers 413 (requestBodyTooLargeError) for   *)
(*       every decoded-size overflow, also when the cap that overflowed is *)
(*       not the advertised max_request_bytes;                             *)
(*   (2) DeriveCond: the code derives the 16x cap also for a NEGATIVE      *)
(*       (= documented "disabled") SetMaxDecompressedBodySize.             *)
(*   MC.cfg / Gen*.cfg use FALSE (the oracle is the property);             *)
(*   MC_codeasis.cfg uses TRUE and is expected to violate C18_Http -- that *)
(*   is the model finding the replay reproduces on the real code           *)
(*   (proposed_fix_C18.diff makes the code agree with FALSE).              *)
(*                                                                         *)
(* The three caps are configured independently (SetMaxBodySize = wire cap, *)
(* SetMaxRequestBytes = advertised cap, SetMaxDecompressedBodySize), so    *)
(* their RELATIVE ORDER is a dimension of the configuration space of its   *)
(* own: OrderConfigs places the advertised cap below / AT / above the wire *)
(* cap and the explicit decoded cap below / AT / above each of them (gaps  *)
(* from Gaps: a wide one and, in the thorough tier, one byte, where cap+1  *)
(* of one cap is the other cap).  OrderCovered (an ASSUME) rejects any cfg *)
(* whose configuration space lacks one of these orders.  When the          *)
(* advertised cap is the binding raw cap (ReqCapGoverns: not larger than   *)
(* the wire cap, EQUAL included) a body over it is answered 413 and        *)
(* nothing else, and it bounds the decoded size to the byte.               *)
(*                                                                         *)
(* Not modelled / assumed: the clause "without decoding more than one byte *)
(* past the cap" is not observable from outside and is not judged; the     *)
(* property's carve-out (streaming zstd frames whose declared window       *)
(* exceeds the decoded-size cap are refused as a memory bound) is the      *)
(* unjudged action Decode_WindowOverCap; all positive caps are >= 1024,    *)
(* the smallest window a zstd frame can declare.                           *)
(***************************************************************************)
EXTENDS Integers, Sequences, FiniteSets, TLC, VerifEmit

CONSTANTS
    MaxBodyVals,   \* SetMaxBodySize values offered            (0 = unlimited)
    MaxReqVals,    \* SetMaxRequestBytes values offered        (0 = none, nothing advertised)
    MaxDecVals,    \* SetMaxDecompressedBodySize values offered (0 = derive 16x, < 0 = disabled)
    OrderBases,    \* wire caps around which every relative order of the three caps is offered
    Gaps,          \* distances used for "below" / "above" in those orders (0 is always included)
    Small,         \* a body size comfortably inside every positive cap
    Codings,       \* Content-Encoding classes: none identity zstd gzip unknown list
    ZstdFrames,    \* fcs nofcs multi multi_nofcs  (+ nofcs_bigwin corrupt: outside the property)
    GzipFrames,    \* single multi                 (+ corrupt)
    CLs,           \* request framing: "declared" (Content-Length) | "chunked" (length unknown)
    CLReduced,     \* TRUE: offer "chunked" only where the code can tell the difference
                   \*       (raw size over the advertised cap); FALSE: full product
    DceLimits,     \* maxOutputSize values offered to DecodeContentEncoding
    DceTokens,     \* header tokens: zstd:fcs zstd:nofcs zstd:multi gzip:single gzip:multi identity unknown
    DceMaxStack,   \* longest coding list
    DceBig,        \* a "large" size used when the limit is disabled
    Parts,         \* which pipelines are enabled: subset of {"http", "dce"}
    Faithful,      \* see above
    Mode,          \* "mc" | "edges" | "tree"
    Depth          \* tree mode: emit behaviours of exactly this length

VARIABLES
    phase,   \* where the pipeline stands
    cfg,     \* server configuration            [maxBody, maxReq, maxDec]
    req,     \* the request under decision      [raw, dec, coding, frame, cl]
    lim,     \* readHTTPBody: raw limit in force [limit, applied]
    dcap,    \* readHTTPBody: decoded cap        [cap, kind]
    dce,     \* DecodeContentEncoding call       [stack, sizes, psize, limit, i]
    hist     \* history / observation variable

vars == <<phase, cfg, req, lim, dcap, dce, hist>>

MinWindow == 1024   \* smallest window a zstd frame can declare

\* TLC configuration files cannot write negative numbers; cfgs substitute
\* these (MaxDecVals <- DecValsFull, ...).  -1 = "disabled" / "no limit".
DecValsFull   == {-1, 0, 1500, 2500, 5000}
DecValsQuick  == {-1, 0, 2500}
DecValsWalk   == {-1, 0, 2500}
DceLimitsStd  == {-1, 0, 2000}
DceLimitsQuick == {0, 2000}

ASSUME /\ \A c \in MaxBodyVals \cup MaxReqVals : c = 0 \/ c >= MinWindow
       /\ \A c \in MaxDecVals : c <= 0 \/ c >= MinWindow
       /\ \A c \in DceLimits  : c <= 0 \/ c >= MinWindow
       /\ Small > 0 /\ DceBig > Small

--------------------------------------------------------------------------
(* The configuration space.  The product of the offered values, plus, for  *)
(* every base b in OrderBases, the configurations in which the caps stand  *)
(* in every relative order:                                                *)
(*    wire cap        0 (unlimited) | b                                    *)
(*    advertised cap  0 (none) | b - g | b | b + g                         *)
(*    decoded cap     disabled | unset (derive 16x) | x - g | x | x + g    *)
(*                    for x = the wire cap and x = the advertised cap      *)
Around(x) == {x} \cup UNION {{x - g, x + g} : g \in Gaps}
Usable(S) == {v \in S : v >= MinWindow}
ReqAround(b) == {0} \cup Usable(Around(b))
DecAround(mb, mr) ==
    {-1, 0} \cup Usable((IF mb > 0 THEN Around(mb) ELSE {}) \cup
                        (IF mr > 0 THEN Around(mr) ELSE {}))
OrderConfigs ==
    UNION { UNION { UNION { { [maxBody |-> mb, maxReq |-> mr, maxDec |-> md] :
                                md \in DecAround(mb, mr) } :
                            mr \in ReqAround(b) } :
                    mb \in {0, b} } :
            b \in OrderBases }
Configs == [maxBody : MaxBodyVals, maxReq : MaxReqVals, maxDec : MaxDecVals] \cup OrderConfigs

\* Relative order is a dimension the configuration space must contain in full:
\* advertised cap below / equal to / above the wire cap, and, for each of those,
\* the explicit decoded cap below / equal to / above the advertised cap and
\* below / equal to / above the wire cap.
Rels == {"lt", "eq", "gt"}
Rel(a, b) == IF a < b THEN "lt" ELSE IF a = b THEN "eq" ELSE "gt"
OrderCovered ==
    \A r1 \in Rels : \A r2 \in Rels :
        /\ \E c \in Configs : /\ c.maxBody > 0 /\ c.maxReq > 0 /\ c.maxDec > 0
                              /\ Rel(c.maxReq, c.maxBody) = r1 /\ Rel(c.maxDec, c.maxReq) = r2
        /\ \E c \in Configs : /\ c.maxBody > 0 /\ c.maxReq > 0 /\ c.maxDec > 0
                              /\ Rel(c.maxReq, c.maxBody) = r1 /\ Rel(c.maxDec, c.maxBody) = r2
        \* ... and with the decoded cap unset (derived) and disabled
        /\ \E c \in Configs : /\ c.maxBody > 0 /\ c.maxReq > 0 /\ c.maxDec = 0
                              /\ Rel(c.maxReq, c.maxBody) = r1
        /\ \E c \in Configs : /\ c.maxBody > 0 /\ c.maxReq > 0 /\ c.maxDec < 0
                              /\ Rel(c.maxReq, c.maxBody) = r1
ASSUME "http" \in Parts => OrderCovered
ASSUME \A c \in OrderConfigs :
          /\ c.maxBody = 0 \/ c.maxBody >= MinWindow
          /\ c.maxReq = 0 \/ c.maxReq >= MinWindow
          /\ c.maxDec <= 0 \/ c.maxDec >= MinWindow

NoCfg  == [maxBody |-> 0, maxReq |-> 0, maxDec |-> 0]
NoReq  == [raw |-> 0, dec |-> 0, coding |-> "none", frame |-> "na", cl |-> "declared"]
NoLim  == [limit |-> 0, applied |-> FALSE]
NoDcap == [cap |-> 0, kind |-> "identity"]
NoDce  == [stack |-> <<>>, sizes |-> <<>>, psize |-> 0, limit |-> 0, i |-> 0]

Near(c) == {c - 1, c, c + 1}
Compressed(q) == q.coding \in {"zstd", "gzip"}

\* Size classes offered for a configuration: one size well inside, and the
\* three boundary sizes of every cap that could apply to that size.
RawSizes(c) ==
    {Small} \cup (IF c.maxBody > 0 THEN Near(c.maxBody) ELSE {})
            \cup (IF c.maxReq > 0 THEN Near(c.maxReq) ELSE {})
DecSizes(c) ==
    {Small} \cup (IF c.maxReq > 0 THEN Near(c.maxReq) ELSE {})
            \cup (IF c.maxDec > 0 THEN Near(c.maxDec) ELSE {})
            \cup (IF c.maxBody > 0 THEN Near(16 * c.maxBody) ELSE {})

Frames(cd) == IF cd = "zstd" THEN ZstdFrames
              ELSE IF cd = "gzip" THEN GzipFrames ELSE {"na"}

\* Frames the property does not speak about: damaged bodies, and streaming
\* zstd frames whose declared window exceeds the decoded-size cap (the
\* property's own carve-out).  They are modelled, never judged.
OutsideFrames == {"corrupt", "nofcs_bigwin"}

\* Content size the FIRST zstd frame declares in its header (-1: none).
\* "multi" = two frames, each declaring its own size, split in halves.
FirstDeclared(q) ==
    IF q.frame = "fcs" THEN q.dec
    ELSE IF q.frame = "multi" THEN (q.dec + 1) \div 2
    ELSE -1

--------------------------------------------------------------------------
(* History / emission.  A step is terminal when the pipeline has produced  *)
(* its observable result; only then is there something for the harness to  *)
(* observe, so edges mode prints one behaviour per terminal transition.    *)
Budget == (Mode = "tree") => Len(hist) < Depth

Record(step) ==
    /\ Budget
    /\ hist' = Append(hist, step)
    /\ (Mode = "edges" /\ step.term) => EmitTrace(hist')

\* tree mode (used for `tlc -simulate` walks of several requests against one
\* server): the walk is printed by a separate action once it is Depth long.
\* (Printing inside Record would print every candidate successor of the last
\* step, not only the one the walk takes.)
EmitWalk ==
    /\ Mode = "tree" /\ Len(hist) = Depth /\ phase # "end"
    /\ EmitTrace(hist)
    /\ phase' = "end"
    /\ UNCHANGED <<cfg, req, lim, dcap, dce, hist>>

Silent(name) == [a |-> name, term |-> FALSE, args |-> [x |-> 0], exp |-> [x |-> 0]]

--------------------------------------------------------------------------
(* THE PROPERTY (declarative part; used by the actions only to label the   *)
(* prediction, never to compute it).                                       *)

\* --- HTTP --------------------------------------------------------------
\* The request cap is advertised (VGI-Max-Request-Bytes) whenever positive.
\* It "governs" when it is the tightest raw cap; then it bounds the decoded
\* size as well.
ReqCapGoverns(c) == c.maxReq > 0 /\ (c.maxBody <= 0 \/ c.maxReq <= c.maxBody)

\* The configured decoded-size cap other than the advertised one: explicit,
\* else 16 x maxBodySize, none when disabled (negative) or nothing to derive from.
ConfiguredDecCap(c) ==
    IF c.maxDec > 0 THEN c.maxDec
    ELSE IF c.maxDec = 0 /\ c.maxBody > 0 THEN 16 * c.maxBody
    ELSE 0

OverAdvertised(c, q) ==
    \/ c.maxReq > 0 /\ q.raw > c.maxReq
    \/ Compressed(q) /\ ReqCapGoverns(c) /\ q.dec > c.maxReq
\* decoded size over the advertised cap while the (non-advertised) body cap is
\* the tighter raw cap: the property text does not settle whether the
\* advertised cap bounds the decoded size here, so both answers are allowed.
MaybeOverAdvertised(c, q) ==
    Compressed(q) /\ c.maxReq > 0 /\ ~ReqCapGoverns(c) /\ q.dec > c.maxReq
\* The wire cap is a ground of its own only while it is the tighter raw cap:
\* where the advertised cap governs (it is not larger than the wire cap, EQUAL
\* included) a body over the wire cap is over the advertised cap, the client
\* was told that cap, and the answer is 413.
OverOther(c, q) ==
    \/ c.maxBody > 0 /\ q.raw > c.maxBody /\ ~ReqCapGoverns(c)
    \/ Compressed(q) /\ ConfiguredDecCap(c) > 0 /\ q.dec > ConfiguredDecCap(c)
UnknownCoding(q) == q.coding = "unknown"

InScopeHttp(q) == q.coding \in {"none", "identity", "zstd", "gzip", "unknown"}
                  /\ q.frame \notin OutsideFrames

\* Set of answers the property allows for request q under configuration c.
\* "200" stands for: 200 and the handler received exactly the encoded bytes.
Allowed(c, q) ==
    LET must == (IF OverAdvertised(c, q) THEN {413} ELSE {})
                \cup (IF OverOther(c, q) THEN {400} ELSE {})
                \cup (IF UnknownCoding(q) THEN {415} ELSE {})
        may  == IF MaybeOverAdvertised(c, q) THEN {413} ELSE {}
    IN IF must = {} THEN {200} \cup may ELSE must \cup may

StatusName(s) == CASE s = 200 -> "200+exact" [] s = 400 -> "400"
                   [] s = 413 -> "413" [] s = 415 -> "415" [] OTHER -> "other"
AllowedSeq(c, q) ==
    SelectSeq(<<"200+exact", "400", "413", "415">>,
              LAMBDA n : \E s \in Allowed(c, q) : StatusName(s) = n)

\* --- DecodeContentEncoding ------------------------------------------------
IsCodingTok(t) == t \notin {"identity", "unknown"}
\* d.sizes[j] = size of the data BEFORE coding j was applied (sizes[1] = payload),
\* i.e. the size undoing coding j must produce.
DceMustFail(d) ==
    \E j \in 1..Len(d.stack) :
        IsCodingTok(d.stack[j]) /\ d.limit > 0 /\ d.sizes[j] > d.limit
InScopeDce(d) == \A j \in 1..Len(d.stack) : IsCodingTok(d.stack[j])

--------------------------------------------------------------------------
(* HTTP pipeline                                                           *)

\* Every response names the advertised cap, whatever the other caps are.
Advertised(c) == IF c.maxReq > 0 THEN c.maxReq ELSE 0

\* A terminal step: the response leaves the server.
HttpDone(name, status, body, cls) ==
    /\ phase' = "done"
    /\ UNCHANGED <<cfg, req, lim, dcap, dce>>
    /\ Record([a |-> name, term |-> TRUE, cls |-> cls,
               args |-> [allowed |-> AllowedSeq(cfg, req)],
               \* adv: the cap the response advertises (VGI-Max-Request-Bytes; 0 = none)
               exp |-> IF InScopeHttp(req)
                       THEN [status |-> status, body |-> body, adv |-> Advertised(cfg),
                             outcome |-> AllowedSeq(cfg, req)]
                       ELSE [status |-> status, body |-> body, adv |-> Advertised(cfg)]])

HttpStep(name, next) ==
    /\ phase' = next
    /\ UNCHANGED <<cfg, req, dce>>
    /\ Record(Silent(name))

\* The client sends a request (server configuration chosen with the first one).
NewRequest ==
    /\ "http" \in Parts
    /\ Budget
    /\ phase \in (IF Mode = "tree" THEN {"idle", "done"} ELSE {"idle"})
    /\ \E c \in Configs :
         /\ (phase = "done" /\ cfg # NoCfg) => c = cfg     \* same server for a whole walk
         /\ \E cd \in Codings : \E fr \in Frames(cd) : \E r \in RawSizes(c) :
            \E d \in (IF cd \in {"zstd", "gzip"} THEN DecSizes(c) ELSE {r}) :
            \E cl \in (IF CLReduced /\ ~(c.maxReq > 0 /\ r > c.maxReq) THEN {"declared"} ELSE CLs) :
              LET q == [raw |-> r, dec |-> d, coding |-> cd, frame |-> fr, cl |-> cl] IN
              /\ cfg' = c
              /\ req' = q
              /\ phase' = "serve"
              /\ lim' = NoLim /\ dcap' = NoDcap /\ dce' = NoDce
              /\ Record([a |-> "NewRequest", term |-> FALSE,
                         args |-> [cfg |-> c, req |-> q], exp |-> [x |-> 0]])

\* ServeHTTP: Content-Length fast check against the advertised cap.
ClOver == cfg.maxReq > 0 /\ req.cl = "declared" /\ req.raw > cfg.maxReq

Serve_ContentLengthOverRequestCap ==
    /\ phase = "serve" /\ ClOver
    /\ HttpDone("Serve_ContentLengthOverRequestCap", 413, "none", "content_length")

Serve_Dispatch ==
    /\ phase = "serve" /\ ~ClOver
    /\ UNCHANGED <<lim, dcap>>
    /\ HttpStep("Serve_Dispatch", "limit")

\* readHTTPBody: which raw limit is in force.
ReqCapApplies == cfg.maxReq > 0 /\ (cfg.maxBody <= 0 \/ cfg.maxReq <= cfg.maxBody)

Read_Limit_RequestCap ==
    /\ phase = "limit" /\ ReqCapApplies
    /\ lim' = [limit |-> cfg.maxReq, applied |-> TRUE]
    /\ UNCHANGED dcap
    /\ HttpStep("Read_Limit_RequestCap", "raw")

Read_Limit_BodyCap ==
    /\ phase = "limit" /\ ~ReqCapApplies
    /\ lim' = [limit |-> cfg.maxBody, applied |-> FALSE]
    /\ UNCHANGED dcap
    /\ HttpStep("Read_Limit_BodyCap", "raw")

\* readHTTPBody: io.ReadAll(io.LimitReader(body, limit+1)) and the length check.
RawOver == lim.limit > 0 /\ req.raw > lim.limit

Read_RawOverLimit_RequestCap ==
    /\ phase = "raw" /\ RawOver /\ lim.applied
    /\ HttpDone("Read_RawOverLimit_RequestCap", 413, "none", "raw")

Read_RawOverLimit_BodyCap ==
    /\ phase = "raw" /\ RawOver /\ ~lim.applied
    /\ HttpDone("Read_RawOverLimit_BodyCap", 400, "none", "raw")

Read_RawWithin ==
    /\ phase = "raw" /\ ~RawOver
    /\ UNCHANGED <<lim, dcap>>
    /\ HttpStep("Read_RawWithin", "coding")

\* readHTTPBody: switch on the lower-cased, trimmed Content-Encoding.
Read_Coding_Identity ==
    /\ phase = "coding" /\ req.coding \in {"none", "identity"}
    /\ dcap' = NoDcap
    /\ UNCHANGED lim
    /\ HttpStep("Read_Coding_Identity", "handler")

Read_Coding_Unsupported ==
    /\ phase = "coding" /\ req.coding \in {"unknown", "list"}
    /\ HttpDone("Read_Coding_Unsupported", 415, "none", "coding")

Read_Coding_Compressed ==
    /\ phase = "coding" /\ Compressed(req)
    /\ UNCHANGED <<lim, dcap>>
    /\ HttpStep("Read_Coding_Compressed", "dcap")

\* readHTTPBody: the decoded-size cap handed to decompressBounded.
UseRequestCap == lim.applied /\ (cfg.maxDec <= 0 \/ lim.limit < cfg.maxDec)
\* (2) the code tests "<= 0", so a negative (disabled) setting derives as well
DeriveCond == (IF Faithful THEN cfg.maxDec <= 0 ELSE cfg.maxDec = 0) /\ lim.limit > 0

Read_DecodedCap_RequestCap ==
    /\ phase = "dcap" /\ UseRequestCap
    /\ dcap' = [cap |-> lim.limit, kind |-> "advertised"]
    /\ UNCHANGED lim
    /\ HttpStep("Read_DecodedCap_RequestCap", "decode")

Read_DecodedCap_Derived ==
    /\ phase = "dcap" /\ ~UseRequestCap /\ DeriveCond
    /\ dcap' = [cap |-> 16 * lim.limit, kind |-> "derived"]
    /\ UNCHANGED lim
    /\ HttpStep("Read_DecodedCap_Derived", "decode")

Read_DecodedCap_Explicit ==
    /\ phase = "dcap" /\ ~UseRequestCap /\ ~DeriveCond /\ cfg.maxDec > 0
    /\ dcap' = [cap |-> cfg.maxDec, kind |-> "explicit"]
    /\ UNCHANGED lim
    /\ HttpStep("Read_DecodedCap_Explicit", "decode")

Read_DecodedCap_None ==
    /\ phase = "dcap" /\ ~UseRequestCap /\ ~DeriveCond /\ cfg.maxDec <= 0
    /\ dcap' = [cap |-> 0, kind |-> IF cfg.maxDec < 0 THEN "disabled" ELSE "unlimited"]
    /\ UNCHANGED lim
    /\ HttpStep("Read_DecodedCap_None", "decode")

\* decompressBounded.
\* (1) the code returns requestBodyTooLargeError (=> 413) for every overflow
OverStatus == IF Faithful \/ dcap.kind = "advertised" THEN 413 ELSE 400

Malformed    == req.frame = "corrupt"
DeclaredOver == req.coding = "zstd" /\ dcap.cap > 0 /\ FirstDeclared(req) > dcap.cap
WindowOver   == req.coding = "zstd" /\ dcap.cap > 0 /\ req.frame = "nofcs_bigwin"
OutputOver   == dcap.cap > 0 /\ req.dec > dcap.cap

\* header does not parse / reader fails: plain error => 400
Decode_Malformed ==
    /\ phase = "decode" /\ Malformed
    /\ HttpDone("Decode_Malformed", 400, "none", dcap.kind)

\* zstd: the frame header's declared content size is checked before allocating
Decode_DeclaredSizeOverCap ==
    /\ phase = "decode" /\ ~Malformed /\ DeclaredOver
    /\ HttpDone("Decode_DeclaredSizeOverCap", OverStatus, "none", dcap.kind)

\* zstd: the decoder (WithDecoderMaxMemory) refuses a window larger than the cap
Decode_WindowOverCap ==
    /\ phase = "decode" /\ ~Malformed /\ ~DeclaredOver /\ WindowOver
    /\ HttpDone("Decode_WindowOverCap", 400, "none", dcap.kind)

\* io.ReadAll(io.LimitReader(reader, cap+1)) produced cap+1 bytes
Decode_OutputOverCap ==
    /\ phase = "decode" /\ ~Malformed /\ ~DeclaredOver /\ ~WindowOver /\ OutputOver
    /\ HttpDone("Decode_OutputOverCap", OverStatus, "none", dcap.kind)

Decode_Within ==
    /\ phase = "decode" /\ ~Malformed /\ ~DeclaredOver /\ ~WindowOver /\ ~OutputOver
    /\ UNCHANGED <<lim, dcap>>
    /\ HttpStep("Decode_Within", "handler")

\* the unary handler receives the decoded parameters and echoes them
Handler_Echo ==
    /\ phase = "handler"
    /\ HttpDone("Handler_Echo", 200, "exact", dcap.kind)

--------------------------------------------------------------------------
(* DecodeContentEncoding(data, header, maxOutputSize)                      *)

DceSizes(l) == IF l > 0 THEN {Small} \cup Near(l) ELSE {Small, DceBig}

DceDone(name, outcome) ==
    /\ phase' = "done"
    /\ UNCHANGED <<cfg, req, lim, dcap, dce>>
    /\ Record([a |-> name, term |-> TRUE,
               cls |-> IF dce.limit > 0 THEN "limited" ELSE "unlimited",
               args |-> [allowed |-> <<IF DceMustFail(dce) THEN "error" ELSE "exact">>],
               exp |-> IF InScopeDce(dce)
                       THEN [outcome |-> <<IF DceMustFail(dce) THEN "error" ELSE "exact">>,
                             result |-> outcome]
                       ELSE [result |-> outcome]])

DceStart(l, stk, sz, ps) ==
    /\ dce' = [stack |-> stk, sizes |-> sz, limit |-> l, i |-> Len(stk), psize |-> ps]
    /\ phase' = "dce"
    /\ UNCHANGED <<cfg, req, lim, dcap>>
    /\ Record([a |-> "DCE_Call", term |-> FALSE,
               args |-> [stack |-> stk, sizes |-> sz, limit |-> l, psize |-> ps],
               exp |-> [x |-> 0]])

\* all sequences of length n over S
SeqsOf(S, n) == IF n = 0 THEN {<<>>} ELSE [1..n -> S]

DCE_Call ==
    /\ "dce" \in Parts
    /\ Budget
    /\ phase \in (IF Mode = "tree" THEN {"idle", "done"} ELSE {"idle"})
    /\ \E l \in DceLimits : \E n \in 0..DceMaxStack :
       \E stk \in SeqsOf(DceTokens, n) : \E sz \in SeqsOf(DceSizes(l), n) :
         \* an identity/unknown token leaves the data as it is
         /\ \A j \in 1..(n - 1) : ~IsCodingTok(stk[j]) => sz[j + 1] = sz[j]
         /\ DceStart(l, stk, sz, IF n = 0 THEN Small ELSE sz[1])

\* contentEncoding == "": data returned untouched
DCE_EmptyHeader ==
    /\ phase = "dce" /\ Len(dce.stack) = 0
    /\ DceDone("DCE_EmptyHeader", "exact")

DceStep(name) ==
    /\ dce' = [dce EXCEPT !.i = dce.i - 1]
    /\ UNCHANGED <<phase, cfg, req, lim, dcap>>
    /\ Record(Silent(name))

Tok == dce.stack[dce.i]
TokIsZstd == Tok \in {"zstd:fcs", "zstd:nofcs", "zstd:multi"}
\* size the first frame of the current layer declares (-1: none)
DceDeclared == IF Tok = "zstd:fcs" THEN dce.sizes[dce.i]
               ELSE IF Tok = "zstd:multi" THEN (dce.sizes[dce.i] + 1) \div 2 ELSE -1
DceDeclaredOver == TokIsZstd /\ dce.limit > 0 /\ DceDeclared > dce.limit
DceOutputOver == dce.limit > 0 /\ dce.sizes[dce.i] > dce.limit

\* the loop walks the comma-separated list from the LAST token to the first
DCE_Token_LeftAsIs ==
    /\ phase = "dce" /\ Len(dce.stack) > 0 /\ dce.i > 0 /\ ~IsCodingTok(Tok)
    /\ DceStep("DCE_Token_LeftAsIs")

DCE_Undo_DeclaredSizeOverLimit ==
    /\ phase = "dce" /\ Len(dce.stack) > 0 /\ dce.i > 0 /\ IsCodingTok(Tok)
    /\ DceDeclaredOver
    /\ DceDone("DCE_Undo_DeclaredSizeOverLimit", "error")

DCE_Undo_OutputOverLimit ==
    /\ phase = "dce" /\ Len(dce.stack) > 0 /\ dce.i > 0 /\ IsCodingTok(Tok)
    /\ ~DceDeclaredOver /\ DceOutputOver
    /\ DceDone("DCE_Undo_OutputOverLimit", "error")

DCE_Undo_Ok ==
    /\ phase = "dce" /\ Len(dce.stack) > 0 /\ dce.i > 0 /\ IsCodingTok(Tok)
    /\ ~DceDeclaredOver /\ ~DceOutputOver
    /\ DceStep("DCE_Undo_Ok")

DCE_Return ==
    /\ phase = "dce" /\ Len(dce.stack) > 0 /\ dce.i = 0
    /\ DceDone("DCE_Return", "exact")

--------------------------------------------------------------------------
Init ==
    /\ phase = "idle"
    /\ cfg = NoCfg /\ req = NoReq /\ lim = NoLim /\ dcap = NoDcap /\ dce = NoDce
    /\ hist = << [a |-> "Init", term |-> FALSE,
                  args |-> [faithful |-> Faithful], exp |-> [x |-> 0]] >>

Next ==
    \/ NewRequest
    \/ Serve_ContentLengthOverRequestCap \/ Serve_Dispatch
    \/ Read_Limit_RequestCap \/ Read_Limit_BodyCap
    \/ Read_RawOverLimit_RequestCap \/ Read_RawOverLimit_BodyCap \/ Read_RawWithin
    \/ Read_Coding_Identity \/ Read_Coding_Unsupported \/ Read_Coding_Compressed
    \/ Read_DecodedCap_RequestCap \/ Read_DecodedCap_Derived
    \/ Read_DecodedCap_Explicit \/ Read_DecodedCap_None
    \/ Decode_Malformed \/ Decode_DeclaredSizeOverCap \/ Decode_WindowOverCap
    \/ Decode_OutputOverCap \/ Decode_Within
    \/ Handler_Echo
    \/ DCE_Call \/ DCE_EmptyHeader \/ DCE_Token_LeftAsIs
    \/ DCE_Undo_DeclaredSizeOverLimit \/ DCE_Undo_OutputOverLimit \/ DCE_Undo_Ok
    \/ DCE_Return
    \/ EmitWalk

Spec == Init /\ [][Next]_vars

--------------------------------------------------------------------------
(* C18.  Action properties: they read the observation just recorded.       *)
Last == hist'[Len(hist')]
HttpTerminals ==
    {"Serve_ContentLengthOverRequestCap", "Read_RawOverLimit_RequestCap",
     "Read_RawOverLimit_BodyCap", "Read_Coding_Unsupported", "Decode_Malformed",
     "Decode_DeclaredSizeOverCap", "Decode_WindowOverCap", "Decode_OutputOverCap",
     "Handler_Echo"}
DceTerminals ==
    {"DCE_EmptyHeader", "DCE_Undo_DeclaredSizeOverLimit", "DCE_Undo_OutputOverLimit",
     "DCE_Return"}

\* A request in identity, zstd or gzip coding whose raw and decoded sizes are
\* within the configured caps reaches the handler with exactly the encoded
\* bytes; a body over a cap is refused, 413 for the advertised request cap and
\* 400 for any other; an unknown coding is refused with 415.
C18_Http ==
    [][ (Last.a \in HttpTerminals /\ InScopeHttp(req)) =>
          /\ Last.exp.status \in Allowed(cfg, req)
          /\ (Last.exp.status = 200) <=> (Last.exp.body = "exact") ]_vars

\* The intermediary decoder undoes a stack of zstd/gzip codings in reverse
\* order -- the payload comes back exactly -- and no coding is ever undone to
\* more than the limit: if some layer is larger the call fails.
C18_Dce ==
    [][ (Last.a \in DceTerminals /\ InScopeDce(dce)) =>
          /\ Last.exp.result = (IF DceMustFail(dce) THEN "error" ELSE "exact")
          /\ (Last.exp.result = "exact" /\ dce.limit > 0 /\ Len(dce.stack) > 0)
                => dce.psize <= dce.limit ]_vars

\* Sanity of the pipeline itself (INVARIANTs over viewed state).
TypeOK ==
    /\ phase \in {"idle", "serve", "limit", "raw", "coding", "dcap", "decode",
                  "handler", "dce", "done", "end"}
    /\ dce.i \in 0..DceMaxStack
\* the decoded cap handed to the decoder is never looser than a cap the
\* property would enforce with a refusal
DecodedCapSound ==
    (phase \in {"decode"} /\ ~Faithful) =>
        /\ (dcap.kind = "advertised") => dcap.cap = cfg.maxReq
        /\ (ConfiguredDecCap(cfg) > 0 /\ dcap.cap > 0) => dcap.cap <= ConfiguredDecCap(cfg)
        /\ (ConfiguredDecCap(cfg) > 0) => dcap.cap > 0
        \* where the advertised cap governs (equal to the wire cap included) the
        \* decoder is never allowed a byte more than what was advertised
        /\ ReqCapGoverns(cfg) => (dcap.cap > 0 /\ dcap.cap <= cfg.maxReq)

View == <<phase, cfg, req, lim, dcap, dce>>
=============================================================================
