SPECIFICATION Spec
CONSTANTS
    MaxBodyVals = {0, 3000}
    MaxReqVals = {0, 2000, 4000}
    MaxDecVals <- DecValsQuick
    OrderBases = {3000}
    Gaps = {500}
    Small = 1000
    Codings = {"none", "identity", "zstd", "gzip", "unknown", "list"}
    ZstdFrames = {"fcs", "nofcs", "multi", "multi_nofcs"}
    GzipFrames = {"single", "multi"}
    CLs = {"declared", "chunked"}
    CLReduced = TRUE
    DceLimits <- DceLimitsQuick
    DceTokens = {"zstd:fcs", "zstd:nofcs", "zstd:multi", "gzip:single", "gzip:multi", "identity", "unknown"}
    DceMaxStack = 2
    DceBig = 5000
    Parts = {"http", "dce"}
    Faithful = FALSE
    Mode = "mc"
    Depth = 0
VIEW View
INVARIANTS TypeOK DecodedCapSound
PROPERTIES C18_Http C18_Dce
CHECK_DEADLOCK FALSE
