SPECIFICATION Spec
CONSTANTS
    Mode = "mc"
    Depth = 0
    Variant = "fixed"
    Parts = {"C07"}
    Wraps = {"bare"}
    LeafSel = "core"
    FullValues = FALSE
    Kinds = {"s", "i", "b", "l", "ps", "pi", "ns", "sd", "nid", "nbd", "psd", "pfd"}
    MaxFields = 3
    Vias = {"direct", "pipe", "http"}
    Witness = FALSE
VIEW View
PROPERTIES BindsIffEqual RefusedIsTypeError ValuesAndDefaults
CHECK_DEADLOCK FALSE
