SPECIFICATION Spec
CONSTANTS
    Mode = "mc"
    Depth = 0
    Variant = "fixed"
    Parts = {"C07"}
    Wraps = {"bare"}
    LeafSel = "core"
    FullValues = FALSE
    Kinds = {"s", "i", "f", "b", "y", "e", "i32", "l", "ts", "ps", "pi", "pf", "pb", "ns", "sd", "id", "fd", "bd", "nsd", "nid", "nfd", "nbd", "psd", "pid", "pfd", "pbd"}
    MaxFields = 3
    Vias = {"direct", "pipe", "http"}
    Witness = FALSE
VIEW View
PROPERTIES BindsIffEqual RefusedIsTypeError ValuesAndDefaults
CHECK_DEADLOCK FALSE
