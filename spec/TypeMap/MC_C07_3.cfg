SPECIFICATION Spec
CONSTANTS
    Mode = "mc"
    Depth = 0
    Variant = "fixed"
    Parts = {"C07"}
    Wraps = {"bare"}
    LeafSel = "core"
    FullValues = FALSE
    Kinds = {"s", "i", "b", "l", "ps", "pi", "ns", "sd", "nid", "nbd", "psd", "pfd", "rq", "rqn"}
    MaxFields = 3
    Vias = {"direct", "pipe", "http"}
    Witness = FALSE
    ReqPayloads = {"garbage", "empty", "null", "ipc_equal", "ipc_equal_g", "ipc_retyped", "ipc_nobatch"}
VIEW View
PROPERTIES BindsIffEqual RefusedIsTypeError ValuesAndDefaults RequestColumnIsOrdinary
CHECK_DEADLOCK FALSE
