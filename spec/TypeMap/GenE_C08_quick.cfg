SPECIFICATION Spec
CONSTANTS
    Mode = "edges"
    Depth = 0
    Variant = "fixed"
    Parts = {"C08"}
    Wraps = {"bare", "ptr", "nullable", "list", "list_ptr", "ptr_list", "list_list", "map", "map_ptr", "ptr_map", "map_int", "map_list", "struct", "ptr_struct", "struct_ptr", "struct_list", "struct2"}
    LeafSel = "core"
    FullValues = FALSE
    Kinds = {"s"}
    MaxFields = 1
    Vias = {"direct"}
    Witness = FALSE
    ReqPayloads = {}
VIEW View
CHECK_DEADLOCK FALSE
