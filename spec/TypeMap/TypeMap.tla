------------------------------ MODULE TypeMap ------------------------------
(***************************************************************************)
(* Go struct <-> Arrow mapping of vgi-rpc-go                                *)
(*   vgirpc/types_schema.go      goTypeToArrowTypeAt, structFieldsOf        *)
(*   vgirpc/types_serialize.go   buildArray / appendToBuilder               *)
(*   vgirpc/types_deserialize.go deserializeParams, setFieldFromArrow,      *)
(*                               setFieldFromString                         *)
(*                                                                          *)
(* The module is a decision table (HOWTO 1): a behaviour is                 *)
(*     Init ; Derive(field)      ; RoundTrip(value)          (C08)          *)
(*     Init ; Declare(struct)    ; Bind(batch, via)          (C07)          *)
(* and TLC enumerates the cases.  What is modelled:                         *)
(*                                                                          *)
(*  (a) the Go-kind x tag x nullability x container -> Arrow type table,    *)
(*      written the way goTypeToArrowTypeAt decides (pointer strip, tag     *)
(*      override switch, kind switch, []byte special case, list / map /     *)
(*      struct recursion, depth bound);                                     *)
(*  (b) serialization and decoding of a value tree, operationally, with the *)
(*      arithmetic the code performs on a SCALED time line (3 ticks per     *)
(*      microsecond, 4 microseconds per day, a time.Duration of 26 ticks),  *)
(*      so that floor / truncation / saturation / wrap-around are real      *)
(*      computations TLC checks against the declarative normal form;        *)
(*  (c) deserializeParams: the wrapped-request unwrap (taken only when the  *)
(*      batch's ONLY column is a binary column named "request" with a       *)
(*      non-null, non-empty value that starts an IPC stream), the           *)
(*      Schema.Equal gate (order, names, types, nullability; metadata       *)
(*      ignored), per field null/default handling.  A column named          *)
(*      "request" is otherwise an ordinary column: structs may declare one  *)
(*      next to other fields and batches may carry one next to the declared *)
(*      columns, with anything in it (garbage, nothing, a null, an IPC      *)
(*      stream of a batch that would bind).                                 *)
(*                                                                          *)
(* CONSTANT Variant selects which code is modelled:                         *)
(*   "pinned" = the tree as found (DESIGN 8: timestampToTime multiplies     *)
(*              into time.Duration, daysSinceEpoch uses the saturating      *)
(*              Time.Sub and Go's truncating division, setFieldFromString   *)
(*              is handed the pointer Value, setMapField dereferences the   *)
(*              field type twice and never looks at item validity);         *)
(*   "fixed"  = the same code with the minimal repairs proposed in          *)
(*              proposed_fix_C07.diff / proposed_fix_C08.diff.              *)
(* The properties below hold for "fixed" (MC*.cfg) and are violated by      *)
(* "pinned" (MC_pinned_*.cfg, kept as the non-vacuity witness).  The        *)
(* behaviours replayed into /repo come from "fixed": the code has to        *)
(* do what the property demands.  Replaying the "pinned" behaviours into    *)
(* the pinned tree (GenE_pinned_*.cfg) validates the model of the defects.  *)
(***************************************************************************)
EXTENDS Integers, Sequences, FiniteSets, TLC, VerifEmit

CONSTANTS
    Mode,        \* "mc" | "edges" | "tree"
    Depth,       \* tree mode only
    Variant,     \* "fixed" | "pinned"
    Parts,       \* subset of {"C08", "C07"}
    Wraps,       \* C08: containers enumerated around a leaf
    LeafSel,     \* C08: "all" | "core"  (core = one leaf per Arrow family)
    FullValues,  \* C08: TRUE = every abstract numeric value, FALSE = one per class
    Kinds,       \* C07: palette of parameter field kinds
    MaxFields,   \* C07: declared structs have 1..MaxFields fields
    Vias,        \* C07: subset of {"direct", "pipe", "http"}
    Witness,     \* C07: TRUE = emit one behaviour per class signature
    ReqPayloads  \* C07: what a binary column named "request" carries, subset of AllReqPayloads
                 \*      ({} = no batch gets such a column added and no struct declares one)

VARIABLES
    phase,       \* "idle" | "derived" | "declared" | "done"
    decl,        \* the field (C08) or struct (C07) under test; <<>> when idle
    hist         \* observation / history variable

vars == <<phase, decl, hist>>

--------------------------------------------------------------------------
(* Go types and tags, as data.                                             *)
K(k) == [k |-> k]
Ptr(e) == [k |-> "ptr", e |-> e]
Slice(e) == [k |-> "slice", e |-> e]
MapOf(key, e) == [k |-> "map", key |-> key, e |-> e]
StructOf(fs) == [k |-> "struct", fields |-> fs]
Bytes == Slice(K("uint8"))

\* parseTag result: name handled separately; arrow = bare option, elem = "elem=",
\* nullable = "nullable", def = "none" or the default's literal kind
Tag(a) == [arrow |-> a, elem |-> "", nullable |-> FALSE, def |-> "none"]
NoTag == Tag("")
Fld(name, t, tag) == [name |-> name, t |-> t, tag |-> tag]

--------------------------------------------------------------------------
(* (a) goTypeToArrowTypeAt.                                                 *)
MaxStructNestDepth == 8

\* "switch tag.ArrowType": the overrides that ignore the Go type.  "" = no case hit
\* (that includes the empty tag and any word the switch does not list, e.g. "int64").
TagOverride(a) ==
    CASE a \in {"int8", "int16", "int32", "uint8", "uint16", "uint32", "uint64", "float32"} -> a
      [] a \in {"enum", "dict_string"} -> "dictionary<int16,utf8>"
      [] a = "binary"        -> "binary"
      [] a = "large_string"  -> "large_utf8"
      [] a = "large_binary"  -> "large_binary"
      [] a = "date"          -> "date32"
      [] a = "timestamp"     -> "timestamp[us]"
      [] a = "timestamp_utc" -> "timestamp[us,UTC]"
      [] a = "time"          -> "time64[us]"
      [] a = "duration"      -> "duration[us]"
      [] a = "decimal"       -> "decimal128(20,4)"
      [] a = "fixed_binary[4]" -> "fixed_size_binary[4]"
      [] OTHER -> ""

\* "switch t.Kind()".  time.Duration has Kind Int64; time.Time has Kind Struct and is
\* not ArrowSerializable, so it falls to the default branch.
KindType(k) ==
    CASE k = "string" -> "utf8"
      [] k \in {"int", "int64", "duration"} -> "int64"
      [] k \in {"int32", "int16", "int8"} -> k
      [] k \in {"uint", "uint64"} -> "uint64"
      [] k \in {"uint32", "uint16", "uint8"} -> k
      [] k \in {"float64", "float32"} -> k
      [] k = "bool" -> "bool"
      [] OTHER -> ""

Err(msg) == [ok |-> FALSE, type |-> msg, nullable |-> FALSE]
Ok(ty, n) == [ok |-> TRUE, type |-> ty, nullable |-> n]

RECURSIVE ArrowOf(_, _, _)
\* rendering of a struct's children, "name:type" with "?" marking a nullable child
RECURSIVE Children(_, _, _)
Children(fs, i, depth) ==
    IF i > Len(fs) THEN [ok |-> TRUE, s |-> ""]
    ELSE LET c == ArrowOf(fs[i].t, fs[i].tag, depth)
             rest == Children(fs, i + 1, depth) IN
         IF ~c.ok THEN [ok |-> FALSE, s |-> c.type]
         ELSE IF ~rest.ok THEN rest
         ELSE [ok |-> TRUE,
               s |-> fs[i].name \o ":" \o c.type \o (IF c.nullable THEN "?" ELSE "")
                     \o (IF i < Len(fs) THEN "," ELSE "") \o rest.s]

ArrowOf(t, tag, depth) ==
    LET isPtr == t.k = "ptr"
        nullable == tag.nullable \/ isPtr          \* pointer => nullable
        u == IF isPtr THEN t.e ELSE t
        ov == TagOverride(tag.arrow)
    IN
    IF tag.arrow = "struct" THEN                   \* structArrowType
        IF depth >= MaxStructNestDepth THEN Err("struct nesting too deep")
        ELSE IF u.k # "struct" THEN Err("struct tag on non-struct")
        ELSE IF Len(u.fields) = 0 THEN Err("struct without tagged fields")
        ELSE LET ch == Children(u.fields, 1, depth + 1) IN
             IF ~ch.ok THEN Err(ch.s) ELSE Ok("struct<" \o ch.s \o ">", nullable)
    ELSE IF ov # "" THEN Ok(ov, nullable)
    ELSE IF u.k = "slice" THEN
        IF u.e.k = "uint8" THEN Ok("binary", nullable)
        ELSE LET el == ArrowOf(u.e, Tag(tag.elem), depth) IN   \* only elem= travels down
             IF ~el.ok THEN el ELSE Ok("list<" \o el.type \o ">", nullable)
    ELSE IF u.k = "map" THEN
        LET kt == ArrowOf(u.key, NoTag, depth)
            vt == ArrowOf(u.e, NoTag, depth) IN
        IF ~kt.ok THEN kt ELSE IF ~vt.ok THEN vt
        ELSE Ok("map<" \o kt.type \o "," \o vt.type \o ">", nullable)
    ELSE IF KindType(u.k) # "" THEN Ok(KindType(u.k), nullable)
    ELSE Err("unsupported Go type")

\* the Arrow type a (pointer-stripped) type is written as, for codec selection
WireOf(t, tag) == ArrowOf(t, tag, 0).type

--------------------------------------------------------------------------
(* Leaves of the supported palette: Go kind x tag.                          *)
L(go, tag) == [go |-> go, tag |-> tag]

CoreLeaves ==
    { L("string", ""), L("string", "enum"), L("string", "decimal"),
      L("int64", ""), L("int64", "int32"), L("uint64", ""), L("uint8", ""),
      L("float64", ""), L("float64", "float32"), L("bool", ""),
      L("bytes", ""), L("bytes", "fixed_binary[4]"),
      L("time", "date"), L("time", "timestamp"), L("time", "time"),
      L("duration", "duration") }

AllLeaves == CoreLeaves \cup
    { L("string", "dict_string"), L("string", "large_string"),
      L("int", ""), L("int32", ""), L("int16", ""), L("int8", ""),
      L("uint", ""), L("uint32", ""), L("uint16", ""),
      L("int64", "int16"), L("int64", "int8"), L("int", "int32"),
      L("int64", "uint32"), L("int64", "uint64"), L("uint64", "uint32"),
      L("float32", ""),
      L("bytes", "binary"), L("bytes", "large_binary"),
      L("time", "timestamp_utc") }

\* derivable or not, but not serializable: what the code does is recorded (drift
\* keys only), the property does not quantify over them
OddLeaves == { L("time", ""), L("duration", ""), L("string", "int32") }

Leaves == IF LeafSel = "all" THEN AllLeaves ELSE CoreLeaves

LeafT(l) == IF l.go = "bytes" THEN Bytes ELSE K(l.go)
Tagged(l) == l.tag # ""

\* wraps that need an untagged leaf (no tag can reach the element)
UntaggedOnly == {"list_list", "map", "map_ptr", "ptr_map", "map_int", "map_list"}

X1(l) == StructOf(<<Fld("x", LeafT(l), Tag(l.tag))>>)

FieldOf(l, w) ==
    CASE w = "bare"       -> Fld("v", LeafT(l), Tag(l.tag))
      [] w = "ptr"        -> Fld("v", Ptr(LeafT(l)), Tag(l.tag))
      [] w = "nullable"   -> Fld("v", LeafT(l), [Tag(l.tag) EXCEPT !.nullable = TRUE])
      [] w = "list"       -> Fld("v", Slice(LeafT(l)), [NoTag EXCEPT !.elem = l.tag])
      [] w = "list_ptr"   -> Fld("v", Slice(Ptr(LeafT(l))), [NoTag EXCEPT !.elem = l.tag])
      [] w = "ptr_list"   -> Fld("v", Ptr(Slice(LeafT(l))), [NoTag EXCEPT !.elem = l.tag])
      [] w = "list_list"  -> Fld("v", Slice(Slice(LeafT(l))), NoTag)
      [] w = "map"        -> Fld("v", MapOf(K("string"), LeafT(l)), NoTag)
      [] w = "map_ptr"    -> Fld("v", MapOf(K("string"), Ptr(LeafT(l))), NoTag)
      [] w = "ptr_map"    -> Fld("v", Ptr(MapOf(K("string"), LeafT(l))), NoTag)
      [] w = "map_int"    -> Fld("v", MapOf(K("int64"), LeafT(l)), NoTag)
      [] w = "map_list"   -> Fld("v", MapOf(K("string"), Slice(LeafT(l))), NoTag)
      [] w = "struct"     -> Fld("v", X1(l), Tag("struct"))
      [] w = "ptr_struct" -> Fld("v", Ptr(X1(l)), Tag("struct"))
      [] w = "struct_ptr" -> Fld("v", StructOf(<<Fld("x", Ptr(LeafT(l)), Tag(l.tag))>>), Tag("struct"))
      [] w = "struct_list" -> Fld("v", StructOf(<<Fld("x", Slice(LeafT(l)), [NoTag EXCEPT !.elem = l.tag])>>),
                                  Tag("struct"))
      [] w = "struct2"    -> Fld("v", StructOf(<<Fld("in", Ptr(X1(l)), Tag("struct")),
                                                 Fld("n", K("int64"), NoTag)>>), Tag("struct"))

AllWraps == {"bare", "ptr", "nullable", "list", "list_ptr", "ptr_list", "list_list",
             "map", "map_ptr", "ptr_map", "map_int", "map_list",
             "struct", "ptr_struct", "struct_ptr", "struct_list", "struct2"}

\* []uint8 is []byte: a uint8 leaf directly under a slice is the binary leaf, not a list
SliceOfLeaf == {"list", "ptr_list", "list_list", "map_list", "struct_list"}
Shapes == {s \in [leaf : Leaves, wrap : Wraps \cap AllWraps] :
              /\ (s.wrap \in UntaggedOnly) => ~Tagged(s.leaf)
              /\ (s.wrap \in SliceOfLeaf) => s.leaf.go # "uint8"}
OddShapes == [leaf : OddLeaves, wrap : {"bare"}]

--------------------------------------------------------------------------
(* (b) values.  The scaled time line.                                       *)
US  == 3            \* ticks per microsecond
DAY == 12           \* ticks per day (4 microseconds)
DUR == 26           \* time.Duration holds [-DUR, DUR-1] ticks (the +-292 years); like
                    \* 2^63 ns, neither end is a whole number of microseconds
Ticks == -45 .. 44  \* instants; every one fits the microsecond / day wire range

TruncDiv(a, b) == IF a >= 0 THEN a \div b ELSE -((-a) \div b)   \* Go's "/"
Sat(x) == IF x < -DUR THEN -DUR ELSE IF x > DUR - 1 THEN DUR - 1 ELSE x   \* Time.Sub
Wrap(x) == ((x + DUR) % (2 * DUR)) - DUR                        \* int64 overflow

\* class signature of an instant: range / sign / day part / sub-microsecond part.
\* The range classes are the regions in which the pinned arithmetic behaves
\* uniformly; the harness maps them to real instants:
\*   near            offset from the epoch fits a time.Duration (1677-09-21 .. 2262-04-11)
\*   edge_past       in that range, but the microsecond it floors to is not (the 808 ns
\*                   above -2^63 ns): Duration(us)*Microsecond already wraps
\*   edge_future     past +2^63-1 ns but its microsecond floor still fits (192 ns)
\*   sameday_future  past the range, still on the UTC day the range ends on: a
\*                   saturated Time.Sub lands on the right day by accident
\*   far_past / far_future   everything else the wire types hold (year 1, 2500, the
\*                   minimum and maximum timestamp[us] and date32 values, ...)
TCls(n) ==
    (IF n < -DUR THEN "far_past"
     ELSE IF n >= DUR THEN
        (IF (n \div US) * US < DUR THEN "edge_future"        \* beyond Duration, its microsecond floor is not
         ELSE IF n \div DAY = (DUR - 1) \div DAY THEN "sameday_future"  \* ... still the day Duration ends on
         ELSE "far_future")
     ELSE IF (n \div US) * US < -DUR THEN "edge_past"        \* in Duration range, its microsecond floor is not
     ELSE "near") \o "/" \o
    (IF n < 0 THEN "pre" ELSE IF n = 0 THEN "epoch" ELSE "post") \o "/" \o
    (IF n % DAY = 0 THEN "midnight" ELSE "partial") \o "/" \o
    (IF n % US = 0 THEN "whole" ELSE "subus")

\* durations live in [-DUR, DUR-1]
DCls(n) ==
    (IF n = -DUR THEN "lo" ELSE IF n = DUR - 1 THEN "hi"
     ELSE IF n < 0 THEN "neg" ELSE IF n = 0 THEN "zero" ELSE "pos") \o "/" \o
    (IF n % US = 0 THEN "whole" ELSE "subus")

\* decimals: decimal128(P,S) scaled to P = 2 digits, S = 1 digit.  A literal is
\* m / 10^k; k = 2 has one digit more than the scale keeps.
DecVals == [k : {0}, m : -9 .. 9] \cup [k : {1}, m : -99 .. 99]
           \cup [k : {2}, m : (-30 .. 30) \cup (985 .. 994) \cup (-994 .. -985)]
Pow10(k) == IF k = 0 THEN 1 ELSE IF k = 1 THEN 10 ELSE 100
Abs(x) == IF x < 0 THEN -x ELSE x
\* decimal128.FromString at scale 1: round half away from zero
DecWire(d) ==
    IF d.k = 0 THEN d.m * 10 ELSE IF d.k = 1 THEN d.m
    ELSE LET q == (Abs(d.m) + 5) \div 10 IN IF d.m < 0 THEN -q ELSE q
NCls(d) ==
    (IF d.m < 0 THEN "neg" ELSE IF d.m = 0 THEN "zero" ELSE "pos") \o "/" \o
    (IF d.k = 0 THEN "int" ELSE IF d.k = 1 THEN "exact" ELSE
        IF d.m % 10 = 0 THEN "exact" ELSE "more") \o "/" \o
    (IF Abs(DecWire(d)) = 99 THEN "extreme" ELSE "inner")

\* value classes of the non-arithmetic leaves (the harness draws members)
TextClasses  == {"empty", "ascii", "bmp", "astral", "nul", "long"}
IntClasses   == {"lo", "m1", "zero", "one", "hi", "mid"}
UintClasses  == {"zero", "one", "hi", "mid"}
FloatClasses == {"zero", "negzero", "one", "frac", "big", "tiny", "inf", "ninf", "nan"}
BytesClasses == {"nilbytes", "empty", "one", "nulbytes", "long"}
FixedClasses == {"zeros", "ones", "mixed"}

Family(wire) ==
    CASE wire \in {"utf8", "large_utf8", "dictionary<int16,utf8>"} -> "text"
      [] wire \in {"int8", "int16", "int32", "int64"} -> "int"
      [] wire \in {"uint8", "uint16", "uint32", "uint64"} -> "uint"
      [] wire \in {"float32", "float64"} -> "float"
      [] wire = "bool" -> "bool"
      [] wire \in {"binary", "large_binary"} -> "bytes"
      [] wire = "fixed_size_binary[4]" -> "fixed"
      [] wire = "date32" -> "date"
      [] wire \in {"timestamp[us]", "timestamp[us,UTC]"} -> "timestamp"
      [] wire = "time64[us]" -> "time"
      [] wire = "duration[us]" -> "duration"
      [] wire = "decimal128(20,4)" -> "decimal"
      [] OTHER -> "none"

Temporal == {"date", "timestamp", "time"}

\* the normal form the property allows, by name (the harness implements the
\* comparison on concrete values; the arithmetic families are checked here too)
NFName(fam) ==
    CASE fam = "timestamp" -> "floor_us"
      [] fam = "date" -> "utc_day"
      [] fam = "time" -> "time_of_day"
      [] fam = "decimal" -> "dec4"
      [] fam = "bytes" -> "nil_is_empty"
      [] OTHER -> "same"

Rep(S, Cls(_), c) == CHOOSE n \in S : Cls(n) = c
ClsSet(S, Cls(_)) == {Cls(n) : n \in S}

\* a go "int64 with a uint tag" still only holds what both sides can represent;
\* signedness of the Go kind decides whether -1 is drawn
SignedGo(go) == go \in {"int", "int64", "int32", "int16", "int8"}

LeafVals(l) ==
    LET fam == Family(WireOf(LeafT(l), Tag(l.tag))) IN
    CASE fam = "text"  -> {[c |-> c] : c \in TextClasses}
      [] fam = "int"   -> {[c |-> c] : c \in IF SignedGo(l.go) THEN IntClasses ELSE UintClasses}
      [] fam = "uint"  -> {[c |-> c] : c \in UintClasses}
      [] fam = "float" -> {[c |-> c] : c \in FloatClasses}
      [] fam = "bool"  -> {[c |-> "true"], [c |-> "false"]}
      [] fam = "bytes" -> {[c |-> c] : c \in BytesClasses}
      [] fam = "fixed" -> {[c |-> c] : c \in FixedClasses}
      [] fam \in Temporal ->
            IF FullValues THEN {[c |-> TCls(n), n |-> n] : n \in Ticks}
            ELSE {[c |-> c, n |-> Rep(Ticks, TCls, c)] : c \in ClsSet(Ticks, TCls)}
      [] fam = "duration" ->
            IF FullValues THEN {[c |-> DCls(n), n |-> n] : n \in -DUR .. DUR - 1}
            ELSE {[c |-> c, n |-> Rep(-DUR .. DUR - 1, DCls, c)] : c \in ClsSet(-DUR .. DUR - 1, DCls)}
      [] fam = "decimal" ->
            IF FullValues THEN {[c |-> NCls(d), n |-> d] : d \in DecVals}
            ELSE {[c |-> c, n |-> Rep(DecVals, NCls, c)] : c \in ClsSet(DecVals, NCls)}

\* one ordinary member, used inside containers
PlainVal(l) ==
    LET fam == Family(WireOf(LeafT(l), Tag(l.tag))) IN
    CASE fam = "text" -> [c |-> "ascii"]
      [] fam \in {"int", "uint"} -> [c |-> "mid"]
      [] fam = "float" -> [c |-> "frac"]
      [] fam = "bool" -> [c |-> "true"]
      [] fam = "bytes" -> [c |-> "one"]
      [] fam = "fixed" -> [c |-> "mixed"]
      [] fam \in Temporal -> [c |-> TCls(3), n |-> 3]
      [] fam = "duration" -> [c |-> DCls(6), n |-> 6]
      [] fam = "decimal" -> [c |-> NCls([k |-> 1, m |-> 15]), n |-> [k |-> 1, m |-> 15]]

\* value trees
Nil == [c |-> "nil"]                       \* nil pointer
PtrTo(v) == [c |-> "ptr", e |-> v]
NilSlice == [c |-> "nilslice"]
SliceV(es) == [c |-> "slice", es |-> es]
NilMap == [c |-> "nilmap"]
MapV(es) == [c |-> "map", es |-> es]       \* item values; the harness invents distinct keys
StructV(fs) == [c |-> "struct", fs |-> fs]

\* the values enumerated for a shape: every leaf class at every position where a
\* leaf sits, nil / empty / one / two elements for the collections, nil pointers
ValsOf(l, w) ==
    LET LV == LeafVals(l)
        p == PlainVal(l) IN
    CASE w \in {"bare", "nullable"} -> LV
      [] w = "ptr" -> {Nil} \cup {PtrTo(v) : v \in LV}
      [] w = "list" -> {NilSlice, SliceV(<<>>)} \cup {SliceV(<<v>>) : v \in LV}
                          \cup {SliceV(<<p, v>>) : v \in LV}
      [] w = "list_ptr" -> {NilSlice, SliceV(<<Nil>>)} \cup {SliceV(<<PtrTo(v), Nil, PtrTo(p)>>) : v \in LV}
      [] w = "ptr_list" -> {Nil, PtrTo(NilSlice), PtrTo(SliceV(<<>>))} \cup {PtrTo(SliceV(<<v>>)) : v \in LV}
      [] w = "list_list" -> {NilSlice, SliceV(<<NilSlice>>), SliceV(<<SliceV(<<>>), SliceV(<<p>>)>>)}
                          \cup {SliceV(<<SliceV(<<v, p>>)>>) : v \in LV}
      [] w \in {"map", "map_int"} -> {NilMap, MapV(<<>>)} \cup {MapV(<<v>>) : v \in LV}
                          \cup {MapV(<<p, v>>) : v \in LV}
      [] w = "map_ptr" -> {NilMap, MapV(<<Nil>>)} \cup {MapV(<<PtrTo(v), Nil>>) : v \in LV}
      [] w = "ptr_map" -> {Nil, PtrTo(NilMap), PtrTo(MapV(<<>>))} \cup {PtrTo(MapV(<<v>>)) : v \in LV}
      [] w = "map_list" -> {NilMap, MapV(<<NilSlice>>), MapV(<<SliceV(<<>>)>>)}
                          \cup {MapV(<<SliceV(<<v>>), SliceV(<<p, p>>)>>) : v \in LV}
      [] w = "struct" -> {StructV(<<v>>) : v \in LV}
      [] w = "ptr_struct" -> {Nil} \cup {PtrTo(StructV(<<v>>)) : v \in LV}
      [] w = "struct_ptr" -> {StructV(<<Nil>>)} \cup {StructV(<<PtrTo(v)>>) : v \in LV}
      [] w = "struct_list" -> {StructV(<<NilSlice>>), StructV(<<SliceV(<<>>)>>)}
                          \cup {StructV(<<SliceV(<<v, p>>)>>) : v \in LV}
      [] w = "struct2" -> {StructV(<<Nil, [c |-> "mid"]>>)}
                          \cup {StructV(<<PtrTo(StructV(<<v>>)), [c |-> "mid"]>>) : v \in LV}

--------------------------------------------------------------------------
(* Leaf codecs, as the code computes them.                                  *)
\* buildArray / appendToBuilder on a leaf: the wire cell
LeafEnc(fam, v) ==
    CASE fam = "timestamp" -> [w |-> "val", n |-> v.n \div US]     \* t.UTC().UnixMicro(): floor
      [] fam = "date" ->                                            \* daysSinceEpoch
            [w |-> "val", n |-> IF Variant = "pinned"
                                THEN TruncDiv(Sat(v.n - 0), DAY)    \* Sub saturates; "/" truncates
                                ELSE v.n \div DAY]                  \* floor of the exact difference
      [] fam = "time" -> [w |-> "val", n |-> (v.n % DAY) \div US]   \* microsSinceMidnight
      [] fam = "duration" -> [w |-> "val", n |-> TruncDiv(v.n, US)] \* d.Microseconds()
      [] fam = "decimal" -> [w |-> "val", n |-> DecWire(v.n)]
      [] fam = "bytes" -> [w |-> "val", c |-> IF v.c = "nilbytes" THEN "empty" ELSE v.c]
      [] OTHER -> [w |-> "val", c |-> v.c]

\* setFieldFromArrow on a leaf cell: the Go value
LeafDec(fam, cell) ==
    CASE fam = "timestamp" ->                                       \* timestampToTime
            LET n == IF Variant = "pinned" THEN Wrap(cell.n * US)   \* Duration(v)*Microsecond
                     ELSE cell.n * US IN [c |-> TCls(n), n |-> n]
      [] fam = "date" -> [c |-> TCls(cell.n * DAY), n |-> cell.n * DAY]   \* AddDate(0,0,days)
      [] fam = "time" -> [c |-> TCls(cell.n * US), n |-> cell.n * US]     \* epoch + us
      [] fam = "duration" -> [c |-> DCls(cell.n * US), n |-> cell.n * US]
      [] fam = "decimal" -> LET d == [k |-> 1, m |-> cell.n] IN [c |-> NCls(d), n |-> d]
      [] OTHER -> [c |-> cell.c]

\* the zero value a null leaves behind in a non-pointer slot
ZeroLeaf == [c |-> "ZERO"]

RECURSIVE Enc(_, _, _), Dec(_, _, _), NF(_, _, _), Panics(_, _, _)

\* buildArray / appendToBuilder
Enc(t, tag, v) ==
    IF v.c = "nil" THEN [w |-> "null"]                      \* nil pointer -> AppendNull
    ELSE IF t.k = "ptr" THEN Enc(t.e, tag, v.e)             \* rv.Elem()
    ELSE LET wire == WireOf(t, tag) IN
    IF t.k = "struct" THEN
        [w |-> "struct",
         fs |-> [i \in 1 .. Len(t.fields) |-> Enc(t.fields[i].t, t.fields[i].tag, v.fs[i])]]
    ELSE IF t.k = "slice" /\ Family(wire) = "none" THEN      \* a list; nil slice has Len 0
        [w |-> "list",
         es |-> IF v.c = "nilslice" THEN <<>>
                ELSE [i \in 1 .. Len(v.es) |-> Enc(t.e, Tag(tag.elem), v.es[i])]]
    ELSE IF t.k = "map" THEN
        [w |-> "map",
         es |-> IF v.c = "nilmap" THEN <<>>
                ELSE [i \in 1 .. Len(v.es) |-> Enc(t.e, NoTag, v.es[i])]]
    ELSE LeafEnc(Family(wire), v)

\* does decoding cell w into a slot of type t panic?  (pinned: setMapField strips the
\* pointer a second time and calls MakeMapWithSize on the map's value type)
Panics(t, tag, w) ==
    IF w.w = "null" THEN FALSE
    ELSE LET u == IF t.k = "ptr" THEN t.e ELSE t IN
    IF u.k = "map" THEN
        \/ (Variant = "pinned" /\ t.k = "ptr" /\ u.e.k # "map")
        \/ \E i \in 1 .. Len(w.es) : Panics(u.e, NoTag, w.es[i])
    ELSE IF u.k = "struct" THEN
        \E i \in 1 .. Len(u.fields) : Panics(u.fields[i].t, u.fields[i].tag, w.fs[i])
    ELSE IF u.k = "slice" /\ w.w = "list" THEN
        \E i \in 1 .. Len(w.es) : Panics(u.e, Tag(tag.elem), w.es[i])
    ELSE FALSE

\* setFieldFromArrow and friends.  A null cell never reaches setFieldFromArrow from
\* deserializeParams, setListField or setStructField (they leave the slot zero);
\* setMapField (pinned) does not look and decodes the placeholder under the null.
ZeroOf(t) == IF t.k = "ptr" THEN Nil ELSE ZeroLeaf

Dec(t, tag, w) ==
    IF w.w = "null" THEN ZeroOf(t)
    ELSE LET isPtr == t.k = "ptr"
             u == IF isPtr THEN t.e ELSE t
             inner ==
                IF u.k = "struct" THEN
                    StructV([i \in 1 .. Len(u.fields) |-> Dec(u.fields[i].t, u.fields[i].tag, w.fs[i])])
                ELSE IF w.w = "list" THEN
                    SliceV([i \in 1 .. Len(w.es) |-> Dec(u.e, Tag(tag.elem), w.es[i])])   \* MakeSlice
                ELSE IF w.w = "map" THEN
                    MapV([i \in 1 .. Len(w.es) |->
                            IF w.es[i].w = "null" /\ Variant = "pinned"
                            THEN (IF u.e.k = "ptr" THEN PtrTo(ZeroLeaf) ELSE ZeroLeaf)
                            ELSE Dec(u.e, NoTag, w.es[i])])
                ELSE LeafDec(Family(WireOf(u, tag)), w)
         IN IF isPtr THEN PtrTo(inner) ELSE inner

--------------------------------------------------------------------------
(* C08, declaratively: the normal form of a value.                          *)
\* the unique multiple of q at or below n
FloorTo(n, q) == CHOOSE r \in -200 .. 200 : r % q = 0 /\ r <= n /\ n < r + q

LeafNF(fam, v) ==
    CASE fam = "timestamp" -> LET n == FloorTo(v.n, US) IN [c |-> TCls(n), n |-> n]   \* microsecond instant
      [] fam = "date" -> LET n == FloorTo(v.n, DAY) IN [c |-> TCls(n), n |-> n]        \* UTC calendar day
      [] fam = "time" ->                                                               \* time of day
            LET n == CHOOSE r \in 0 .. DAY - 1 :
                        r % US = 0 /\ \E d \in -10 .. 10 : d * DAY + r <= v.n /\ v.n < d * DAY + r + US
            IN [c |-> TCls(n), n |-> n]
      [] fam = "bytes" -> [c |-> IF v.c = "nilbytes" THEN "empty" ELSE v.c]                 \* nil == empty
      [] OTHER -> v

\* "four decimal places": the decoded number is within one unit of the last kept
\* place of the literal, and equal to it when the literal has no further places
DecClose(lit, dec) ==
    LET a == lit.m * Pow10(2 - lit.k)        \* both in hundredths
        b == dec.m * Pow10(2 - dec.k) IN
    /\ Abs(a - b) < 10
    /\ (lit.k <= 1 \/ lit.m % 10 = 0) => a = b

NF(t, tag, v) ==
    IF v.c = "nil" THEN Nil
    ELSE IF t.k = "ptr" THEN PtrTo(NF(t.e, tag, v.e))
    ELSE IF t.k = "struct" THEN
        StructV([i \in 1 .. Len(t.fields) |-> NF(t.fields[i].t, t.fields[i].tag, v.fs[i])])
    ELSE IF t.k = "slice" /\ Family(WireOf(t, tag)) = "none" THEN
        IF v.c = "nilslice" THEN SliceV(<<>>)                       \* nil == empty
        ELSE SliceV([i \in 1 .. Len(v.es) |-> NF(t.e, Tag(tag.elem), v.es[i])])
    ELSE IF t.k = "map" THEN
        IF v.c = "nilmap" THEN MapV(<<>>)
        ELSE MapV([i \in 1 .. Len(v.es) |-> NF(t.e, NoTag, v.es[i])])
    ELSE LeafNF(Family(WireOf(t, tag)), v)

\* equality up to the normal form; decimals compare by DecClose
RECURSIVE SameUpTo(_, _, _, _)
SameUpTo(t, tag, nf, got) ==
    IF nf.c \in {"nil", "ZERO"} \/ got.c \in {"nil", "ZERO"} THEN nf = got
    ELSE IF t.k = "ptr" THEN got.c = "ptr" /\ nf.c = "ptr" /\ SameUpTo(t.e, tag, nf.e, got.e)
    ELSE IF t.k = "struct" THEN
        /\ got.c = "struct"
        /\ \A i \in 1 .. Len(t.fields) : SameUpTo(t.fields[i].t, t.fields[i].tag, nf.fs[i], got.fs[i])
    ELSE IF t.k = "slice" /\ Family(WireOf(t, tag)) = "none" THEN
        /\ got.c = "slice" /\ Len(got.es) = Len(nf.es)
        /\ \A i \in 1 .. Len(nf.es) : SameUpTo(t.e, Tag(tag.elem), nf.es[i], got.es[i])
    ELSE IF t.k = "map" THEN
        /\ got.c = "map" /\ Len(got.es) = Len(nf.es)
        /\ \A i \in 1 .. Len(nf.es) : SameUpTo(t.e, NoTag, nf.es[i], got.es[i])
    ELSE IF Family(WireOf(t, tag)) = "decimal" THEN DecClose(nf.n, got.n)
    ELSE nf = got

\* values the property quantifies over: representable in the wire type.  A duration
\* with a sub-microsecond part is not (the wire unit is the microsecond and the
\* property names no precision for durations).
RECURSIVE Representable(_, _, _)
Representable(t, tag, v) ==
    IF v.c \in {"nil", "nilslice", "nilmap"} THEN TRUE
    ELSE IF t.k = "ptr" THEN Representable(t.e, tag, v.e)
    ELSE IF t.k = "struct" THEN
        \A i \in 1 .. Len(t.fields) : Representable(t.fields[i].t, t.fields[i].tag, v.fs[i])
    ELSE IF t.k = "slice" /\ Family(WireOf(t, tag)) = "none" THEN
        \A i \in 1 .. Len(v.es) : Representable(t.e, Tag(tag.elem), v.es[i])
    ELSE IF t.k = "map" THEN \A i \in 1 .. Len(v.es) : Representable(t.e, NoTag, v.es[i])
    ELSE IF Family(WireOf(t, tag)) = "duration" THEN v.n % US = 0
    ELSE TRUE

\* class signature of a value tree: the tree without the abstract numbers
RECURSIVE ClsOf(_)
ClsOf(v) ==
    IF v.c = "ptr" THEN "&" \o ClsOf(v.e)
    ELSE IF v.c \in {"slice", "map"} THEN
        (IF v.c = "slice" THEN "[" ELSE "{") \o
        (IF Len(v.es) = 0 THEN "" ELSE
         IF Len(v.es) = 1 THEN ClsOf(v.es[1]) ELSE
         IF Len(v.es) = 2 THEN ClsOf(v.es[1]) \o ";" \o ClsOf(v.es[2])
         ELSE ClsOf(v.es[1]) \o ";" \o ClsOf(v.es[2]) \o ";" \o ClsOf(v.es[3]))
        \o (IF v.c = "slice" THEN "]" ELSE "}")
    ELSE IF v.c = "struct" THEN
        "(" \o (IF Len(v.fs) = 1 THEN ClsOf(v.fs[1]) ELSE ClsOf(v.fs[1]) \o ";" \o ClsOf(v.fs[2])) \o ")"
    ELSE v.c

--------------------------------------------------------------------------
(* (c) parameter binding.                                                   *)
\* palette of parameter fields: id -> Go type, tag
KindField(id) ==
    CASE id = "s"   -> [t |-> K("string"),  tag |-> NoTag]
      [] id = "i"   -> [t |-> K("int64"),   tag |-> NoTag]
      [] id = "f"   -> [t |-> K("float64"), tag |-> NoTag]
      [] id = "b"   -> [t |-> K("bool"),    tag |-> NoTag]
      [] id = "y"   -> [t |-> Bytes,        tag |-> NoTag]
      [] id = "e"   -> [t |-> K("string"),  tag |-> Tag("enum")]
      [] id = "i32" -> [t |-> K("int32"),   tag |-> NoTag]
      [] id = "l"   -> [t |-> Slice(K("int64")), tag |-> NoTag]
      [] id = "ts"  -> [t |-> K("time"),    tag |-> Tag("timestamp")]
      [] id = "ps"  -> [t |-> Ptr(K("string")),  tag |-> NoTag]
      [] id = "pi"  -> [t |-> Ptr(K("int64")),   tag |-> NoTag]
      [] id = "pf"  -> [t |-> Ptr(K("float64")), tag |-> NoTag]
      [] id = "pb"  -> [t |-> Ptr(K("bool")),    tag |-> NoTag]
      [] id = "ns"  -> [t |-> K("string"),  tag |-> [NoTag EXCEPT !.nullable = TRUE]]
      \* default= on a non-pointer field (column not nullable; a null may still arrive)
      [] id = "sd"  -> [t |-> K("string"),  tag |-> [NoTag EXCEPT !.def = "str"]]
      [] id = "id"  -> [t |-> K("int64"),   tag |-> [NoTag EXCEPT !.def = "int"]]
      [] id = "fd"  -> [t |-> K("float64"), tag |-> [NoTag EXCEPT !.def = "float"]]
      [] id = "bd"  -> [t |-> K("bool"),    tag |-> [NoTag EXCEPT !.def = "bool"]]
      \* default= with the nullable option
      [] id = "nsd" -> [t |-> K("string"),  tag |-> [NoTag EXCEPT !.def = "str", !.nullable = TRUE]]
      [] id = "nid" -> [t |-> K("int64"),   tag |-> [NoTag EXCEPT !.def = "int", !.nullable = TRUE]]
      [] id = "nfd" -> [t |-> K("float64"), tag |-> [NoTag EXCEPT !.def = "float", !.nullable = TRUE]]
      [] id = "nbd" -> [t |-> K("bool"),    tag |-> [NoTag EXCEPT !.def = "bool", !.nullable = TRUE]]
      \* default= on a pointer field
      [] id = "psd" -> [t |-> Ptr(K("string")),  tag |-> [NoTag EXCEPT !.def = "str"]]
      [] id = "pid" -> [t |-> Ptr(K("int64")),   tag |-> [NoTag EXCEPT !.def = "int"]]
      [] id = "pfd" -> [t |-> Ptr(K("float64")), tag |-> [NoTag EXCEPT !.def = "float"]]
      [] id = "pbd" -> [t |-> Ptr(K("bool")),    tag |-> [NoTag EXCEPT !.def = "bool"]]
      \* a kind setFieldFromString does not parse (outside the property's family)
      [] id = "i32d" -> [t |-> K("int32"), tag |-> [NoTag EXCEPT !.def = "int"]]
      \* fields whose wire name is "request" (ReqKinds): the name the decoder looks for
      \* in the wrapped-request shape, legitimately declared next to other fields
      [] id = "rq"  -> [t |-> Bytes,        tag |-> NoTag]
      [] id = "rqn" -> [t |-> Bytes,        tag |-> [NoTag EXCEPT !.nullable = TRUE]]
      [] id = "rql" -> [t |-> Bytes,        tag |-> Tag("large_binary")]
      [] id = "rqs" -> [t |-> K("string"),  tag |-> NoTag]

AllKinds == {"s", "i", "f", "b", "y", "e", "i32", "l", "ts", "ps", "pi", "pf", "pb", "ns",
             "sd", "id", "fd", "bd", "nsd", "nid", "nfd", "nbd", "psd", "pid", "pfd", "pbd"}

ReqKinds == {"rq", "rqn", "rql", "rqs"}
FieldName(i) == IF i = 1 THEN "p1" ELSE IF i = 2 THEN "p2" ELSE "p3"
\* wire name of the i-th field of a declared struct
NameOf(ks, i) == IF ks[i] \in ReqKinds THEN "request" ELSE FieldName(i)

\* declared struct = sequence of kind ids; its fields and derived schema
DeclFields(ks) == [i \in 1 .. Len(ks) |-> Fld(NameOf(ks, i), KindField(ks[i]).t, KindField(ks[i]).tag)]
Col(name, a) == [name |-> name, type |-> a.type, nullable |-> a.nullable]
DeclSchema(ks) ==
    [i \in 1 .. Len(ks) |-> Col(NameOf(ks, i), ArrowOf(KindField(ks[i]).t, KindField(ks[i]).tag, 0))]

\* the shape deserializeParams reserves: the ONLY column, named "request", binary
IsWrappedShape(schema) ==
    Len(schema) = 1 /\ schema[1].name = "request" /\ schema[1].type = "binary"

\* wire names are unique within a struct; a lone binary field named "request" is the
\* reserved shape and outside the property's family of structs
WellNamed(ks) ==
    /\ Cardinality({i \in 1 .. Len(ks) : ks[i] \in ReqKinds}) <= 1
    /\ ~IsWrappedShape(DeclSchema(ks))

\* (explicit tuples: TLC cannot spill lazily represented function values to disk)
Structs == {ks \in {<<a>> : a \in Kinds}
           \cup (IF MaxFields >= 2 THEN {<<a, b>> : a \in Kinds, b \in Kinds} ELSE {})
           \cup (IF MaxFields >= 3 THEN {<<a, b, c>> : a \in Kinds, b \in Kinds, c \in Kinds} ELSE {})
           : WellNamed(ks)}

\* structs that exist as static Go types in the harness (full dispatch needs a
\* compile-time type for the registration generics)
StaticStructs ==
    { <<"s">>, <<"i", "s">>, <<"ps", "i", "b">>, <<"sd", "id">>, <<"nsd", "nid", "nbd">>,
      <<"psd">>, <<"pid", "pfd", "pbd">>, <<"nfd", "f">>, <<"y", "e", "i32">>,
      <<"fd", "bd", "s">>, <<"l", "ts">>, <<"pi", "psd">>,
      <<"rq", "i">>, <<"s", "rqn">>, <<"rqs">>, <<"id", "rq", "ps">>, <<"rql", "s">> }

\* --- batches: a relation to the declared schema generates the batch schema ------
RemoveAt(s, i) == SubSeq(s, 1, i - 1) \o SubSeq(s, i + 1, Len(s))
Permute(s, p) == [i \in 1 .. Len(s) |-> s[p[i]]]
\* the non-identity permutations of 1..n, by name
Perms(n) == IF n = 2 THEN {"21"} ELSE IF n = 3 THEN {"132", "213", "231", "312", "321"} ELSE {}
PermSeq(name) ==
    CASE name = "21" -> <<2, 1>> [] name = "132" -> <<1, 3, 2>> [] name = "213" -> <<2, 1, 3>>
      [] name = "231" -> <<2, 3, 1>> [] name = "312" -> <<3, 1, 2>> [] name = "321" -> <<3, 2, 1>>

\* another type for a column: "near" = one a lenient binder would cast, "far" = alien
Retype(ty, how) ==
    IF how = "near" THEN
        CASE ty = "int64" -> "int32" [] ty = "int32" -> "int64" [] ty = "float64" -> "float32"
          [] ty = "utf8" -> "large_utf8" [] ty = "binary" -> "large_binary"
          [] ty = "bool" -> "uint8" [] ty = "dictionary<int16,utf8>" -> "utf8"
          [] ty = "list<int64>" -> "list<int32>" [] ty = "timestamp[us]" -> "timestamp[us,UTC]"
          [] OTHER -> "int64"
    ELSE IF ty = "utf8" THEN "int64" ELSE "utf8"

ExtraCol(name) == [name |-> name, type |-> "int64", nullable |-> FALSE]
ReqCol(nullable) == [name |-> "request", type |-> "binary", nullable |-> nullable]

\* perturbations: [rel, pos, how]
Perturbations(n) ==
    {[rel |-> "equal", pos |-> 0, how |-> "-"]}
    \cup {[rel |-> "reordered", pos |-> 0, how |-> p] : p \in Perms(n)}
    \cup {[rel |-> "narrowed", pos |-> i, how |-> "-"] : i \in 1 .. n}
    \cup {[rel |-> "widened", pos |-> 0, how |-> h] : h \in {"front", "end", "dup"}}
    \cup {[rel |-> "retyped", pos |-> i, how |-> h] : i \in 1 .. n, h \in {"near", "far"}}
    \cup {[rel |-> "nullflip", pos |-> i, how |-> "-"] : i \in 1 .. n}
    \cup {[rel |-> "renamed", pos |-> i, how |-> h] : i \in 1 .. n, h \in {"suffix", "case"}}
    \* a binary column named "request" next to / instead of the declared columns
    \cup (IF ReqPayloads = {} THEN {} ELSE
            {[rel |-> "widened", pos |-> 0, how |-> h] : h \in {"req_front", "req_end", "req_end_n"}}
            \cup {[rel |-> "replaced", pos |-> i, how |-> "request"] : i \in 1 .. n}
            \cup {[rel |-> "renamed", pos |-> i, how |-> "to_request"] : i \in 1 .. n})

BatchSchema(D, pt) ==
    CASE pt.rel = "equal" -> D
      [] pt.rel = "reordered" -> Permute(D, PermSeq(pt.how))
      [] pt.rel = "narrowed" -> RemoveAt(D, pt.pos)
      [] pt.rel = "widened" ->
           (CASE pt.how = "front" -> <<ExtraCol("extra")>> \o D
              [] pt.how = "end" -> D \o <<ExtraCol("extra")>>
              [] pt.how = "dup" -> D \o <<ExtraCol(D[1].name)>>
              [] pt.how = "req_front" -> <<ReqCol(FALSE)>> \o D
              [] pt.how = "req_end" -> D \o <<ReqCol(FALSE)>>
              [] pt.how = "req_end_n" -> D \o <<ReqCol(TRUE)>>)
      [] pt.rel = "replaced" -> [D EXCEPT ![pt.pos] = ReqCol(FALSE)]
      [] pt.rel = "retyped" -> [D EXCEPT ![pt.pos].type = Retype(@, pt.how)]
      [] pt.rel = "nullflip" -> [D EXCEPT ![pt.pos].nullable = ~@]
      [] pt.rel = "renamed" ->
            [D EXCEPT ![pt.pos].name = IF pt.how = "suffix" THEN @ \o "_x"
                                       ELSE IF pt.how = "to_request" THEN "request"
                                       ELSE IF @ = "request" THEN "Request"
                                       ELSE IF @ = "p1" THEN "P1" ELSE IF @ = "p2" THEN "P2" ELSE "P3"]

\* is the perturbation a perturbation (the generated schema is not the declared one)?
Applies(D, pt) ==
    /\ (pt.rel = "replaced") => D[pt.pos] # ReqCol(FALSE)
    /\ (pt.how = "to_request") => D[pt.pos].name # "request"

\* arrow.Schema.Equal: same number of fields and, position by position, the same
\* name, type and nullability (schema metadata is not compared)
SchemaEqual(A, B) ==
    /\ Len(A) = Len(B)
    /\ \A i \in 1 .. Len(A) :
          A[i].name = B[i].name /\ A[i].type = B[i].type /\ A[i].nullable = B[i].nullable

\* setFieldFromString: the kinds it parses
DefaultParses(t) ==
    LET u == IF t.k = "ptr" THEN t.e ELSE t IN u.k \in {"string", "int64", "int", "float64", "bool"}

\* outcome for one declared field given its cell ("val" | "null")
FieldOutcome(f, cell) ==
    IF cell = "val" THEN "sent"                                   \* setFieldFromArrow
    ELSE IF f.tag.def # "none" THEN
        IF ~DefaultParses(f.t) THEN "ERROR"
        ELSE IF f.t.k = "ptr" /\ Variant = "pinned" THEN "PANIC"   \* SetString on ptr Value
        ELSE "default"
    ELSE IF f.t.k = "ptr" THEN "nil" ELSE "zero"                   \* left at the zero value

\* --- what a binary column named "request" carries --------------------------------
\*   garbage      non-empty bytes that do not start an IPC stream (junk behind a small
\*                length prefix, a few text bytes, an IPC stream cut inside its schema)
\*   empty        a zero-length value           null   a null cell
\*   ipc_equal    an IPC stream of one batch equal to the declared schema, all values
\*                (values differ from the outer batch's; its own "request" column, when
\*                the declaration has one, is empty: the stream would bind on its own)
\*   ipc_equal_g  the same with garbage in the embedded batch's own "request" column
\*   ipc_retyped  an IPC stream of one batch whose first column has an alien type
\*   ipc_nobatch  an IPC stream of the declared schema without any batch
\*   ipc_rel      (BindWrapped only) an IPC stream of the batch a relation generates
AllReqPayloads == {"garbage", "empty", "null", "ipc_equal", "ipc_equal_g", "ipc_retyped", "ipc_nobatch"}
ASSUME ReqPayloads \subseteq AllReqPayloads

\* the column that carries a payload: named "request", (large) binary
IsPayloadCol(c) == c.name = "request" /\ c.type \in {"binary", "large_binary"}
HasPayloadCol(schema) == \E i \in 1 .. Len(schema) : IsPayloadCol(schema[i])

NoPayload == [c |-> "-", inner |-> <<>>, ireq |-> "-"]
\* payload record: class, schema of the embedded batch, class of the embedded batch's
\* own payload column
PayloadOver(c, inner, g) ==
    [c |-> c, inner |-> inner,
     ireq |-> IF HasPayloadCol(inner) THEN (IF g THEN "garbage" ELSE "empty") ELSE "-"]
Payload(D, c) ==
    CASE c \in {"ipc_equal", "ipc_nobatch"} -> PayloadOver(c, D, FALSE)
      [] c = "ipc_equal_g" -> PayloadOver(c, D, TRUE)
      [] c = "ipc_retyped" -> PayloadOver(c, [D EXCEPT ![1].type = Retype(@, "far")], FALSE)
      [] OTHER -> [c |-> c, inner |-> <<>>, ireq |-> "-"]

\* payload classes offered for a batch: none without a payload column; a declared
\* "request" field's null comes from the cell pattern, not from the payload
ReqChoices(ks, pt, schema, cells) ==
    IF ~HasPayloadCol(schema) THEN {"-"}
    ELSE IF pt.rel = "equal"
         THEN (IF \E i \in 1 .. Len(ks) : IsPayloadCol(schema[i]) /\ cells[i] = "null" THEN {"-"}
               ELSE ReqPayloads \ {"null"})
    ELSE {c \in ReqPayloads : c = "ipc_equal_g" => HasPayloadCol(DeclSchema(ks))}

AllVal(n) == [i \in 1 .. n |-> "val"]

\* deserializeParams behind the unwrap: the Schema.Equal gate and the field loop
BindPlain(ks, schema, cells) ==
    LET D == DeclSchema(ks)
        F == DeclFields(ks) IN
    IF ~SchemaEqual(schema, D)
    THEN [bound |-> FALSE, fields |-> <<>>, outcome |-> "schema_mismatch"]
    ELSE LET outs == [i \in 1 .. Len(ks) |-> FieldOutcome(F[i], cells[i])] IN
         IF \E i \in 1 .. Len(ks) : outs[i] = "PANIC"
         THEN [bound |-> FALSE, fields |-> <<>>, outcome |-> "panic"]
         ELSE IF \E i \in 1 .. Len(ks) : outs[i] = "ERROR"
         THEN [bound |-> FALSE, fields |-> <<>>, outcome |-> "default_error"]
         ELSE [bound |-> TRUE, fields |-> outs, outcome |-> "bound"]

\* deserializeParams: "if batch.NumCols() == 1 && ColumnName(0) == "request" && type
\* BINARY", a non-null, non-empty value is opened as an IPC stream; its first batch,
\* when there is one, is deserialized INSTEAD (recursively); a stream without a
\* batch, an empty or a null value fall through to the gate with the outer batch.
\* Any other batch -- a "request" column among others included -- goes to the gate.
RECURSIVE BindModel(_, _, _, _)
BindModel(ks, schema, cells, pl) ==
    IF IsWrappedShape(schema) /\ pl.c \notin {"null", "empty", "-"}
    THEN IF pl.c = "garbage"
         THEN [bound |-> FALSE, fields |-> <<>>, outcome |-> "unwrap_error"]   \* ipc.NewReader fails
         ELSE IF pl.c = "ipc_nobatch" THEN BindPlain(ks, schema, cells)        \* Next() = false
         ELSE BindModel(ks, pl.inner, AllVal(Len(pl.inner)),
                        [c |-> pl.ireq, inner |-> <<>>, ireq |-> "-"])
    ELSE BindPlain(ks, schema, cells)

\* cells offered: for an equal batch every null pattern, otherwise all values
CellPatterns(n, rel) ==
    IF rel = "equal" THEN [1 .. n -> {"val", "null"}] ELSE {[i \in 1 .. n |-> "val"]}

--------------------------------------------------------------------------
\* an explicit tuple for a sequence given as a function (TLC cannot spill lazily
\* represented function values in the state queue to disk)
Tup(f) ==
    CASE Len(f) = 0 -> <<>> [] Len(f) = 1 -> <<f[1]>> [] Len(f) = 2 -> <<f[1], f[2]>>
      [] Len(f) = 3 -> <<f[1], f[2], f[3]>> [] Len(f) = 4 -> <<f[1], f[2], f[3], f[4]>>

Record(step, sig) ==
    /\ hist' = Append(hist, step)
    /\ (Mode = "edges") => (IF Witness /\ sig # "" THEN EmitOncePerClass(sig, hist') ELSE EmitTrace(hist'))
    /\ (Mode = "tree" /\ Len(hist') = Depth) => EmitTrace(hist')

\* --- C08 -------------------------------------------------------------------
\* structFieldsOf / goTypeToArrowTypeAt for one field
Derive(s) ==
    /\ phase = "idle" /\ "C08" \in Parts
    /\ LET f == FieldOf(s.leaf, s.wrap)
           a == ArrowOf(f.t, f.tag, 0) IN
       /\ decl' = [part |-> "C08", shape |-> s, field |-> f]
       /\ phase' = "derived"
       /\ Record([a |-> "Derive",
                  args |-> [field |-> f, leaf |-> s.leaf, wrap |-> s.wrap],
                  exp |-> [ok |-> a.ok, type |-> a.type, nullable |-> a.nullable, stable |-> a.ok]], "")

\* serializeVgirpcStruct ; IPC ; deserializeParams on a one-field struct
RoundTrip(v) ==
    /\ phase = "derived" /\ decl.part = "C08" /\ decl.shape.leaf \in Leaves
    /\ LET f == decl.field
           w == Enc(f.t, f.tag, v)
           pan == Panics(f.t, f.tag, w)
           got == Dec(f.t, f.tag, w)
           nf == NF(f.t, f.tag, v)
           fam == Family(WireOf(LeafT(decl.shape.leaf), Tag(decl.shape.leaf.tag)))
           rt == IF pan THEN "panic" ELSE IF SameUpTo(f.t, f.tag, nf, got) THEN "nf" ELSE "differs"
           rep == Representable(f.t, f.tag, v) IN
       /\ phase' = "done" /\ decl' = decl
       /\ Record([a |-> "RoundTrip", cls |-> decl.shape.wrap \o ":" \o fam \o ":" \o ClsOf(v),
                  args |-> [val |-> v, nf |-> NFName(fam), fam |-> fam, representable |-> rep],
                  exp |-> IF rep THEN [ser |-> "ok", rt |-> rt]
                          ELSE [ser |-> "ok", rt_loose |-> "within_unit"]], "")

\* leaves the code derives a schema for (or refuses) but cannot serialize
DeriveOdd(s) ==
    /\ phase = "idle" /\ "C08" \in Parts
    /\ LET f == FieldOf(s.leaf, s.wrap)
           a == ArrowOf(f.t, f.tag, 0) IN
       /\ decl' = [part |-> "C08", shape |-> s, field |-> f]
       /\ phase' = "done"
       /\ Record([a |-> "DeriveOdd",
                  args |-> [field |-> f, leaf |-> s.leaf, wrap |-> s.wrap],
                  exp |-> [odd_ok |-> a.ok, odd_type |-> a.type, odd_ser |-> "error"]], "")

\* --- C07 -------------------------------------------------------------------
Declare(ks) ==
    /\ phase = "idle" /\ "C07" \in Parts
    /\ decl' = [part |-> "C07", kinds |-> ks]
    /\ phase' = "declared"
    /\ Record([a |-> "Declare",
               args |-> [kinds |-> ks, fields |-> Tup(DeclFields(ks)), static |-> ks \in StaticStructs],
               exp |-> [schema |-> Tup(DeclSchema(ks))]], "")

\* class signature of a bind case: path, relation, where, the kind there and, for
\* an equal batch, the focused field's cell together with the null pattern
CellStr(cells) ==
    (IF Len(cells) >= 1 THEN cells[1] ELSE "") \o (IF Len(cells) >= 2 THEN "," \o cells[2] ELSE "")
    \o (IF Len(cells) >= 3 THEN "," \o cells[3] ELSE "")
\* where the declaration has its "request" field, and of which kind
ReqPos(ks) == IF \A i \in 1 .. Len(ks) : ks[i] \notin ReqKinds THEN 0
              ELSE CHOOSE i \in 1 .. Len(ks) : ks[i] \in ReqKinds
\* Three families of classes: (1) no "request" anywhere: path, relation, variant,
\* arity, position, kind there (and the null pattern of an equal batch); (2) the
\* struct declares a "request" field: its kind and position, whether the perturbation
\* hits it, the payload; (3) a payload column only in the batch: as (1) plus the payload.
BindSig(ks, pt, cells, via, focus, c) ==
    LET n == Len(ks)
        r == ReqPos(ks)
        at == IF pt.rel = "equal" THEN focus ELSE IF pt.pos > 0 THEN pt.pos ELSE 1
        head == via \o "|" \o pt.rel \o "|" \o pt.how \o "|" \o ToString(n) \o "|" IN
    IF r = 0
    THEN head \o ToString(at) \o "|" \o ks[at]
         \o (IF pt.rel = "equal" THEN "|" \o CellStr(cells) ELSE "")
         \o (IF c = "-" THEN "" ELSE "|" \o c)
    ELSE head \o ks[r] \o "@" \o ToString(r) \o "|"
         \o (IF pt.pos = 0 THEN "-" ELSE IF pt.pos = r THEN "hit" ELSE "off")
         \o (IF pt.rel = "equal" THEN "|" \o CellStr(cells) ELSE "") \o "|" \o c

\* which kinds of null a batch carries: P = into a pointer field with default=, D = into
\* a non-pointer field with default=, N = pointer without default, Z = non-pointer
\* without default; "-" = no null at all
NullFlags(ks, cells) ==
    LET Has(ptr, def) == \E i \in 1 .. Len(ks) :
            /\ i <= Len(cells) /\ cells[i] = "null"
            /\ (KindField(ks[i]).t.k = "ptr") = ptr
            /\ (KindField(ks[i]).tag.def # "none") = def
        fl == (IF Has(TRUE, TRUE) THEN "P" ELSE "") \o (IF Has(FALSE, TRUE) THEN "D" ELSE "")
              \o (IF Has(TRUE, FALSE) THEN "N" ELSE "") \o (IF Has(FALSE, FALSE) THEN "Z" ELSE "")
    IN IF fl = "" THEN "-" ELSE fl

\* deserializeParams (direct) or a full unary dispatch (pipe / http)
\* A batch in the reserved shape (the only column a binary "request") is the
\* tolerated second form and belongs to BindWrapped, whatever relation generated it.
Bind(pt, cells, via, focus, c) ==
    /\ phase = "declared" /\ decl.part = "C07"
    /\ (pt.rel # "equal") => focus = 1
    /\ via \in Vias /\ (via # "direct" => decl.kinds \in StaticStructs)
    /\ "i32d" \notin {decl.kinds[i] : i \in 1 .. Len(decl.kinds)}
    \* Applies(D, pt), ~IsWrappedShape(batch schema) and c \in ReqChoices(..): see Next
    /\ LET ks == decl.kinds
           schema == BatchSchema(DeclSchema(ks), pt)
           pl == Payload(DeclSchema(ks), c)
           r == BindModel(ks, schema, cells, pl)
           base == [bound |-> r.bound, fields |-> Tup(r.fields), outcome |-> r.outcome]
           disp == [bound |-> r.bound, fields |-> Tup(r.fields), outcome |-> r.outcome,
                    etype |-> IF r.bound THEN "" ELSE IF r.outcome = "panic" THEN "PANIC" ELSE "TypeError",
                    calls |-> IF r.bound THEN 1 ELSE 0] IN
       /\ phase' = "done" /\ decl' = decl
       /\ Record([a |-> "Bind", cls |-> via \o ":" \o pt.rel \o ":" \o NullFlags(ks, cells)
                                       \o (IF c = "-" THEN "" ELSE ":request=" \o c),
                  args |-> [rel |-> pt.rel, pos |-> pt.pos, how |-> pt.how, schema |-> Tup(schema),
                            cells |-> Tup(cells), via |-> via, kinds |-> ks,
                            req |-> pl.c, inner |-> Tup(pl.inner), ireq |-> pl.ireq],
                  exp |-> IF via = "direct" THEN base ELSE disp],
                 BindSig(ks, pt, cells, via, focus, c))

\* the tolerated second shape: one binary column "request" holding an IPC stream
\* whose batch is then bound instead (outside the property's batch family); with
\* any other payload the outer batch goes to the gate, or the stream fails to open
BindWrapped(pt, c) ==
    /\ phase = "declared" /\ decl.part = "C07" /\ "direct" \in Vias
    /\ "i32d" \notin {decl.kinds[i] : i \in 1 .. Len(decl.kinds)}
    /\ pt.rel \in {"equal", "narrowed", "nullflip"}
    /\ c \in {"ipc_rel"} \cup (ReqPayloads \cap {"garbage", "empty", "null", "ipc_nobatch"})
    /\ (c # "ipc_rel") => pt.rel = "equal"
    /\ LET ks == decl.kinds
           inner == BatchSchema(DeclSchema(ks), pt)
           cells == [i \in 1 .. Len(inner) |-> "val"]
           pl == IF c = "ipc_rel" THEN PayloadOver(c, inner, FALSE) ELSE Payload(DeclSchema(ks), c)
           r == BindModel(ks, <<ReqCol(FALSE)>>, <<"val">>, pl) IN
       /\ phase' = "done" /\ decl' = decl
       /\ Record([a |-> "BindWrapped",
                  args |-> [rel |-> pt.rel, pos |-> pt.pos, how |-> pt.how, schema |-> Tup(inner),
                            cells |-> Tup(cells), kinds |-> ks,
                            req |-> pl.c, inner |-> Tup(pl.inner), ireq |-> pl.ireq],
                  exp |-> [w_bound |-> r.bound, w_fields |-> Tup(r.fields)]],
                 "wrapped|" \o pt.rel \o "|" \o ToString(Len(ks)) \o "|" \o c)

\* a null for a default= field of a kind setFieldFromString does not parse
BindOddDefault(cell) ==
    /\ phase = "declared" /\ decl.part = "C07" /\ "direct" \in Vias
    /\ decl.kinds = <<"i32d">>
    /\ LET r == BindModel(decl.kinds, DeclSchema(decl.kinds), <<cell>>, NoPayload) IN
       /\ phase' = "done" /\ decl' = decl
       /\ Record([a |-> "BindOddDefault",
                  args |-> [schema |-> Tup(DeclSchema(decl.kinds)), cells |-> <<cell>>, kinds |-> decl.kinds],
                  exp |-> [odd_bound |-> r.bound, odd_outcome |-> r.outcome]], "")

--------------------------------------------------------------------------
Init ==
    /\ phase = "idle"
    /\ decl = <<>>
    /\ hist = << [a |-> "Init", args |-> [variant |-> Variant], exp |-> [x |-> 0]] >>
    /\ TLCSet(1, {})

Next ==
    \/ \E s \in (IF phase = "idle" /\ "C08" \in Parts THEN Shapes ELSE {}) : Derive(s)
    \/ \E s \in (IF phase = "idle" /\ "C08" \in Parts THEN OddShapes ELSE {}) : DeriveOdd(s)
    \/ \E v \in (IF phase = "derived" THEN ValsOf(decl.shape.leaf, decl.shape.wrap) ELSE {}) : RoundTrip(v)
    \/ \E ks \in (IF phase = "idle" /\ "C07" \in Parts THEN Structs \cup {<<"i32d">>} ELSE {}) : Declare(ks)
    \/ \E pt \in (IF phase = "declared" THEN Perturbations(Len(decl.kinds)) ELSE {}) :
          \* (Bind's enabling conditions, hoisted: TLC evaluates a body per combination)
          \/ /\ Applies(DeclSchema(decl.kinds), pt)
             /\ ~IsWrappedShape(BatchSchema(DeclSchema(decl.kinds), pt))
             /\ \E cells \in CellPatterns(Len(decl.kinds), pt.rel),
                   via \in (IF decl.kinds \in StaticStructs THEN Vias ELSE Vias \cap {"direct"}),
                   focus \in (IF pt.rel = "equal" THEN 1 .. Len(decl.kinds) ELSE {1}) :
                   \E c \in ReqChoices(decl.kinds, pt, BatchSchema(DeclSchema(decl.kinds), pt), cells) :
                        Bind(pt, cells, via, focus, c)
          \/ \E c \in ReqPayloads \cup {"ipc_rel"} : BindWrapped(pt, c)
    \/ \E cell \in (IF phase = "declared" THEN {"val", "null"} ELSE {}) : BindOddDefault(cell)

Spec == Init /\ [][Next]_vars

--------------------------------------------------------------------------
(* The properties.                                                          *)
Last == hist'[Len(hist')]

\* C08: every value representable in the field's wire type comes back as its normal
\* form -- the microsecond instant, the UTC calendar day, the time of day, four
\* decimal places, nil and empty collections alike -- for every supported field
\* type in every container, and serialization accepts it.
ValuesSurvive ==
    [][ (Last.a = "RoundTrip" /\ Last.args.representable) =>
            (Last.exp.ser = "ok" /\ Last.exp.rt = "nf") ]_vars

\* C08: every supported field type derives a schema, the same on every call.
SchemaDerived ==
    [][ (Last.a = "Derive") => (Last.exp.ok /\ Last.exp.stable) ]_vars

\* C07: binding succeeds exactly when the batch schema is the declared schema.
\* Stated on the generating relation, not on SchemaEqual: a perturbed schema must
\* never compare equal and the unperturbed one always must.
BindsIffEqual ==
    [][ (Last.a = "Bind") => (Last.exp.bound <=> Last.args.rel = "equal") ]_vars

\* C07: a refused batch is a TypeError and the handler never runs (dispatch paths).
RefusedIsTypeError ==
    [][ (Last.a = "Bind" /\ Last.args.via # "direct") =>
            IF Last.args.rel = "equal" THEN Last.exp.etype = "" /\ Last.exp.calls = 1
            ELSE Last.exp.etype = "TypeError" /\ Last.exp.calls = 0 ]_vars

\* C07: when it binds, a value cell arrives as sent, a null cell for a field with a
\* declared default arrives as that default, pointer or not.
ValuesAndDefaults ==
    [][ (Last.a = "Bind" /\ Last.args.rel = "equal") =>
          /\ Last.exp.bound
          /\ \A i \in 1 .. Len(Last.args.kinds) :
                LET f == KindField(Last.args.kinds[i]) IN
                /\ (Last.args.cells[i] = "val") => Last.exp.fields[i] = "sent"
                /\ (Last.args.cells[i] = "null" /\ f.tag.def # "none") => Last.exp.fields[i] = "default"
                /\ (Last.args.cells[i] = "null" /\ f.tag.def = "none" /\ f.t.k = "ptr")
                        => Last.exp.fields[i] = "nil" ]_vars

\* C07: a binary column named "request" is reserved only when it is the batch's only
\* column.  Next to other columns -- declared by the struct or added to the batch --
\* nothing it carries (garbage, nothing, a null, an IPC stream of a batch that would
\* bind on its own) changes the decision or the values: the handler runs iff the OUTER
\* batch is the declared schema, with exactly the values sent, the bytes included.
RequestColumnIsOrdinary ==
    [][ (Last.a = "Bind" /\ Last.args.req # "-") =>
          /\ Last.exp.bound <=> Last.args.rel = "equal"
          /\ Last.exp.outcome \in {"bound", "schema_mismatch"}
          /\ Last.exp.bound =>
                \A i \in 1 .. Len(Last.args.kinds) :
                    (Last.args.cells[i] = "val") => Last.exp.fields[i] = "sent" ]_vars

\* the type table is total on the palette and nullability follows pointer / option
TypeTableSane ==
    \A l \in AllLeaves :
        LET a == ArrowOf(LeafT(l), Tag(l.tag), 0)
            p == ArrowOf(Ptr(LeafT(l)), Tag(l.tag), 0) IN
        a.ok /\ ~a.nullable /\ p.ok /\ p.nullable /\ p.type = a.type /\ Family(a.type) # "none"
ASSUME TypeTableSaneHolds == TypeTableSane

View == <<phase, decl>>
=============================================================================
