SPECIFICATION Spec
CONSTANTS
    Mode = "edges"
    Depth = 0
    Variant = "fixed"
    Parts = {"C07"}
    Wraps = {"bare"}
    LeafSel = "core"
    FullValues = FALSE
    Kinds = {"s", "i", "b", "l", "ps", "pi", "ns", "sd", "nid", "nbd", "psd", "pfd", "rq", "rqn"}
    MaxFields = 3
    Vias = {"direct", "pipe", "http"}
    Witness = TRUE
    ReqPayloads = {"garbage", "empty", "null", "ipc_equal", "ipc_equal_g", "ipc_retyped", "ipc_nobatch"}
VIEW View
CHECK_DEADLOCK FALSE
