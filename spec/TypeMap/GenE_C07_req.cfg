SPECIFICATION Spec
CONSTANTS
    Mode = "edges"
    Depth = 0
    Variant = "fixed"
    Parts = {"C07"}
    Wraps = {"bare"}
    LeafSel = "core"
    FullValues = FALSE
    Kinds = {"s", "i", "y", "pi", "ns", "sd", "rq", "rqn", "rql", "rqs"}
    MaxFields = 2
    Vias = {"direct", "pipe", "http"}
    Witness = TRUE
    ReqPayloads = {"garbage", "empty", "null", "ipc_equal", "ipc_equal_g", "ipc_retyped", "ipc_nobatch"}
VIEW View
CHECK_DEADLOCK FALSE
