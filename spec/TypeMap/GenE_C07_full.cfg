SPECIFICATION Spec
CONSTANTS
    Mode = "edges"
    Depth = 0
    Variant = "fixed"
    Parts = {"C07"}
    Wraps = {"bare"}
    LeafSel = "core"
    FullValues = FALSE
    Kinds = {"s", "i", "f", "b", "y", "e", "i32", "l", "ts", "ps", "pi", "pf", "pb", "ns", "sd", "id", "fd", "bd", "nsd", "nid", "nfd", "nbd", "psd", "pid", "pfd", "pbd", "rq", "rqn", "rql", "rqs"}
    MaxFields = 2
    Vias = {"direct", "pipe", "http"}
    Witness = TRUE
    ReqPayloads = {"garbage", "empty", "null", "ipc_equal", "ipc_equal_g", "ipc_retyped", "ipc_nobatch"}
VIEW View
CHECK_DEADLOCK FALSE
