SPECIFICATION Spec
CONSTANTS
    Mode = "mc"
    Depth = 0
    Variant = "fixed"
    Parts = {"C07"}
    Wraps = {"bare"}
    LeafSel = "core"
    FullValues = FALSE
    Kinds = {"s", "i", "f", "b", "y", "e", "i32", "l", "ts", "ps", "pi", "pf", "pb", "ns", "sd", "id", "fd", "bd", "nsd", "nid", "nfd", "nbd", "psd", "pid", "pfd", "pbd"}
    MaxFields = 2
    Vias = {"direct", "pipe", "http"}
    Witness = FALSE
    ReqPayloads = {}
VIEW View
PROPERTIES BindsIffEqual RefusedIsTypeError ValuesAndDefaults RequestColumnIsOrdinary
CHECK_DEADLOCK FALSE
