SPECIFICATION Spec
CONSTANTS
    Mode = "edges"
    Depth = 0
    Inst = {1, 2}
    Idents = {"anon", "a@d1"}
    Meths = {"prod", "exch"}
    Streams = {1}
    TTL = 2
    MaxT = 3
    CacheCap = 1
    MaxTurns = 1
    CursorMuts = {"none", "flip", "trunc", "version", "otherkey", "callAsCursor", "callAsCursorV", "b64", "extend", "absent"}
    CallOpts = {"own", "absent", "flip", "cursorAsCall", "cursorAsCallV"}
    MethodBound = TRUE
    CachePolicy = "token"
VIEW View
CHECK_DEADLOCK FALSE
