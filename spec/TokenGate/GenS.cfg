SPECIFICATION Spec
CONSTANTS
    Mode = "tree"
    Depth = 25
    Inst = {1, 2, 3}
    Idents = {"anon", "a@d1", "b@d1", "a@d2"}
    Meths = {"prod", "exch", "exch2"}
    Streams = {1, 2}
    TTL = 3
    MaxT = 8
    CacheCap = 2
    MaxTurns = 6
    CursorMuts = {"none", "flip", "trunc", "version", "otherkey", "callAsCursor", "callAsCursorV", "b64", "extend", "absent"}
    CallOpts = {"own", "absent", "other", "flip", "cursorAsCall", "cursorAsCallV"}
    MethodBound = TRUE
    CachePolicy = "token"

CHECK_DEADLOCK FALSE
