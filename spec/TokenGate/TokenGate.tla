------------------------------ MODULE TokenGate ------------------------------
(***************************************************************************)
(* Acceptance of HTTP stream continuations (vgirpc/http_stream.go          *)
(* handleStreamExchange, vgirpc/http_state.go).                            *)
(*                                                                         *)
(* Streams are stateless on the server: a continuation presents a CURSOR   *)
(* token (sealed: call id, state, CreatedAt; re-minted every turn; AAD =   *)
(* "state" prefix + caller identity) and the CALL token minted at /init    *)
(* (sealed: call id, schema, stream id, CreatedAt; AAD = "call" prefix +   *)
(* identity).  Each instance keeps an LRU cache (call id, identity) ->     *)
(* call state that lets it skip opening the call token.                    *)
(*                                                                         *)
(* Continue(...) follows the order of checks in the code, one named        *)
(* outcome per exit.  Time is in ticks; every action happens at a half     *)
(* second, so the code's `age > ttl` on a second-truncated CreatedAt is    *)
(* `now - createdAt >= TTL` here (DESIGN 3.4).                              *)
(*                                                                         *)
(* Served: C12 (forged/altered tokens), C13 (identity and kind binding),   *)
(* C14 (method binding), C15 (TTL, cache transparency).                    *)
(***************************************************************************)
EXTENDS Naturals, Sequences, FiniteSets, TLC, VerifEmit

CONSTANTS
    Mode, Depth,
    Inst,         \* instances sharing the token key, e.g. {1, 2}
    Idents,       \* caller identities, e.g. {"anon", "a@d1", "b@d1", "a@d2"}
    Meths,        \* stream methods, e.g. {"prod", "exch", "exch2"}
    Streams,      \* stream slots, e.g. {1, 2}
    TTL, MaxT,    \* token TTL and clock bound, in ticks
    CacheCap,     \* entries per instance cache (0 = disabled)
    MaxTurns,     \* accepted continuations per stream
    CursorMuts,   \* ways the presented cursor is altered
    CallOpts,     \* which call token accompanies it
    MethodBound,  \* TRUE: the cursor names its method and the route must match (fixed design)
    CachePolicy   \* "token": a cache entry dies with the call token (fixed design);
                  \* "now":   a put on the miss path lives TTL from the put (code before the fix)

VARIABLES now, st, cache, hist
vars == <<now, st, cache, hist>>

None == [m |-> "none"]
Live(s) == st[s].m # "none"

\* In "mc" mode hist holds only the last step (the action properties below read it);
\* in "classes" mode a behaviour is printed the first time its class signature is seen.
RecordC(step, sig) ==
    /\ hist' = IF Mode = "mc" THEN <<step>> ELSE Append(hist, step)
    /\ (Mode = "edges") => EmitTrace(hist')
    /\ (Mode = "classes") => EmitOncePerClass(sig, hist')
    /\ (Mode = "tree" /\ Len(hist') = Depth) => EmitTrace(hist')
Record(step) == RecordC(step, <<step.a, step.args>>)
Budget == (Mode = "tree") => Len(hist) < Depth

--------------------------------------------------------------------------
(* Per-instance LRU: sequence of [s, id, last], front = most recent.       *)
(* `last` is the last tick at which the entry still answers.               *)
EntryLast(born, putAt) == IF CachePolicy = "token" THEN born + TTL - 1 ELSE putAt + TTL

Find(c, s, id) == {k \in 1..Len(c) : c[k].s = s /\ c[k].id = id}
Without(c, k) == SubSeq(c, 1, k-1) \o SubSeq(c, k+1, Len(c))
Trim(c) == IF Len(c) > CacheCap THEN SubSeq(c, 1, CacheCap) ELSE c
Put(c, s, id, last) ==
    IF CacheCap = 0 THEN c
    ELSE LET F == Find(c, s, id)
             c1 == IF F = {} THEN c ELSE Without(c, CHOOSE k \in F : TRUE)
         IN Trim(<<[s |-> s, id |-> id, last |-> last]>> \o c1)
\* get: <<hit?, cache after>>: an expired entry is dropped, a hit moves to the front
Get(c, s, id) ==
    IF CacheCap = 0 \/ Find(c, s, id) = {} THEN <<FALSE, c>>
    ELSE LET k == CHOOSE k \in Find(c, s, id) : TRUE IN
         IF now > c[k].last THEN <<FALSE, Without(c, k)>>
         ELSE <<TRUE, <<c[k]>> \o Without(c, k)>>

--------------------------------------------------------------------------
Tick ==
    /\ Budget /\ now < MaxT
    /\ now' = now + 1
    /\ UNCHANGED <<st, cache>>
    /\ Record([a |-> "Tick", args |-> [x |-> 0], exp |-> [now |-> now + 1]])

\* /init on instance i: mints cursor 0 and the call token, warms i's cache
InitStream(s, i, m, id) ==
    /\ Budget /\ ~Live(s)
    /\ \A s2 \in Streams : s2 < s => Live(s2)
    /\ st' = [st EXCEPT ![s] = [m |-> m, id |-> id, born |-> now, n |-> 0, at |-> now]]
    /\ cache' = [cache EXCEPT ![i] = Put(cache[i], s, id, EntryLast(now, now))]
    /\ UNCHANGED now
    /\ Record([a |-> "Init", args |-> [s |-> s, inst |-> i, m |-> m, id |-> id],
               exp |-> [status |-> 200, tokens |-> TRUE]])

(* A continuation: on instance i, at route mr, by identity idp, presenting stream s's latest      *)
(* cursor altered by cm, accompanied by call token option ct.                                     *)
\* the cursor as the server sees it
CursorVerdict(s, idp, cm) ==
    CASE cm = "absent"                       -> "missing_cursor"
      [] cm \in {"trunc", "b64"}             -> "malformed"
      \* a call token carries another version byte, so it fails the version check first;
      \* with the version byte patched ("...V") the AAD prefix of the other kind fails the seal
      [] cm \in {"version", "callAsCursor"}  -> "version"
      [] cm \in {"flip", "otherkey", "callAsCursorV", "extend"} -> "sig"
      [] cm = "none" /\ idp # st[s].id       -> "sig"          \* AAD binds the identity
      [] cm = "none" /\ now - st[s].at >= TTL -> "expired"
      [] OTHER                               -> "ok"

\* the call token, consulted only on a cache miss. "other" = the other live stream's call
\* token (same presenter), "cursorAsCall" = a cursor where the call token belongs
CallVerdict(s, idp, ct) ==
    CASE ct = "absent"                     -> "missing_call"
      [] ct = "cursorAsCall"               -> "version"
      [] ct \in {"flip", "cursorAsCallV"}  -> "sig"
      [] ct = "other" ->
            LET o == CHOOSE o \in Streams : o # s IN
            IF ~Live(o) \/ st[o].id # idp THEN "sig"
            ELSE IF now - st[o].born >= TTL THEN "expired"
            ELSE "malformed"                \* opens, but names another call
      [] ct = "own" /\ now - st[s].born >= TTL -> "expired"
      [] OTHER                             -> "ok"

ProbeOpts == {"probe_own", "probe_absent"}

Continue(i, mr, idp, s, cm, ct) ==
    /\ Budget /\ Live(s) /\ st[s].n < MaxTurns
    /\ ct \notin ProbeOpts
    /\ (ct = "other") => (\E o \in Streams : o # s)
    /\ LET cv == CursorVerdict(s, idp, cm)
           g == Get(cache[i], s, idp)
           hit == g[1]
           lv == IF hit THEN "ok" ELSE CallVerdict(s, idp, ct)
           dec == IF cv # "ok" THEN cv
                  ELSE IF MethodBound /\ mr # st[s].m THEN "method"
                  ELSE lv
           \* without method binding a foreign route runs the OTHER method's code on this state
           conformant == cm = "none" /\ ct = "own" /\ idp = st[s].id /\ mr = st[s].m
       IN
       /\ cache' = IF cv # "ok" \/ (MethodBound /\ mr # st[s].m) THEN cache
                   ELSE IF hit THEN [cache EXCEPT ![i] = g[2]]
                   ELSE IF lv = "ok" THEN [cache EXCEPT ![i] = Put(g[2], s, idp, EntryLast(st[s].born, now))]
                   ELSE [cache EXCEPT ![i] = g[2]]
       /\ st' = IF dec = "ok" THEN [st EXCEPT ![s].n = @ + 1, ![s].at = now] ELSE st
       /\ UNCHANGED now
       /\ RecordC([a |-> "Continue",
                  args |-> [inst |-> i, route |-> mr, id |-> idp, s |-> s, cm |-> cm, ct |-> ct],
                  exp |-> [dec |-> dec, accepted |-> (dec = "ok"), client_error |-> (dec # "ok"),
                           ran |-> (dec = "ok"), turn |-> IF dec = "ok" THEN st[s].n + 1 ELSE 0,
                           conformant |-> conformant, hit |-> (cv = "ok" /\ hit),
                           \* C03: whatever is presented, the request is answered (status + body)
                           uniform |-> TRUE, answered |-> TRUE]],
                  \* class of the transition: what the decision depends on
                  <<"Continue", dec, cm, ct, idp = st[s].id, mr = st[s].m, hit,
                    now - st[s].at >= TTL, now - st[s].born >= TTL, st[s].m, i>>)

(* The call-token layer alone (resolveCall: the call-state cache, then the call token), reached    *)
(* with the owner's cursor already opened.  Over HTTP the cursor layer runs first and no identity  *)
(* but the owner gets this far; C13 binds the call token AND the cache key to the presenting       *)
(* identity as well, "with the call-state cache in any state", and only here does that show.       *)
(* Enabled by the call options "probe_own" / "probe_absent" of a cfg.                              *)
ProbeCall(i, idp, s, ct) ==
    /\ Budget /\ Live(s) /\ ct \in ProbeOpts
    /\ now - st[s].at < TTL                    \* the owner's cursor still opens
    /\ LET g == Get(cache[i], s, idp)
           hit == g[1]
           lv == IF hit THEN "ok"
                 ELSE IF ct = "probe_absent" THEN "missing_call"
                 ELSE IF idp # st[s].id THEN "sig"            \* AAD binds the identity
                 ELSE IF now - st[s].born >= TTL THEN "expired"
                 ELSE "ok"
       IN
       /\ cache' = IF hit \/ lv # "ok" THEN [cache EXCEPT ![i] = g[2]]
                   ELSE [cache EXCEPT ![i] = Put(g[2], s, idp, EntryLast(st[s].born, now))]
       /\ UNCHANGED <<st, now>>
       /\ RecordC([a |-> "ProbeCall",
                  args |-> [inst |-> i, id |-> idp, s |-> s, ct |-> ct],
                  exp |-> [dec |-> lv, accepted |-> (lv = "ok"), hit |-> hit]],
                  <<"ProbeCall", lv, ct, idp = st[s].id, hit, now - st[s].born >= TTL, i>>)

ASSUME TLCSet(1, {})

Init ==
    /\ now = 0
    /\ st = [s \in Streams |-> None]
    /\ cache = [i \in Inst |-> <<>>]
    /\ hist = << [a |-> "Setup",
                  args |-> [ttl |-> TTL, cachecap |-> CacheCap, ninst |-> Cardinality(Inst)],
                  exp |-> [ok |-> TRUE]] >>

Next ==
    \/ Tick
    \/ \E s \in Streams, i \in Inst, m \in Meths, id \in Idents : InitStream(s, i, m, id)
    \/ \E i \in Inst, mr \in Meths, idp \in Idents, s \in Streams, cm \in CursorMuts, ct \in CallOpts :
          Continue(i, mr, idp, s, cm, ct)
    \/ \E i \in Inst, idp \in Idents, s \in Streams, ct \in CallOpts \cap ProbeOpts : ProbeCall(i, idp, s, ct)

Spec == Init /\ [][Next]_vars

--------------------------------------------------------------------------
(* Properties (action properties: they read the step just recorded).       *)
Last == hist'[Len(hist')]
IsCont == hist' # hist /\ Last.a = "Continue"
A == Last.args
S == st[A.s]     \* the presented stream, before the step

\* C12: accepted only if the cursor is unaltered and -- whenever the server has to consult
\* it -- so is the call token; a refusal runs no user code
NoForgedAccept ==
    [][ IsCont => /\ (Last.exp.accepted => A.cm = "none")
                  /\ (Last.exp.accepted /\ ~Last.exp.hit) => A.ct = "own"
                  /\ (~Last.exp.accepted => ~Last.exp.ran) ]_vars

\* C13: a token minted for one identity is refused for any other
IdentityBound == [][ (IsCont /\ Last.exp.accepted) => A.id = S.id ]_vars

\* ... at the call-token layer too, whatever the caches hold
CallLayerBound ==
    [][ (hist' # hist /\ Last.a = "ProbeCall" /\ Last.exp.accepted) => A.id = S.id ]_vars

\* C14: a continuation token only resumes the method that minted it
MethodBinding == [][ (IsCont /\ Last.exp.accepted) => A.route = S.m ]_vars

\* C15: a continuation whose cursor or call token is older than TTL is refused ...
TTLEnforced ==
    [][ (IsCont /\ Last.exp.accepted) => (now - S.at < TTL /\ now - S.born < TTL) ]_vars
\* ... and for conformant continuations the outcome does not depend on the cache: it is what an
\* instance with an empty cache decides
ColdDecision ==
    LET cv == CursorVerdict(A.s, A.id, A.cm) IN
    IF cv # "ok" THEN cv
    ELSE IF MethodBound /\ A.route # S.m THEN "method"
    ELSE CallVerdict(A.s, A.id, A.ct)
CacheTransparent ==
    [][ (IsCont /\ Last.exp.conformant) => Last.exp.dec = ColdDecision ]_vars

View == <<now, st, cache>>
=============================================================================
