SPECIFICATION Spec
CONSTANTS
    Mode = "mc"
    Depth = 0
    Inst = {1, 2}
    Idents = {"anon", "a@d1"}
    Meths = {"prod", "exch"}
    Streams = {1, 2}
    TTL = 2
    MaxT = 4
    CacheCap = 1
    MaxTurns = 2
    CursorMuts = {"none", "flip", "trunc", "version", "absent"}
    CallOpts = {"own", "absent", "other", "flip"}
    MethodBound = TRUE
    CachePolicy = "token"
VIEW View
PROPERTIES NoForgedAccept IdentityBound MethodBinding TTLEnforced CacheTransparent
CHECK_DEADLOCK FALSE
