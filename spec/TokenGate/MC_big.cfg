SPECIFICATION Spec
CONSTANTS
    Mode = "mc"
    Depth = 0
    Inst = {1, 2, 3}
    Idents = {"anon", "a@d1", "b@d1", "a@d2"}
    Meths = {"prod", "exch", "exch2"}
    Streams = {1, 2}
    TTL = 3
    MaxT = 6
    CacheCap = 2
    MaxTurns = 3
    CursorMuts = {"none", "flip", "trunc", "version", "absent"}
    CallOpts = {"own", "absent", "other", "flip"}
    MethodBound = TRUE
    CachePolicy = "token"
VIEW View
PROPERTIES NoForgedAccept IdentityBound MethodBinding TTLEnforced CacheTransparent
CHECK_DEADLOCK FALSE
