SPECIFICATION Spec
CONSTANTS
    Mode = "edges"
    Depth = 0
    Inst = {1}
    Idents = {"anon", "a@d1", "a@d2", "b@d1", "@d1", "a@", "anonymous@"}
    Meths = {"exch"}
    Streams = {1}
    TTL = 2
    MaxT = 1
    CacheCap = 1
    MaxTurns = 1
    CursorMuts = {"none", "callAsCursorV"}
    CallOpts = {"own", "absent", "cursorAsCallV"}
    MethodBound = TRUE
    CachePolicy = "token"
VIEW View
CHECK_DEADLOCK FALSE
