\* every identity probes the call-token layer of every other identity's stream, cache warm / cold / full
SPECIFICATION Spec
CONSTANTS
    Mode = "edges"
    Depth = 0
    Inst = {1, 2}
    Idents = {"anon", "a@d1", "a@d2", "b@d1", "@d1", "a@", "anonymous@"}
    Meths = {"exch"}
    Streams = {1}
    TTL = 2
    MaxT = 2
    CacheCap = 1
    MaxTurns = 1
    CursorMuts = {"none"}
    CallOpts = {"own", "probe_own", "probe_absent"}
    MethodBound = TRUE
    CachePolicy = "token"
VIEW View
CHECK_DEADLOCK FALSE
