SPECIFICATION Spec
CONSTANTS
    Mode = "mc"
    Depth = 0
    Inst = {1, 2}
    Idents = {"anon", "a@d1"}
    Meths = {"prod", "exch"}
    Streams = {1}
    TTL = 2
    MaxT = 4
    CacheCap = 0
    MaxTurns = 2
    CursorMuts = {"none", "flip", "trunc", "version", "otherkey", "callAsCursor", "callAsCursorV", "b64", "extend", "absent"}
    CallOpts = {"own", "absent", "other", "flip", "cursorAsCall", "cursorAsCallV"}
    MethodBound = TRUE
    CachePolicy = "token"
VIEW View
PROPERTIES NoForgedAccept IdentityBound MethodBinding TTLEnforced CacheTransparent
CHECK_DEADLOCK FALSE
