\* the call-token layer probed directly (ProbeCall), interleaved with ordinary continuations
SPECIFICATION Spec
CONSTANTS
    Mode = "mc"
    Depth = 0
    Inst = {1, 2}
    Idents = {"anon", "a@d1", "b@d1"}
    Meths = {"exch"}
    Streams = {1, 2}
    TTL = 2
    MaxT = 3
    CacheCap = 1
    MaxTurns = 2
    CursorMuts = {"none"}
    CallOpts = {"own", "absent", "probe_own", "probe_absent"}
    MethodBound = TRUE
    CachePolicy = "token"
VIEW View
PROPERTIES NoForgedAccept IdentityBound CallLayerBound TTLEnforced CacheTransparent
CHECK_DEADLOCK FALSE
