SPECIFICATION Spec
CONSTANTS
    Mode = "edges"
    Depth = 0
    Inst = {1}
    Idents = {"anon"}
    Meths = {"prod", "exch", "exch2"}
    Streams = {1}
    TTL = 9
    MaxT = 0
    CacheCap = 1
    MaxTurns = 3
    CursorMuts = {"none"}
    CallOpts = {"own"}
    MethodBound = TRUE
    CachePolicy = "token"
VIEW View
CHECK_DEADLOCK FALSE
