SPECIFICATION Spec
CONSTANTS
    Mode = "edges"
    Depth = 0
    Inst = {1, 2}
    Idents = {"anon"}
    Meths = {"exch"}
    Streams = {1}
    TTL = 2
    MaxT = 4
    CacheCap = 1
    MaxTurns = 3
    CursorMuts = {"none"}
    CallOpts = {"own", "absent"}
    MethodBound = TRUE
    CachePolicy = "token"
VIEW View
CHECK_DEADLOCK FALSE
