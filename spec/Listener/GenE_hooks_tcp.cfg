SPECIFICATION Spec
CONSTANTS
    NC = 2
    T = 2
    Grace = 0
    MaxCalls = 1
    Transport = "tcp"
    StaleFix = TRUE
    Hooks = TRUE
    Mode = "edges"
    Depth = 0
    Eager = TRUE
    SSHook = FALSE
VIEW View
CHECK_DEADLOCK FALSE
