------------------------------ MODULE Listener ------------------------------
(***************************************************************************)
(* Socket listeners of vgi-rpc-go: Server.RunUnix (server_unix.go) and     *)
(* Server.RunTcp (server_tcp.go) — the same accept loop, idle timer and    *)
(* per-connection serve goroutine over a Unix or a TCP listening socket.   *)
(*                                                                         *)
(*   net.Listen, chmod 0600 (unix), onBound                Init            *)
(*   arm(max(idleTimeout, 60s))                            Init (grace)    *)
(*   for { conn, err := Accept()                           AcceptReturns / *)
(*                                                         AcceptFails     *)
(*         mu{ active++; disarm() }; wg.Add; go serve      Count           *)
(*   serve: notifyTransport(kind): transportNotifyMu{      NotifyEnter,    *)
(*            bound to this kind already -> go on                          *)
(*            else the user's ServeStartHook (user code:   HookReturn      *)
(*            takes as long as it likes, may fail);                        *)
(*            ok -> commit the binding; error -> return }                  *)
(*          serveOne loop on the connection                HandlerEnter,   *)
(*                                                         CallFinish      *)
(*          EOF -> conn.Close;                                             *)
(*          mu{ active--; if active==0 && !shutdown arm }  ConnDone        *)
(*   time.AfterFunc expires -> func started                TimerExpire     *)
(*   func: mu{ if active==0 { shutdown; ln.Close() } }     TimerFire_Idle/ *)
(*                                                         TimerFire_Busy  *)
(*   after the loop: mu{ disarm }; wg.Wait(); return;                      *)
(*   deferred ln.Close + os.Remove(path)                   AcceptFails,    *)
(*                                                         Return          *)
(*                                                                         *)
(* Every critical section under mu is one action.  Time is a tick counter  *)
(* per armed timer (Tick; in generation mode Wait = "at least an idle      *)
(* timeout passes", the only granularity a real-time replay can realise    *)
(* with wide margins).                                                     *)
(*                                                                         *)
(* C42: each connection is served with its own framing (a response goes to *)
(* the connection whose request produced it, also while another connection *)
(* is inside a call); "the listener stops" is read as RunUnix/RunTcp       *)
(* returns: it returns only when no accepted connection is open, the       *)
(* decision to stop is taken only after a full idle timeout without a      *)
(* registered connection, and under fairness it does return once all       *)
(* clients are gone; the Unix socket file is 0600 while serving and gone   *)
(* on return.  A connection is "open" for the listener from the moment the *)
(* accept loop has registered it (Count) until its serve goroutine ends -  *)
(* that span contains every piece of user code run for the connection:     *)
(* the serve-start hook its goroutine may have to run first (the first      *)
(* connection, the first after a hook failure, the first after the Server   *)
(* was bound to another transport kind - Rebind) and its handlers;          *)
(* the window between Accept returning and Count is modelled (and, with    *)
(* the optional hook points, replayed) but, with "stops" read as           *)
(* "returns", it is benign: the accepted connection is still served and    *)
(* wg.Wait delays the return.  A connection still in the kernel backlog    *)
(* when the timer closes the listener was never accepted (Dropped).        *)
(***************************************************************************)
EXTENDS Naturals, Sequences, FiniteSets, TLC, VerifEmit

CONSTANTS
    NC,         \* connections 1..NC (each opened at most once, in this order)
    T,          \* idle timeout, in ticks
    Grace,      \* startup grace max(idleTimeout, 60 s), in ticks; 0 = never expires
                \* within a behaviour (generation: 60 s is out of reach of a replay)
    MaxCalls,   \* calls per connection
    Transport,  \* "unix" | "tcp"
    StaleFix,   \* FALSE: the code as it is — a timer func that expired before its timer
                \* was disarmed still acts when it finally gets mu.  TRUE: the design that
                \* meets the strict reading of C42 — such a stale func does nothing.
    Hooks,      \* TRUE: the accept loop (after Accept) and the timer func (before mu)
                \* are gate points of the replay (optional verifAt hooks)
    Mode,       \* "mc" | "edges" | "tree"
    Depth,
    Eager,      \* generation: what the server's goroutines do on their own happens
                \* before the next driver-initiated step
    SSHook      \* TRUE: a ServeStartHook is installed and every call of it for this
                \* listener's transport kind is a gate point of the replay (user code: it
                \* returns when the schedule says so, with success or an error).
                \* FALSE: no hook - notifyTransport only commits the binding.

Conn == 1..NC

VARIABLES
    lst,        \* listening socket: "open" | "closed"
    loop,       \* accept loop: "accept" | "got" | "exited" | "returned"
    held,       \* connection Accept returned that is not yet counted (0 = none)
    backlog,    \* connections queued in the kernel, in connect order
    active,     \* the active counter
    timer,      \* "none" | "grace" | "idle" | "fired" (expired, variable still non-nil)
    age,        \* ticks since the timer was armed (saturating)
    pending,    \* timer funcs started by the runtime that have not taken mu yet
    curPending, \* one of them belongs to the timer the `timer` variable still refers to
    shutdown,
    cl,         \* client side of c: "idle" | "open" | "closed" | "refused"
    sv,         \* server side of c: "none" | "queued" | "accepted" | "notify" (goroutine
                \*   started, in or waiting for notifyTransport) | "hook" (inside the
                \*   serve-start hook) | "failed" (hook failed; goroutine on its way out) |
                \*   "serving" | "handler" | "done" | "dropped"
    bound,      \* transport kind the Server is bound to: "none" | "this" | "other"
    nmu,        \* connection whose goroutine holds transportNotifyMu (0 = free)
    out,        \* out[c]: the client has written a request it has no response to yet
    ncalls,     \* completed calls on c
    got,        \* got[c]: sequence of responses delivered to c, each named by the
                \*         connection whose request produced it
    sock,       \* Unix socket file: "0600" | "absent"
    idleAge,    \* ghost: ticks since no registered connection is open (saturating at T)
    prog,       \* ghost: how many times each critical section ran (what the notification
                \*        hook points let a replay wait for): counted, done, timer_runs
    hist

state == <<lst, loop, held, backlog, active, timer, age, pending, curPending, shutdown, cl, sv,
           out, ncalls, got, sock, idleAge, prog, bound, nmu>>
vars == <<state, hist>>

Registered(c) == sv[c] \in {"notify", "hook", "failed", "serving", "handler"}
\* user code (the serve-start hook, a handler) or the serve loop is running for c
InService(c) == sv[c] \in {"hook", "failed", "serving", "handler"}
NoneRegistered == \A c \in Conn : ~Registered(c)
Returned == loop = "returned"
Dur(tm) == IF tm = "idle" THEN T ELSE Grace
Min(a, b) == IF a < b THEN a ELSE b

Snapshot ==
    [returned |-> Returned,
     sock     |-> IF Transport # "unix" THEN "n/a" ELSE IF sock = "0600" THEN "0600" ELSE "gone",
     accepting |-> lst = "open",
     in_call  |-> [c \in Conn |-> sv[c] = "handler"],
     got      |-> got,
     progress |-> prog,
     parked_accept |-> IF Hooks THEN held ELSE 0,
     parked_timers |-> IF Hooks THEN pending ELSE 0]
    @@ (IF SSHook
        THEN [in_hook    |-> nmu # 0,
              \* Accept has handed the connection to the server
              accepted   |-> [c \in Conn |-> sv[c] \notin {"none", "queued", "dropped"}],
              \* the server has closed the connection, the client has not
              srv_closed |-> [c \in Conn |-> sv[c] = "done" /\ cl[c] = "open"]]
        ELSE [x \in {} |-> 0])

--------------------------------------------------------------------------
(* What the server's goroutines do without being asked.                    *)
SelfEnabled ==
    \/ loop = "accept" /\ lst = "open" /\ backlog # <<>>
    \/ loop = "accept" /\ lst = "closed"
    \/ loop = "got" /\ ~Hooks
    \/ loop = "exited" /\ NoneRegistered
    \/ \E c \in Conn : sv[c] = "serving" /\ (out[c] \/ cl[c] = "closed")
    \/ \E c \in Conn : sv[c] = "notify" /\ nmu = 0
    \/ \E c \in Conn : sv[c] = "failed"
    \/ timer \in {"grace", "idle"} /\ Dur(timer) > 0 /\ age >= Dur(timer)
    \/ pending > 0 /\ ~Hooks

Settled == ~SelfEnabled
Ready == Eager => Settled
Budget == (Mode = "tree") => Len(hist) < Depth

Drive(step) ==
    /\ hist' = IF Mode = "mc" THEN hist
               ELSE Append(hist, [step EXCEPT !.exp = step.exp @@ Snapshot'])
    /\ (Mode = "edges" /\ Settled') => EmitTrace(hist')
    /\ (Mode = "tree" /\ Settled' /\ (Len(hist') = Depth \/ Returned')) => EmitTrace(hist')

Self ==
    /\ hist' = IF Mode = "mc" THEN hist
               ELSE [hist EXCEPT ![Len(hist)].exp = Snapshot' @@ @]
    /\ (Mode = "edges" /\ Settled') => EmitTrace(hist')
    /\ (Mode = "tree" /\ Settled' /\ (Len(hist') = Depth \/ Returned')) => EmitTrace(hist')

--------------------------------------------------------------------------
(* Clients.                                                                *)
Open(c) ==
    /\ Budget /\ Ready /\ ~Returned
    /\ cl[c] = "idle" /\ \A d \in Conn : d < c => cl[d] # "idle"
    /\ IF lst = "open"
       THEN /\ cl' = [cl EXCEPT ![c] = "open"]
            /\ sv' = [sv EXCEPT ![c] = "queued"]
            /\ backlog' = Append(backlog, c)
       ELSE /\ cl' = [cl EXCEPT ![c] = "refused"]
            /\ UNCHANGED <<sv, backlog>>
    /\ UNCHANGED <<lst, loop, held, active, timer, age, pending, curPending, shutdown, out, ncalls, got,
                   sock, idleAge, prog, bound, nmu>>
    /\ Drive([a |-> "Open", args |-> [c |-> c], exp |-> [connected |-> lst = "open"]])

\* the client closes its end; it never does so with a call outstanding
Close(c) ==
    /\ Budget /\ Ready
    /\ cl[c] = "open" /\ ~out[c]
    /\ cl' = [cl EXCEPT ![c] = "closed"]
    /\ UNCHANGED <<lst, loop, held, backlog, active, timer, age, pending, curPending, shutdown, sv, out,
                   ncalls, got, sock, idleAge, prog, bound, nmu>>
    /\ Drive([a |-> "Close", args |-> [c |-> c], exp |-> [closed |-> TRUE]])

\* the client writes one request (an echo of a payload only this connection uses)
CallStart(c) ==
    /\ Budget /\ Ready
    /\ cl[c] = "open" /\ ~out[c] /\ ncalls[c] < MaxCalls
    /\ sv[c] \in {"queued", "accepted", "notify", "hook", "serving"}
    /\ out' = [out EXCEPT ![c] = TRUE]
    /\ UNCHANGED <<lst, loop, held, backlog, active, timer, age, pending, curPending, shutdown, cl, sv,
                   ncalls, got, sock, idleAge, prog, bound, nmu>>
    /\ Drive([a |-> "CallStart", args |-> [c |-> c, k |-> ncalls[c] + 1], exp |-> [sent |-> TRUE]])

\* the handler returns; the serve loop writes the response on ITS connection
CallFinish(c) ==
    /\ Budget /\ Ready
    /\ sv[c] = "handler"
    /\ sv' = [sv EXCEPT ![c] = "serving"]
    /\ out' = [out EXCEPT ![c] = FALSE]
    /\ ncalls' = [ncalls EXCEPT ![c] = @ + 1]
    /\ got' = [got EXCEPT ![c] = Append(@, c)]
    /\ UNCHANGED <<lst, loop, held, backlog, active, timer, age, pending, curPending, shutdown, cl,
                   sock, idleAge, prog, bound, nmu>>
    /\ Drive([a |-> "CallFinish", args |-> [c |-> c, k |-> ncalls[c] + 1], exp |-> [resp |-> c]])

(* Time.                                                                   *)
Advance(n) ==
    /\ age' = IF timer \in {"grace", "idle"} /\ Dur(timer) > 0
              THEN Min(age + n, Dur(timer)) ELSE age
    /\ idleAge' = IF NoneRegistered THEN Min(idleAge + n, T) ELSE 0

\* model checking: one tick
Tick ==
    /\ Mode = "mc"
    /\ Advance(1)
    /\ UNCHANGED <<lst, loop, held, backlog, active, timer, pending, curPending, shutdown, cl, sv, out,
                   ncalls, got, sock, prog, bound, nmu>>
    /\ hist' = hist

\* generation: the client does nothing for well over an idle timeout
Wait ==
    /\ Mode # "mc" /\ Budget /\ Ready /\ ~Returned
    /\ Advance(T)
    /\ UNCHANGED <<lst, loop, held, backlog, active, timer, pending, curPending, shutdown, cl, sv, out,
                   ncalls, got, sock, prog, bound, nmu>>
    /\ Drive([a |-> "Wait", args |-> [x |-> 0], exp |-> [waited |-> TRUE]])

--------------------------------------------------------------------------
(* Accept loop.                                                            *)
AcceptReturns ==
    /\ loop = "accept" /\ lst = "open" /\ backlog # <<>>
    /\ loop' = "got"
    /\ held' = Head(backlog)
    /\ backlog' = Tail(backlog)
    /\ sv' = [sv EXCEPT ![Head(backlog)] = "accepted"]
    /\ UNCHANGED <<lst, active, timer, age, pending, curPending, shutdown, cl, out, ncalls, got, sock, idleAge, prog, bound, nmu>>
    /\ Self

\* mu{ active++; disarm() }; wg.Add(1); go serve(conn)
CountStep ==
    /\ loop = "got"
    /\ active' = active + 1
    /\ timer' = "none" /\ age' = 0 /\ curPending' = FALSE
    /\ sv' = [sv EXCEPT ![held] = IF SSHook THEN "notify" ELSE "serving"]
    /\ loop' = "accept" /\ held' = 0
    /\ idleAge' = 0
    /\ prog' = [prog EXCEPT !.counted = @ + 1]
    /\ UNCHANGED <<lst, backlog, pending, shutdown, cl, out, ncalls, got, sock, bound, nmu>>

Count ==
    IF Hooks
    THEN /\ Budget /\ Ready /\ CountStep
         /\ Drive([a |-> "ReleaseAccept", args |-> [c |-> held], exp |-> [counted |-> TRUE]])
    ELSE CountStep /\ Self

\* Accept fails because the listener was closed: break; mu{ disarm }
AcceptFails ==
    /\ loop = "accept" /\ lst = "closed"
    /\ loop' = "exited"
    /\ timer' = "none" /\ age' = 0 /\ curPending' = FALSE
    /\ UNCHANGED <<lst, held, backlog, active, pending, shutdown, cl, sv, out, ncalls, got,
                   sock, idleAge, prog, bound, nmu>>
    /\ Self

\* wg.Wait() is over; return; deferred ln.Close() and os.Remove(path)
Return ==
    /\ loop = "exited" /\ NoneRegistered
    /\ loop' = "returned"
    /\ sock' = "absent"
    /\ UNCHANGED <<lst, held, backlog, active, timer, age, pending, curPending, shutdown, cl, sv, out,
                   ncalls, got, idleAge, prog, bound, nmu>>
    /\ Self

(* Per-connection serve goroutine.                                         *)
\* serveUnixConn/serveTcpConn starts with notifyTransport(kind, nil):
\*   transportNotifyMu.Lock()  (single flight: one goroutine at a time)
\*   bound to this kind already -> unlock, go on to the serve loop
\*   else                       -> call the user's hook with transportNotifyMu held
NotifyEnter(c) ==
    /\ SSHook
    /\ sv[c] = "notify" /\ nmu = 0
    /\ IF bound = "this"
       THEN sv' = [sv EXCEPT ![c] = "serving"] /\ nmu' = nmu
       ELSE sv' = [sv EXCEPT ![c] = "hook"] /\ nmu' = c
    /\ UNCHANGED <<lst, loop, held, backlog, active, timer, age, pending, curPending, shutdown, cl, out,
                   ncalls, got, sock, idleAge, prog, bound>>
    /\ Self

\* the hook (user code) returns, whenever it likes:
\*   nil   -> the binding is committed, the goroutine goes on to its serve loop
\*   error -> nothing is committed (the next connection fires the hook again); the goroutine
\*            returns without serving: whatever the client already wrote is never answered
HookReturnStep(ok) ==
    /\ nmu # 0
    /\ nmu' = 0
    /\ IF ok
       THEN /\ bound' = "this"
            /\ sv' = [sv EXCEPT ![nmu] = "serving"]
            /\ out' = out
       ELSE /\ bound' = bound
            /\ sv' = [sv EXCEPT ![nmu] = "failed"]
            /\ out' = [out EXCEPT ![nmu] = FALSE]
    /\ UNCHANGED <<lst, loop, held, backlog, active, timer, age, pending, curPending, shutdown, cl,
                   ncalls, got, sock, idleAge, prog>>

HookReturn(ok) ==
    /\ Budget /\ Ready /\ HookReturnStep(ok)
    /\ Drive([a |-> "ReleaseHook", args |-> [c |-> nmu, ok |-> ok], exp |-> [released |-> TRUE]])

\* the same Server is bound to another transport kind in between (it also serves a pipe, say):
\* notifyTransport(pipe) takes transportNotifyMu too, and the next connection of this listener
\* finds the Server bound to the other kind and fires the hook again
Rebind ==
    /\ SSHook /\ Budget /\ Ready /\ ~Returned
    /\ bound = "this" /\ nmu = 0
    /\ bound' = "other"
    /\ UNCHANGED <<lst, loop, held, backlog, active, timer, age, pending, curPending, shutdown, cl, sv,
                   out, ncalls, got, sock, idleAge, prog, nmu>>
    /\ Drive([a |-> "Rebind", args |-> [x |-> 0], exp |-> [kind |-> "pipe"]])

\* serveOne read a request off connection c and entered the handler (user code)
HandlerEnter(c) ==
    /\ sv[c] = "serving" /\ out[c]
    /\ sv' = [sv EXCEPT ![c] = "handler"]
    /\ UNCHANGED <<lst, loop, held, backlog, active, timer, age, pending, curPending, shutdown, cl, out,
                   ncalls, got, sock, idleAge, prog, bound, nmu>>
    /\ Self

\* EOF on c (or the serve-start hook failed): conn.Close();
\* mu{ active--; if active == 0 && !shutdown { arm(idle) } }
ConnDone(c) ==
    /\ \/ sv[c] = "serving" /\ ~out[c] /\ cl[c] = "closed"
       \/ sv[c] = "failed"
    /\ sv' = [sv EXCEPT ![c] = "done"]
    /\ active' = active - 1
    /\ IF active - 1 = 0 /\ ~shutdown
       THEN timer' = "idle" /\ age' = 0 /\ curPending' = FALSE
       ELSE UNCHANGED <<timer, age, curPending>>
    /\ prog' = [prog EXCEPT !.done = @ + 1]
    /\ UNCHANGED <<lst, loop, held, backlog, pending, shutdown, cl, out, ncalls, got, sock, idleAge,
                   bound, nmu>>
    /\ Self

(* Idle timer.                                                             *)
\* the runtime starts the AfterFunc goroutine; Stop() can no longer prevent it
TimerExpire ==
    /\ timer \in {"grace", "idle"} /\ Dur(timer) > 0 /\ age >= Dur(timer)
    /\ timer' = "fired"
    /\ pending' = pending + 1
    /\ curPending' = TRUE
    /\ UNCHANGED <<lst, loop, held, backlog, active, age, shutdown, cl, sv, out, ncalls, got,
                   sock, idleAge, prog, bound, nmu>>
    /\ Self

\* what the func does once it has mu:
\*   active == 0: shutdown = true; ln.Close() — connections still in the backlog are lost,
\*                and closing a Go UnixListener unlinks its socket file
\*   active > 0 : nothing
Decide ==
    IF active = 0
    THEN /\ shutdown' = TRUE
         /\ lst' = "closed"
         /\ sv' = [c \in Conn |-> IF sv[c] = "queued" THEN "dropped" ELSE sv[c]]
         /\ backlog' = <<>>
         /\ sock' = "absent"
    ELSE UNCHANGED <<shutdown, lst, sv, backlog, sock>>

\* the func of the timer the `timer` variable still refers to
TimerFire_CurrentStep ==
    /\ pending > 0 /\ curPending
    /\ pending' = pending - 1
    /\ curPending' = FALSE
    /\ Decide
    /\ prog' = [prog EXCEPT !.timer_runs = @ + 1]
    /\ UNCHANGED <<loop, held, active, timer, age, cl, out, ncalls, got, idleAge, bound, nmu>>

\* the func of a timer that expired and was then disarmed (Stop came too late)
TimerFire_StaleStep ==
    /\ pending > (IF curPending THEN 1 ELSE 0)
    /\ pending' = pending - 1
    /\ IF StaleFix THEN UNCHANGED <<shutdown, lst, sv, backlog, sock>> ELSE Decide
    /\ prog' = [prog EXCEPT !.timer_runs = @ + 1]
    /\ UNCHANGED <<loop, held, active, timer, age, curPending, cl, out, ncalls, got, idleAge,
                   bound, nmu>>

TimerFire ==
    IF Hooks
    THEN \/ /\ Budget /\ Ready /\ TimerFire_CurrentStep
            /\ Drive([a |-> "ReleaseTimer", args |-> [which |-> "current"], exp |-> [fired |-> TRUE]])
         \/ /\ Budget /\ Ready /\ TimerFire_StaleStep
            /\ Drive([a |-> "ReleaseTimer", args |-> [which |-> "stale"], exp |-> [fired |-> TRUE]])
    ELSE (TimerFire_CurrentStep \/ TimerFire_StaleStep) /\ Self

--------------------------------------------------------------------------
Init ==
    /\ lst = "open" /\ loop = "accept" /\ held = 0 /\ backlog = <<>>
    /\ active = 0 /\ timer = "grace" /\ age = 0 /\ pending = 0 /\ curPending = FALSE
    /\ shutdown = FALSE
    /\ cl = [c \in Conn |-> "idle"]
    /\ sv = [c \in Conn |-> "none"]
    /\ out = [c \in Conn |-> FALSE]
    /\ ncalls = [c \in Conn |-> 0]
    /\ got = [c \in Conn |-> <<>>]
    /\ sock = "0600"
    /\ idleAge = 0
    /\ prog = [counted |-> 0, done |-> 0, timer_runs |-> 0]
    /\ bound = "none" /\ nmu = 0
    /\ hist = << [a |-> "Init",
                  args |-> [NC |-> NC, Transport |-> Transport, Hooks |-> Hooks, T |-> T,
                            StaleFix |-> StaleFix, SSHook |-> SSHook],
                  exp |-> [listening |-> TRUE] @@ Snapshot] >>

Server ==
    \/ AcceptReturns \/ Count \/ AcceptFails \/ Return
    \/ \E c \in Conn : NotifyEnter(c) \/ HandlerEnter(c) \/ ConnDone(c)
    \/ TimerExpire \/ TimerFire

Next ==
    \/ \E c \in Conn : Open(c) \/ Close(c) \/ CallStart(c) \/ CallFinish(c)
    \/ HookReturn(TRUE) \/ HookReturn(FALSE) \/ Rebind
    \/ Tick \/ Wait
    \/ Server

Spec == Init /\ [][Next]_vars

\* the server's goroutines and the clock make progress; a handler returns; so does the hook
FairSpec == Spec /\ WF_vars(Tick)
                 /\ WF_vars(HookReturn(TRUE) \/ HookReturn(FALSE))
                 /\ WF_vars(AcceptReturns) /\ WF_vars(Count) /\ WF_vars(AcceptFails)
                 /\ WF_vars(Return) /\ WF_vars(TimerExpire) /\ WF_vars(TimerFire)
                 /\ \A c \in Conn : /\ WF_vars(CallFinish(c))
                                     /\ WF_vars(ConnDone(c))
                                     /\ WF_vars(HandlerEnter(c))
                                     /\ WF_vars(NotifyEnter(c))

--------------------------------------------------------------------------
(* C42, stated declaratively.                                              *)

\* RunUnix/RunTcp returns only when no accepted connection is still open, and only
\* because the idle shutdown was decided
ReturnOnlyWhenIdle ==
    Returned => /\ \A c \in Conn : sv[c] \notin {"accepted", "notify", "hook", "failed", "serving",
                                                  "handler"}
                /\ shutdown

\* ... the decision to stop is never taken while a registered connection is open, and the
\* timer whose func takes it measured a full idle timeout without one
StopsOnlyAfterAnIdlePeriod ==
    /\ [][ (shutdown' /\ ~shutdown) => NoneRegistered ]_vars
    /\ [][ (pending' > pending) => (NoneRegistered /\ idleAge >= T) ]_vars

\* ... in particular never while user code (the serve-start hook, however long it takes, or a
\* handler) or the serve loop is running for a connection, and while that is so the listener
\* keeps listening unless it was stopped before the connection was registered (the connection
\* Accept returned just as an idle period ended)
NeverStopsWhileInService ==
    [][ (shutdown' /\ ~shutdown) => \A c \in Conn : ~InService(c) ]_vars

\* Strict reading: the full idle timeout without a registered connection immediately
\* precedes the decision.  The code as it is (StaleFix = FALSE) does NOT satisfy this:
\* TimerExpire, Count (Stop too late), ConnDone, TimerFire_Stale stops the listener the
\* moment the connection is gone (MC_finding.cfg).  With StaleFix = TRUE it holds.
StopsOnlyWhenIdleNow ==
    [][ (shutdown' /\ ~shutdown) => (NoneRegistered /\ idleAge >= T) ]_vars

\* until then the listener keeps listening
ListensUntilShutdown == ~shutdown => lst = "open"

\* the counter is the number of registered connections
CounterExact == active = Cardinality({c \in Conn : Registered(c)})

\* per-connection framing: whatever arrives on a connection answers that connection's
\* own requests, in order, one response per completed call
OwnResponsesOnly ==
    \A c \in Conn : /\ Len(got[c]) = ncalls[c]
                    /\ \A i \in 1..Len(got[c]) : got[c][i] = c

\* two connections can be inside a call at the same time (no serialisation)
\* (a reachability witness, checked to be reachable by its negation failing)
NeverBothInCall == Cardinality({c \in Conn : sv[c] = "handler"}) <= 1

\* the Unix socket file is owner-only while serving and removed on return
SocketFile == /\ ~shutdown => sock = "0600"
              /\ Returned => sock = "absent"

\* once every client is gone the listener returns
AllClientsGone == \A c \in Conn : cl[c] \in {"closed", "refused"}
EventuallyReturnsWhenIdle == AllClientsGone ~> Returned

View == state
=============================================================================
