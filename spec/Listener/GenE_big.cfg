SPECIFICATION Spec
CONSTANTS
    NC = 3
    T = 2
    Grace = 0
    MaxCalls = 2
    Transport = "unix"
    StaleFix = TRUE
    Hooks = FALSE
    Mode = "edges"
    Depth = 0
    Eager = TRUE
    SSHook = FALSE
VIEW View
CHECK_DEADLOCK FALSE
