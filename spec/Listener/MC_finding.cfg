SPECIFICATION Spec
CONSTANTS
    NC = 2
    T = 2
    Grace = 3
    MaxCalls = 1
    Transport = "unix"
    StaleFix = FALSE
    Hooks = FALSE
    Mode = "mc"
    Depth = 0
    Eager = FALSE
    SSHook = FALSE
PROPERTIES StopsOnlyWhenIdleNow
CHECK_DEADLOCK FALSE
