SPECIFICATION FairSpec
CONSTANTS
    NC = 2
    T = 2
    Grace = 3
    MaxCalls = 1
    Transport = "unix"
    StaleFix = FALSE
    Hooks = FALSE
    Mode = "mc"
    Depth = 0
    Eager = FALSE
INVARIANTS ReturnOnlyWhenIdle ListensUntilShutdown CounterExact OwnResponsesOnly SocketFile
PROPERTIES StopsOnlyAfterAnIdlePeriod EventuallyReturnsWhenIdle
CHECK_DEADLOCK FALSE
