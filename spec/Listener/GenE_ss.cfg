SPECIFICATION Spec
CONSTANTS
    NC = 2
    T = 2
    Grace = 0
    MaxCalls = 1
    Transport = "unix"
    StaleFix = TRUE
    Hooks = FALSE
    Mode = "edges"
    Depth = 0
    Eager = TRUE
    SSHook = TRUE
VIEW View
CHECK_DEADLOCK FALSE
