SPECIFICATION FairSpec
CONSTANTS
    NC = 3
    T = 2
    Grace = 3
    MaxCalls = 1
    Transport = "unix"
    StaleFix = TRUE
    Hooks = FALSE
    Mode = "mc"
    Depth = 0
    Eager = FALSE
    SSHook = TRUE
INVARIANTS ReturnOnlyWhenIdle ListensUntilShutdown CounterExact OwnResponsesOnly SocketFile
PROPERTIES StopsOnlyAfterAnIdlePeriod NeverStopsWhileInService StopsOnlyWhenIdleNow EventuallyReturnsWhenIdle
CHECK_DEADLOCK FALSE
