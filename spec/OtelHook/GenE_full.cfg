SPECIFICATION Spec
CONSTANTS
    Clients = {1}
    MaxReq = 4
    Cfgs <- CfgAll
    Calls <- CallsFull
    Ctxs <- CtxFull
    Mode = "edges"
    Depth = 0
VIEW GenView
CHECK_DEADLOCK FALSE
