SPECIFICATION Spec
CONSTANTS
    Clients = {1}
    MaxReq = 1
    Cfgs <- CfgAll
    Calls <- CallsFull
    Ctxs <- CtxFull
    Mode = "mc"
    Depth = 0
VIEW View
INVARIANTS NeverEndedTwice EndedExactlyOnce OnlyStartedSpansEnd NonRecordingLeftAlone ErrorIffFailed ParentedOnCaller CountedOnceWithStatus NeverCountedTwice CounterTotalsDispatches LedgerMatchesRequests
PROPERTIES NoHookNoTrace ExpConsistent
CHECK_DEADLOCK FALSE
