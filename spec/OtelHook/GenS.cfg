SPECIFICATION Spec
CONSTANTS
    Clients = {1}
    MaxReq = 12
    Cfgs <- CfgAll
    Calls <- CallsFull
    Ctxs <- CtxFull
    Mode = "tree"
    Depth = 13
CHECK_DEADLOCK FALSE
