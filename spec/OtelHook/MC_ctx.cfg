SPECIFICATION Spec
CONSTANTS
    Clients = {1}
    MaxReq = 1
    Cfgs <- CfgQuick
    Calls <- CallsFull
    Ctxs <- CtxFull
    Mode = "mc"
    Depth = 0
VIEW View
INVARIANTS C43
PROPERTIES NoHookNoTrace ExpConsistent
CHECK_DEADLOCK FALSE
