------------------------------ MODULE OtelHook ------------------------------
(***************************************************************************)
(* The OpenTelemetry dispatch hook of vgi-rpc-go (vgirpc/otel/otel.go) and *)
(* the places where the servers call it (server_serve.go:serveOne,         *)
(* http_unary.go, http_stream.go:startDispatchHook).                       *)
(*                                                                         *)
(* The specification is a LEDGER over dispatches.  A request arrives from  *)
(* a client, the server routes it (some requests never reach the hook),    *)
(* OnDispatchStart extracts the caller's trace context from                *)
(* DispatchInfo.TransportMetadata and starts a server span, the method     *)
(* runs (or the HTTP version gate refuses), OnDispatchEnd first records    *)
(* the metrics and then sets the span status and ends the span, and the    *)
(* client gets its response.  One action per decision point of the code;   *)
(* C43 is stated declaratively over the ledger at the end.                 *)
(*                                                                         *)
(* A "dispatch" is what the servers make of it:                            *)
(*   pipe : one per request that names a registered method and passes the  *)
(*          version gate - a whole stream (init + every tick) is ONE       *)
(*          dispatch (serveOne);                                           *)
(*   HTTP : one per POST that reaches startDispatchHook - unary, stream    *)
(*          init, and EVERY continuation / exchange / cancel POST; the     *)
(*          version gate runs after OnDispatchStart, so a refused version  *)
(*          is a started, failed dispatch.                                 *)
(*                                                                         *)
(* How a traceparent reaches the hook:                                     *)
(*   pipe : request batch custom metadata keys traceparent / tracestate    *)
(*          (TransportMetadata = req.Metadata);                            *)
(*   HTTP : buildHTTPTransportMeta - the IPC metadata of the request batch *)
(*          overlaid by the Traceparent / Tracestate HEADERS when those    *)
(*          are non-empty (each key independently); on continuation POSTs  *)
(*          the IPC metadata is NOT consulted (buildHTTPTransportMeta(nil, *)
(*          r)), only the headers.                                         *)
(***************************************************************************)
EXTENDS Naturals, Sequences, FiniteSets, TLC, VerifEmit

CONSTANTS
    Clients,     \* sequential callers; each has its own pipe connection and HTTP stream token
    MaxReq,      \* requests per behaviour
    Cfgs,        \* hook configurations offered to Init
    Calls,       \* call shapes offered to Arrive
    Ctxs,        \* trace-context shapes offered to Arrive
    Mode,        \* "mc" | "edges" | "tree" | "trace"
    Depth        \* tree mode: behaviours of exactly Depth steps (Init + Depth-1 requests)

VARIABLES
    cfg,         \* the OtelConfig in force: [tracing, metrics, sampler, prop]
    inflight,    \* client -> the request it has inside the server (or Idle)
    stream,      \* client -> HTTP stream token it holds: "none" | "producer" | "exchange"
    disp,        \* THE LEDGER: sequence of dispatch records, in OnDispatchStart order
    nreq,        \* requests that have arrived so far
    hist

vars == <<cfg, inflight, stream, disp, nreq, hist>>

--------------------------------------------------------------------------
(* Alphabets.                                                              *)

\* traceparent classes: none | sampled | unsampled (valid, flags 00) | malformed
\* tracestate  classes: none | valid | malformed
TC(tp, ts) == [tp |-> tp, ts |-> ts]
NoTC == TC("none", "none")
Valid(tp) == tp \in {"sampled", "unsampled"}

TCs == { TC("none", "none"), TC("none", "valid"),
         TC("sampled", "none"), TC("sampled", "valid"), TC("sampled", "malformed"),
         TC("unsampled", "none"), TC("unsampled", "valid"),
         TC("malformed", "none"), TC("malformed", "valid") }

\* a request's trace context: hdr = HTTP Traceparent/Tracestate headers,
\* meta = traceparent/tracestate keys in the request batch's custom metadata
X(h, m) == [hdr |-> h, meta |-> m]
CtxMeta == { X(NoTC, m) : m \in TCs }
CtxHdr  == { X(h, NoTC) : h \in TCs }
CtxBoth == { X(h, m) : h \in { TC("sampled", "valid"), TC("sampled", "none"), TC("unsampled", "none"),
                               TC("malformed", "none"), TC("none", "valid") },
                       m \in { TC("sampled", "valid"), TC("sampled", "none"), TC("malformed", "none") } }
CtxFull  == CtxMeta \cup CtxHdr \cup CtxBoth
CtxQuick == { X(NoTC, NoTC),
              X(NoTC, TC("sampled", "valid")), X(NoTC, TC("unsampled", "none")),
              X(NoTC, TC("malformed", "valid")), X(NoTC, TC("sampled", "malformed")),
              X(TC("sampled", "valid"), NoTC), X(TC("unsampled", "none"), NoTC),
              X(TC("malformed", "none"), NoTC), X(TC("sampled", "none"), NoTC),
              X(TC("sampled", "none"), TC("sampled", "valid")),
              X(TC("malformed", "none"), TC("sampled", "none")),
              X(TC("none", "valid"), TC("sampled", "none")) }
CtxTiny  == { X(NoTC, NoTC), X(NoTC, TC("sampled", "valid")), X(TC("sampled", "valid"), NoTC),
              X(TC("unsampled", "none"), NoTC), X(NoTC, TC("malformed", "none")) }

\* call shapes.  op = outcome of the method's own handler (unary handler, stream init
\* handler); turns = per-turn outcomes of Produce / Exchange, "cancel" = client cancel batch.
\* op = "nostate" (HTTP exchange init): the handler succeeds but returns a state object that
\* cannot be sealed into a stream token (type never passed to RegisterStateType), so the
\* server answers the init with an error.
C(tr, kind, op, turns) == [tr |-> tr, kind |-> kind, op |-> op, turns |-> turns]
NoCall == C("-", "-", "-", <<>>)

PipeProducerTurns == { <<>>, <<"finish">>, <<"emit", "finish">>, <<"emit", "emit">>, <<"error">>,
                       <<"emit", "panic">>, <<"emit", "error">>, <<"noemit">>, <<"cancel">>,
                       <<"emit", "cancel">> }
PipeExchangeTurns == { <<>>, <<"emit">>, <<"emit", "emit">>, <<"error">>, <<"panic">>,
                       <<"emit", "error">>, <<"emit", "noemit">>, <<"emit", "cancel">> }

PipeCalls ==
    { C("pipe", k, "-", <<>>) : k \in {"describe", "unknown", "vergate"} }
    \cup { C("pipe", "unary", o, <<>>) : o \in {"ok", "error", "panic", "badparams"} }
    \cup { C("pipe", "producer", o, <<>>) : o \in {"error", "panic"} }
    \cup { C("pipe", "producer", "ok", t) : t \in PipeProducerTurns }
    \cup { C("pipe", "exchange", o, <<>>) : o \in {"error", "panic"} }
    \cup { C("pipe", "exchange", "ok", t) : t \in PipeExchangeTurns }

HttpCalls ==
    { C("http", k, "-", <<>>) : k \in {"describe", "unknown", "wrongroute", "badtoken"} }
    \cup { C("http", "vergate", o, <<>>) : o \in {"unary", "init"} }
    \cup { C("http", "unary", o, <<>>) : o \in {"ok", "error", "panic", "badparams"} }
    \cup { C("http", "pinit", o, <<>>) : o \in {"error", "panic", "badparams"} }
    \cup { C("http", "pinit", "ok", <<t>>) : t \in {"emit", "finish", "error", "panic", "noemit"} }
    \cup { C("http", "pcont", "-", <<t>>) : t \in {"emit", "finish", "error", "panic", "noemit"} }
    \cup { C("http", "xinit", o, <<>>) : o \in {"ok", "error", "panic", "nostate"} }
    \cup { C("http", "xturn", "-", <<t>>) : t \in {"emit", "error", "panic", "noemit"} }
    \cup { C("http", "cancel", "-", <<>>) }

CallsFull == PipeCalls \cup HttpCalls
CallsSmall ==
    { C("pipe", "describe", "-", <<>>), C("pipe", "vergate", "-", <<>>),
      C("pipe", "unary", "ok", <<>>), C("pipe", "unary", "panic", <<>>),
      C("pipe", "producer", "ok", <<"emit", "error">>), C("pipe", "exchange", "ok", <<"emit", "cancel">>),
      C("http", "unknown", "-", <<>>), C("http", "vergate", "unary", <<>>),
      C("http", "unary", "ok", <<>>), C("http", "unary", "error", <<>>),
      C("http", "pinit", "ok", <<"emit">>), C("http", "pcont", "-", <<"emit">>),
      C("http", "pcont", "-", <<"panic">>), C("http", "xinit", "ok", <<>>),
      C("http", "xturn", "-", <<"emit">>), C("http", "xturn", "-", <<"error">>),
      C("http", "cancel", "-", <<>>) }

CallsTiny ==
    { C("pipe", "unary", "ok", <<>>), C("pipe", "producer", "ok", <<"emit", "error">>),
      C("pipe", "unknown", "-", <<>>),
      C("http", "vergate", "unary", <<>>), C("http", "unary", "error", <<>>),
      C("http", "pinit", "ok", <<"emit">>), C("http", "pcont", "-", <<"emit">>),
      C("http", "pcont", "-", <<"error">>), C("http", "cancel", "-", <<>>) }
Ctx3 == { X(NoTC, NoTC), X(NoTC, TC("sampled", "valid")), X(TC("unsampled", "none"), NoTC) }

\* hook configurations.  sampler names the TracerProvider's sampling behaviour (the tracer, not
\* the hook, decides whether a span RECORDS and whether it carries the SAMPLED flag - see
\* SamplerTable below); prop = "w3c": OtelConfig.Propagator = propagation.TraceContext{};
\* prop = "global": OtelConfig.Propagator left nil, so InstrumentServer takes
\* otel.GetTextMapPropagator(), which is a no-op unless the application installed one.
Cf(t, m, s, p) == [tracing |-> t, metrics |-> m, sampler |-> s, prop |-> p]

\* What tracer.Start decides for a new span.  RECORDING and SAMPLED are independent:
\*   "drop"   : non-recording span, sampled flag cleared           (SDK Drop)
\*   "record" : recording span WITHOUT the sampled flag            (SDK RecordOnly, e.g.
\*              sdktrace.AlwaysRecord, or a child that inherits trace-flags 00 and still records)
\*   "sample" : recording span with the sampled flag               (SDK RecordAndSample)
\*   "noop"   : non-recording span that carries the caller's span context UNCHANGED, sampled
\*              flag included (the API's no-op tracer: no SDK installed)
\* A sampler is a table <<root, sampled parent, unsampled parent>> of decisions - what it
\* answers when the hook extracted no valid remote parent, one with trace-flags 01, one with
\* trace-flags 00.  Named "t_xyz" by the first letters; the three classic SDK samplers keep
\* their names.
Decisions == {"drop", "record", "sample", "noop"}
Letter(d) == CASE d = "drop" -> "d" [] d = "record" -> "r" [] d = "sample" -> "s" [] d = "noop" -> "n"
TableName(t) == "t_" \o Letter(t[1]) \o Letter(t[2]) \o Letter(t[3])
TablesSDK == { <<a, b, c>> : a \in {"drop", "record", "sample"}, b \in {"drop", "record", "sample"},
                             c \in {"drop", "record", "sample"} }
TablesAll == { <<a, b, c>> : a \in Decisions, b \in Decisions, c \in Decisions }
SamplerTable(s) ==
    CASE s = "parentbased" -> <<"sample", "sample", "drop">>      \* ParentBased(AlwaysSample)
      [] s = "always"      -> <<"sample", "sample", "sample">>    \* AlwaysSample
      [] s = "never"       -> <<"drop", "drop", "drop">>          \* NeverSample
      [] OTHER             -> CHOOSE t \in TablesAll : TableName(t) = s
\* samplers under which a span can record without being sampled / be sampled without recording
SamplersQuick == { "t_rrr",     \* AlwaysRecord(NeverSample): every span records, none is sampled
                   "t_ssr",     \* AlwaysRecord(ParentBased(AlwaysSample)): child of a 00 caller records
                   "t_rsd",     \* ParentBased(root = record-only)
                   "t_drs",     \* the inverse of the default: decisions and flags disagree throughout
                   "t_nnn" }    \* no SDK: non-recording spans that keep the caller's flags
CfgTables == { Cf(TRUE, TRUE, TableName(t), "w3c") : t \in TablesSDK }
             \cup { Cf(TRUE, TRUE, s, "w3c") : s \in {"t_nnn", "t_snn", "t_nsr"} }
             \cup { Cf(TRUE, FALSE, s, p) : s \in {"t_rrr", "t_ssr"}, p \in {"w3c", "global"} }
CfgAll == { Cf(TRUE, m, s, p) : m \in BOOLEAN, s \in {"parentbased", "always", "never"}, p \in {"w3c", "global"} }
          \cup { Cf(FALSE, m, "parentbased", p) : m \in BOOLEAN, p \in {"w3c", "global"} }
          \cup CfgTables
CfgQuick == { Cf(TRUE, TRUE, "parentbased", "w3c"), Cf(TRUE, TRUE, "always", "w3c"),
              Cf(TRUE, FALSE, "parentbased", "w3c"), Cf(FALSE, TRUE, "parentbased", "w3c"),
              Cf(TRUE, TRUE, "never", "w3c"), Cf(TRUE, TRUE, "parentbased", "global"),
              Cf(FALSE, FALSE, "parentbased", "w3c") }
            \cup { Cf(TRUE, TRUE, s, "w3c") : s \in SamplersQuick }
CfgMC == { Cf(TRUE, TRUE, "parentbased", "w3c"), Cf(TRUE, FALSE, "always", "w3c"),
           Cf(FALSE, TRUE, "parentbased", "w3c"), Cf(TRUE, TRUE, "never", "global"),
           Cf(TRUE, TRUE, "t_ssr", "w3c"), Cf(TRUE, FALSE, "t_rrr", "w3c"), Cf(TRUE, TRUE, "t_nnn", "w3c") }
CfgRec == { Cf(TRUE, TRUE, s, "w3c") : s \in SamplersQuick }
CfgOne == { Cf(TRUE, TRUE, "parentbased", "w3c") }

--------------------------------------------------------------------------
(* What the servers make of a call.                                        *)

IsContinuation(c) == c.kind \in {"pcont", "xturn", "cancel"}
NeedsStream(c) == CASE c.kind = "pcont" -> {"producer"}
                    [] c.kind = "xturn" -> {"exchange"}
                    [] c.kind = "cancel" -> {"producer", "exchange"}
                    [] c.kind \in {"pinit", "xinit"} -> {"none"}
                    [] OTHER -> {"none", "producer", "exchange"}

\* does the request reach OnDispatchStart?  pipe: __describe__, unknown methods and the
\* version gate all answer before the hook; HTTP: __describe__, 404, wrong endpoint and a
\* token that does not open answer before it, the version gate does not.
ReachesHook(c) ==
    IF c.tr = "pipe" THEN c.kind \in {"unary", "producer", "exchange"}
    ELSE c.kind \in {"vergate", "unary", "pinit", "pcont", "xinit", "xturn", "cancel"}

\* a turn fails when Produce/Exchange returns an error or panics, or when it returns without
\* emitting a data batch (OutputCollector.validate)
TurnFails(t) == \E i \in 1..Len(t) : t[i] \in {"error", "panic", "noemit"}

\* handlerErr as the servers compute it = "the call failed"
CallFails(c) ==
    CASE c.kind = "vergate" -> TRUE
      [] c.kind = "unary" -> c.op # "ok"
      [] c.kind \in {"producer", "exchange", "pinit", "xinit"} -> c.op # "ok" \/ TurnFails(c.turns)
      [] c.kind \in {"pcont", "xturn"} -> TurnFails(c.turns)
      [] OTHER -> FALSE

\* what the client can tell from the response (harness self-check, not judged)
ClientSeesError(c) == IF ReachesHook(c) THEN CallFails(c) ELSE c.kind # "describe"

\* HTTP stream token the client holds after the response
StreamAfter(c, before) ==
    CASE c.kind = "pinit" -> IF c.op = "ok" /\ c.turns = <<"emit">> THEN "producer" ELSE "none"
      [] c.kind = "pcont" -> IF c.turns = <<"emit">> THEN "producer" ELSE "none"
      [] c.kind = "xinit" -> IF c.op = "ok" THEN "exchange" ELSE "none"
      [] c.kind = "xturn" -> IF c.turns = <<"emit">> THEN "exchange" ELSE "none"
      [] c.kind = "cancel" -> "none"
      [] OTHER -> before

--------------------------------------------------------------------------
(* The hook's own decisions (otel.go).                                     *)

\* DispatchInfo.TransportMetadata restricted to the two keys the propagator reads, each
\* with the carrier it came from
Pick(h, m) == IF h # "none" THEN [v |-> h, src |-> "hdr"]
              ELSE IF m # "none" THEN [v |-> m, src |-> "meta"]
              ELSE [v |-> "none", src |-> "none"]
TransportMeta(c, x) ==
    LET h == IF c.tr = "pipe" THEN NoTC ELSE x.hdr
        m == IF c.tr = "http" /\ IsContinuation(c) THEN NoTC ELSE x.meta
    IN [tp |-> Pick(h.tp, m.tp), ts |-> Pick(h.ts, m.ts)]

\* h.cfg.Propagator.Extract: a valid traceparent becomes the remote parent; a tracestate
\* that does not parse is dropped without invalidating the traceparent
NoParent == [valid |-> FALSE, src |-> "none", sampled |-> FALSE, ts |-> "none"]
Extract(tm) ==
    IF cfg.prop = "w3c" /\ Valid(tm.tp.v)
    THEN [valid |-> TRUE, src |-> tm.tp.src, sampled |-> tm.tp.v = "sampled",
          ts |-> IF tm.ts.v = "valid" THEN tm.ts.src ELSE "none"]
    ELSE NoParent

\* the tracer's decision for a span whose remote parent is `parent` (tracer.Start)
Decide(parent) ==
    LET t == SamplerTable(cfg.sampler) IN
    IF ~parent.valid THEN t[1] ELSE IF parent.sampled THEN t[2] ELSE t[3]
IsRecordingOf(d) == d \in {"record", "sample"}
IsSampledOf(d, parent) == CASE d = "sample" -> TRUE
                            [] d = "noop" -> parent.valid /\ parent.sampled
                            [] OTHER -> FALSE

\* touched = calls the hook made on the span after Start (SetAttributes / SetStatus /
\* RecordError / End), counted only to state "nothing is done to a non-recording span"
NoSpan == [started |-> FALSE, recording |-> FALSE, sampled |-> FALSE, parent |-> "root", ts |-> "none",
           ends |-> 0, status |-> "Unset", touched |-> FALSE]
StartSpan(parent) ==
    IF ~cfg.tracing THEN NoSpan        \* &spanToken{startTime: ...} without a span
    ELSE LET d == Decide(parent) IN
         [started |-> TRUE, recording |-> IsRecordingOf(d), sampled |-> IsSampledOf(d, parent),
          parent |-> IF parent.valid THEN parent.src ELSE "root",
          ts |-> parent.ts, ends |-> 0, status |-> "Unset", touched |-> FALSE]

--------------------------------------------------------------------------
Idle == [n |-> 0, call |-> NoCall, ctx |-> X(NoTC, NoTC), phase |-> "idle", d |-> 0]

Record(step) ==
    /\ hist' = IF Mode = "trace" THEN hist ELSE Append(hist, step)
    /\ (Mode = "edges") => EmitTrace(hist')
    /\ (Mode = "tree" /\ Len(hist') = Depth) => EmitTrace(hist')

Busy == { cl \in Clients : inflight[cl].phase # "idle" }
Budget == (Mode = "tree") => Len(hist) + Cardinality(Busy) < Depth

Set(cl, r) == inflight' = [inflight EXCEPT ![cl] = r]
SetDisp(i, f, v) == disp' = [disp EXCEPT ![i] = [@ EXCEPT ![f] = v]]

\* a client sends a request
CanArrive(cl) == Budget /\ nreq < MaxReq /\ inflight[cl].phase = "idle"
Arrive(cl, c, x) ==
    /\ stream[cl] \in NeedsStream(c)
    /\ (c.tr = "pipe") => x.hdr = NoTC
    /\ nreq' = nreq + 1
    /\ Set(cl, [n |-> nreq + 1, call |-> c, ctx |-> x, phase |-> "arrived", d |-> 0])
    /\ UNCHANGED <<cfg, stream, disp, hist>>

\* serveOne / handleUnary / handleStream*: answered before the hook is consulted
Server_AnswerWithoutHook(cl) ==
    LET r == inflight[cl] IN
    /\ r.phase = "arrived" /\ ~ReachesHook(r.call)
    /\ Set(cl, [r EXCEPT !.phase = "nohook"])
    /\ UNCHANGED <<cfg, stream, disp, nreq, hist>>

\* otelHook.OnDispatchStart
Hook_OnDispatchStart(cl) ==
    LET r == inflight[cl]
        parent == Extract(TransportMeta(r.call, r.ctx))
    IN
    /\ r.phase = "arrived" /\ ReachesHook(r.call)
    /\ disp' = Append(disp, [n |-> r.n, call |-> r.call, ctx |-> r.ctx, span |-> StartSpan(parent),
                             failed |-> FALSE, adds |-> <<>>, durations |-> 0, done |-> FALSE])
    /\ Set(cl, [r EXCEPT !.phase = "started", !.d = Len(disp) + 1])
    /\ UNCHANGED <<cfg, stream, nreq, hist>>

\* between the hooks: version gate (HTTP), parameter binding, the method itself, every
\* stream turn of this dispatch; the servers hand the outcome to OnDispatchEnd as err
Server_RunCall(cl) ==
    LET r == inflight[cl] IN
    /\ r.phase = "started"
    /\ SetDisp(r.d, "failed", CallFails(r.call))
    /\ Set(cl, [r EXCEPT !.phase = "handled"])
    /\ UNCHANGED <<cfg, stream, nreq, hist>>

\* OnDispatchEnd, first half: "Record metrics"
Hook_OnDispatchEnd_Metrics(cl) ==
    LET r == inflight[cl] IN
    /\ r.phase = "handled"
    /\ IF cfg.metrics
       THEN disp' = [disp EXCEPT ![r.d] = [@ EXCEPT
                        !.adds = Append(@, IF disp[r.d].failed THEN "error" ELSE "ok"),
                        !.durations = @ + 1]]
       ELSE UNCHANGED disp
    /\ Set(cl, [r EXCEPT !.phase = "metered"])
    /\ UNCHANGED <<cfg, stream, nreq, hist>>

\* OnDispatchEnd, second half: "Record span attributes and status", then span.End().
\* The gate is `st.span != nil && st.span.IsRecording()`: the span's sampled flag
\* (span.SpanContext().IsSampled()) plays no part in it.
Hook_OnDispatchEnd_Span(cl) ==
    LET r == inflight[cl]  sp == disp[r.d].span IN
    /\ r.phase = "metered"
    /\ IF sp.started /\ sp.recording
       THEN SetDisp(r.d, "span", [sp EXCEPT !.status = IF disp[r.d].failed THEN "Error" ELSE "Ok",
                                            !.ends = @ + 1, !.touched = TRUE])
       ELSE UNCHANGED disp
    /\ Set(cl, [r EXCEPT !.phase = "ended"])
    /\ UNCHANGED <<cfg, stream, nreq, hist>>

--------------------------------------------------------------------------
(* Observation of one completed request.                                   *)

\* The caller's traceparent in the sense of C43: a valid traceparent sent on the
\* transport's own carrier (pipe: request metadata, HTTP: the Traceparent header).
\* "?" where the statement does not decide: an HTTP caller that (also) put a valid
\* traceparent into the IPC metadata.
Caller(c, x) ==
    IF c.tr = "pipe" THEN (IF Valid(x.meta.tp) THEN "meta" ELSE "none")
    ELSE IF Valid(x.meta.tp) THEN "?"
    ELSE IF Valid(x.hdr.tp) THEN "hdr" ELSE "none"

CountOf(s, v) == Cardinality({ i \in 1..Len(s) : s[i] = v })
SumAdds(l, v) ==
    LET RECURSIVE F(_)
        F(i) == IF i = 0 THEN 0 ELSE CountOf(l[i].adds, v) + F(i - 1)
    IN F(Len(l))
Recording(l) == { i \in 1..Len(l) : l[i].span.started /\ l[i].span.recording }

\* keys ending in _free carry a prediction C43 does not decide (never judged)
ExpOf(r, l, streamAfter) ==
    LET hooked == r.d # 0
        rec == hooked /\ l[r.d].span.started /\ l[r.d].span.recording
        sp == IF hooked THEN l[r.d].span ELSE NoSpan
        adds == IF hooked THEN l[r.d].adds ELSE <<>>
        decided == cfg.prop = "w3c" /\ Caller(r.call, r.ctx) \in {"meta", "hdr"}
    IN  ((IF cfg.tracing THEN "spans" ELSE "spans_free")
            :> (IF rec THEN << [ends |-> sp.ends, err |-> sp.status = "Error"] >> ELSE <<>>))
     @@ ((IF decided THEN "parent" ELSE "parent_free") :> (IF rec THEN <<sp.parent>> ELSE <<>>))
     @@ ((IF cfg.metrics THEN "count" ELSE "count_free")
            :> [ok |-> CountOf(adds, "ok"), error |-> CountOf(adds, "error")])
     @@ ((IF cfg.metrics THEN "total" ELSE "total_free")
            :> [ok |-> SumAdds(l, "ok"), error |-> SumAdds(l, "error")])
     @@ [ open |-> Cardinality({ i \in Recording(l) : l[i].span.ends = 0 }),
          multi |-> Cardinality({ i \in Recording(l) : l[i].span.ends > 1 }),
          \* what the tracer decided for the span this dispatch started (harness self-check:
          \* the driver's TracerProvider implements SamplerTable) ...
          flags |-> IF sp.started THEN << [rec |-> sp.recording, sampled |-> sp.sampled] >> ELSE <<>>,
          \* ... and the non-recording spans of the whole history the hook called anything on
          touched |-> Cardinality({ i \in 1..Len(l) : l[i].span.started /\ ~l[i].span.recording
                                                        /\ l[i].span.touched }),
          \* span.RecordError happened iff the span got status Error and RecordExceptions is on
          exc_ok |-> IF rec THEN <<TRUE>> ELSE <<>>,
          status |-> IF rec THEN <<sp.status>> ELSE <<>>,
          tstate |-> IF rec THEN <<sp.ts>> ELSE <<>>,
          durations |-> IF hooked THEN l[r.d].durations ELSE 0,
          client_err |-> ClientSeesError(r.call),
          stream |-> streamAfter ]

\* the response reaches the client
Respond(cl) ==
    LET r == inflight[cl]
        after == StreamAfter(r.call, stream[cl])
        l == IF r.d = 0 THEN disp ELSE [disp EXCEPT ![r.d] = [@ EXCEPT !.done = TRUE]]
    IN
    /\ r.phase \in {"nohook", "ended"}
    /\ disp' = l
    /\ stream' = [stream EXCEPT ![cl] = after]
    /\ Set(cl, Idle)
    /\ Record([a |-> r.call.tr \o "." \o r.call.kind,
               args |-> [cl |-> cl, n |-> r.n, call |-> r.call, ctx |-> r.ctx],
               exp |-> ExpOf(r, l, after)])
    /\ UNCHANGED <<cfg, nreq>>

--------------------------------------------------------------------------
Init ==
    /\ cfg \in Cfgs
    /\ inflight = [cl \in Clients |-> Idle]
    /\ stream = [cl \in Clients |-> "none"]
    /\ disp = <<>>
    /\ nreq = 0
    /\ hist = << [a |-> "Init", args |-> [cfg |-> cfg, clients |-> Cardinality(Clients)],
                  exp |-> [ok |-> TRUE]] >>

Server(cl) == \/ Server_AnswerWithoutHook(cl) \/ Hook_OnDispatchStart(cl) \/ Server_RunCall(cl)
              \/ Hook_OnDispatchEnd_Metrics(cl) \/ Hook_OnDispatchEnd_Span(cl) \/ Respond(cl)

Next == \E cl \in Clients :
            \/ CanArrive(cl) /\ \E c \in Calls, x \in Ctxs : Arrive(cl, c, x)
            \/ Server(cl)

Spec == Init /\ [][Next]_vars
FairSpec == Spec /\ \A cl \in Clients : WF_vars(Server(cl))

--------------------------------------------------------------------------
(* C43, stated over the ledger.                                            *)

Done == { i \in 1..Len(disp) : disp[i].done }

\* no recording span is ever ended twice ...
NeverEndedTwice == \A i \in Recording(disp) : disp[i].span.ends <= 1
\* ... and once its dispatch is over it has been ended exactly once
EndedExactlyOnce == \A i \in Recording(disp) \cap Done : disp[i].span.ends = 1
\* a span that has not been started by the hook is never ended
OnlyStartedSpansEnd == \A i \in 1..Len(disp) : disp[i].span.ends > 0 => disp[i].span.started
\* whether a span is ended (and given a status) depends on whether it RECORDS, never on its
\* sampled flag: recording spans are covered by EndedExactlyOnce / ErrorIffFailed whatever
\* their flag; a span that does not record is left alone whatever its flag
NonRecordingLeftAlone ==
    \A i \in 1..Len(disp) : (disp[i].span.started /\ ~disp[i].span.recording)
        => disp[i].span.ends = 0 /\ disp[i].span.status = "Unset" /\ ~disp[i].span.touched
\* model sanity: the two attributes really are independent in the configurations checked
\* (use as an INVARIANT expected to be VIOLATED to see a recording unsampled span reached)
NoRecordingUnsampledSpan == \A i \in Recording(disp) : disp[i].span.sampled

\* marked as an error exactly when the call failed
ErrorIffFailed ==
    \A i \in Recording(disp) \cap Done : (disp[i].span.status = "Error") <=> CallFails(disp[i].call)

\* parented on the caller's traceparent when one was sent (and a W3C propagator is configured)
ParentedOnCaller ==
    \A i \in Recording(disp) :
        (cfg.prop = "w3c" /\ Caller(disp[i].call, disp[i].ctx) \in {"meta", "hdr"})
            => disp[i].span.parent = Caller(disp[i].call, disp[i].ctx)

\* counted once in the request metric, with the matching status
CountedOnceWithStatus ==
    cfg.metrics => \A i \in Done :
        disp[i].adds = << IF CallFails(disp[i].call) THEN "error" ELSE "ok" >>
NeverCountedTwice == \A i \in 1..Len(disp) : Len(disp[i].adds) <= 1
\* counter total = number of dispatches (at rest)
CounterTotalsDispatches ==
    (cfg.metrics /\ Busy = {}) => SumAdds(disp, "ok") + SumAdds(disp, "error") = Len(disp)
\* the ledger has one entry per request that reached the hook, none for the others
LedgerMatchesRequests ==
    /\ \A i, j \in 1..Len(disp) : i # j => disp[i].n # disp[j].n
    /\ \A i \in 1..Len(disp) : ReachesHook(disp[i].call)

C43 == /\ NeverEndedTwice /\ EndedExactlyOnce /\ OnlyStartedSpansEnd /\ NonRecordingLeftAlone /\ ErrorIffFailed
       /\ ParentedOnCaller /\ CountedOnceWithStatus /\ NeverCountedTwice
       /\ CounterTotalsDispatches /\ LedgerMatchesRequests

\* a request that never reached the hook leaves the ledger alone (action property)
NoHookNoTrace ==
    [][ \A cl \in Clients :
          (inflight[cl].phase = "nohook" /\ inflight'[cl].phase = "idle") => disp' = disp ]_vars

\* what the replay judges is what the ledger says (ties exp to the declarative statement)
Last == hist'[Len(hist')]
ExpConsistent ==
    [][ (Len(hist') > Len(hist)) =>
          /\ ("spans" \in DOMAIN Last.exp) =>
                /\ \A k \in 1..Len(Last.exp.spans) :
                    /\ Last.exp.spans[k].ends = 1
                    /\ Last.exp.spans[k].err = CallFails(Last.args.call)
                \* one entry per span that records - sampled or not - and none for the others
                /\ Len(Last.exp.spans) = Cardinality({ k \in 1..Len(Last.exp.flags) : Last.exp.flags[k].rec })
          /\ Last.exp.touched = 0
          /\ ("parent" \in DOMAIN Last.exp) =>
                \A k \in 1..Len(Last.exp.parent) : Last.exp.parent[k] = Caller(Last.args.call, Last.args.ctx)
          /\ ("count" \in DOMAIN Last.exp) =>
                Last.exp.count = IF ~ReachesHook(Last.args.call) THEN [ok |-> 0, error |-> 0]
                                 ELSE IF CallFails(Last.args.call) THEN [ok |-> 0, error |-> 1]
                                 ELSE [ok |-> 1, error |-> 0]
          /\ Last.exp.multi = 0
          /\ (Cardinality(Clients) = 1) => Last.exp.open = 0 ]_vars

\* liveness: every recording span that is started is eventually ended
SpansEventuallyEnded ==
    \A k \in 1..MaxReq :
        (\E i \in Recording(disp) : disp[i].n = k /\ disp[i].span.ends = 0)
            ~> (\E i \in Recording(disp) : disp[i].n = k /\ disp[i].span.ends = 1)
Quiesces == <>[](Busy = {})

--------------------------------------------------------------------------
View == <<cfg, inflight, stream, disp, nreq>>
\* generation: the ledger and request numbers do not influence what happens next
Shape(r) == [call |-> r.call, ctx |-> r.ctx, phase |-> r.phase]
GenView == <<cfg, [cl \in Clients |-> Shape(inflight[cl])], stream>>
=============================================================================
