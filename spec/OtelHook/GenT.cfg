SPECIFICATION Spec
CONSTANTS
    Clients = {1}
    MaxReq = 3
    Cfgs <- CfgOne
    Calls <- CallsSmall
    Ctxs <- Ctx3
    Mode = "tree"
    Depth = 4
CHECK_DEADLOCK FALSE
