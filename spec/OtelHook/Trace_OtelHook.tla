--------------------------- MODULE Trace_OtelHook ---------------------------
(***************************************************************************)
(* Trace validation (binding V): executions of the real hook under         *)
(* CONCURRENT clients (several pipe connections and HTTP callers sharing   *)
(* one instrumented Server) must be behaviours of OtelHook.  The recorder  *)
(* logs, in one total order (a mutex in the driver):                       *)
(*   arrive      - a client is about to send request n                     *)
(*   span_start  - tracer.Start returned inside OnDispatchStart            *)
(*   counter_add - rpc.server.requests.Add inside OnDispatchEnd            *)
(*   span_end    - span.End() inside OnDispatchEnd                         *)
(*   respond     - the client has the complete response                    *)
(* span_start carries what the tracer decided (recording, sampled flag -   *)
(* independent of each other, see SamplerTable); a span_end logged for a   *)
(* span that does not record has no matching action, and a recording span  *)
(* without a span_end blocks its respond - whatever its sampled flag.      *)
(* Routing, the method run, and the hook steps that leave no event         *)
(* (tracing or metrics disabled, non-recording span) are not logged; they  *)
(* touch only the request's own slot and ledger entry, so they are taken   *)
(* as soon as they are enabled (Settled) - the interleaving that matters,  *)
(* between the logged hook events of different requests, is the recorded   *)
(* one.                                                                    *)
(***************************************************************************)
EXTENDS OtelHook, Json

VARIABLES ti, li
tvars == <<vars, ti, li>>

Traces == JsonDeserialize("trace.json").traces
NT == Len(Traces)
E == Traces[ti].events
Ev == E[li]

Reset(c) ==
    /\ cfg' = c
    /\ inflight' = [cl \in Clients |-> Idle]
    /\ stream' = [cl \in Clients |-> "none"]
    /\ disp' = <<>>
    /\ nreq' = 0

TInit ==
    /\ ti = 1 /\ li = 1
    /\ cfg = Traces[1].cfg /\ cfg \in Cfgs
    /\ inflight = [cl \in Clients |-> Idle]
    /\ stream = [cl \in Clients |-> "none"]
    /\ disp = <<>> /\ nreq = 0 /\ hist = <<>>
    /\ TLCSet(2, 0)

Keep == UNCHANGED <<ti, li>>
Consume == ti' = ti /\ li' = li + 1
HaveEv == ti <= NT /\ li <= Len(E)
Holder(n) == { cl \in Clients : inflight[cl].n = n /\ inflight[cl].phase # "idle" }
SpanOf(r) == disp[r.d].span
Rec(r) == r.d # 0 /\ SpanOf(r).started /\ SpanOf(r).recording

\* unlogged steps
SilentOf(cl) ==
    LET r == inflight[cl] IN
    \/ Server_AnswerWithoutHook(cl)
    \/ ~cfg.tracing /\ Hook_OnDispatchStart(cl)
    \/ Server_RunCall(cl)
    \/ ~cfg.metrics /\ Hook_OnDispatchEnd_Metrics(cl)
    \/ r.phase = "metered" /\ ~Rec(r) /\ Hook_OnDispatchEnd_Span(cl)
T_Silent == ti <= NT /\ \E cl \in Clients : SilentOf(cl) /\ Keep
Settled == ~ENABLED (\E cl \in Clients : SilentOf(cl))

T_Arrive ==
    /\ HaveEv /\ Settled /\ Ev.ev = "arrive"
    /\ Ev.n = nreq + 1 /\ Ev.cl \in Clients /\ Ev.call \in Calls /\ Ev.ctx \in Ctxs
    /\ CanArrive(Ev.cl) /\ Arrive(Ev.cl, Ev.call, Ev.ctx)
    /\ Consume

T_SpanStart ==
    /\ HaveEv /\ Settled /\ Ev.ev = "span_start" /\ cfg.tracing
    /\ \E cl \in Holder(Ev.n) :
          /\ Hook_OnDispatchStart(cl)
          /\ LET sp == disp'[Len(disp')].span IN
             /\ sp.started /\ sp.recording = Ev.recording /\ sp.sampled = Ev.sampled
             /\ sp.recording => (sp.parent = Ev.parent /\ sp.ts = Ev.ts)
    /\ Consume

T_CounterAdd ==
    /\ HaveEv /\ Settled /\ Ev.ev = "counter_add" /\ cfg.metrics
    /\ \E cl \in Holder(Ev.n) :
          /\ Hook_OnDispatchEnd_Metrics(cl)
          /\ LET a == disp'[inflight[cl].d].adds IN a[Len(a)] = Ev.status
    /\ Consume

T_SpanEnd ==
    /\ HaveEv /\ Settled /\ Ev.ev = "span_end"
    /\ \E cl \in Holder(Ev.n) :
          /\ inflight[cl].phase = "metered" /\ Rec(inflight[cl])
          /\ Hook_OnDispatchEnd_Span(cl)
          /\ disp'[inflight[cl].d].span.status = Ev.status
    /\ Consume

T_Respond ==
    /\ HaveEv /\ Settled /\ Ev.ev = "respond"
    /\ \E cl \in Holder(Ev.n) :
          /\ cl = Ev.cl
          /\ Respond(cl)
          /\ stream'[cl] = Ev.stream
          /\ ClientSeesError(inflight[cl].call) = Ev.client_err
    /\ Consume

\* end of one recorded execution: the log is consumed, nothing is in flight, and what the
\* SDK holds at rest (ManualReader totals, SpanRecorder) equals the ledger
T_Finish ==
    /\ ti <= NT /\ li > Len(E) /\ Settled /\ Busy = {}
    /\ cfg.metrics => /\ Traces[ti].total.ok = SumAdds(disp, "ok")
                      /\ Traces[ti].total.error = SumAdds(disp, "error")
    /\ Traces[ti].recorded_ended = Cardinality(Recording(disp))
    /\ Traces[ti].recorded_error = Cardinality({ i \in Recording(disp) : CallFails(disp[i].call) })
    /\ ti' = ti + 1 /\ li' = 1
    /\ Reset(IF ti + 1 <= NT THEN Traces[ti + 1].cfg ELSE cfg)
    /\ UNCHANGED hist

TNext == T_Silent \/ T_Arrive \/ T_SpanStart \/ T_CounterAdd \/ T_SpanEnd \/ T_Respond \/ T_Finish
TraceSpec == TInit /\ [][TNext]_tvars

Accepted == ti > NT
AcceptAndStop == Accepted => /\ PrintT(<<"TRACE-ACCEPTED", NT>>)
                             /\ TLCSet("exit", TRUE)
Progress == ti * 1000000 + li
HighWater ==
    /\ AcceptAndStop
    /\ IF Progress > TLCGet(2) THEN TLCSet(2, Progress) ELSE TRUE
ReportHighWater == PrintT(<<"TRACE-HIGHWATER", TLCGet(2)>>)
=============================================================================
