SPECIFICATION TraceSpec
CONSTANTS
    Clients = {1, 2, 3, 4}
    MaxReq = 1000000
    Cfgs <- CfgAll
    Calls <- CallsFull
    Ctxs <- CtxFull
    Mode = "trace"
    Depth = 0
CONSTRAINT HighWater
INVARIANTS NeverEndedTwice EndedExactlyOnce OnlyStartedSpansEnd NonRecordingLeftAlone ErrorIffFailed ParentedOnCaller CountedOnceWithStatus NeverCountedTwice LedgerMatchesRequests
POSTCONDITION ReportHighWater
CHECK_DEADLOCK FALSE
