SPECIFICATION Spec
CONSTANTS
    Clients = {1, 2}
    MaxReq = 2
    Cfgs <- CfgMC
    Calls <- CallsTiny
    Ctxs <- Ctx3
    Mode = "mc"
    Depth = 0
VIEW View
INVARIANTS NeverEndedTwice EndedExactlyOnce OnlyStartedSpansEnd NonRecordingLeftAlone ErrorIffFailed ParentedOnCaller CountedOnceWithStatus NeverCountedTwice CounterTotalsDispatches LedgerMatchesRequests
PROPERTIES NoHookNoTrace ExpConsistent
CHECK_DEADLOCK FALSE
