SPECIFICATION Spec
CONSTANTS
    Clients = {1, 2}
    MaxReq = 2
    Cfgs <- CfgMC
    Calls <- CallsTiny
    Ctxs <- Ctx3
    Mode = "mc"
    Depth = 0
VIEW View
INVARIANTS C43
PROPERTIES NoHookNoTrace ExpConsistent
CHECK_DEADLOCK FALSE
