SPECIFICATION Spec
CONSTANTS
    Clients = {1}
    MaxReq = 3
    Cfgs <- CfgMC
    Calls <- CallsSmall
    Ctxs <- Ctx3
    Mode = "mc"
    Depth = 0
VIEW View
INVARIANTS NeverEndedTwice EndedExactlyOnce OnlyStartedSpansEnd ErrorIffFailed ParentedOnCaller CountedOnceWithStatus NeverCountedTwice CounterTotalsDispatches LedgerMatchesRequests
PROPERTIES NoHookNoTrace ExpConsistent
CHECK_DEADLOCK FALSE
