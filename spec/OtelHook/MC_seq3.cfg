SPECIFICATION Spec
CONSTANTS
    Clients = {1}
    MaxReq = 3
    Cfgs <- CfgQuick
    Calls <- CallsSmall
    Ctxs <- Ctx3
    Mode = "mc"
    Depth = 0
VIEW View
INVARIANTS C43
PROPERTIES NoHookNoTrace ExpConsistent
CHECK_DEADLOCK FALSE
