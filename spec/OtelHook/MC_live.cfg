SPECIFICATION FairSpec
CONSTANTS
    Clients = {1, 2}
    MaxReq = 2
    Cfgs <- CfgOne
    Calls <- CallsTiny
    Ctxs <- Ctx3
    Mode = "mc"
    Depth = 0
PROPERTIES SpansEventuallyEnded Quiesces
CHECK_DEADLOCK FALSE
