SPECIFICATION Spec
CONSTANTS
    Clients = {1}
    MaxReq = 4
    Cfgs <- CfgQuick
    Calls <- CallsFull
    Ctxs <- CtxQuick
    Mode = "edges"
    Depth = 0
VIEW GenView
CHECK_DEADLOCK FALSE
