\* staged uploads of 3 goroutines: every overlap (also three calls in flight at once), 3 uploads
SPECIFICATION Spec
CONSTANTS
    Threads = {1, 2, 3}
    MaxUploads = 3
    MaxClock = 0
    Design = "random"
    Vias = {"gen"}
    Stations = {"minted", "assembled", "arrived", "stored", "presign"}
    Encs = {"none", "zstd"}
    Shared = {}
    Mode = "mc"
    Depth = 0
VIEW View
INVARIANTS NoOverwrite UploadsIsolated
PROPERTIES ObservationsGood
CHECK_DEADLOCK FALSE
