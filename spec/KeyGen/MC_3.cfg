SPECIFICATION Spec
CONSTANTS
    Threads = {1, 2, 3}
    MaxUploads = 5
    MaxClock = 3
    Design = "random"
    Vias = {"gen"}
    Mode = "mc"
    Depth = 0
VIEW View
INVARIANTS NoOverwrite
CHECK_DEADLOCK FALSE
