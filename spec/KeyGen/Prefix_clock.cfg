\* Pre-fix design (Design = "clock": S3 generateUUID as found). EXPECTED RESULT: TLC reports
\* "Invariant NoOverwrite is violated" after two MakeKey steps without a Tick in between.
\* Not in module.json; run by hand: tlc -config Prefix_clock.cfg KeyGen.tla
SPECIFICATION Spec
CONSTANTS
    Threads = {1, 2}
    MaxUploads = 4
    MaxClock = 3
    Design = "clock"
    Vias = {"gen"}
    Stations = {}
    Encs = {}
    Shared = {}
    Mode = "mc"
    Depth = 0
VIEW View
INVARIANTS NoOverwrite UploadsIsolated
PROPERTIES ObservationsGood
CHECK_DEADLOCK FALSE
