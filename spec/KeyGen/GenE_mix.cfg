\* staged uploads mixed with free-running batches of real Upload calls on the same storage (a batch runs while a call is held at any station)
SPECIFICATION Spec
CONSTANTS
    Threads = {1, 2}
    MaxUploads = 2
    MaxClock = 0
    Design = "random"
    Vias = {"upload"}
    Stations = {"minted", "assembled", "arrived", "stored", "presign"}
    Encs = {"none", "zstd"}
    Shared = {}
    Mode = "edges"
    Depth = 0
VIEW View
CHECK_DEADLOCK FALSE
