\* three goroutines: up to three Upload calls in flight at once, all five stations
SPECIFICATION Spec
CONSTANTS
    Threads = {1, 2, 3}
    MaxUploads = 3
    MaxClock = 0
    Design = "random"
    Vias = {}
    Stations = {"minted", "assembled", "arrived", "stored", "presign"}
    Encs = {"zstd"}
    Shared = {}
    Mode = "edges"
    Depth = 0
VIEW View
CHECK_DEADLOCK FALSE
