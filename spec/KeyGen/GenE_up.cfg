\* staged uploads: every (state, action) edge of 2 goroutines / 3 Upload calls held at all five stations, two encodings
SPECIFICATION Spec
CONSTANTS
    Threads = {1, 2}
    MaxUploads = 3
    MaxClock = 0
    Design = "random"
    Vias = {}
    Stations = {"minted", "assembled", "arrived", "stored", "presign"}
    Encs = {"none", "zstd"}
    Shared = {}
    Mode = "edges"
    Depth = 0
VIEW View
CHECK_DEADLOCK FALSE
