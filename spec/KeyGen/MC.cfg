SPECIFICATION Spec
CONSTANTS
    Threads = {1, 2}
    MaxUploads = 4
    MaxClock = 3
    Design = "random"
    Vias = {"gen"}
    Stations = {}
    Encs = {}
    Shared = {}
    Mode = "mc"
    Depth = 0
VIEW View
INVARIANTS NoOverwrite UploadsIsolated
PROPERTIES ObservationsGood
CHECK_DEADLOCK FALSE
