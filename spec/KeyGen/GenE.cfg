SPECIFICATION Spec
CONSTANTS
    Threads = {1, 2}
    MaxUploads = 3
    MaxClock = 2
    Design = "random"
    Vias = {"gen", "burst", "par", "upload"}
    Stations = {}
    Encs = {}
    Shared = {}
    Mode = "edges"
    Depth = 0
VIEW View
CHECK_DEADLOCK FALSE
