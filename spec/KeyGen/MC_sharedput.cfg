\* EXPECTED RESULT: violation (Invariant UploadsIsolated / property ObservationsGood): the PutObject
\* parameters live in a per-storage template (seed2/C33). Not in module.json; run by hand.
SPECIFICATION Spec
CONSTANTS
    Threads = {1, 2}
    MaxUploads = 3
    MaxClock = 0
    Design = "random"
    Vias = {"gen"}
    Stations = {"minted", "assembled", "arrived", "stored", "presign"}
    Encs = {"none", "zstd"}
    Shared = {"put"}
    Mode = "mc"
    Depth = 0
VIEW View
INVARIANTS NoOverwrite UploadsIsolated
PROPERTIES ObservationsGood
CHECK_DEADLOCK FALSE
