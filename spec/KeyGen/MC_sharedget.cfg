\* EXPECTED RESULT: violation: the presign GetObject parameters live in a per-storage template.
\* Not in module.json; run by hand.
SPECIFICATION Spec
CONSTANTS
    Threads = {1, 2}
    MaxUploads = 3
    MaxClock = 0
    Design = "random"
    Vias = {"gen"}
    Stations = {"minted", "assembled", "arrived", "stored", "presign"}
    Encs = {"none", "zstd"}
    Shared = {"get"}
    Mode = "mc"
    Depth = 0
VIEW View
INVARIANTS NoOverwrite UploadsIsolated
PROPERTIES ObservationsGood
CHECK_DEADLOCK FALSE
