SPECIFICATION Spec
CONSTANTS
    Threads = {1, 2, 3}
    MaxUploads = 12
    MaxClock = 6
    Design = "random"
    Vias = {"gen", "burst", "par", "upload"}
    Stations = {"minted", "assembled", "arrived", "stored", "presign"}
    Encs = {"none", "zstd", "gzip"}
    Shared = {}
    Mode = "tree"
    Depth = 24
CHECK_DEADLOCK FALSE
