SPECIFICATION Spec
CONSTANTS
    Threads = {1, 2}
    MaxUploads = 4
    MaxClock = 2
    Design = "random"
    Vias = {"gen", "burst", "par", "upload"}
    Stations = {}
    Encs = {}
    Shared = {}
    Mode = "tree"
    Depth = 6

CHECK_DEADLOCK FALSE
