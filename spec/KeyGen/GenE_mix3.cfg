\* three uploads, staged (held after assembling the request / after the object is stored) or free-running batches
SPECIFICATION Spec
CONSTANTS
    Threads = {1, 2}
    MaxUploads = 3
    MaxClock = 0
    Design = "random"
    Vias = {"upload"}
    Stations = {"assembled", "stored"}
    Encs = {"none", "zstd"}
    Shared = {}
    Mode = "edges"
    Depth = 0
VIEW View
CHECK_DEADLOCK FALSE
