------------------------------- MODULE KeyGen -------------------------------
(***************************************************************************)
(* Object keys of the storage backends of vgi-rpc-go                       *)
(* (vgirpc/s3/s3.go: Upload -> generateUUID, vgirpc/gcs/gcs.go: Upload ->  *)
(* uuid.New()).  An upload builds its object key from a reading of the     *)
(* clock and/or a draw of fresh randomness and then writes the object.     *)
(* Uploads run on several goroutines; the clock advances on its own, so    *)
(* two uploads may read the same clock value.                              *)
(*                                                                         *)
(* Property C33: every upload writes to a key no other upload has used,    *)
(* so no externalized payload is overwritten by another call's data.       *)
(*                                                                         *)
(* CONSTANT Design selects how a key is built:                             *)
(*   "clock"   the S3 code as found: generateUUID is a function of         *)
(*             time.Now().UnixNano() alone (its first 16 decimal digits,   *)
(*             i.e. the microsecond);                                      *)
(*   "random"  proposed_fix_C33.diff and the GCS code: 128 fresh random    *)
(*             bits (modelled as a value never drawn before -- collisions  *)
(*             of a 128-bit CSPRNG are the stated assumption).             *)
(* The harness maps Tick to the passage of virtual time and one abstract   *)
(* upload to a batch of real calls of the generator (or real Upload calls  *)
(* against a recording S3 endpoint).                                       *)
(*                                                                         *)
(* A key is only meaningful together with what is stored under it.  The    *)
(* second family of actions (StartUp / StepUp / Audit) therefore follows   *)
(* ONE real Upload call through the sections of S3Storage.Upload:          *)
(*                                                                         *)
(*   1 mint      key := prefix + generateUUID()                            *)
(*   2 assemble  the PutObject parameters (Key, Body, ContentEncoding)     *)
(*               are written into the request struct                       *)
(*   3 send      the SDK serialises what that struct holds NOW and the     *)
(*               request reaches the endpoint                              *)
(*   4 store     the endpoint stores the object under the request's key    *)
(*               and answers                                               *)
(*   5 passemble the GetObject parameters for the pre-signed URL are       *)
(*               written into their request struct                         *)
(*   6 return    the URL is signed from what that struct holds NOW and     *)
(*               Upload returns it                                         *)
(*                                                                         *)
(* After each of the sections 1..5 there is a station ("minted",           *)
(* "assembled", "arrived", "stored", "presign") at which the harness can   *)
(* hold the call while other uploads on the SAME storage instance run      *)
(* ("minted": the call is inside Upload and the random bytes that decide   *)
(* its key are drawn).                                                     *)
(* CONSTANT Stations says which stations are used: an action runs an       *)
(* upload from where it is held to the next station in the set (sections   *)
(* in between are one atomic step), so TLC enumerates every overlap of     *)
(* uploads at that granularity.                                            *)
(*                                                                         *)
(* CONSTANT Shared says which request structs belong to the storage        *)
(* instance instead of the call: {} is the code as found (both are locals  *)
(* of Upload); "put" / "get" model a per-storage PutObjectInput /          *)
(* GetObjectInput template filled in through a pointer.                    *)
(***************************************************************************)
EXTENDS Naturals, Sequences, FiniteSets, TLC, VerifEmit

CONSTANTS
    Threads,     \* uploading goroutines (naturals >= 1)
    MaxUploads,  \* bound on the number of uploads of a behaviour
    MaxClock,    \* bound on the clock
    Design,      \* "clock" | "random"
    Vias,        \* how the harness performs a batch upload: subset of {"gen","burst","par","upload"}
    Stations,    \* where a staged upload can be held: subset of the names in StName
    Encs,        \* content encodings of staged uploads ("none" = ""); {} = no staged uploads
    Shared,      \* request structs owned by the storage, not the call: subset of {"put","get"}
    Mode, Depth

VARIABLES
    clock,       \* the wall clock at the generator's resolution
    drawn,       \* number of random values handed out so far
    pcs,         \* pcs[t]: "idle", "haveKey" (batch upload between key and PUT) or the station
                 \* a staged upload is held at
    key,         \* key[t]: the key thread t minted for its current upload
    written,     \* sequence of PUTs the bucket has stored, in order:
                 \* [key, uid, enc, by, kown]  (payload of upload uid, sent by upload `by`
                 \* whose own key is kown; batch uploads have uid = by = 0)
    up,          \* up[t] = [uid, enc] of the staged upload thread t is running
    nup,         \* number of staged uploads started (uid of the latest)
    req,         \* PutObject request structs by slot (slot 0 = the storage's, slot t = the call's)
    wire,        \* wire[t]: the PUT request of t as serialised (what the endpoint receives)
    preq,        \* GetObject (presign) request structs by slot: the key they hold
    done,        \* completed staged uploads in order: [uid, enc, key] (key = the one in the URL)
    hist

vars == <<clock, drawn, pcs, key, written, up, nup, req, wire, preq, done, hist>>

Record(step) ==
    /\ hist' = IF Mode = "mc" THEN <<step>> ELSE Append(hist, step)
    /\ (Mode = "edges") => EmitTrace(hist')
    /\ (Mode = "tree" /\ Len(hist') = Depth) => EmitTrace(hist')
Budget == (Mode = "tree") => Len(hist) < Depth

StName == <<"minted", "assembled", "arrived", "stored", "presign">>
StIdx(s) == CHOOSE i \in 1..5 : StName[i] = s
Held(t) == pcs[t] \in {StName[i] : i \in 1..5}
\* uploads whose key is decided but whose object is not in the bucket yet
Pending(t) == pcs[t] \in {"haveKey", "minted", "assembled", "arrived"}

NoKey == <<"none", 0>>
NoReq == [key |-> NoKey, uid |-> 0, enc |-> "none"]
NoObj == [key |-> NoKey, uid |-> 0, enc |-> "absent", by |-> 0, kown |-> NoKey]
Slots == Threads \cup {0}
Slot(kind, t) == IF kind \in Shared THEN 0 ELSE t

Started == Len(written) + Cardinality({t \in Threads : Pending(t)})

\* time passes
Tick ==
    /\ Budget /\ clock < MaxClock
    /\ clock' = clock + 1
    /\ UNCHANGED <<drawn, pcs, key, written, up, nup, req, wire, preq, done>>
    /\ Record([a |-> "Tick", args |-> [x |-> 0], exp |-> [clock |-> clock + 1]])

KeyUnused(k, t) ==
    /\ \A i \in 1..Len(written) : written[i].key # k
    /\ \A u \in Threads \ {t} : Pending(u) => key[u] # k

\* generateUUID / uuid.New(): build the key (batch upload: the harness performs many real ones)
MakeKey(t, via) ==
    /\ Budget /\ pcs[t] = "idle" /\ Started < MaxUploads /\ via \in Vias
    /\ pcs' = [pcs EXCEPT ![t] = "haveKey"]
    /\ IF Design = "clock"
       THEN key' = [key EXCEPT ![t] = <<"c", clock>>] /\ drawn' = drawn
       ELSE key' = [key EXCEPT ![t] = <<"r", drawn>>] /\ drawn' = drawn + 1
    /\ UNCHANGED <<clock, written, up, nup, req, wire, preq, done>>
    /\ Record([a |-> "MakeKey", t |-> t, args |-> [via |-> via],
               exp |-> [fresh |-> KeyUnused(key'[t], t)]
                       \* free-running real Upload calls: every one succeeds and every returned
                       \* key holds exactly the payload and encoding of its own call
                       @@ (IF via = "upload" THEN [err |-> FALSE, intact |-> TRUE]
                                              ELSE [x \in {} |-> 0])])

\* PutObject under that key
Put(t) ==
    /\ Budget /\ pcs[t] = "haveKey"
    /\ pcs' = [pcs EXCEPT ![t] = "idle"]
    /\ written' = Append(written, [key |-> key[t], uid |-> 0, enc |-> "none", by |-> 0, kown |-> key[t]])
    /\ UNCHANGED <<clock, drawn, key, up, nup, req, wire, preq, done>>
    /\ Record([a |-> "Put", t |-> t, args |-> [x |-> 0],
               exp |-> [overwrote |-> \E i \in 1..Len(written) : written[i].key = key[t]]])

--------------------------------------------------------------------------
(* One real Upload call, section by section.  S is the record of the       *)
(* variables the sections touch; u, e = uid and encoding of the call.      *)
Section(i, t, u, e, S) ==
    CASE i = 1 -> (IF Design = "clock"
                   THEN [S EXCEPT !.key[t] = <<"c", clock>>]
                   ELSE [S EXCEPT !.key[t] = <<"r", S.drawn>>, !.drawn = S.drawn + 1])
      [] i = 2 -> [S EXCEPT !.req[Slot("put", t)] = [key |-> S.key[t], uid |-> u, enc |-> e]]
      [] i = 3 -> [S EXCEPT !.wire[t] = S.req[Slot("put", t)]]
      [] i = 4 -> [S EXCEPT !.written = Append(S.written,
                        [key |-> S.wire[t].key, uid |-> S.wire[t].uid, enc |-> S.wire[t].enc,
                         by |-> u, kown |-> S.key[t]])]
      [] i = 5 -> [S EXCEPT !.preq[Slot("get", t)] = S.key[t]]
      [] i = 6 -> [S EXCEPT !.done = Append(S.done, [uid |-> u, enc |-> e, key |-> S.preq[Slot("get", t)]])]

RECURSIVE RunSections(_, _, _, _, _, _)
RunSections(p, q, t, u, e, S) ==
    IF p >= q THEN S ELSE RunSections(p + 1, q, t, u, e, Section(p + 1, t, u, e, S))

\* where an upload held after section p is held next (6 = it returns)
NextStop(p) ==
    LET c == {q \in (p + 1)..5 : StName[q] \in Stations}
    IN  IF c = {} THEN 6 ELSE CHOOSE q \in c : \A r \in c : q <= r

\* the object the bucket w holds under key k (the latest PUT wins)
ObjAt(w, k) ==
    LET idx == {i \in 1..Len(w) : w[i].key = k}
    IN  IF idx = {} THEN NoObj ELSE w[CHOOSE i \in idx : \A j \in idx : j <= i]

Nothing == [x \in {} |-> 0]

\* run upload (u, e) of thread t from after section p to its next stop
Stage(name, t, u, e, p) ==
    LET q  == NextStop(p)
        S0 == [key |-> key, drawn |-> drawn, req |-> req, wire |-> wire,
               written |-> written, preq |-> preq, done |-> done]
        S  == RunSections(p, q, t, u, e, S0)
        ran(i) == p < i /\ i <= q
        url == S.done[Len(S.done)].key
        obj == ObjAt(S.written, url)
        exp == [x |-> 0]
            \* what the endpoint received for this call
            @@ (IF ran(3) THEN [put_key  |-> IF S.wire[t].key = S.key[t] THEN "own" ELSE "other",
                                put_body |-> IF S.wire[t].uid = u THEN "own" ELSE "other",
                                put_enc  |-> S.wire[t].enc]
                          ELSE Nothing)
            \* ... and whether storing it replaced an object
            @@ (IF ran(4) THEN [overwrote |-> \E i \in 1..Len(written) : written[i].key = S.wire[t].key]
                          ELSE Nothing)
            \* what the call returned and what the bucket holds under the returned key
            @@ (IF ran(6) THEN [err       |-> FALSE,
                                url_key   |-> IF url = S.key[t] THEN "own" ELSE "other",
                                url_fresh |-> \A i \in 1..Len(done) : done[i].key # url,
                                obj_body  |-> IF obj.uid = u THEN "own"
                                              ELSE IF obj.by = 0 THEN "absent" ELSE "other",
                                obj_enc   |-> obj.enc]
                          ELSE Nothing)
    IN  /\ drawn' = S.drawn /\ written' = S.written /\ done' = S.done
        /\ IF q = 6
           THEN \* the call's locals are gone; the storage's structs (slot 0) stay as they are
                /\ pcs'  = [pcs EXCEPT ![t] = "idle"]
                /\ key'  = [S.key EXCEPT ![t] = NoKey]
                /\ up'   = [up EXCEPT ![t] = [uid |-> 0, enc |-> "none"]]
                /\ req'  = [S.req EXCEPT ![t] = NoReq]
                /\ wire' = [S.wire EXCEPT ![t] = NoReq]
                /\ preq' = [S.preq EXCEPT ![t] = NoKey]
           ELSE /\ pcs'  = [pcs EXCEPT ![t] = StName[q]]
                /\ key'  = S.key
                /\ up'   = [up EXCEPT ![t] = [uid |-> u, enc |-> e]]
                /\ req' = S.req /\ wire' = S.wire /\ preq' = S.preq
        /\ Record([a |-> name, t |-> t,
                   args |-> [uid |-> u, enc |-> e, to |-> IF q = 6 THEN "done" ELSE StName[q]],
                   exp |-> exp])

\* a goroutine calls Upload(payload, schema, enc)
StartUp(t, e) ==
    /\ Budget /\ pcs[t] = "idle" /\ Started < MaxUploads /\ e \in Encs
    /\ nup' = nup + 1
    /\ UNCHANGED clock
    /\ Stage("StartUp", t, nup + 1, e, 0)

\* a held call continues to its next stop
StepUp(t) ==
    /\ Budget /\ Held(t)
    /\ UNCHANGED <<clock, nup>>
    /\ Stage("StepUp", t, up[t].uid, up[t].enc, StIdx(pcs[t]))

IntactAt(i) ==
    LET o == ObjAt(written, done[i].key) IN o.uid = done[i].uid /\ o.enc = done[i].enc
ReturnedDistinct ==
    \A i, j \in 1..Len(done) : i # j => done[i].key # done[j].key

\* everything is quiet: read the bucket back through every returned URL
Audit ==
    /\ Budget /\ Len(done) > 0 /\ \A t \in Threads : pcs[t] = "idle"
    /\ UNCHANGED <<clock, drawn, pcs, key, written, up, nup, req, wire, preq, done>>
    /\ Record([a |-> "Audit", args |-> [n |-> Len(done)],
               exp |-> [lost |-> Cardinality({i \in 1..Len(done) : ~IntactAt(i)}),
                        distinct |-> ReturnedDistinct]])

Init ==
    /\ clock = 0 /\ drawn = 0 /\ nup = 0
    /\ pcs = [t \in Threads |-> "idle"]
    /\ key = [t \in Threads |-> NoKey]
    /\ up = [t \in Threads |-> [uid |-> 0, enc |-> "none"]]
    /\ req = [s \in Slots |-> NoReq]
    /\ wire = [t \in Threads |-> NoReq]
    /\ preq = [s \in Slots |-> NoKey]
    /\ written = <<>> /\ done = <<>>
    /\ hist = << [a |-> "Init", args |-> [Design |-> Design, Threads |-> Cardinality(Threads)],
                  exp |-> [x |-> 0]] >>

Next ==
    \/ Tick
    \/ \E t \in Threads, v \in Vias : MakeKey(t, v)
    \/ \E t \in Threads : Put(t)
    \/ \E t \in Threads, e \in Encs : StartUp(t, e)
    \/ \E t \in Threads : StepUp(t)
    \/ Audit

Spec == Init /\ [][Next]_vars

--------------------------------------------------------------------------
(* C33: no two uploads use the same key -- no object is ever overwritten.  *)
KeysDistinct ==
    \A i, j \in 1..Len(written) : i # j => written[i].key # written[j].key
\* including uploads still in flight
NoPendingCollision ==
    \A t \in Threads : Pending(t) =>
        /\ \A i \in 1..Len(written) : written[i].key # key[t]
        /\ \A u \in Threads : (u # t /\ Pending(u)) => key[u] # key[t]
NoOverwrite == KeysDistinct /\ NoPendingCollision

(* ... and a key is only worth something with what is stored under it:    *)
(* every PUT carries the payload of the call that sent it and lands on     *)
(* that call's own key (also while it is still on the wire), every         *)
(* returned key is returned once, and the object under it is exactly the   *)
(* payload and encoding of the call it was returned to.                    *)
OwnKeyOnly ==
    /\ \A i \in 1..Len(written) :
          written[i].by # 0 => written[i].uid = written[i].by /\ written[i].key = written[i].kown
    /\ \A t \in Threads :
          pcs[t] = "arrived" => wire[t].uid = up[t].uid /\ wire[t].key = key[t]
Intact == \A i \in 1..Len(done) : IntactAt(i)
UploadsIsolated == OwnKeyOnly /\ Intact /\ ReturnedDistinct

(* the observations the specification predicts never show a reused key, a  *)
(* foreign payload or a failed call (action property: reads the step)      *)
Good(x) ==
    /\ ("fresh" \in DOMAIN x) => x.fresh
    /\ ("overwrote" \in DOMAIN x) => ~x.overwrote
    /\ ("intact" \in DOMAIN x) => x.intact
    /\ ("err" \in DOMAIN x) => ~x.err
    /\ ("put_key" \in DOMAIN x) => x.put_key = "own" /\ x.put_body = "own"
    /\ ("url_key" \in DOMAIN x) => x.url_key = "own" /\ x.url_fresh /\ x.obj_body = "own"
    /\ ("lost" \in DOMAIN x) => x.lost = 0 /\ x.distinct
ObservationsGood == [][Good(hist'[Len(hist')].exp)]_vars

View == <<clock, drawn, pcs, key, written, up, nup, req, wire, preq, done>>
=============================================================================
