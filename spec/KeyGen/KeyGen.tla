------------------------------- MODULE KeyGen -------------------------------
(***************************************************************************)
(* Object keys of the storage backends of vgi-rpc-go                       *)
(* (vgirpc/s3/s3.go: Upload -> generateUUID, vgirpc/gcs/gcs.go: Upload ->  *)
(* uuid.New()).  An upload builds its object key from a reading of the     *)
(* clock and/or a draw of fresh randomness and then writes the object.     *)
(* Uploads run on several goroutines; the clock advances on its own, so    *)
(* two uploads may read the same clock value.                              *)
(*                                                                         *)
(* Property C33: every upload writes to a key no other upload has used.    *)
(*                                                                         *)
(* CONSTANT Design selects how a key is built:                             *)
(*   "clock"   the S3 code as found: generateUUID is a function of         *)
(*             time.Now().UnixNano() alone (its first 16 decimal digits,   *)
(*             i.e. the microsecond);                                      *)
(*   "random"  proposed_fix_C33.diff and the GCS code: 128 fresh random    *)
(*             bits (modelled as a value never drawn before -- collisions  *)
(*             of a 128-bit CSPRNG are the stated assumption).             *)
(* The harness maps Tick to the passage of virtual time and one abstract   *)
(* upload to a batch of real calls of the generator (or real Upload calls  *)
(* against a recording S3 endpoint).                                       *)
(***************************************************************************)
EXTENDS Naturals, Sequences, FiniteSets, TLC, VerifEmit

CONSTANTS
    Threads,     \* uploading goroutines
    MaxUploads,  \* bound on the number of uploads of a behaviour
    MaxClock,    \* bound on the clock
    Design,      \* "clock" | "random"
    Vias,        \* how the harness performs an upload: subset of {"gen","burst","par","upload"}
    Mode, Depth

VARIABLES
    clock,       \* the wall clock at the generator's resolution
    drawn,       \* number of random values handed out so far
    pcs,         \* pcs[t] in {"idle","haveKey"}
    key,         \* key[t]: the key thread t is about to write
    written,     \* sequence of keys of completed uploads (objects in the bucket)
    hist

vars == <<clock, drawn, pcs, key, written, hist>>

Record(step) ==
    /\ hist' = IF Mode = "mc" THEN hist ELSE Append(hist, step)
    /\ (Mode = "edges") => EmitTrace(hist')
    /\ (Mode = "tree" /\ Len(hist') = Depth) => EmitTrace(hist')
Budget == (Mode = "tree") => Len(hist) < Depth

Started == Len(written) + Cardinality({t \in Threads : pcs[t] = "haveKey"})

\* time passes
Tick ==
    /\ Budget /\ clock < MaxClock
    /\ clock' = clock + 1
    /\ UNCHANGED <<drawn, pcs, key, written>>
    /\ Record([a |-> "Tick", args |-> [x |-> 0], exp |-> [clock |-> clock + 1]])

\* generateUUID / uuid.New(): build the key
MakeKey(t, via) ==
    /\ Budget /\ pcs[t] = "idle" /\ Started < MaxUploads /\ via \in Vias
    /\ pcs' = [pcs EXCEPT ![t] = "haveKey"]
    /\ IF Design = "clock"
       THEN key' = [key EXCEPT ![t] = <<"c", clock>>] /\ drawn' = drawn
       ELSE key' = [key EXCEPT ![t] = <<"r", drawn>>] /\ drawn' = drawn + 1
    /\ UNCHANGED <<clock, written>>
    /\ Record([a |-> "MakeKey", t |-> t, args |-> [via |-> via],
               exp |-> [fresh |-> /\ \A i \in 1..Len(written) : written[i] # key'[t]
                                  /\ \A u \in Threads \ {t} :
                                        pcs[u] = "haveKey" => key[u] # key'[t]]])

\* PutObject under that key
Put(t) ==
    /\ Budget /\ pcs[t] = "haveKey"
    /\ pcs' = [pcs EXCEPT ![t] = "idle"]
    /\ written' = Append(written, key[t])
    /\ UNCHANGED <<clock, drawn, key>>
    /\ Record([a |-> "Put", t |-> t, args |-> [x |-> 0],
               exp |-> [overwrote |-> \E i \in 1..Len(written) : written[i] = key[t]]])

Init ==
    /\ clock = 0 /\ drawn = 0
    /\ pcs = [t \in Threads |-> "idle"]
    /\ key = [t \in Threads |-> <<"none", 0>>]
    /\ written = <<>>
    /\ hist = << [a |-> "Init", args |-> [Design |-> Design, Threads |-> Cardinality(Threads)],
                  exp |-> [x |-> 0]] >>

Next ==
    \/ Tick
    \/ \E t \in Threads, v \in Vias : MakeKey(t, v)
    \/ \E t \in Threads : Put(t)

Spec == Init /\ [][Next]_vars

--------------------------------------------------------------------------
(* C33: no two uploads use the same key -- no object is ever overwritten.  *)
KeysDistinct ==
    \A i, j \in 1..Len(written) : i # j => written[i] # written[j]
\* including uploads still in flight
NoPendingCollision ==
    \A t \in Threads : pcs[t] = "haveKey" =>
        /\ \A i \in 1..Len(written) : written[i] # key[t]
        /\ \A u \in Threads : (u # t /\ pcs[u] = "haveKey") => key[u] # key[t]
NoOverwrite == KeysDistinct /\ NoPendingCollision

View == <<clock, drawn, pcs, key, written>>
=============================================================================
