\* staged uploads: every overlap of the six sections of Upload of 2 goroutines, 3 uploads,
\* two encodings, mixed with batch uploads
SPECIFICATION Spec
CONSTANTS
    Threads = {1, 2}
    MaxUploads = 3
    MaxClock = 0
    Design = "random"
    Vias = {"gen"}
    Stations = {"minted", "assembled", "arrived", "stored", "presign"}
    Encs = {"none", "zstd"}
    Shared = {}
    Mode = "mc"
    Depth = 0
VIEW View
INVARIANTS NoOverwrite UploadsIsolated
PROPERTIES ObservationsGood
CHECK_DEADLOCK FALSE
