SPECIFICATION Spec
CONSTANTS
    N = 3
    Routes = {"unary", "health"}
    MaxFail = 2
    HasHook = TRUE
    LazyGates = FALSE
    Mode = "edges"
    Depth = 0
    Eager = TRUE
    Fifo = TRUE
VIEW View
CHECK_DEADLOCK FALSE
