SPECIFICATION FairSpec
CONSTANTS
    N = 3
    Routes = {"unary", "health"}
    MaxFail = 2
    HasHook = TRUE
    LazyGates = FALSE
    Mode = "mc"
    Depth = 0
    Eager = FALSE
    Fifo = FALSE
INVARIANTS SingleFlight CommitsOnce ComputedOnce SameKindAndHash TerminalSummary
PROPERTIES RerunAfterFailure AllFinish
CHECK_DEADLOCK FALSE
