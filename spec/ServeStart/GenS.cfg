SPECIFICATION Spec
CONSTANTS
    N = 4
    Routes = {"unary", "health"}
    MaxFail = 3
    HasHook = TRUE
    LazyGates = FALSE
    Mode = "tree"
    Depth = 14
    Eager = TRUE
    Fifo = TRUE
CHECK_DEADLOCK FALSE
