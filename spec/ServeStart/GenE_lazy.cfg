SPECIFICATION Spec
CONSTANTS
    N = 2
    Routes = {"unary", "health"}
    MaxFail = 1
    HasHook = TRUE
    LazyGates = TRUE
    Mode = "edges"
    Depth = 0
    Eager = TRUE
    Fifo = TRUE
VIEW View
CHECK_DEADLOCK FALSE
