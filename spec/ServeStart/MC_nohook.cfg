SPECIFICATION FairSpec
CONSTANTS
    N = 2
    Routes = {"unary", "health"}
    MaxFail = 0
    HasHook = FALSE
    LazyGates = FALSE
    Mode = "mc"
    Depth = 0
    Eager = FALSE
    Fifo = FALSE
INVARIANTS SingleFlight CommitsOnce ComputedOnce SameKindAndHash TerminalSummary
PROPERTIES RerunAfterFailure AllFinish
CHECK_DEADLOCK FALSE
