----------------------------- MODULE ServeStart -----------------------------
(***************************************************************************)
(* Lazy, once-only setup on the HTTP request path of vgi-rpc-go:           *)
(*                                                                         *)
(*   HttpServer.ServeHTTP                                                  *)
(*     -> Server.notifyTransport(http)   (server.go)                       *)
(*          transportNotifyMu.Lock                        Lock             *)
(*          transportMu{ bound already? ; read hook }     CheckBound_*     *)
(*          hook(kind, caps)                              HookEnter,       *)
(*                                                        HookReturn_*     *)
(*          transportMu{ transportKind = kind }           Commit           *)
(*          transportNotifyMu.Unlock (deferred)           Unlock           *)
(*        error -> 500 "server startup hook failed"       Refused500       *)
(*     -> InitPages = initPagesOnce.Do(initPages)         Pages_*          *)
(*     -> mux: GET /health  -> healthBodyOnce.Do(...)     Health_*         *)
(*             POST /{m}    -> ProtocolHash()=Once.Do     Hash_*           *)
(*                             dispatch hook + handler    HandlerEnter/Ret *)
(*     response written                                   Served           *)
(*                                                                         *)
(* One action per critical section / decision point of the code.  The      *)
(* serve-start hook and the method handler are user code; a schedule       *)
(* replay parks real goroutines there.  With LazyGates the bodies of the   *)
(* two sync.Once lazies are gate points as well (add-only verifAt hooks).  *)
(*                                                                         *)
(* C40 (the part a model decides): the hook is single flight, commits      *)
(* once, is re-run after a failure rather than skipped; pages and protocol *)
(* hash are computed once; every request observes the same transport kind  *)
(* and hash.  "No data races" is NOT decided here: it is the Go race       *)
(* detector riding on the schedules this module generates (race_free).     *)
(***************************************************************************)
EXTENDS Naturals, Sequences, FiniteSets, TLC, VerifEmit

CONSTANTS
    N,          \* requests are 1..N, each served on its own goroutine
    Routes,     \* routes a request may take: subset of {"unary", "health"}
    MaxFail,    \* at most this many hook runs fail
    HasHook,    \* FALSE: no serve-start hook registered (commit directly)
    LazyGates,  \* TRUE: initPages / the protocol-hash computation are gate points
    Mode,       \* "mc" | "edges" | "tree" | "stress"
    Depth,
    Eager,      \* TRUE (generation): everything the goroutines do on their own happens
                \* before the next driver-initiated step (what a gated replay realises)
    Fifo        \* TRUE (generation): goroutines blocked on transportNotifyMu get it in
                \* order of arrival (what the Go runtime does when nobody else arrives);
                \* FALSE (model checking): any waiter may win

Req == 1..N
Lazies == {"pages", "hash", "health"}

VARIABLES
    pc,        \* pc[r]: where request r is in ServeHTTP
    route,     \* route[r]
    mu,        \* holder of transportNotifyMu (0 = free)
    bound,     \* Server.transportKind: "" | "http"
    hookRuns,  \* times the serve-start hook was entered
    okRuns,    \* times it returned nil
    fails,     \* times it returned an error
    ranHook,   \* ranHook[r]: outcome of r's own hook run: "none" | "ok" | "fail"
    nerr,      \* nerr[r]: result of notifyTransport for r: "none" | "nil" | "err"
    once,      \* once[x]: "new" | "running" | "done"   (sync.Once of lazy x)
    computes,  \* computes[x]: how many times the body of lazy x ran
    hashVal,   \* Server.protocolHash: "" | "H"
    seenKind,  \* seenKind[r]: TransportKind() observed by r's handler ("" = not yet)
    seenHash,  \* seenHash[r]: DispatchInfo.ProtocolHash observed for r ("" = not yet)
    status,    \* status[r]: 0 (no response yet) | 200 | 500
    hist

vars == <<pc, route, mu, bound, hookRuns, okRuns, fails, ranHook, nerr, once, computes,
          hashVal, seenKind, seenHash, status, hist>>
state == <<pc, route, mu, bound, hookRuns, okRuns, fails, ranHook, nerr, once, computes,
           hashVal, seenKind, seenHash, status>>

--------------------------------------------------------------------------
(* What a harness can see of request r: parked in user code / at a gate,   *)
(* finished, or neither (then, once everything has settled, it is blocked  *)
(* on transportNotifyMu or inside a sync.Once another request is running). *)
Pos(r) ==
    CASE pc[r] = "idle"      -> "idle"
      [] pc[r] = "inhook"    -> "hook"
      [] pc[r] = "inpages" /\ LazyGates -> "pages"
      [] pc[r] = "inhash" /\ LazyGates  -> "hash"
      [] pc[r] = "inhandler" -> "handler"
      [] pc[r] = "done"      -> "done"
      [] OTHER               -> "blocked"

Snapshot ==
    [pos       |-> [r \in Req |-> Pos(r)],
     status    |-> status,
     hook_runs |-> hookRuns,
     ok_runs   |-> okRuns,
     bound     |-> bound,
     kind      |-> seenKind,
     hash      |-> seenHash,
     computes  |-> [pages |-> computes["pages"], hash |-> computes["hash"]],
     race_free |-> TRUE]

--------------------------------------------------------------------------
(* Steps a goroutine takes on its own (no gate in front of them).          *)
\* request ids are handed out in order of arrival at the mutex
MayLock(r) == mu = 0 /\ (Fifo => \A q \in Req : pc[q] = "lock" => r <= q)

SelfEnabled(r) ==
    \/ pc[r] = "lock" /\ MayLock(r)
    \/ pc[r] \in {"check", "callhook", "commit", "unlock", "refuse", "health",
                  "dispatch", "respond"}
    \/ pc[r] = "pages" /\ once["pages"] # "running"
    \/ pc[r] = "hash" /\ once["hash"] # "running"
    \/ pc[r] = "inpages" /\ ~LazyGates
    \/ pc[r] = "inhash" /\ ~LazyGates

Settled == \A r \in Req : ~SelfEnabled(r)
\* driver-initiated steps wait until the goroutines have come to rest
Ready == Eager => Settled

AllDone == \A r \in Req : pc[r] = "done"

\* a driver-initiated step: appended to the history; exp is the state after it
Drive(step) ==
    /\ hist' = IF Mode = "mc" THEN hist
               ELSE Append(hist, [step EXCEPT !.exp = Snapshot'])
    /\ (Mode = "edges" /\ Settled') => EmitTrace(hist')
    /\ (Mode = "tree" /\ Settled' /\ (Len(hist') = Depth \/ AllDone')) => EmitTrace(hist')

\* a step a goroutine takes on its own: it refines the observation of the last
\* driver-initiated step (the harness observes only after everything came to rest)
Self ==
    /\ hist' = IF Mode = "mc" THEN hist
               ELSE [hist EXCEPT ![Len(hist)].exp = Snapshot']
    /\ (Mode = "edges" /\ Settled') => EmitTrace(hist')
    /\ (Mode = "tree" /\ Settled' /\ (Len(hist') = Depth \/ AllDone')) => EmitTrace(hist')

Budget == (Mode = "tree") => Len(hist) < Depth
Running == Mode # "stress"

--------------------------------------------------------------------------
(* A request arrives: ServeHTTP is called on a fresh goroutine.            *)
Start(r, rt) ==
    /\ Running /\ Budget /\ Ready
    /\ pc[r] = "idle"
    /\ \A q \in Req : q < r => pc[q] # "idle"       \* ids in order of arrival (symmetry)
    /\ pc' = [pc EXCEPT ![r] = "lock"]
    /\ route' = [route EXCEPT ![r] = rt]
    /\ UNCHANGED <<mu, bound, hookRuns, okRuns, fails, ranHook, nerr, once, computes,
                   hashVal, seenKind, seenHash, status>>
    /\ Drive([a |-> "Start", args |-> [r |-> r, route |-> rt], exp |-> <<>>])

(* notifyTransport ------------------------------------------------------- *)
Lock(r) ==
    /\ Running /\ pc[r] = "lock" /\ MayLock(r)
    /\ mu' = r
    /\ pc' = [pc EXCEPT ![r] = "check"]
    /\ UNCHANGED <<route, bound, hookRuns, okRuns, fails, ranHook, nerr, once, computes,
                   hashVal, seenKind, seenHash, status>>
    /\ Self

\* s.transportKind == kind: return nil (the deferred Unlock follows)
CheckBound_Already(r) ==
    /\ Running /\ pc[r] = "check" /\ bound = "http"
    /\ pc' = [pc EXCEPT ![r] = "unlock"]
    /\ nerr' = [nerr EXCEPT ![r] = "nil"]
    /\ UNCHANGED <<route, mu, bound, hookRuns, okRuns, fails, ranHook, once, computes,
                   hashVal, seenKind, seenHash, status>>
    /\ Self

CheckBound_Unbound(r) ==
    /\ Running /\ pc[r] = "check" /\ bound # "http"
    /\ pc' = [pc EXCEPT ![r] = IF HasHook THEN "callhook" ELSE "commit"]
    /\ UNCHANGED <<route, mu, bound, hookRuns, okRuns, fails, ranHook, nerr, once, computes,
                   hashVal, seenKind, seenHash, status>>
    /\ Self

\* the hook (user code) is entered; transportMu is NOT held, the binding is not committed
HookEnter(r) ==
    /\ Running /\ pc[r] = "callhook"
    /\ pc' = [pc EXCEPT ![r] = "inhook"]
    /\ hookRuns' = hookRuns + 1
    /\ UNCHANGED <<route, mu, bound, okRuns, fails, ranHook, nerr, once, computes,
                   hashVal, seenKind, seenHash, status>>
    /\ Self

\* hook returned an error: logged, nothing committed, notifyTransport returns it
HookReturn_Fail(r) ==
    /\ Running /\ Budget /\ Ready
    /\ pc[r] = "inhook" /\ fails < MaxFail
    /\ pc' = [pc EXCEPT ![r] = "unlock"]
    /\ fails' = fails + 1
    /\ ranHook' = [ranHook EXCEPT ![r] = "fail"]
    /\ nerr' = [nerr EXCEPT ![r] = "err"]
    /\ UNCHANGED <<route, mu, bound, hookRuns, okRuns, once, computes,
                   hashVal, seenKind, seenHash, status>>
    /\ Drive([a |-> "HookReturn", args |-> [r |-> r, outcome |-> "fail"], exp |-> <<>>])

HookReturn_OK(r) ==
    /\ Running /\ Budget /\ Ready
    /\ pc[r] = "inhook"
    /\ pc' = [pc EXCEPT ![r] = "commit"]
    /\ okRuns' = okRuns + 1
    /\ ranHook' = [ranHook EXCEPT ![r] = "ok"]
    /\ UNCHANGED <<route, mu, bound, hookRuns, fails, nerr, once, computes,
                   hashVal, seenKind, seenHash, status>>
    /\ Drive([a |-> "HookReturn", args |-> [r |-> r, outcome |-> "ok"], exp |-> <<>>])

Commit(r) ==
    /\ Running /\ pc[r] = "commit"
    /\ bound' = "http"
    /\ nerr' = [nerr EXCEPT ![r] = "nil"]
    /\ pc' = [pc EXCEPT ![r] = "unlock"]
    /\ UNCHANGED <<route, mu, hookRuns, okRuns, fails, ranHook, once, computes,
                   hashVal, seenKind, seenHash, status>>
    /\ Self

Unlock(r) ==
    /\ Running /\ pc[r] = "unlock"
    /\ mu' = 0
    /\ pc' = [pc EXCEPT ![r] = IF nerr[r] = "err" THEN "refuse" ELSE "pages"]
    /\ UNCHANGED <<route, bound, hookRuns, okRuns, fails, ranHook, nerr, once, computes,
                   hashVal, seenKind, seenHash, status>>
    /\ Self

\* http.Error(w, "server startup hook failed", 500)
Refused500(r) ==
    /\ Running /\ pc[r] = "refuse"
    /\ status' = [status EXCEPT ![r] = 500]
    /\ pc' = [pc EXCEPT ![r] = "done"]
    /\ UNCHANGED <<route, mu, bound, hookRuns, okRuns, fails, ranHook, nerr, once, computes,
                   hashVal, seenKind, seenHash>>
    /\ Self

(* sync.Once lazies ------------------------------------------------------ *)
AfterPages(r) == IF route[r] = "health" THEN "health" ELSE "hash"

\* Once.Do fast path / slow path that finds done set
Pages_Fast(r) ==
    /\ Running /\ pc[r] = "pages" /\ once["pages"] = "done"
    /\ pc' = [pc EXCEPT ![r] = AfterPages(r)]
    /\ UNCHANGED <<route, mu, bound, hookRuns, okRuns, fails, ranHook, nerr, once, computes,
                   hashVal, seenKind, seenHash, status>>
    /\ Self

\* first caller: runs initPages (renders the pages, registers the GET routes)
Pages_Begin(r) ==
    /\ Running /\ pc[r] = "pages" /\ once["pages"] = "new"
    /\ once' = [once EXCEPT !["pages"] = "running"]
    /\ computes' = [computes EXCEPT !["pages"] = @ + 1]
    /\ pc' = [pc EXCEPT ![r] = "inpages"]
    /\ UNCHANGED <<route, mu, bound, hookRuns, okRuns, fails, ranHook, nerr,
                   hashVal, seenKind, seenHash, status>>
    /\ Self

Pages_EndStep(r) ==
    /\ pc[r] = "inpages"
    /\ once' = [once EXCEPT !["pages"] = "done"]
    /\ pc' = [pc EXCEPT ![r] = AfterPages(r)]
    /\ UNCHANGED <<route, mu, bound, hookRuns, okRuns, fails, ranHook, nerr, computes,
                   hashVal, seenKind, seenHash, status>>

Pages_End(r) ==
    /\ Running
    /\ IF LazyGates
       THEN /\ Budget /\ Ready /\ Pages_EndStep(r)
            /\ Drive([a |-> "LazyEnd", args |-> [r |-> r, lazy |-> "pages"], exp |-> <<>>])
       ELSE Pages_EndStep(r) /\ Self

\* GET /health: the body is rendered under healthBodyOnce (no user code inside)
Health_Fast(r) ==
    /\ Running /\ pc[r] = "health" /\ once["health"] = "done"
    /\ pc' = [pc EXCEPT ![r] = "respond"]
    /\ UNCHANGED <<route, mu, bound, hookRuns, okRuns, fails, ranHook, nerr, once, computes,
                   hashVal, seenKind, seenHash, status>>
    /\ Self

Health_Render(r) ==
    /\ Running /\ pc[r] = "health" /\ once["health"] = "new"
    /\ once' = [once EXCEPT !["health"] = "done"]
    /\ computes' = [computes EXCEPT !["health"] = @ + 1]
    /\ pc' = [pc EXCEPT ![r] = "respond"]
    /\ UNCHANGED <<route, mu, bound, hookRuns, okRuns, fails, ranHook, nerr,
                   hashVal, seenKind, seenHash, status>>
    /\ Self

\* POST /{method}: DispatchInfo.ProtocolHash = Server.ProtocolHash()
Hash_Fast(r) ==
    /\ Running /\ pc[r] = "hash" /\ once["hash"] = "done"
    /\ seenHash' = [seenHash EXCEPT ![r] = hashVal]
    /\ pc' = [pc EXCEPT ![r] = "dispatch"]
    /\ UNCHANGED <<route, mu, bound, hookRuns, okRuns, fails, ranHook, nerr, once, computes,
                   hashVal, seenKind, status>>
    /\ Self

Hash_Begin(r) ==
    /\ Running /\ pc[r] = "hash" /\ once["hash"] = "new"
    /\ once' = [once EXCEPT !["hash"] = "running"]
    /\ computes' = [computes EXCEPT !["hash"] = @ + 1]
    /\ pc' = [pc EXCEPT ![r] = "inhash"]
    /\ UNCHANGED <<route, mu, bound, hookRuns, okRuns, fails, ranHook, nerr,
                   hashVal, seenKind, seenHash, status>>
    /\ Self

Hash_EndStep(r) ==
    /\ pc[r] = "inhash"
    /\ hashVal' = "H"
    /\ once' = [once EXCEPT !["hash"] = "done"]
    /\ seenHash' = [seenHash EXCEPT ![r] = "H"]
    /\ pc' = [pc EXCEPT ![r] = "dispatch"]
    /\ UNCHANGED <<route, mu, bound, hookRuns, okRuns, fails, ranHook, nerr, computes,
                   seenKind, status>>

Hash_End(r) ==
    /\ Running
    /\ IF LazyGates
       THEN /\ Budget /\ Ready /\ Hash_EndStep(r)
            /\ Drive([a |-> "LazyEnd", args |-> [r |-> r, lazy |-> "hash"], exp |-> <<>>])
       ELSE Hash_EndStep(r) /\ Self

(* dispatch -------------------------------------------------------------- *)
\* the handler (user code) runs and reads Server.TransportKind()
HandlerEnter(r) ==
    /\ Running /\ pc[r] = "dispatch"
    /\ seenKind' = [seenKind EXCEPT ![r] = bound]
    /\ pc' = [pc EXCEPT ![r] = "inhandler"]
    /\ UNCHANGED <<route, mu, bound, hookRuns, okRuns, fails, ranHook, nerr, once, computes,
                   hashVal, seenHash, status>>
    /\ Self

HandlerReturn(r) ==
    /\ Running /\ Budget /\ Ready
    /\ pc[r] = "inhandler"
    /\ pc' = [pc EXCEPT ![r] = "respond"]
    /\ UNCHANGED <<route, mu, bound, hookRuns, okRuns, fails, ranHook, nerr, once, computes,
                   hashVal, seenKind, seenHash, status>>
    /\ Drive([a |-> "HandlerReturn", args |-> [r |-> r], exp |-> <<>>])

Served(r) ==
    /\ Running /\ pc[r] = "respond"
    /\ status' = [status EXCEPT ![r] = 200]
    /\ pc' = [pc EXCEPT ![r] = "done"]
    /\ UNCHANGED <<route, mu, bound, hookRuns, okRuns, fails, ranHook, nerr, once, computes,
                   hashVal, seenKind, seenHash>>
    /\ Self

--------------------------------------------------------------------------
(* Free-running stress (Mode = "stress"): n goroutines on mixed routes, the *)
(* first k hook runs fail.  The prediction is TerminalSummary below, which  *)
(* is model-checked on the step-by-step actions; the stress run is the      *)
(* carrier for the race detector.                                           *)
StressSizes == {[n |-> 32, k |-> 0], [n |-> 32, k |-> 1], [n |-> 32, k |-> 3]}
Stress(c) ==
    /\ Mode = "stress" /\ Len(hist) = 1
    /\ UNCHANGED state
    /\ hist' = Append(hist,
         [a |-> "Stress", args |-> [n |-> c.n, fails |-> c.k],
          exp |-> [refused |-> c.k, hook_runs |-> c.k + 1, ok_runs |-> 1, max_in_hook |-> 1,
                   kinds |-> <<"http">>, hashes |-> <<"H">>, unexpected |-> 0,
                   race_free |-> TRUE]])
    /\ EmitTrace(hist')

--------------------------------------------------------------------------
Init ==
    /\ pc = [r \in Req |-> "idle"]
    /\ route = [r \in Req |-> "none"]
    /\ mu = 0 /\ bound = "" /\ hookRuns = 0 /\ okRuns = 0 /\ fails = 0
    /\ ranHook = [r \in Req |-> "none"]
    /\ nerr = [r \in Req |-> "none"]
    /\ once = [x \in Lazies |-> "new"]
    /\ computes = [x \in Lazies |-> 0]
    /\ hashVal = ""
    /\ seenKind = [r \in Req |-> ""]
    /\ seenHash = [r \in Req |-> ""]
    /\ status = [r \in Req |-> 0]
    /\ hist = << [a |-> "Init",
                  args |-> [N |-> N, HasHook |-> HasHook, LazyGates |-> LazyGates],
                  exp |-> Snapshot] >>

Next ==
    \/ \E r \in Req : \/ \E rt \in Routes : Start(r, rt)
                      \/ Lock(r) \/ CheckBound_Already(r) \/ CheckBound_Unbound(r)
                      \/ HookEnter(r) \/ HookReturn_Fail(r) \/ HookReturn_OK(r)
                      \/ Commit(r) \/ Unlock(r) \/ Refused500(r)
                      \/ Pages_Fast(r) \/ Pages_Begin(r) \/ Pages_End(r)
                      \/ Health_Fast(r) \/ Health_Render(r)
                      \/ Hash_Fast(r) \/ Hash_Begin(r) \/ Hash_End(r)
                      \/ HandlerEnter(r) \/ HandlerReturn(r) \/ Served(r)
    \/ \E c \in StressSizes : Stress(c)

Spec == Init /\ [][Next]_vars

\* every step of a started request is eventually taken (user code returns)
FairSpec == Spec /\ \A r \in Req :
    WF_vars(Lock(r) \/ CheckBound_Already(r) \/ CheckBound_Unbound(r) \/ HookEnter(r)
            \/ HookReturn_Fail(r) \/ HookReturn_OK(r) \/ Commit(r) \/ Unlock(r) \/ Refused500(r)
            \/ Pages_Fast(r) \/ Pages_Begin(r) \/ Pages_End(r) \/ Health_Fast(r) \/ Health_Render(r)
            \/ Hash_Fast(r) \/ Hash_Begin(r) \/ Hash_End(r)
            \/ HandlerEnter(r) \/ HandlerReturn(r) \/ Served(r))

--------------------------------------------------------------------------
(* C40, stated declaratively.                                              *)

\* requests that notifyTransport let through (they will be, or have been, served)
Through == {r \in Req : pc[r] \in {"pages", "inpages", "health", "hash", "inhash", "dispatch",
                                   "inhandler", "respond"}
                        \/ (pc[r] = "done" /\ status[r] = 200)}
InHook == {r \in Req : pc[r] = "inhook"}

\* at most one request is inside the serve-start hook at any time
SingleFlight == Cardinality(InHook) <= 1

\* the hook commits once: it succeeds at most once, and whenever a request has got past
\* notifyTransport a successful run has already happened (before any request is served)
CommitsOnce ==
    /\ okRuns <= 1
    /\ HasHook => (Through # {} => okRuns = 1)
    /\ hookRuns = okRuns + fails + Cardinality(InHook)

\* ... and is re-run after a failure rather than skipped: a request is refused only for the
\* failure of ITS OWN hook run, and a request leaves the bound check without running the hook
\* exactly when a successful run has already happened
RerunAfterFailure ==
    [][ \A r \in Req :
          /\ (pc[r] = "check" /\ pc'[r] # "check" /\ HasHook) =>
                 ((okRuns = 0) <=> (pc'[r] = "callhook"))
          /\ (status'[r] = 500) => (ranHook'[r] = "fail")
          /\ (ranHook'[r] = "fail" /\ pc'[r] = "done") => (status'[r] = 500) ]_vars

\* pages and the protocol hash are computed once, and before any request uses them
ComputedOnce ==
    /\ \A x \in Lazies : computes[x] <= 1 /\ (once[x] = "new" <=> computes[x] = 0)
    /\ \A r \in Req : pc[r] \in {"health", "hash", "inhash", "dispatch", "inhandler", "respond"}
                        => once["pages"] = "done"
    /\ \A r \in Req : pc[r] \in {"dispatch", "inhandler"} => once["hash"] = "done"

\* every request observes the same transport kind and hash
SameKindAndHash ==
    /\ \A r \in Req : seenKind[r] # "" => seenKind[r] = "http"
    /\ \A r \in Req : (route[r] = "unary" /\ (pc[r] \in {"inhandler", "respond"}
                                              \/ (pc[r] = "done" /\ status[r] = 200)))
                        => seenKind[r] = "http" /\ seenHash[r] = "H"
    /\ \A r, q \in Req : (seenHash[r] # "" /\ seenHash[q] # "") => seenHash[r] = seenHash[q]

\* what a free-running execution must add up to (the Stress step's prediction)
TerminalSummary ==
    AllDone => /\ Cardinality({r \in Req : status[r] = 500}) = fails
               /\ Cardinality({r \in Req : status[r] = 200}) = N - fails
               /\ hookRuns = fails + okRuns
               /\ HasHook => (fails < N => okRuns = 1)

\* nothing is left waiting for ever
AllFinish == \A r \in Req : (pc[r] # "idle") ~> (pc[r] = "done")

View == state
=============================================================================
