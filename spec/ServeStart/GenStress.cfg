SPECIFICATION Spec
CONSTANTS
    N = 1
    Routes = {"unary"}
    MaxFail = 0
    HasHook = TRUE
    LazyGates = FALSE
    Mode = "stress"
    Depth = 0
    Eager = TRUE
    Fifo = TRUE
CHECK_DEADLOCK FALSE
