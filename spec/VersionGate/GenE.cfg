SPECIFICATION Spec
CONSTANTS
    ServerLabels = {"", "1.2.3", "0.0.0", "10.20.30", "bad_two_part"}
    UseExtra = FALSE
    AtoiSaturates = FALSE
    Routes = {"pipe", "http_unary", "http_init"}
    MaxSets = 2
    Mode = "edges"
    Depth = 0
VIEW View
CHECK_DEADLOCK FALSE
