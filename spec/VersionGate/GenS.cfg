SPECIFICATION Spec
CONSTANTS
    ServerLabels = {"", "1.2.3", "0.0.0", "10.20.30", "max", "huge", "huge_minor", "bad_two_part", "bad_lead0", "bad_prerelease", "bad_ws"}
    UseExtra = TRUE
    AtoiSaturates = FALSE
    Routes = {"pipe", "http_unary", "http_init"}
    MaxSets = 4
    Mode = "tree"
    Depth = 12

CHECK_DEADLOCK FALSE
