----------------------------- MODULE VersionGate -----------------------------
(***************************************************************************)
(* The application-protocol-version gate of vgi-rpc-go                     *)
(* (vgirpc/server.go: SetProtocolVersion, checkProtocolVersion;            *)
(*  metadata.go: semverRegex, parseSemver; server_serve.go: serveOne;      *)
(*  http_unary.go: handleUnary; http_stream.go: handleStreamInit).         *)
(*                                                                         *)
(* A server optionally declares a version; every request optionally        *)
(* carries a vgi_rpc.protocol_version string.  The three dispatch paths    *)
(* (pipe serveOne, HTTP unary, HTTP stream init) each run their own copy   *)
(* of the gate at their own place in the pipeline; what precedes the gate  *)
(* on each path (describe / transport-options short circuits, method       *)
(* lookup, wrong-endpoint check) is modelled because it decides which      *)
(* requests ever reach the gate.  One action per exit branch of the code.  *)
(*                                                                         *)
(* Version strings are sequences of one-character strings (a token         *)
(* "U+XXXX" stands for that code point), so that the grammar               *)
(* MAJOR.MINOR.PATCH is decided inside the specification: operationally    *)
(* by a left-to-right scanner equivalent to semverRegex, declaratively     *)
(* (section C10) by splitting at the dots.  Numbers are compared as digit  *)
(* strings, so nothing is bounded by an integer width.                     *)
(***************************************************************************)
EXTENDS Integers, Sequences, FiniteSets, TLC, VerifEmit

CONSTANTS
    ServerLabels,    \* versions offered to SetProtocolVersion (keys of ServerChars; "" opts out)
    UseExtra,        \* BOOLEAN: also offer ExtraClientLabels (non-ASCII digits/spaces, > int64 components)
    AtoiSaturates,   \* FALSE: components compared exactly (the code since /repo 6598544, compareDecimal);
                     \* TRUE:  compared the way strconv.Atoi leaves them (saturated at MaxInt64, error
                     \*        dropped) -- the code before that fix; kept for MC_asis.cfg, which violates C10
    Routes,          \* routes offered: subset of {"pipe", "http_unary", "http_init"}
    MaxSets,         \* bound on SetProtocolVersion calls per behaviour
    Mode, Depth

VARIABLES
    sver,            \* declared server version as characters; <<>> = none declared
    nsets,           \* SetProtocolVersion calls so far
    hist

vars == <<sver, nsets, hist>>

--------------------------------------------------------------------------
(* The version strings explored (generated table; label -> characters).    *)
CoreClientLabels == {"eq_1.2.3", "patch_up", "patch_0", "patch_long", "minor_up", "minor_down", "major_up", "major_down", "major_up_minor_down", "major_down_minor_up", "lead0_major", "lead0_minor", "lead0_patch", "prerelease", "build", "prerelease_dot", "ws_lead", "ws_trail", "ws_newline", "ws_tab", "ws_inner", "two_part", "four_part", "one_part", "v_prefix", "plus_sign", "minus_sign", "empty", "alpha", "alpha_minor", "dots_only", "missing_minor", "lead_dot", "trail_dot", "comma", "hex", "eq_0.0.0", "zero_patch_up", "zero_minor_up", "zero_major_up", "zero_double", "zero_patch_double", "eq_10.20.30", "mp_patch_up", "mp_patch_short", "mp_minor_up", "mp_minor_down", "mp_major_up", "mp_major_down", "mp_minor_prefix", "mp_minor_longer", "mp_major_prefix", "mp_major_longer", "mp_lead0", "mp_minor_lead0", "mp_swapped"}

ExtraClientLabels == {"arabic_digits", "fullwidth_digits", "fullwidth_dot", "nbsp_trail", "ideographic_space", "eq_max", "max_plus_1", "eq_huge", "huge_plus_1", "huge_minor", "huge_minor_plus_1", "huge_patch"}

ClientChars(l) ==
      CASE l = "eq_1.2.3" -> <<"1", ".", "2", ".", "3">>  \* '1.2.3'
        [] l = "patch_up" -> <<"1", ".", "2", ".", "4">>  \* '1.2.4'
        [] l = "patch_0" -> <<"1", ".", "2", ".", "0">>  \* '1.2.0'
        [] l = "patch_long" -> <<"1", ".", "2", ".", "1", "0">>  \* '1.2.10'
        [] l = "minor_up" -> <<"1", ".", "3", ".", "3">>  \* '1.3.3'
        [] l = "minor_down" -> <<"1", ".", "1", ".", "3">>  \* '1.1.3'
        [] l = "major_up" -> <<"2", ".", "2", ".", "3">>  \* '2.2.3'
        [] l = "major_down" -> <<"0", ".", "2", ".", "3">>  \* '0.2.3'
        [] l = "major_up_minor_down" -> <<"2", ".", "1", ".", "3">>  \* '2.1.3'
        [] l = "major_down_minor_up" -> <<"0", ".", "3", ".", "3">>  \* '0.3.3'
        [] l = "lead0_major" -> <<"0", "1", ".", "2", ".", "3">>  \* '01.2.3'
        [] l = "lead0_minor" -> <<"1", ".", "0", "2", ".", "3">>  \* '1.02.3'
        [] l = "lead0_patch" -> <<"1", ".", "2", ".", "0", "3">>  \* '1.2.03'
        [] l = "prerelease" -> <<"1", ".", "2", ".", "3", "-", "r", "c", "1">>  \* '1.2.3-rc1'
        [] l = "build" -> <<"1", ".", "2", ".", "3", "+", "b", "5">>  \* '1.2.3+b5'
        [] l = "prerelease_dot" -> <<"1", ".", "2", ".", "3", "-", "1", ".", "0">>  \* '1.2.3-1.0'
        [] l = "ws_lead" -> <<" ", "1", ".", "2", ".", "3">>  \* ' 1.2.3'
        [] l = "ws_trail" -> <<"1", ".", "2", ".", "3", " ">>  \* '1.2.3 '
        [] l = "ws_newline" -> <<"1", ".", "2", ".", "3", "\n">>  \* '1.2.3\n'
        [] l = "ws_tab" -> <<"\t", "1", ".", "2", ".", "3">>  \* '\t1.2.3'
        [] l = "ws_inner" -> <<"1", ".", "2", " ", ".", "3">>  \* '1.2 .3'
        [] l = "two_part" -> <<"1", ".", "2">>  \* '1.2'
        [] l = "four_part" -> <<"1", ".", "2", ".", "3", ".", "4">>  \* '1.2.3.4'
        [] l = "one_part" -> <<"1">>  \* '1'
        [] l = "v_prefix" -> <<"v", "1", ".", "2", ".", "3">>  \* 'v1.2.3'
        [] l = "plus_sign" -> <<"+", "1", ".", "2", ".", "3">>  \* '+1.2.3'
        [] l = "minus_sign" -> <<"-", "1", ".", "2", ".", "3">>  \* '-1.2.3'
        [] l = "empty" -> <<>>  \* ''
        [] l = "alpha" -> <<"a", ".", "b", ".", "c">>  \* 'a.b.c'
        [] l = "alpha_minor" -> <<"1", ".", "x", ".", "3">>  \* '1.x.3'
        [] l = "dots_only" -> <<".", ".">>  \* '..'
        [] l = "missing_minor" -> <<"1", ".", ".", "3">>  \* '1..3'
        [] l = "lead_dot" -> <<".", "1", ".", "2", ".", "3">>  \* '.1.2.3'
        [] l = "trail_dot" -> <<"1", ".", "2", ".", "3", ".">>  \* '1.2.3.'
        [] l = "comma" -> <<"1", ",", "2", ",", "3">>  \* '1,2,3'
        [] l = "hex" -> <<"0", "x", "1", ".", "2", ".", "3">>  \* '0x1.2.3'
        [] l = "eq_0.0.0" -> <<"0", ".", "0", ".", "0">>  \* '0.0.0'
        [] l = "zero_patch_up" -> <<"0", ".", "0", ".", "1">>  \* '0.0.1'
        [] l = "zero_minor_up" -> <<"0", ".", "1", ".", "0">>  \* '0.1.0'
        [] l = "zero_major_up" -> <<"1", ".", "0", ".", "0">>  \* '1.0.0'
        [] l = "zero_double" -> <<"0", "0", ".", "0", ".", "0">>  \* '00.0.0'
        [] l = "zero_patch_double" -> <<"0", ".", "0", ".", "0", "0">>  \* '0.0.00'
        [] l = "eq_10.20.30" -> <<"1", "0", ".", "2", "0", ".", "3", "0">>  \* '10.20.30'
        [] l = "mp_patch_up" -> <<"1", "0", ".", "2", "0", ".", "3", "1">>  \* '10.20.31'
        [] l = "mp_patch_short" -> <<"1", "0", ".", "2", "0", ".", "3">>  \* '10.20.3'
        [] l = "mp_minor_up" -> <<"1", "0", ".", "2", "1", ".", "3", "0">>  \* '10.21.30'
        [] l = "mp_minor_down" -> <<"1", "0", ".", "1", "9", ".", "3", "0">>  \* '10.19.30'
        [] l = "mp_major_up" -> <<"1", "1", ".", "2", "0", ".", "3", "0">>  \* '11.20.30'
        [] l = "mp_major_down" -> <<"9", ".", "2", "0", ".", "3", "0">>  \* '9.20.30'
        [] l = "mp_minor_prefix" -> <<"1", "0", ".", "2", ".", "3", "0">>  \* '10.2.30'
        [] l = "mp_minor_longer" -> <<"1", "0", ".", "2", "0", "0", ".", "3", "0">>  \* '10.200.30'
        [] l = "mp_major_prefix" -> <<"1", ".", "2", "0", ".", "3", "0">>  \* '1.20.30'
        [] l = "mp_major_longer" -> <<"1", "0", "0", ".", "2", "0", ".", "3", "0">>  \* '100.20.30'
        [] l = "mp_lead0" -> <<"0", "1", "0", ".", "2", "0", ".", "3", "0">>  \* '010.20.30'
        [] l = "mp_minor_lead0" -> <<"1", "0", ".", "0", "2", "0", ".", "3", "0">>  \* '10.020.30'
        [] l = "mp_swapped" -> <<"2", "0", ".", "1", "0", ".", "3", "0">>  \* '20.10.30'
        [] l = "arabic_digits" -> <<"U+0661", ".", "U+0662", ".", "U+0663">>  \* '\u0661.\u0662.\u0663'
        [] l = "fullwidth_digits" -> <<"U+FF11", ".", "U+FF12", ".", "U+FF13">>  \* '\uff11.\uff12.\uff13'
        [] l = "fullwidth_dot" -> <<"1", "U+FF0E", "2", "U+FF0E", "3">>  \* '1\uff0e2\uff0e3'
        [] l = "nbsp_trail" -> <<"1", ".", "2", ".", "3", "U+00A0">>  \* '1.2.3\xa0'
        [] l = "ideographic_space" -> <<"1", ".", "2", ".", "3", "U+3000">>  \* '1.2.3\u3000'
        [] l = "eq_max" -> <<"9", "2", "2", "3", "3", "7", "2", "0", "3", "6", "8", "5", "4", "7", "7", "5", "8", "0", "7", ".", "0", ".", "0">>  \* '9223372036854775807.0.0'
        [] l = "max_plus_1" -> <<"9", "2", "2", "3", "3", "7", "2", "0", "3", "6", "8", "5", "4", "7", "7", "5", "8", "0", "8", ".", "0", ".", "0">>  \* '9223372036854775808.0.0'
        [] l = "eq_huge" -> <<"1", "8", "4", "4", "6", "7", "4", "4", "0", "7", "3", "7", "0", "9", "5", "5", "1", "6", "1", "6", ".", "0", ".", "0">>  \* '18446744073709551616.0.0'
        [] l = "huge_plus_1" -> <<"1", "8", "4", "4", "6", "7", "4", "4", "0", "7", "3", "7", "0", "9", "5", "5", "1", "6", "1", "7", ".", "0", ".", "0">>  \* '18446744073709551617.0.0'
        [] l = "huge_minor" -> <<"1", ".", "1", "8", "4", "4", "6", "7", "4", "4", "0", "7", "3", "7", "0", "9", "5", "5", "1", "6", "1", "6", ".", "3">>  \* '1.18446744073709551616.3'
        [] l = "huge_minor_plus_1" -> <<"1", ".", "1", "8", "4", "4", "6", "7", "4", "4", "0", "7", "3", "7", "0", "9", "5", "5", "1", "6", "1", "7", ".", "3">>  \* '1.18446744073709551617.3'
        [] l = "huge_patch" -> <<"1", ".", "2", ".", "1", "8", "4", "4", "6", "7", "4", "4", "0", "7", "3", "7", "0", "9", "5", "5", "1", "6", "1", "6">>  \* '1.2.18446744073709551616'

ServerChars(l) ==
      CASE l = "1.2.3" -> <<"1", ".", "2", ".", "3">>  \* '1.2.3'
        [] l = "0.0.0" -> <<"0", ".", "0", ".", "0">>  \* '0.0.0'
        [] l = "10.20.30" -> <<"1", "0", ".", "2", "0", ".", "3", "0">>  \* '10.20.30'
        [] l = "max" -> <<"9", "2", "2", "3", "3", "7", "2", "0", "3", "6", "8", "5", "4", "7", "7", "5", "8", "0", "7", ".", "0", ".", "0">>  \* '9223372036854775807.0.0'
        [] l = "huge" -> <<"1", "8", "4", "4", "6", "7", "4", "4", "0", "7", "3", "7", "0", "9", "5", "5", "1", "6", "1", "6", ".", "0", ".", "0">>  \* '18446744073709551616.0.0'
        [] l = "huge_minor" -> <<"1", ".", "1", "8", "4", "4", "6", "7", "4", "4", "0", "7", "3", "7", "0", "9", "5", "5", "1", "6", "1", "6", ".", "3">>  \* '1.18446744073709551616.3'
        [] l = "bad_two_part" -> <<"1", ".", "2">>  \* '1.2'
        [] l = "bad_lead0" -> <<"0", "1", ".", "2", ".", "3">>  \* '01.2.3'
        [] l = "bad_prerelease" -> <<"1", ".", "2", ".", "3", "-", "r", "c", "1">>  \* '1.2.3-rc1'
        [] l = "bad_ws" -> <<"1", ".", "2", ".", "3", " ">>  \* '1.2.3 '

ClientLabels == CoreClientLabels \cup (IF UseExtra THEN ExtraClientLabels ELSE {})

Absent == [present |-> FALSE, chars |-> <<>>]
Sent(l) == [present |-> TRUE, chars |-> ClientChars(l)]
ClientVersions == {Absent} \cup {Sent(l) : l \in ClientLabels}
LabelOf(cv) == IF ~cv.present THEN "absent" ELSE CHOOSE l \in ClientLabels : ClientChars(l) = cv.chars

--------------------------------------------------------------------------
(* Digit strings.                                                          *)
Digits  == {"0", "1", "2", "3", "4", "5", "6", "7", "8", "9"}
DigitVal(d) == CASE d = "0" -> 0 [] d = "1" -> 1 [] d = "2" -> 2 [] d = "3" -> 3 [] d = "4" -> 4
                 [] d = "5" -> 5 [] d = "6" -> 6 [] d = "7" -> 7 [] d = "8" -> 8 [] d = "9" -> 9

\* numeric order of two digit strings without leading zeros
NumLess(x, y) ==
    \/ Len(x) < Len(y)
    \/ /\ Len(x) = Len(y)
       /\ \E k \in 1..Len(x) : (\A i \in 1..(k-1) : x[i] = y[i]) /\ DigitVal(x[k]) < DigitVal(y[k])

MaxInt64 == <<"9","2","2","3","3","7","2","0","3","6","8","5","4","7","7","5","8","0","7">>

\* pre-fix only: strconv.Atoi with the error dropped (parseSemver: `major, _ = strconv.Atoi(m[1])`),
\* out-of-range input yields the largest int.  With AtoiSaturates = FALSE this is the identity:
\* semverFields keeps the decimal strings and compareDecimal compares them by length, then text.
Atoi(d) == IF AtoiSaturates /\ NumLess(MaxInt64, d) THEN MaxInt64 ELSE d

--------------------------------------------------------------------------
(* parseSemver: semverRegex is  ^N\.N\.N$  where N is "0" or a non-zero    *)
(* digit followed by any number of digits (ASCII digits only).  As a       *)
(* scanner: NumEnd(s, i) is the index just after the token N starting at   *)
(* i, or 0 when no token starts there.  The token is maximal: what follows *)
(* must be "." or the end, never a digit.                                  *)
RECURSIVE DigitsEnd(_, _)
DigitsEnd(s, i) == IF i <= Len(s) /\ s[i] \in Digits THEN DigitsEnd(s, i + 1) ELSE i

NumEnd(s, i) ==
    IF i > Len(s) THEN 0
    ELSE IF s[i] = "0" THEN i + 1
    ELSE IF s[i] \in Digits THEN DigitsEnd(s, i + 1)
    ELSE 0

NoParse == [ok |-> FALSE, major |-> <<>>, minor |-> <<>>, patch |-> <<>>]

ParseSemver(s) ==
    LET e1 == NumEnd(s, 1) IN
    IF e1 = 0 \/ e1 > Len(s) \/ s[e1] # "." THEN NoParse
    ELSE LET e2 == NumEnd(s, e1 + 1) IN
         IF e2 = 0 \/ e2 > Len(s) \/ s[e2] # "." THEN NoParse
         ELSE LET e3 == NumEnd(s, e2 + 1) IN
              IF e3 # Len(s) + 1 THEN NoParse
              ELSE [ok |-> TRUE, major |-> Atoi(SubSeq(s, 1, e1 - 1)),
                    minor |-> Atoi(SubSeq(s, e1 + 1, e2 - 1)),
                    patch |-> Atoi(SubSeq(s, e2 + 1, e3 - 1))]

(* checkProtocolVersion(clientVersion, present), called only when a        *)
(* version is declared; protocolVersionParts were parsed the same way by   *)
(* SetProtocolVersion.                                                     *)
CheckProtocolVersion(cv) ==
    IF ~cv.present THEN "not_declared"
    ELSE LET c == ParseSemver(cv.chars)  s == ParseSemver(sver) IN
         IF ~c.ok THEN "malformed"
         ELSE IF c.major = s.major /\ c.minor = s.minor THEN "match"
         ELSE IF NumLess(c.major, s.major) \/ (c.major = s.major /\ NumLess(c.minor, s.minor))
              THEN "client_too_old"
              ELSE "server_too_old"

\* the side the Direction line of the message tells to act
SideOf(verdict) == CASE verdict = "not_declared"   -> "client"     \* "the client did not send ..."
                     [] verdict = "malformed"      -> "client"     \* "client sent a malformed protocol_version"
                     [] verdict = "client_too_old" -> "client"     \* "client is too old; upgrade the VGI extension/client"
                     [] verdict = "server_too_old" -> "server"     \* "server is too old; upgrade the VGI worker"

--------------------------------------------------------------------------
(* Routes and targets.  The service has a unary method, a producer and an  *)
(* exchange; "unknown" is a name that is not registered.                   *)
PipeTargets == {"unary", "producer", "exchange", "describe", "transport_options", "unknown"}
Calls ==
    {[route |-> "pipe", target |-> t] : t \in PipeTargets}
    \cup {[route |-> "http_unary", target |-> t] : t \in {"unary", "describe", "unknown", "producer"}}
    \cup {[route |-> "http_init",  target |-> t] : t \in {"producer", "exchange", "unknown", "unary"}}

Registered(t) == t \in {"unary", "producer", "exchange"}
IsStream(t) == t \in {"producer", "exchange"}
\* the target is served by this route's handler (a stream on POST /{m}, or a unary on /init, is not)
RightEndpoint(c) ==
    \/ c.route = "pipe"
    \/ c.route = "http_unary" /\ c.target = "unary"
    \/ c.route = "http_init" /\ IsStream(c.target)

Declared == sver # <<>>

--------------------------------------------------------------------------
Record(step) ==
    /\ hist' = IF Mode = "mc" THEN <<step>> ELSE Append(hist, step)   \* mc: properties read only the last step
    /\ (Mode = "edges") => EmitTrace(hist')
    /\ (Mode = "tree" /\ Len(hist') = Depth) => EmitTrace(hist')

Budget == (Mode = "tree") => Len(hist) < Depth

NoArgs == [x |-> 0]

--------------------------------------------------------------------------
(* C10, the declarative side: the grammar by splitting at the dots.        *)
DotsAt(s) == {i \in 1..Len(s) : s[i] = "."}
FirstDot(s) == CHOOSE i \in DotsAt(s) : \A j \in DotsAt(s) : i <= j
LastDot(s)  == CHOOSE i \in DotsAt(s) : \A j \in DotsAt(s) : j <= i
Part(s, k) == CASE k = 1 -> SubSeq(s, 1, FirstDot(s) - 1)
                [] k = 2 -> SubSeq(s, FirstDot(s) + 1, LastDot(s) - 1)
                [] k = 3 -> SubSeq(s, LastDot(s) + 1, Len(s))
\* a non-negative integer without leading zeros
IsNumber(p) == Len(p) >= 1 /\ (\A i \in 1..Len(p) : p[i] \in Digits) /\ (Len(p) = 1 \/ p[1] # "0")
\* canonical MAJOR.MINOR.PATCH
Canonical(s) == Cardinality(DotsAt(s)) = 2 /\ \A k \in 1..3 : IsNumber(Part(s, k))

SameMajorMinor(c, s) == Part(c, 1) = Part(s, 1) /\ Part(c, 2) = Part(s, 2)

\* "a call is dispatched iff ..."
Admitted(cv) ==
    \/ ~Declared
    \/ cv.present /\ Canonical(cv.chars) /\ SameMajorMinor(cv.chars, sver)

\* "... whose message names the side that must upgrade"
MustUpgrade(cv) ==
    IF ~cv.present \/ ~Canonical(cv.chars) THEN "client"     \* the client has to send a proper version
    ELSE IF \/ NumLess(Part(cv.chars, 1), Part(sver, 1))
            \/ Part(cv.chars, 1) = Part(sver, 1) /\ NumLess(Part(cv.chars, 2), Part(sver, 2))
         THEN "client" ELSE "server"

\* marks steps in which a major/minor component does not fit an int64
BigPart(s) == Canonical(s) /\ \E k \in 1..2 : NumLess(MaxInt64, Part(s, k))
Cls(cv) == IF (cv.present /\ BigPart(cv.chars)) \/ (Declared /\ BigPart(sver)) THEN "int64-overflow" ELSE "plain"

--------------------------------------------------------------------------
CallStep(name, c, cv, exp) ==
    [a |-> name,
     args |-> [route |-> c.route, target |-> c.target, cv |-> cv, label |-> LabelOf(cv)],
     exp |-> exp, cls |-> Cls(cv)]

Status(c, http) == IF c.route = "pipe" THEN 0 ELSE http

\* observation of a request that reached a handler or the gate
GateExp(c, ran, outcome, kind, side, reason, http, hook) ==
    [ran |-> ran, outcome |-> outcome, kind |-> kind, side |-> side,
     reason |-> reason, etype |-> IF kind = "" THEN "" ELSE "ProtocolVersionError",
     status |-> Status(c, http), hook |-> hook]

\* observation of a request that left the pipeline before the gate
PreExp(c, outcome, kind, etype, http) ==
    [ran |-> FALSE, pre_outcome |-> outcome, pre_kind |-> kind, pre_etype |-> etype,
     status |-> Status(c, http), hook |-> FALSE]

Quiet == UNCHANGED <<sver, nsets>>

(* serveOne: `if req.Method == "__describe__"`; handleUnary: `if method ==  *)
(* "__describe__"` -- both before the lookup and the gate.                  *)
Serve_Describe(c, cv) ==
    /\ c.target = "describe" /\ c.route \in {"pipe", "http_unary"}
    /\ Quiet
    /\ Record(CallStep("Serve_Describe", c, cv, GateExp(c, FALSE, "describe", "", "", "", 200, FALSE)))

(* serveOne: `if req.Method == "__transport_options__"` (pipe only).        *)
Serve_TransportOptions(c, cv) ==
    /\ c.target = "transport_options"
    /\ Quiet
    /\ Record(CallStep("Serve_TransportOptions", c, cv, PreExp(c, "options", "", "", 0)))

(* method lookup fails: pipe answers an AttributeError envelope, HTTP 404;  *)
(* on every path this comes before the gate.                                *)
Reject_UnknownMethod(c, cv) ==
    /\ c.target = "unknown"
    /\ Quiet
    /\ Record(CallStep("Reject_UnknownMethod", c, cv,
                       PreExp(c, "error", "MethodNotImplementedError", "AttributeError", 404)))

(* handleUnary: "is a stream; use /init endpoint"; handleStreamInit: "is    *)
(* unary; use base endpoint" -- HTTP 400 TypeError, before the gate.        *)
Reject_WrongEndpoint(c, cv) ==
    /\ Registered(c.target) /\ ~RightEndpoint(c)
    /\ Quiet
    /\ Record(CallStep("Reject_WrongEndpoint", c, cv, PreExp(c, "error", "", "TypeError", 400)))

GateReached(c) == Registered(c.target) /\ RightEndpoint(c)

\* pipe: the dispatch hook starts after the gate; HTTP: before it
HookOnRefusal(c) == c.route # "pipe"

(* `if s.protocolVersionSet` is false: straight to dispatch.                *)
Dispatch_NoVersionDeclared(c, cv) ==
    /\ GateReached(c) /\ ~Declared
    /\ Quiet
    /\ Record(CallStep("Dispatch_NoVersionDeclared", c, cv, GateExp(c, TRUE, "value", "", "", "", 200, TRUE)))

Gate_Match(c, cv) ==
    /\ GateReached(c) /\ Declared /\ CheckProtocolVersion(cv) = "match"
    /\ Quiet
    /\ Record(CallStep("Gate_Match", c, cv, GateExp(c, TRUE, "value", "", "", "", 200, TRUE)))

Gate_Refuse(c, cv, verdict) ==
    /\ GateReached(c) /\ Declared /\ CheckProtocolVersion(cv) = verdict
    /\ Quiet
    /\ Record(CallStep("Gate_Refuse_" \o verdict, c, cv,
                       GateExp(c, FALSE, "error", "protocol_version_mismatch", SideOf(verdict), verdict,
                               400, HookOnRefusal(c))))

(* Server.SetProtocolVersion(v).                                            *)
SetProtocolVersion_OptOut ==
    /\ Budget /\ nsets < MaxSets /\ "" \in ServerLabels
    /\ sver' = <<>> /\ nsets' = nsets + 1
    /\ Record([a |-> "SetProtocolVersion_OptOut", args |-> [chars |-> <<>>, label |-> ""],
               exp |-> [panicked |-> FALSE]])

SetProtocolVersion_Accept(l) ==
    /\ Budget /\ nsets < MaxSets /\ l # "" /\ ParseSemver(ServerChars(l)).ok
    /\ sver' = ServerChars(l) /\ nsets' = nsets + 1
    /\ Record([a |-> "SetProtocolVersion_Accept", args |-> [chars |-> ServerChars(l), label |-> l],
               exp |-> [panicked |-> FALSE]])

SetProtocolVersion_Panic(l) ==
    /\ Budget /\ nsets < MaxSets /\ l # "" /\ ~ParseSemver(ServerChars(l)).ok
    /\ sver' = sver /\ nsets' = nsets + 1
    /\ Record([a |-> "SetProtocolVersion_Panic", args |-> [chars |-> ServerChars(l), label |-> l],
               exp |-> [panicked |-> TRUE]])

Call(c, cv) ==
    /\ Budget
    /\ \/ Serve_Describe(c, cv)
       \/ Serve_TransportOptions(c, cv)
       \/ Reject_UnknownMethod(c, cv)
       \/ Reject_WrongEndpoint(c, cv)
       \/ Dispatch_NoVersionDeclared(c, cv)
       \/ Gate_Match(c, cv)
       \/ \E v \in {"not_declared", "malformed", "client_too_old", "server_too_old"} : Gate_Refuse(c, cv, v)

Init ==
    /\ sver = <<>> /\ nsets = 0
    /\ hist = << [a |-> "Init", args |-> [MaxSets |-> MaxSets], exp |-> NoArgs] >>

Next ==
    \/ SetProtocolVersion_OptOut
    \/ \E l \in ServerLabels : SetProtocolVersion_Accept(l) \/ SetProtocolVersion_Panic(l)
    \/ \E c \in Calls, cv \in ClientVersions : c.route \in Routes /\ Call(c, cv)

Spec == Init /\ [][Next]_vars

--------------------------------------------------------------------------
(* C10.                                                                     *)
Last == hist'[Len(hist')]
IsCall == "route" \in DOMAIN Last.args
TheCall == [route |-> Last.args.route, target |-> Last.args.target]
AtGate == IsCall /\ GateReached(TheCall)

\* a declared server version is always canonical (SetProtocolVersion panics otherwise)
ServerVersionCanonical == sver = <<>> \/ Canonical(sver)

\* dispatched iff no version declared, or canonical with the same major.minor
C10_DispatchedIffAdmitted ==
    [][ AtGate => (Last.exp.ran <=> Admitted(Last.args.cv)) ]_vars

C10_AdmittedIsServed ==
    [][ AtGate /\ Admitted(Last.args.cv) =>
            Last.exp.outcome = "value" /\ Last.exp.kind = "" /\ Last.exp.side = "" ]_vars

\* absent, malformed or mismatched: protocol_version_mismatch naming the side that must upgrade
C10_RefusalNamesSide ==
    [][ AtGate /\ ~Admitted(Last.args.cv) =>
            /\ Last.exp.outcome = "error"
            /\ Last.exp.kind = "protocol_version_mismatch"
            /\ Last.exp.side = MustUpgrade(Last.args.cv) ]_vars

\* __describe__ is never refused
C10_DescribeNeverRefused ==
    [][ IsCall /\ Last.args.target = "describe" /\ Last.args.route \in {"pipe", "http_unary"} =>
            Last.exp.outcome = "describe" /\ Last.exp.kind = "" ]_vars

\* whatever the route and target, user code never runs for an unadmitted request
C10_NeverRunsUnadmitted ==
    [][ IsCall /\ Last.exp.ran => Admitted(Last.args.cv) ]_vars

View == <<sver, nsets > 0>>
=============================================================================
