SPECIFICATION Spec
CONSTANTS
    ServerLabels = {"", "1.2.3", "0.0.0", "10.20.30", "max", "huge", "huge_minor", "bad_two_part", "bad_lead0", "bad_prerelease", "bad_ws"}
    UseExtra = TRUE
    AtoiSaturates = TRUE
    Routes = {"pipe", "http_unary", "http_init"}
    MaxSets = 2
    Mode = "mc"
    Depth = 0
VIEW View
INVARIANTS ServerVersionCanonical
PROPERTIES C10_DispatchedIffAdmitted C10_AdmittedIsServed C10_RefusalNamesSide C10_DescribeNeverRefused C10_NeverRunsUnadmitted
CHECK_DEADLOCK FALSE
