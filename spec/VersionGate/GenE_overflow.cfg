SPECIFICATION Spec
CONSTANTS
    ServerLabels = {"max", "huge", "huge_minor", "bad_lead0"}
    UseExtra = TRUE
    AtoiSaturates = FALSE
    Routes = {"pipe", "http_unary"}
    MaxSets = 1
    Mode = "edges"
    Depth = 0
VIEW View
CHECK_DEADLOCK FALSE
