SPECIFICATION Spec
CONSTANTS
    Debugs = {FALSE}
    Traces = {"none"}
    Redactors = {"default"}
    ClaimSets = {"none"}
    Transports = {"httpchunked"}
    Slots = {1}
    MaxTurns = 1
    MaxSids = 2
    ChunkedReportsZero = FALSE
    Mode = "edges"
    Depth = 0
VIEW View
CHECK_DEADLOCK FALSE
