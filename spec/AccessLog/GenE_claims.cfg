SPECIFICATION Spec
CONSTANTS
    Debugs = {FALSE}
    Traces = {"valid"}
    Redactors = {"default", "off", "custom", "panic"}
    ClaimSets = {"none", "cred", "pii", "custom"}
    Transports = {"http"}
    Slots = {1}
    MaxTurns = 1
    MaxSids = 2
    ChunkedReportsZero = FALSE
    Mode = "edges"
    Depth = 0
VIEW View
CHECK_DEADLOCK FALSE
