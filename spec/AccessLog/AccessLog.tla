------------------------------ MODULE AccessLog ------------------------------
(***************************************************************************)
(* The access log of vgi-rpc-go: AccessLogHook.OnDispatchEnd record        *)
(* assembly (vgirpc/accesslog.go), trace correlation (accesslog_trace.go), *)
(* claim redaction (accesslog_redact.go), the HTTP egress recorder         *)
(* (accesslog_egress.go + HttpServer.ServeHTTP), and the places that feed  *)
(* DispatchInfo: serveOne (pipe: ONE dispatch per call, a whole stream is  *)
(* one record), handleUnary / handleStreamInit / handleStreamExchange      *)
(* (HTTP: one dispatch, hence one record, per request; the stream id is    *)
(* minted at /init, sealed into the call token and read back from it on    *)
(* every continuation).                                                    *)
(*                                                                         *)
(* A behaviour is a configuration (chosen in Init: debug, trace provider,  *)
(* claim redactor, transport) followed by a call history.  Every call step *)
(* predicts, in exp, the shape of the JSON line(s) the call makes the hook *)
(* write.  Values the model cannot know are abstracted:                    *)
(*   stream_id   n = the n-th distinct well-formed (32 lowercase hex) id   *)
(*               seen in the behaviour (the driver numbers ids by first    *)
(*               appearance)                                               *)
(*   trace       shapes "hex32" / "hex16" / "absent"                       *)
(*   claims      per key "redacted" / "custom" / "verbatim"                *)
(*   byte counts "wire" (= bytes that crossed the wire), "decoded" (= size *)
(*               before compression), "zero"                               *)
(***************************************************************************)
EXTENDS Naturals, Sequences, FiniteSets, TLC, VerifEmit

CONSTANTS
    Debugs,      \* subset of BOOLEAN
    Traces,      \* subset of TraceProviders
    Redactors,   \* subset of {"default", "off", "custom", "panic"}
    ClaimSets,   \* subset of {"none", "cred", "pii", "custom"}
    Transports,  \* subset of {"pipe", "http", "httpz", "httpchunked"}
    Slots,       \* concurrently open HTTP streams, e.g. {1} or {1, 2}
    MaxTurns,    \* continuations per stream
    MaxSids,     \* streams started per behaviour
    ChunkedReportsZero,  \* TRUE = the code as found (see RequestBytes); FALSE = fixed design
    Mode, Depth

VARIABLES
    cfg,         \* [debug, trace, redactor, transport]
    slot,        \* [Slots -> [phase : {"free","open"}, kind, turns, sid, claims]]
    nextSid,     \* number of stream ids minted so far
    shown,       \* ghost: [Slots -> set of stream ids shown by the records of the stream
                 \*         currently in the slot]
    hist

vars == <<cfg, slot, nextSid, shown, hist>>

TraceProviders == {"none", "valid", "dashed", "upper", "trace_only", "span_only", "panic"}
Http == cfg.transport # "pipe"

--------------------------------------------------------------------------
(* accesslog.go: the fields every record carries, with their JSON types     *)
Required ==
    [timestamp |-> "string", level |-> "string", logger |-> "string", message |-> "string",
     server_id |-> "string", protocol |-> "string", protocol_hash |-> "string",
     method |-> "string", method_type |-> "string", principal |-> "string",
     auth_domain |-> "string", authenticated |-> "bool", remote_addr |-> "string",
     duration_ms |-> "number", status |-> "string", error_type |-> "string"]

--------------------------------------------------------------------------
(* accesslog_trace.go: currentTraceContext                                  *)
\* what the installed provider returns: <<trace id shape, span id shape>>
ProviderReturns(p) ==
    CASE p = "valid"      -> <<"hex32", "hex16">>
      [] p = "dashed"     -> <<"dashed36", "hex16">>
      [] p = "upper"      -> <<"upper32", "upper16">>
      [] p = "trace_only" -> <<"hex32", "empty">>
      [] p = "span_only"  -> <<"empty", "hex16">>

\* nil provider -> nothing; panic -> recovered, nothing; a pair that is not exactly
\* (32 lowercase hex, 16 lowercase hex) is treated as nothing
CurrentTrace(p) ==
    IF p \in {"none", "panic"} THEN <<"", "">>
    ELSE LET r == ProviderReturns(p) IN
         IF r[1] = "hex32" /\ r[2] = "hex16" THEN r ELSE <<"", "">>

\* OnDispatchEnd: `if traceID != "" { record both }`
TraceFields(p) ==
    LET t == CurrentTrace(p) IN
    IF t[1] # "" THEN [trace_id |-> t[1], span_id |-> t[2]]
                 ELSE [trace_id |-> "absent", span_id |-> "absent"]

PairVerdict(tf) ==
    IF \/ (tf.trace_id = "hex32" /\ tf.span_id = "hex16")
       \/ (tf.trace_id = "absent" /\ tf.span_id = "absent")
    THEN "consistent" ELSE "inconsistent"

--------------------------------------------------------------------------
(* accesslog_redact.go                                                      *)
\* abstract claim keys.  cred*/pii*/name match defaultClaimRedactPattern (a
\* case-insensitive substring match on credential and OIDC personal-data words, and
\* the exact key "name"); near* look similar but do not match; cust1 is the key the
\* installed custom redactor rewrites.
SensitiveKeys == {"cred1", "cred2", "pii1", "pii2", "name"}
CustomTargets == {"cust1"}
ClaimKeys(cs) ==
    CASE cs = "none"   -> {}
      [] cs = "cred"   -> {"cred1", "cred2", "safe1"}
      [] cs = "pii"    -> {"pii1", "pii2", "name", "near1"}
      [] cs = "custom" -> {"cust1", "safe1", "safe2", "near2"}

\* the installed policy (nil = RedactClaims), per key
Redact(keys, red) ==
    CASE red = "default" -> [k \in keys |-> IF k \in SensitiveKeys THEN "redacted" ELSE "verbatim"]
      [] red = "off"     -> [k \in keys |-> "verbatim"]
      [] red = "custom"  -> [k \in keys |-> IF k \in CustomTargets THEN "custom" ELSE "verbatim"]

\* OnDispatchEnd + applyClaimRedaction: a claims field only when the auth context has
\* claims and redaction left some; a redactor that panics fails closed (claims dropped,
\* the record is still written)
NoClaims == [present |-> FALSE, keys |-> <<>>]
ClaimsField(cs, red) ==
    IF ClaimKeys(cs) = {} \/ red = "panic" THEN NoClaims
    ELSE [present |-> TRUE, keys |-> Redact(ClaimKeys(cs), red)]

--------------------------------------------------------------------------
(* accesslog_egress.go + ServeHTTP                                          *)
\* rec.requestBytes = r.ContentLength when > 0: the body as received, before
\* decompression.  As found, a request with no declared length (Transfer-Encoding:
\* chunked) "reports 0, matching the Python reference" although its body crossed the
\* wire; that contradicts C38 (WireBytes below fails in the model with
\* ChunkedReportsZero = TRUE, reproduced on the real code).  The checked design counts
\* the body bytes actually read when no length was declared.
RequestBytes == IF cfg.transport = "httpchunked" /\ ChunkedReportsZero THEN "zero" ELSE "wire"
\* countingResponseWriter sits outside compressResponseWriter: post-compression bytes
ResponseBytes == "wire"

--------------------------------------------------------------------------
Record(step) ==
    /\ hist' = Append(hist, step)
    /\ (Mode = "edges") => EmitTrace(hist')
    /\ (Mode = "tree" /\ Len(hist') = Depth) => EmitTrace(hist')

Budget == (Mode = "tree") => Len(hist) < Depth

Fn(S, v) == [f \in S |-> v]

\* the optional fields of a record and their JSON types (request_id and
\* server_version are left to the concretisation)
OptionalFields(status, payloadKind, stream, cancelled, claimsField, stats) ==
       (IF status = "error" THEN [error_message |-> "string"] ELSE <<>>)
    @@ (IF CurrentTrace(cfg.trace)[1] # "" THEN [trace_id |-> "string", span_id |-> "string"] ELSE <<>>)
    @@ (CASE payloadKind = "data"    -> [request_data |-> "string"]
          [] payloadKind = "omitted" -> [original_request_bytes |-> "number", truncated |-> "string"]
          [] OTHER -> <<>>)
    @@ (IF stream THEN [stream_id |-> "string"] ELSE <<>>)
    @@ (IF cancelled THEN [cancelled |-> "bool"] ELSE <<>>)
    @@ (IF claimsField.present THEN [claims |-> "object"] ELSE <<>>)
    @@ (IF Http THEN [request_bytes |-> "number", response_bytes |-> "number"] ELSE <<>>)
    @@ (IF stats THEN Fn({"input_batches", "output_batches", "input_rows", "output_rows",
                          "input_bytes", "output_bytes"}, "number") ELSE <<>>)

\* the record OnDispatchEnd assembles for one dispatch.
\*   method      "u" | "p" | "x"   (abstract method called)
\*   status      "ok" | "error";  etype = error_type
\*   hasReq      DispatchInfo.RequestData is set (unary and stream init, not continuations)
\*   sid         0 for unary, else the abstract stream id in DispatchInfo.StreamID
Shape(method, status, etype, hasReq, sid, cancelled, cs, stats) ==
    LET stream == method # "u"
        payloadKind == IF ~hasReq THEN "none" ELSE IF cfg.debug THEN "data" ELSE "omitted"
        tf == TraceFields(cfg.trace)
        cf == ClaimsField(cs, cfg.redactor)
    IN [lines |-> 1,
        required |-> Required,
        describes |-> [method |-> method,
                       method_type |-> IF stream THEN "stream" ELSE "unary",
                       status |-> status],
        error_type |-> etype,
        trace |-> tf,
        trace_pair |-> PairVerdict(tf),
        claims |-> cf,
        payload_kind |-> payloadKind,
        fields |-> OptionalFields(status, payloadKind, stream, cancelled, cf, stats)]
    @@ (IF hasReq THEN [payload |-> IF payloadKind \in {"data", "omitted"} THEN "present" ELSE "missing"]
                  ELSE <<>>)
    @@ (IF stream THEN [stream_id |-> sid] ELSE [stream_id_x |-> "absent"])
    @@ (IF Http THEN [request_bytes |-> RequestBytes, response_bytes |-> ResponseBytes]
                ELSE [bytes_x |-> "absent"])

ErrType(outcome) ==
    CASE outcome = "ok"          -> ""
      [] outcome = "rpc_error"   -> "ValueError"      \* *RpcError: its Type
      [] outcome = "plain_error" -> "Error"           \* any other error
      [] outcome = "panic"       -> "RuntimeError"    \* recovered handler panic
      [] outcome = "bad_params"  -> "TypeError"       \* parameter deserialization
Status(outcome) == IF outcome = "ok" THEN "ok" ELSE "error"

UnaryOutcomes == {"ok", "rpc_error", "plain_error", "panic", "bad_params"}
\* claims reach the record only over HTTP: the pipe loop dispatches as Anonymous()
CallClaims == IF Http THEN ClaimSets ELSE {"none"}

Free == [phase |-> "free", kind |-> "-", turns |-> 0, sid |-> 0, claims |-> "none"]

--------------------------------------------------------------------------
(* serveOne -> serveUnary   /   HttpServer.handleUnary                      *)
Unary(outcome, cs) ==
    /\ Budget /\ cs \in CallClaims
    /\ UNCHANGED <<cfg, slot, nextSid, shown>>
    /\ Record([a |-> "Unary", cls |-> cfg.transport, args |-> [outcome |-> outcome, claims |-> cs],
               exp |-> Shape("u", Status(outcome), ErrType(outcome), TRUE, 0, FALSE, cs,
                             outcome # "bad_params")])

\* method lookup fails before any dispatch starts: no hook, no record
Unknown ==
    /\ Budget
    /\ UNCHANGED <<cfg, slot, nextSid, shown>>
    /\ Record([a |-> "Unknown", args |-> [x |-> 0], exp |-> [lines_x |-> 0]])

(* serveOne -> serveStream: the whole stream is ONE dispatch with one stream id    *)
\* ending: "close" (client ends the input after n turns), "finish" (producer finishes
\* on turn n+1), "error" (turn n+1 fails), "cancel" (client cancels after n turns),
\* "init_error" (the stream handler fails)
PipeStream(kind, n, ending) ==
    /\ Budget /\ cfg.transport = "pipe" /\ nextSid < MaxSids
    /\ (ending = "finish") => kind = "p"
    /\ (ending = "init_error") => n = 0
    /\ nextSid' = nextSid + 1
    /\ UNCHANGED <<cfg, slot, shown>>
    /\ LET failed == ending \in {"error", "init_error"} IN
       Record([a |-> "PipeStream", cls |-> cfg.transport, args |-> [kind |-> kind, turns |-> n, ending |-> ending],
               exp |-> Shape(kind, IF failed THEN "error" ELSE "ok",
                             IF failed THEN "ValueError" ELSE "", TRUE, nextSid + 1,
                             FALSE,     \* dispatchInfo is built before the loop: never Cancelled
                             "none",
                             \* no batch was counted when init failed, or nothing was exchanged
                             ~(ending = "init_error" \/ (n = 0 /\ ending \in {"close", "cancel"})))])

(* HttpServer.handleStreamInit: streamID := RandomStreamID(); sealed into the call  *)
(* token; a producer's first Produce turn runs inside /init                          *)
HttpInit(s, kind, outcome, cs) ==
    /\ Budget /\ Http /\ cs \in CallClaims /\ nextSid < MaxSids
    /\ slot[s].phase = "free"
    /\ nextSid' = nextSid + 1
    /\ slot' = [slot EXCEPT ![s] = IF outcome = "ok"
                    THEN [phase |-> "open", kind |-> kind, turns |-> 0, sid |-> nextSid + 1, claims |-> cs]
                    ELSE Free]
    /\ shown' = [shown EXCEPT ![s] = {nextSid + 1}]     \* a new stream occupies the slot
    /\ UNCHANGED cfg
    /\ Record([a |-> "HttpInit", cls |-> cfg.transport, args |-> [slot |-> s, kind |-> kind, outcome |-> outcome, claims |-> cs],
               exp |-> Shape(kind, Status(outcome), ErrType(outcome), TRUE, nextSid + 1, FALSE, cs, TRUE)])

(* HttpServer.handleStreamExchange: streamID := call.StreamID (from the call token) *)
\* outcome: "emit" (one more batch, new cursor), "finish" (producer ends), "error"
\* (Produce/Exchange fails), "cancel" (client sends vgi_rpc.cancel)
HttpTurn(s, outcome) ==
    /\ Budget /\ Http
    /\ slot[s].phase = "open"
    /\ (outcome = "finish") => slot[s].kind = "p"
    /\ (outcome = "emit") => slot[s].turns < MaxTurns
    /\ LET sid == slot[s].sid IN     \* resolved from the call token
       /\ shown' = [shown EXCEPT ![s] = @ \cup {sid}]
       /\ slot' = [slot EXCEPT ![s] = IF outcome = "emit" THEN [@ EXCEPT !.turns = @ + 1] ELSE Free]
       /\ UNCHANGED <<cfg, nextSid>>
       /\ Record([a |-> "HttpTurn", cls |-> cfg.transport, args |-> [slot |-> s, outcome |-> outcome, kind |-> slot[s].kind],
                  exp |-> Shape(slot[s].kind, IF outcome = "error" THEN "error" ELSE "ok",
                                IF outcome = "error" THEN "ValueError" ELSE "",
                                FALSE, sid, outcome = "cancel", slot[s].claims,
                                \* only a turn that reached Produce/Exchange and emitted counts I/O
                                IF slot[s].kind = "x" THEN outcome \in {"emit", "error"} ELSE outcome = "emit")])

\* the client drops an open stream without another request (exchange streams never finish)
Abandon(s) ==
    /\ Budget /\ Http /\ slot[s].phase = "open"
    /\ slot' = [slot EXCEPT ![s] = Free]
    /\ UNCHANGED <<cfg, nextSid, shown>>
    /\ Record([a |-> "Abandon", args |-> [slot |-> s], exp |-> [x |-> 0]])

Init ==
    /\ cfg \in [debug : Debugs, trace : Traces, redactor : Redactors, transport : Transports]
    /\ (cfg.transport = "pipe") => cfg.redactor = CHOOSE r \in Redactors : TRUE  \* no claims on a pipe
    /\ slot = [s \in Slots |-> Free]
    /\ nextSid = 0
    /\ shown = [s \in Slots |-> {}]
    /\ hist = << [a |-> "Init", args |-> cfg, exp |-> [ok |-> TRUE]] >>

Next ==
    \/ \E o \in UnaryOutcomes, cs \in ClaimSets : Unary(o, cs)
    \/ Unknown
    \/ \E k \in {"p", "x"}, n \in 0..MaxTurns,
          e \in {"close", "finish", "error", "cancel", "init_error"} : PipeStream(k, n, e)
    \/ \E s \in Slots, k \in {"p", "x"}, o \in {"ok", "rpc_error"}, cs \in ClaimSets : HttpInit(s, k, o, cs)
    \/ \E s \in Slots, o \in {"emit", "finish", "error", "cancel"} : HttpTurn(s, o)
    \/ \E s \in Slots : Abandon(s)

Spec == Init /\ [][Next]_vars

--------------------------------------------------------------------------
(* C38                                                                      *)
Last == hist'[Len(hist')]
IsRecord == Len(hist') > Len(hist) /\ "lines" \in DOMAIN Last.exp
IsStreamRecord == IsRecord /\ Last.a \in {"PipeStream", "HttpInit", "HttpTurn"}

\* one JSON line per dispatched call, with the required fields and types, that names
\* the method, its type and the outcome of the call
SchemaValid ==
    [][ IsRecord => /\ Last.exp.lines = 1
                    /\ Last.exp.required = Required
                    /\ Last.exp.describes.method_type = (IF Last.a = "Unary" THEN "unary" ELSE "stream")
                    /\ (Last.exp.describes.status = "error") <=> (Last.exp.error_type # "") ]_vars

\* every stream record carries a stream id ...
StreamIdOnStreamRecords ==
    [][ IsStreamRecord => ("stream_id" \in DOMAIN Last.exp /\ Last.exp.stream_id \in 1..MaxSids) ]_vars
\* ... and a stream's init and all its continuations carry the same one
\* (shown[s] = the ids on the records of the stream that last occupied slot s)
StreamIdStable == \A s \in Slots : Cardinality(shown[s]) <= 1

\* trace_id and span_id: both present and well-formed, or both absent
TraceBothOrNeither == [][ IsRecord => Last.exp.trace_pair = "consistent" ]_vars

\* unary and stream-init records carry the request payload or the payload-omitted marker
PayloadOrMarker ==
    [][ (IsRecord /\ Last.a \in {"Unary", "HttpInit", "PipeStream"}) =>
            ("payload" \in DOMAIN Last.exp /\ Last.exp.payload = "present") ]_vars

\* claims are redacted by key name: under the default policy exactly the sensitive keys
\* have their value replaced and every key is preserved; a panicking redactor emits none
ClaimsRedactedByKey ==
    [][ IsRecord =>
          LET c == Last.exp.claims
              cs == IF Last.a = "HttpTurn" THEN slot[Last.args.slot].claims
                    ELSE IF "claims" \in DOMAIN Last.args THEN Last.args.claims ELSE "none"
          IN /\ (cfg.redactor = "panic" \/ ClaimKeys(cs) = {}) => ~c.present
             /\ c.present =>
                   /\ DOMAIN c.keys = ClaimKeys(cs)
                   /\ (cfg.redactor = "default") =>
                         \A k \in DOMAIN c.keys : (k \in SensitiveKeys) <=> (c.keys[k] = "redacted") ]_vars

\* over HTTP the byte counts are what crossed the wire
WireBytes ==
    [][ (IsRecord /\ Http) => (Last.exp.request_bytes = "wire" /\ Last.exp.response_bytes = "wire") ]_vars

View == <<cfg, slot, nextSid, shown>>
=============================================================================
