SPECIFICATION Spec
CONSTANTS
    Debugs = {TRUE, FALSE}
    Traces = {"none", "valid", "dashed", "upper", "trace_only", "span_only", "panic"}
    Redactors = {"default", "off", "custom", "panic"}
    ClaimSets = {"none", "cred", "pii", "custom"}
    Transports = {"pipe", "http", "httpz", "httpchunked"}
    Slots = {1}
    MaxTurns = 1
    MaxSids = 1
    ChunkedReportsZero = FALSE
    Mode = "edges"
    Depth = 0
VIEW View
CHECK_DEADLOCK FALSE
