SPECIFICATION Spec
CONSTANTS
    Debugs = {TRUE, FALSE}
    Traces = {"none", "valid", "dashed", "upper", "trace_only", "span_only", "panic"}
    Redactors = {"default", "off", "custom", "panic"}
    ClaimSets = {"none", "cred", "pii", "custom"}
    Transports = {"pipe", "http", "httpz", "httpchunked"}
    Slots = {1, 2}
    MaxTurns = 3
    MaxSids = 6
    ChunkedReportsZero = FALSE
    Mode = "tree"
    Depth = 30

CHECK_DEADLOCK FALSE
