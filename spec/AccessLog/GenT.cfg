SPECIFICATION Spec
CONSTANTS
    Debugs = {TRUE}
    Traces = {"valid"}
    Redactors = {"default"}
    ClaimSets = {"none"}
    Transports = {"http"}
    Slots = {1, 2}
    MaxTurns = 2
    MaxSids = 3
    ChunkedReportsZero = FALSE
    Mode = "tree"
    Depth = 5

CHECK_DEADLOCK FALSE
