SPECIFICATION Spec
CONSTANTS
    Debugs = {TRUE, FALSE}
    Traces = {"none", "valid", "dashed", "upper", "trace_only", "span_only", "panic"}
    Redactors = {"default"}
    ClaimSets = {"none"}
    Transports = {"pipe", "http", "httpz"}
    Slots = {1}
    MaxTurns = 1
    MaxSids = 2
    ChunkedReportsZero = FALSE
    Mode = "edges"
    Depth = 0
VIEW View
CHECK_DEADLOCK FALSE
