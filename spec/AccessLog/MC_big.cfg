SPECIFICATION Spec
CONSTANTS
    Debugs = {TRUE, FALSE}
    Traces = {"none", "valid", "dashed", "upper", "trace_only", "span_only", "panic"}
    Redactors = {"default", "off", "custom", "panic"}
    ClaimSets = {"none", "cred", "pii", "custom"}
    Transports = {"pipe", "http", "httpz", "httpchunked"}
    Slots = {1}
    MaxTurns = 2
    MaxSids = 3
    ChunkedReportsZero = FALSE
    Mode = "mc"
    Depth = 0
VIEW View
INVARIANTS StreamIdStable
PROPERTIES SchemaValid StreamIdOnStreamRecords TraceBothOrNeither PayloadOrMarker ClaimsRedactedByKey WireBytes
CHECK_DEADLOCK FALSE
