SPECIFICATION Spec
CONSTANTS
    Debugs = {TRUE}
    Traces = {"valid"}
    Redactors = {"default"}
    ClaimSets = {"none"}
    Transports = {"http"}
    Slots = {1, 2}
    MaxTurns = 1
    MaxSids = 3
    ChunkedReportsZero = FALSE
    Mode = "edges"
    Depth = 0
VIEW View
CHECK_DEADLOCK FALSE
