SPECIFICATION Spec
CONSTANTS
    Debugs = {FALSE}
    Traces = {"valid", "span_only"}
    Redactors = {"default", "panic"}
    ClaimSets = {"none", "pii"}
    Transports = {"http", "httpz"}
    Slots = {1, 2}
    MaxTurns = 2
    MaxSids = 3
    ChunkedReportsZero = FALSE
    Mode = "mc"
    Depth = 0
VIEW View
INVARIANTS StreamIdStable
PROPERTIES SchemaValid StreamIdOnStreamRecords TraceBothOrNeither PayloadOrMarker ClaimsRedactedByKey WireBytes
CHECK_DEADLOCK FALSE
