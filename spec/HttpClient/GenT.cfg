SPECIFICATION Spec
CONSTANTS
    Mode = "tree"
    Depth = 6
    Kinds = {"prod", "exch"}
    MaxN = 2
    MaxZeros = 2
    Limits = {0, 1, 2}
    InitErrs = {FALSE, TRUE}
    Inputs = {"ok", "drift"}
    Decls = {TRUE, FALSE}
    FaultKinds = {"reset", "status", "trunc_msg", "trailing", "missing_cursor"}
    MaxPerTurn = 1
    MaxFaults = 2
    MaxCur = 5
    OpenFaults = TRUE
    RequireEOS = TRUE
    ExcFirst = TRUE
CHECK_DEADLOCK FALSE
