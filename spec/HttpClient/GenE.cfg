SPECIFICATION Spec
CONSTANTS
    Mode = "edges"
    Depth = 0
    Kinds = {"unary", "prod", "exch"}
    MaxN = 2
    MaxZeros = 99
    Limits = {0, 1, 2}
    InitErrs = {FALSE, TRUE}
    Inputs = {"ok", "drift"}
    Decls = {TRUE, FALSE}
    FaultKinds = {"neterr", "reset", "timeout", "oversize_enc", "trunc_read", "enc_unknown", "enc_wrong", "oversize_dec", "status", "corrupt", "trunc", "schema_drift", "trunc_msg", "trailing", "rpcerr_hdr", "missing_cursor"}
    MaxPerTurn = 1
    MaxFaults = 99
    MaxCur = 4
    OpenFaults = TRUE
    RequireEOS = TRUE
    ExcFirst = TRUE
VIEW View
CHECK_DEADLOCK FALSE
