SPECIFICATION Spec
CONSTANTS
    Mode = "tree"
    Depth = 9
    Kinds = {"prod", "exch"}
    MaxN = 5
    MaxZeros = 2
    Limits = {0, 1, 2, 3}
    InitErrs = {FALSE, TRUE}
    Inputs = {"ok", "drift"}
    Decls = {TRUE, FALSE}
    FaultKinds = {"neterr", "reset", "timeout", "oversize_enc", "trunc_read", "enc_unknown", "enc_wrong", "oversize_dec", "status", "corrupt", "trunc", "schema_drift", "trunc_msg", "trailing", "rpcerr_hdr", "missing_cursor"}
    MaxPerTurn = 2
    MaxFaults = 2
    MaxCur = 8
    OpenFaults = FALSE
    RequireEOS = TRUE
    ExcFirst = TRUE
CHECK_DEADLOCK FALSE
