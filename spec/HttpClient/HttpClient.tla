------------------------------ MODULE HttpClient ------------------------------
(***************************************************************************)
(* The native HTTP client of vgi-rpc-go (vgirpc/http_client.go) talking to *)
(* the stateless HTTP transport of the same package.                       *)
(*                                                                         *)
(* One behaviour = one caller driving either unary calls or ONE stream     *)
(* (producer or exchange) against a scripted server through a transport    *)
(* that may damage any response.  Client actions are the public entry      *)
(* points (CallUnary, OpenProducer/OpenExchange, Next, Exchange, Cancel,   *)
(* Close); each follows the order of checks of the code, one named exit    *)
(* per `return` (PostExit = HttpClient.post, ParseExit = parseIPCStream,   *)
(* MainExit = parseMain, then the caller's own checks).                    *)
(*                                                                         *)
(* Client stream state is the struct's: tok (cursor; 0 = ""), fin, closed, *)
(* pend.  "open(c)" = tok=c /\ ~fin; "finished"/"poisoned" = tok=0 /\ fin  *)
(* (the code does not tell them apart -- the ghost `amb` does); "closed".  *)
(*                                                                         *)
(* The server is stateless: a cursor is a sealed position.  Cursor ids are *)
(* the order in which the server minted them (cur[k] = position sealed in  *)
(* cursor k), whether or not the response carrying them ever arrived.      *)
(* A scripted stream produces the values 1, 2, 3, ... (value = position),  *)
(* so "the batches the server produced, in order" is 1..n.  A data batch    *)
(* has ONE row carrying its position, or -- at the positions the script     *)
(* lists in `zs` -- ZERO rows (an empty partition: a legal data batch that  *)
(* must be handed over like any other).  What identifies a batch is its     *)
(* position; what the caller can see of it is its row count and, when it    *)
(* has a row, its value.                                                     *)
(*                                                                         *)
(* Served: C21.  MC.cfg / Gen*.cfg describe the client with the two        *)
(* proposed fixes (RequireEOS, ExcFirst; proposed_fix_C21.diff); the        *)
(* *_asis.cfg files describe the code as pinned: MC_asis.cfg is EXPECTED to *)
(* violate CleanEndIsComplete and TypedErrors (the two findings), and the   *)
(* behaviours of GenE_asis.cfg replay against the pinned code without a     *)
(* single difference in any key.                                            *)
(***************************************************************************)
EXTENDS Integers, Sequences, FiniteSets, TLC, VerifEmit

CONSTANTS
    Mode, Depth,
    Kinds,       \* subset of {"unary", "prod", "exch"}
    MaxN,        \* producer: 0..MaxN data batches; exchange: error after 0..MaxN good turns
    MaxZeros,    \* at most this many of a script's data batches have zero rows (0: every batch has a
                 \* row); WHICH positions is free: first, middle, last, consecutive, all
    Limits,      \* producer batch limits of the server (data batches per HTTP turn), e.g. {0, 1, 2};
                 \* 0 = no limit (the whole stream travels in the init response)
    InitErrs,    \* {FALSE} or {FALSE, TRUE}: may the stream-init handler fail
    Inputs,      \* exchange inputs offered: subset of {"ok", "drift"}
    Decls,       \* unary: is a result schema declared: subset of BOOLEAN
    FaultKinds,  \* response faults offered (listed under "Response faults" below)
    MaxPerTurn,  \* 1: one fault per turn; 2: also the listed same-turn pairs
    MaxFaults,   \* faults per behaviour (tree mode; 99 = unbounded)
    MaxCur,      \* bound on cursors minted (bounds exchange turns and retried producer turns)
    OpenFaults,  \* may the init turn be damaged (FALSE for seeded walks, which would otherwise
                 \* mostly consist of failed opens)
    RequireEOS,  \* TRUE: a response stream must end with the Arrow end-of-stream marker
                 \*       (proposed fix); FALSE: physical EOF at a message boundary is a clean end
                 \*       (code as pinned)
    ExcFirst     \* TRUE: an exception envelope is surfaced even when the response stream's schema
                 \*       differs from the declared one (proposed fix; init failures are written with
                 \*       the empty schema); FALSE: the schema check comes first (code as pinned)

VARIABLES
    kind,        \* "none" | "unary" | "prod" | "exch" | "dead" (open failed)
    sc,          \* the server's script for this behaviour
    tok, fin, closed, pend,     \* HttpClientStream: token, finished, closed, pending
    cur,         \* server: cur[k] = position sealed in the k-th minted cursor
    posted,      \* cursor ids carried by the continuation POSTs of this stream, in order
    deliv,       \* values of the batches returned to the caller, in order
    amb,         \* ghost: a turn of an exchange stream was POSTed and its response was damaged
    cancelled,   \* ghost: the caller cancelled
    ended,       \* ghost: Next reported a clean end of stream to a caller that had not cancelled
    why,         \* ghost: how the last network turn of the stream failed ("" = it did not).  Part of
                 \*        the view, so that edges mode follows EVERY kind of failed turn by every
                 \*        operation (the implementation might treat the failure paths differently)
    nf,          \* faults injected so far
    hist

vars == <<kind, sc, tok, fin, closed, pend, cur, posted, deliv, amb, cancelled, ended, why, nf, hist>>

NoScript == [n |-> 0, term |-> "finish", lim |-> 0, initerr |-> FALSE, zs |-> {}]
\* rows of the data batch the script emits at position p
Rows(s, p) == IF p \in s.zs THEN 0 ELSE 1
Values == <<1, 2, 3, 4, 5, 6, 7, 8>>          \* value = position
Min(a, b) == IF a < b THEN a ELSE b
Hit(F, S) == F \cap S # {}

--------------------------------------------------------------------------
(* The scripted server.  A response is                                     *)
(*   data : values of its data batches                                     *)
(*   pos  : position sealed in the cursor it mints, -1 = no cursor         *)
(*   own  : the cursor travels in its own zero-row batch (producer, init)  *)
(*   exc  : the stream ends with an EXCEPTION batch                        *)
(*   hdr  : X-VGI-RPC-Error: true                                          *)
(*   esch : the stream was written with the empty schema (writeHttpError   *)
(*          with a nil schema: failures of the stream-init handler)        *)
Resp(d, p, o, e, h, s) == [data |-> d, pos |-> p, own |-> o, exc |-> e, hdr |-> h, esch |-> s]

\* runProduceLoop of script s resumed at position p: Produce until `lim` data batches were
\* written (then a cursor), or the script finishes / fails.  A failing Produce keeps the
\* batches already written in this turn.  A zero-row data batch counts towards the limit like any
\* other (the loop counts the collector's data batch, not its rows); lim = 0: no limit.
ProdTurn(s, p) ==
    IF s.lim > 0 /\ p + s.lim <= s.n
    THEN Resp(SubSeq(Values, p + 1, p + s.lim), p + s.lim, TRUE, FALSE, FALSE, FALSE)
    ELSE Resp(SubSeq(Values, p + 1, s.n), -1, FALSE, s.term = "error", FALSE, FALSE)

\* handleExchangeCall at position p: one data batch carrying the new cursor -- also when that batch
\* has zero rows -- or an exception
ExchTurn(s, p) ==
    IF s.term = "error" /\ p = s.n
    THEN Resp(<<>>, -1, FALSE, TRUE, TRUE, FALSE)
    ELSE Resp(<<p + 1>>, p + 1, FALSE, FALSE, FALSE, FALSE)

\* handleStreamInit: a failing init handler answers through writeHttpError(.., nil schema)
InitTurn(s, k) == IF s.initerr THEN Resp(<<>>, -1, FALSE, TRUE, TRUE, TRUE)
                  ELSE IF k = "prod" THEN ProdTurn(s, 0)
                  ELSE Resp(<<>>, 0, TRUE, FALSE, FALSE, FALSE)
\* handleUnary
UnaryTurn(term) == IF term = "error" THEN Resp(<<>>, -1, FALSE, TRUE, TRUE, FALSE)
                   ELSE Resp(<<1>>, -1, FALSE, FALSE, FALSE, FALSE)
\* handleStreamCancel: an empty stream, no cursor
CancelTurn == Resp(<<>>, -1, FALSE, FALSE, FALSE, FALSE)

\* batch messages in the (last) IPC stream of the response
Msgs(R) == Len(R.data) + (IF R.exc THEN 1 ELSE 0) + (IF R.pos >= 0 /\ R.own THEN 1 ELSE 0)

--------------------------------------------------------------------------
(* Response faults, by the check of the client that meets them first.     *)
(*  neterr        the request never reaches the server                     *)
(*  reset/timeout the server answered, the response is lost                *)
(*  oversize_enc  more encoded bytes than the client's limit               *)
(*  trunc_read    the body breaks off with a read error                    *)
(*  enc_unknown   Content-Encoding the client does not speak               *)
(*  enc_wrong     Content-Encoding that does not match the bytes           *)
(*  oversize_dec  decodes to more than the client's decoded limit          *)
(*  status        non-2xx                                                  *)
(*  corrupt/trunc structurally damaged IPC / cut inside a message          *)
(*  schema_drift  stream schema differs from the declared one              *)
(*  trunc_msg     cut at a message boundary, losing >= 1 batch message     *)
(*  trailing      bytes after the last stream                              *)
(*  rpcerr_hdr    X-VGI-RPC-Error: true on a response without envelope     *)
(*  missing_cursor the cursor is stripped from an exchange response        *)
TransportFaults == {"neterr", "reset", "timeout"}

\* same-turn pairs whose precedence in the code is well defined
Pairs ==
    {{"status", x} : x \in {"schema_drift", "trailing", "rpcerr_hdr", "missing_cursor",
                            "enc_unknown", "enc_wrong", "oversize_enc", "oversize_dec"}}
    \cup {{"schema_drift", "trailing"}, {"schema_drift", "rpcerr_hdr"}, {"schema_drift", "missing_cursor"},
          {"trailing", "rpcerr_hdr"}, {"trailing", "missing_cursor"}, {"rpcerr_hdr", "missing_cursor"},
          {"enc_unknown", "oversize_enc"}}

FaultSets ==
    {{}} \cup {{f} : f \in FaultKinds}
    \cup (IF MaxPerTurn >= 2 THEN {p \in Pairs : p \subseteq FaultKinds} ELSE {})

\* F can be injected into the response R of a turn of a stream of kind k
Applicable(F, R, k) ==
    /\ Cardinality(F) <= MaxFaults - nf
    /\ ("missing_cursor" \in F) => (k = "exch" /\ R.pos >= 0)
    /\ ("trunc_msg" \in F) => Msgs(R) >= 1
    /\ ("rpcerr_hdr" \in F) => ~R.hdr
    \* the server itself writes error envelopes with other schemas: no declaration to drift from
    /\ ("schema_drift" \in F) => ~R.exc

\* as-pinned reading of a stream cut at a message boundary: `keep` batch messages survive
Keeps(F, R) == IF "trunc_msg" \in F /\ ~RequireEOS THEN 0..(Msgs(R) - 1) ELSE {-1}
Eff(R, F, keep) ==
    IF "trunc_msg" \in F /\ ~RequireEOS
    THEN [R EXCEPT !.data = SubSeq(R.data, 1, Min(keep, Len(R.data))), !.pos = -1, !.exc = FALSE]
    ELSE IF "missing_cursor" \in F THEN [R EXCEPT !.pos = -1] ELSE R

\* HttpClient.post
PostExit(F) ==
    CASE Hit(F, TransportFaults)            -> "do_error"
      [] "oversize_enc" \in F               -> "enc_oversize"
      [] "trunc_read" \in F                 -> "read_error"
      [] "enc_unknown" \in F                -> "enc_unsupported"
      [] Hit(F, {"enc_wrong", "oversize_dec"}) -> "decode"
      [] "status" \in F                     -> "http_status"
      [] OTHER                              -> "ok"

\* HttpClient.parseIPCStream.  Note the "exception" exit: the function releases whatever it has
\* parsed and returns only the error, so data batches that precede an EXCEPTION batch in the SAME
\* response (a producer turn with batch limit > 1 that fails after some batches) never reach the
\* caller -- the actions below hand over E.data only on the "ok" exit.  The caller gets the typed
\* error, not a clean end, so DeliveredIsPrefix / CleanEndIsComplete hold.
ParseExit(R, F, decl) ==
    LET mismatch == decl /\ ("schema_drift" \in F \/ R.esch)
        seenExc  == R.exc /\ "trunc_msg" \notin F      \* the envelope is the last message
    IN CASE Hit(F, {"corrupt", "trunc"})        -> "ipc"
         [] mismatch /\ ~ExcFirst               -> "schema"
         [] seenExc                             -> "exception"
         [] mismatch                            -> "schema"
         [] "trunc_msg" \in F /\ RequireEOS     -> "no_eos"
         [] OTHER                               -> "ok"

\* parseIPCStream's classification of a batch that is neither log nor exception: it is the cursor's
\* own sentinel, swallowed, iff it CARRIES A CURSOR and has zero rows and the caller did not announce
\* that the cursor rides on the data batch (tokenIsData: unary, header and exchange turns).  Every
\* other batch is data whatever its row count: a zero-row batch without cursor in a producer / init
\* response is an empty partition, and the zero-row answer of an exchange turn is its data batch.
\* (In E the cursor rides on a data batch iff ~E.own /\ E.pos >= 0: the answer of an exchange turn.)
IsSentinel(s, E, p, tokenIsData) == (~E.own /\ E.pos >= 0) /\ Rows(s, p) = 0 /\ ~tokenIsData
Handed(s, E, tokenIsData) == SelectSeq(E.data, LAMBDA p : ~IsSentinel(s, E, p, tokenIsData))

\* HttpClient.parseMain (unary and continuation responses)
MainExit(R, F, decl) ==
    LET p == PostExit(F) q == ParseExit(R, F, decl) IN
    IF p # "ok" THEN p
    ELSE IF q # "ok" THEN q
    ELSE IF "trailing" \in F THEN "trailing"
    ELSE IF R.hdr \/ "rpcerr_hdr" \in F THEN "rpcerr"
    ELSE "ok"

\* HttpClient.openStream: the tail differs (exchange checks come before the error header)
OpenExit(R, E, F, k) ==
    LET p == PostExit(F) q == ParseExit(R, F, TRUE) IN
    IF p # "ok" THEN p
    ELSE IF q # "ok" THEN q
    ELSE IF "trailing" \in F THEN "trailing"
    \* (a token batch stripped of its cursor is no longer recognised as one: it counts as data)
    ELSE IF k = "exch" /\ (E.data # <<>> \/ "missing_cursor" \in F) THEN "init_data"
    ELSE IF k = "exch" /\ E.pos < 0 THEN "no_cursor"
    ELSE IF R.hdr \/ "rpcerr_hdr" \in F THEN "rpcerr"
    ELSE "ok"

--------------------------------------------------------------------------
\* cls: class of the step for finding signatures (init failure / cut at a message boundary)
ClassOf(step) ==
    IF "sc" \in DOMAIN step.args /\ step.args.sc.initerr THEN "initerr"
    ELSE IF "trunc_msg" \in step.args.f THEN "trunc_msg"
    ELSE IF step.args.f # {} THEN "fault" ELSE "plain"
RecordStep(st) ==
    LET step == st @@ [cls |-> ClassOf(st)] IN
    /\ hist' = IF Mode = "mc" THEN <<step>> ELSE Append(hist, step)
    /\ (Mode = "edges") => EmitTrace(hist')
    /\ (Mode = "tree" /\ Len(hist') = Depth) => EmitTrace(hist')
Budget == (Mode = "tree") => Len(hist) < Depth

\* the server mints a cursor whenever a request reaches it and the turn continues the stream
Reached(F) == "neterr" \notin F
Mint(R, F) == IF Reached(F) /\ R.pos >= 0 THEN Append(cur, R.pos) ELSE cur
NewId(R, E, F) == IF Reached(F) /\ R.pos >= 0 /\ E.pos >= 0 THEN Len(cur) + 1 ELSE 0

\* exits of HttpClient.post (nothing was parsed) vs. later ones; producer streams remember only that
PostExits == {"do_error", "enc_oversize", "read_error", "enc_unsupported", "decode", "http_status"}
Why(k, x) == IF x = "ok" THEN "" ELSE IF k = "exch" THEN x ELSE IF x \in PostExits THEN "post" ELSE "parse"

\* rows = row count of the batch the call returned, -1 = it returned no batch
Exp(ok, end, v, exc, posts, sent, exit) ==
    [ok |-> ok, end |-> end, v |-> v, rows |-> -1, md |-> TRUE, exc |-> exc, posts |-> posts,
     sent |-> sent, dup |-> FALSE, m_exit |-> exit]
\* the call returned the data batch of position p of script s: its row count and, when it has a
\* row, its value
Got(s, p, posts, sent) ==
    [Exp(TRUE, FALSE, IF Rows(s, p) = 0 THEN 0 ELSE p, "none", posts, sent, "ok")
        EXCEPT !.rows = Rows(s, p)]

--------------------------------------------------------------------------
(* CallUnary: post, parseMain, exactly one data batch.                     *)
CallUnary(term, decl, F) ==
    /\ Budget /\ kind \in {"none", "unary"} /\ "unary" \in Kinds
    /\ LET s == [NoScript EXCEPT !.term = term] IN
       /\ sc' = s /\ kind' = "unary"
       /\ LET R == UnaryTurn(term) IN
          /\ Applicable(F, R, "unary")
          /\ \E keep \in Keeps(F, R) :
             LET E == Eff(R, F, keep)
                 m == MainExit(R, F, decl)
                 D == Handed(s, E, TRUE)
                 x == IF m # "ok" THEN m ELSE IF Len(D) # 1 THEN "count" ELSE "ok"
             IN RecordStep([a |-> "CallUnary",
                    args |-> [term |-> term, decl |-> decl, f |-> F, keep |-> keep],
                    exp |-> IF x = "ok" THEN Got(s, 1, 1, <<>>)
                            ELSE Exp(FALSE, FALSE, 0,
                                     IF x = "exception" THEN "srv" ELSE "none", 1, <<>>, x)])
    /\ nf' = nf + Cardinality(F)
    /\ UNCHANGED <<tok, fin, closed, pend, cur, posted, deliv, amb, cancelled, ended, why>>

(* OpenProducer / OpenExchange: post, parse the output stream, trailing     *)
(* bytes, exchange-only checks, error header; then the stream object.       *)
Open(k, s, F) ==
    /\ Budget /\ k \in Kinds /\ kind = "none"
    /\ OpenFaults \/ F = {}
    /\ sc' = s
    /\ LET R == InitTurn(s, k) IN
       /\ Applicable(F, R, k)
       /\ \E keep \in Keeps(F, R) :
          LET E == Eff(R, F, keep)
              x == OpenExit(R, E, F, k)
              id == NewId(R, E, F)
          IN /\ cur' = Mint(R, F)
             /\ IF x = "ok"
                THEN /\ kind' = k /\ pend' = Handed(s, E, FALSE) /\ tok' = id /\ fin' = (id = 0)
                ELSE /\ kind' = "dead" /\ UNCHANGED <<pend, tok, fin>>
             /\ RecordStep([a |-> "Open",
                    args |-> [kind |-> k, sc |-> s, f |-> F, keep |-> keep],
                    exp |-> Exp(x = "ok", FALSE, 0, IF x = "exception" THEN "srv" ELSE "none",
                                1, <<>>, x)])
    /\ nf' = nf + Cardinality(F)
    /\ UNCHANGED <<closed, posted, deliv, amb, cancelled, ended, why>>

(* HttpClientStream.Next                                                    *)
Next_Closed ==
    /\ Budget /\ kind \in {"prod", "exch"} /\ closed
    /\ RecordStep([a |-> "Next", args |-> [f |-> {}, keep |-> -1],
                   exp |-> Exp(FALSE, FALSE, 0, "none", 0, <<>>, "local_closed")])
    /\ UNCHANGED <<kind, sc, tok, fin, closed, pend, cur, posted, deliv, amb, cancelled, ended, why, nf>>

Next_WrongKind ==
    /\ Budget /\ kind = "exch" /\ ~closed
    /\ RecordStep([a |-> "Next", args |-> [f |-> {}, keep |-> -1],
                   exp |-> Exp(FALSE, FALSE, 0, "none", 0, <<>>, "local_wrongop")])
    /\ UNCHANGED <<kind, sc, tok, fin, closed, pend, cur, posted, deliv, amb, cancelled, ended, why, nf>>

Next_Pending ==
    /\ Budget /\ kind = "prod" /\ ~closed /\ pend # <<>>
    /\ pend' = Tail(pend) /\ deliv' = Append(deliv, Head(pend))
    /\ RecordStep([a |-> "Next", args |-> [f |-> {}, keep |-> -1],
                   exp |-> Got(sc, Head(pend), 0, <<>>)])
    /\ UNCHANGED <<kind, sc, tok, fin, closed, cur, posted, amb, cancelled, ended, why, nf>>

Next_Finished ==
    /\ Budget /\ kind = "prod" /\ ~closed /\ pend = <<>> /\ (fin \/ tok = 0)
    /\ fin' = TRUE /\ ended' = (ended \/ ~cancelled)
    /\ RecordStep([a |-> "Next", args |-> [f |-> {}, keep |-> -1],
                   exp |-> Exp(TRUE, TRUE, 0, "none", 0, <<>>, "ok")])
    /\ UNCHANGED <<kind, sc, tok, closed, pend, cur, posted, deliv, amb, cancelled, why, nf>>

\* continuation POST: the cursor is KEPT until a response has been parsed completely, so a
\* failed turn is retried with the same cursor (producer turns are idempotent: the server
\* re-runs Produce from the sealed position)
Next_Post(F) ==
    /\ Budget /\ kind = "prod" /\ ~closed /\ pend = <<>> /\ ~fin /\ tok # 0
    /\ Len(cur) < MaxCur
    /\ LET R == ProdTurn(sc, cur[tok]) IN
       /\ Applicable(F, R, "prod")
       /\ \E keep \in Keeps(F, R) :
          LET E == Eff(R, F, keep)
              x == MainExit(R, F, TRUE)
              id == NewId(R, E, F)
              D == Handed(sc, E, FALSE)
          IN /\ cur' = Mint(R, F)
             /\ posted' = (IF kind = "exch" THEN Append(posted, tok) ELSE posted)
             /\ why' = Why("prod", x)
             /\ IF x # "ok"
                THEN /\ UNCHANGED <<tok, fin, pend, deliv, ended>>
                     /\ RecordStep([a |-> "Next", args |-> [f |-> F, keep |-> keep],
                            exp |-> Exp(FALSE, FALSE, 0, IF x = "exception" THEN "srv" ELSE "none",
                                        1, <<tok>>, x)])
                ELSE /\ tok' = id /\ fin' = (id = 0)
                     /\ D # <<>> \/ id = 0               \* (else the code would POST again)
                     /\ IF D # <<>>
                        THEN /\ pend' = Tail(D) /\ deliv' = Append(deliv, Head(D))
                             /\ UNCHANGED ended
                             /\ RecordStep([a |-> "Next", args |-> [f |-> F, keep |-> keep],
                                    exp |-> Got(sc, Head(D), 1, <<tok>>)])
                        ELSE /\ pend' = <<>> /\ UNCHANGED deliv
                             /\ ended' = (ended \/ ~cancelled)
                             /\ RecordStep([a |-> "Next", args |-> [f |-> F, keep |-> keep],
                                    exp |-> Exp(TRUE, TRUE, 0, "none", 1, <<tok>>, "ok")])
    /\ nf' = nf + Cardinality(F)
    /\ UNCHANGED <<kind, sc, closed, amb, cancelled>>

(* HttpClientStream.Exchange                                                *)
Exchange_Local(input) ==
    /\ Budget /\ kind \in {"prod", "exch"}
    /\ IF closed \/ kind = "prod" \/ fin \/ tok = 0 THEN input = "ok" ELSE input = "drift"
    /\ LET x == IF closed THEN "local_closed"
                ELSE IF kind = "prod" THEN "local_wrongop"
                ELSE IF fin \/ tok = 0 THEN "local_poisoned"
                ELSE "local_input"
       IN RecordStep([a |-> "Exchange", args |-> [f |-> {}, keep |-> -1, input |-> input],
                      exp |-> Exp(FALSE, FALSE, 0, "none", 0, <<>>, x)])
    /\ UNCHANGED <<kind, sc, tok, fin, closed, pend, cur, posted, deliv, amb, cancelled, ended, why, nf>>

\* the cursor is CLEARED before the POST; only a completely parsed response with exactly one
\* data batch and a new cursor re-opens the stream
Exchange_Post(F) ==
    /\ Budget /\ kind = "exch" /\ ~closed /\ ~fin /\ tok # 0
    /\ Len(cur) < MaxCur
    /\ LET R == ExchTurn(sc, cur[tok]) IN
       /\ Applicable(F, R, "exch")
       /\ \E keep \in Keeps(F, R) :
          LET E == Eff(R, F, keep)
              m == MainExit(R, F, TRUE)
              D == Handed(sc, E, TRUE)
              x == IF m # "ok" THEN m
                   ELSE IF Len(D) # 1 THEN "count"
                   ELSE IF E.pos < 0 THEN "no_cursor" ELSE "ok"
              id == NewId(R, E, F)
          IN /\ cur' = Mint(R, F)
             /\ posted' = (IF kind = "exch" THEN Append(posted, tok) ELSE posted)
             /\ amb' = (amb \/ F # {})
             /\ why' = Why("exch", x)
             /\ IF x = "ok"
                THEN /\ tok' = id /\ fin' = FALSE /\ deliv' = Append(deliv, D[1])
                     /\ RecordStep([a |-> "Exchange", args |-> [f |-> F, keep |-> keep, input |-> "ok"],
                            exp |-> Got(sc, D[1], 1, <<tok>>)])
                ELSE /\ tok' = 0 /\ fin' = TRUE /\ UNCHANGED deliv
                     /\ RecordStep([a |-> "Exchange", args |-> [f |-> F, keep |-> keep, input |-> "ok"],
                            exp |-> Exp(FALSE, FALSE, 0, IF x = "exception" THEN "srv" ELSE "none",
                                        1, <<tok>>, x)])
    /\ nf' = nf + Cardinality(F)
    /\ UNCHANGED <<kind, sc, closed, pend, cancelled, ended>>

(* HttpClientStream.Cancel                                                  *)
Cancel_Local ==
    /\ Budget /\ kind \in {"prod", "exch"} /\ (closed \/ fin \/ tok = 0)
    /\ fin' = TRUE /\ cancelled' = TRUE
    /\ RecordStep([a |-> "Cancel", args |-> [f |-> {}, keep |-> -1],
                   exp |-> Exp(TRUE, FALSE, 0, "none", 0, <<>>, "ok")])
    /\ UNCHANGED <<kind, sc, tok, closed, pend, cur, posted, deliv, amb, ended, why, nf>>

Cancel_Post(F) ==
    /\ Budget /\ kind \in {"prod", "exch"} /\ ~closed /\ ~fin /\ tok # 0
    /\ LET R == CancelTurn IN
       /\ Applicable(F, R, kind)
       /\ LET m == MainExit(R, F, TRUE) IN
          /\ posted' = (IF kind = "exch" THEN Append(posted, tok) ELSE posted)
          /\ amb' = (amb \/ (kind = "exch" /\ F # {}))
          /\ tok' = 0 /\ fin' = TRUE /\ cancelled' = TRUE
          /\ why' = Why(kind, m)
          /\ RecordStep([a |-> "Cancel", args |-> [f |-> F, keep |-> -1],
                 exp |-> Exp(m = "ok", FALSE, 0, "none", 1, <<tok>>, m)])
    /\ nf' = nf + Cardinality(F)
    /\ UNCHANGED <<kind, sc, closed, pend, cur, deliv, ended>>

(* HttpClientStream.Close: local only                                       *)
Close ==
    /\ Budget /\ kind \in {"prod", "exch"}
    /\ closed' = TRUE /\ pend' = <<>>
    /\ RecordStep([a |-> "Close", args |-> [f |-> {}, keep |-> -1],
                   exp |-> Exp(TRUE, FALSE, 0, "none", 0, <<>>, "ok")])
    /\ UNCHANGED <<kind, sc, tok, fin, cur, posted, deliv, amb, cancelled, ended, why, nf>>

--------------------------------------------------------------------------
\* producer: n data batches, then the script finishes or fails; exchange: n good turns, then the
\* script fails (term = "error") or never does; a failing init handler makes the rest irrelevant
\* zs: which of the positions 1..m hold a zero-row data batch (any subset of <= MaxZeros positions).
\* An exchange script that never fails answers every turn; at most MaxCur - 1 turns are reachable.
ZeroSets(m) == {z \in SUBSET (1..m) : Cardinality(z) <= MaxZeros}
Scripts(k) ==
    IF k = "prod"
    THEN UNION {{[n |-> n, term |-> t, lim |-> l, initerr |-> FALSE, zs |-> z] :
                    t \in {"finish", "error"}, l \in Limits, z \in ZeroSets(n)} : n \in 0..MaxN}
         \cup {[n |-> 0, term |-> "finish", lim |-> l, initerr |-> e, zs |-> {}] :
                    l \in Limits, e \in InitErrs \ {FALSE}}
    ELSE UNION {{[n |-> n, term |-> "error", lim |-> 0, initerr |-> FALSE, zs |-> z] : z \in ZeroSets(n)} :
                    n \in 0..MaxN}
         \cup {[n |-> 0, term |-> "finish", lim |-> 0, initerr |-> FALSE, zs |-> z] : z \in ZeroSets(MaxCur - 1)}
         \cup {[n |-> 0, term |-> "finish", lim |-> 0, initerr |-> e, zs |-> {}] : e \in InitErrs \ {FALSE}}

Init ==
    /\ kind = "none" /\ sc = NoScript
    /\ tok = 0 /\ fin = FALSE /\ closed = FALSE /\ pend = <<>>
    /\ cur = <<>> /\ posted = <<>> /\ deliv = <<>>
    /\ amb = FALSE /\ cancelled = FALSE /\ ended = FALSE /\ why = "" /\ nf = 0
    /\ hist = << [a |-> "Init",
                  args |-> [require_eos |-> RequireEOS, exc_first |-> ExcFirst],
                  exp |-> [ok |-> TRUE]] >>

Next ==
    \/ \E t \in {"finish", "error"}, d \in Decls, F \in FaultSets : CallUnary(t, d, F)
    \/ /\ kind = "none"          \* (hoisted: the scripts are not enumerated in every state)
       /\ \E k \in Kinds \ {"unary"} : \E F \in (IF OpenFaults THEN FaultSets ELSE {{}}), s \in Scripts(k) :
             (s.initerr => F = {}) /\ Open(k, s, F)
    \/ Next_Closed \/ Next_WrongKind \/ Next_Pending \/ Next_Finished
    \/ \E F \in FaultSets : Next_Post(F)
    \/ \E i \in Inputs \cup {"ok"} : Exchange_Local(i)
    \/ \E F \in FaultSets : Exchange_Post(F)
    \/ Cancel_Local
    \/ \E F \in FaultSets : Cancel_Post(F)
    \/ Close

Spec == Init /\ [][Next]_vars

--------------------------------------------------------------------------
(* C21, stated once, declaratively.                                        *)
Last == hist'[Len(hist')]
Stepped == hist' # hist
IsStream == kind' \in {"prod", "exch"}

\* (1a) what the caller has been handed is, at every moment, a prefix of the server's stream
\*      1, 2, 3, ... in order, and never more than the script produces
DeliveredIsPrefix ==
    /\ \A i \in 1..Len(deliv) : deliv[i] = i
    /\ (kind = "prod") => Len(deliv) <= sc.n
    /\ (kind = "exch" /\ sc.term = "error") => Len(deliv) <= sc.n

\* (1b) a clean end of stream is reported only when everything the server produced was handed
\*      over and the server's stream did end cleanly
CleanEndIsComplete ==
    ended => (kind = "prod" /\ sc.term = "finish" /\ ~sc.initerr /\ Len(deliv) = sc.n)

\* (1c) every returned batch carries its user metadata without the framework's token keys
\*      (md is what the driver reports; the model's promise is the constant TRUE), a unary call
\*      returns the one value; every successful Next that is not the end of the stream and every
\*      successful Exchange returns THE NEXT batch of the server's stream -- the one at position
\*      Len(deliv) + 1 -- as the server made it: with zero rows if it is an empty batch, with its
\*      one row and value otherwise.  An empty batch is neither skipped nor mistaken for the end.
ReturnsBatch == Last.a \in {"Next", "Exchange"} /\ Last.exp.ok /\ ~Last.exp.end
ReturnedBatches ==
    [][ Stepped => /\ Last.exp.md = TRUE
                   /\ (Last.a = "CallUnary" /\ Last.exp.ok) => (Last.exp.v = 1 /\ Last.exp.rows = 1)
                   /\ (Last.exp.v # 0) => Last.exp.ok
                   /\ (Last.exp.rows >= 0) => (Last.exp.ok /\ ~Last.exp.end)
                   /\ ReturnsBatch =>
                        LET p == Len(deliv) + 1 IN
                        /\ deliv' = Append(deliv, p)
                        /\ Last.exp.rows = Rows(sc', p)
                        /\ Last.exp.v = (IF Rows(sc', p) = 0 THEN 0 ELSE p)
                   /\ (Last.a \in {"Next", "Exchange"} /\ ~ReturnsBatch) =>
                        (deliv' = deliv /\ Last.exp.rows = -1) ]_vars

\* (1d) server exceptions surface as the server's typed error: an undamaged turn fails only with
\*      the server's exception, and the server's exception is reported only when the script raises
ScriptRaises == sc'.initerr \/ sc'.term = "error"
TypedErrors ==
    [][ Stepped =>
          /\ (Last.exp.posts = 1 /\ Last.args.f = {} /\ ~Last.exp.ok) => Last.exp.exc = "srv"
          /\ (Last.exp.exc = "srv") => (ScriptRaises /\ ~Last.exp.ok) ]_vars

\* (2a) no cursor value is ever POSTed twice on an exchange stream
NoCursorTwice ==
    (kind = "exch") => \A i, j \in 1..Len(posted) : posted[i] = posted[j] => i = j

\* (2b) once a turn of an exchange stream was sent and its response was damaged in any of the
\*      listed ways, every further Exchange (and Cancel) fails or returns locally, sending nothing
Damaging == {"neterr", "reset", "timeout", "status", "trunc", "trunc_read", "trunc_msg", "corrupt",
             "oversize_enc", "oversize_dec", "missing_cursor",
             "schema_drift", "enc_unknown", "enc_wrong", "trailing", "rpcerr_hdr"}
RefusesAfterAmbiguous ==
    [][ (Stepped /\ kind = "exch" /\ amb /\ Last.a \in {"Exchange", "Cancel"}) =>
            /\ Last.exp.posts = 0 /\ Last.exp.sent = <<>>
            /\ (Last.a = "Exchange") => ~Last.exp.ok ]_vars
AmbiguityIsRecorded ==
    [][ (Stepped /\ kind = "exch" /\ Last.a \in {"Exchange", "Cancel"} /\ Last.exp.posts = 1
         /\ Hit(Last.args.f, Damaging)) => amb' ]_vars

\* (3) a damaged response is rejected: the call fails, hands over nothing from that response and
\*     does not report a clean end.  (A unary call that declares no schema has nothing to compare
\*     the schema with.)
Harmless(st) == st.a = "CallUnary" /\ ~st.args.decl /\ st.args.f = {"schema_drift"}
DamagedIsRejected ==
    [][ (Stepped /\ Last.a # "Init" /\ Last.a # "Close" /\ Hit(Last.args.f, Damaging) /\ ~Harmless(Last)) =>
            (~Last.exp.ok /\ Last.exp.v = 0 /\ ~Last.exp.end) ]_vars

\* sanity of the model itself
TypeOK ==
    /\ tok \in 0..Len(cur)
    /\ (closed => pend = <<>>)
    /\ (kind = "exch") => pend = <<>>

View == <<kind, sc, tok, fin, closed, pend, cur, posted, deliv, amb, cancelled, ended, why>>
=============================================================================
