SPECIFICATION Spec
CONSTANTS
    Mode = "mc"
    Depth = 0
    Kinds = {"unary", "prod", "exch"}
    MaxN = 3
    MaxZeros = 99
    Limits = {0, 1, 2, 3}
    InitErrs = {FALSE, TRUE}
    Inputs = {"ok", "drift"}
    Decls = {TRUE, FALSE}
    FaultKinds = {"neterr", "reset", "timeout", "oversize_enc", "trunc_read", "enc_unknown", "enc_wrong", "oversize_dec", "status", "corrupt", "trunc", "schema_drift", "trunc_msg", "trailing", "rpcerr_hdr", "missing_cursor"}
    MaxPerTurn = 2
    MaxFaults = 99
    MaxCur = 5
    OpenFaults = TRUE
    RequireEOS = TRUE
    ExcFirst = TRUE
VIEW View
INVARIANTS TypeOK DeliveredIsPrefix CleanEndIsComplete NoCursorTwice
PROPERTIES ReturnedBatches TypedErrors RefusesAfterAmbiguous AmbiguityIsRecorded DamagedIsRejected
CHECK_DEADLOCK FALSE
