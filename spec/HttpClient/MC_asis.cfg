SPECIFICATION Spec
CONSTANTS
    Mode = "mc"
    Depth = 0
    Kinds = {"unary", "prod", "exch"}
    MaxN = 2
    MaxZeros = 0
    Limits = {1, 2}
    InitErrs = {FALSE, TRUE}
    Inputs = {"ok", "drift"}
    Decls = {TRUE, FALSE}
    FaultKinds = {"neterr", "reset", "timeout", "oversize_enc", "trunc_read", "enc_unknown", "enc_wrong", "oversize_dec", "status", "corrupt", "trunc", "schema_drift", "trunc_msg", "trailing", "rpcerr_hdr", "missing_cursor"}
    MaxPerTurn = 1
    MaxFaults = 99
    MaxCur = 4
    OpenFaults = TRUE
    RequireEOS = FALSE
    ExcFirst = FALSE
VIEW View
INVARIANTS TypeOK DeliveredIsPrefix CleanEndIsComplete NoCursorTwice
PROPERTIES ReturnedBatches TypedErrors RefusesAfterAmbiguous AmbiguityIsRecorded DamagedIsRejected
CHECK_DEADLOCK FALSE
