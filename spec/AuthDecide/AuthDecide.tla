----------------------------- MODULE AuthDecide -----------------------------
(***************************************************************************)
(* What an authenticator's answer becomes on the wire (C23).               *)
(*                                                                         *)
(*   HttpServer.authenticate   (vgirpc/http.go)        error -> status     *)
(*   classifyAuthError /                                                   *)
(*   asAuthFailure / writeUnauthorized (unauthorized.go) reason, headers   *)
(*   ChainAuthenticate         (vgirpc/bearer.go)      which run, who wins *)
(*                                                                         *)
(* An error VALUE is modelled as what Go's errors package can see of it:   *)
(* a base error under a stack of wrappers, every wrapper being one of the  *)
(* shapes that differ in what they expose:                                 *)
(*                                                                         *)
(*   "w"   fmt.Errorf("...: %w", e)          Unwrap() error                *)
(*   "u"   custom type with Unwrap() error   Unwrap() error                *)
(*   "n"   custom type WITHOUT Unwrap        exposes nothing               *)
(*   "jl"  errors.Join(e, plain)             Unwrap() []error, e first     *)
(*   "jr"  errors.Join(plain, e)             Unwrap() []error, e second    *)
(*   "w2"  fmt.Errorf("%w / %w", plain, e)   Unwrap() []error              *)
(*                                                                         *)
(* The ACTIONS walk such a value the way the code does (errors.As = depth  *)
(* first over Unwrap()/Unwrap()[]; asAuthFailure = a loop over the single  *)
(* Unwrap() error method; err.[*RpcError] = a type assertion on the value  *)
(* itself).  The PROPERTY (StatusMapping, ChainStopsCorrectly) is stated   *)
(* over the structure of the value, in the words of C23, and model-checked *)
(* against the actions.                                                    *)
(*                                                                         *)
(* e.w is the wrapper stack from the innermost (e.w[1] wraps the base) to  *)
(* the outermost (e.w[Len(e.w)] is the value the authenticator returned).  *)
(***************************************************************************)
EXTENDS Naturals, Sequences, FiniteSets, TLC, VerifEmit

CONSTANTS
    Mode,         \* "mc" | "edges" | "tree"
    Depth,        \* tree mode only
    Parts,        \* subset of {"http", "chain"}: which entry points are explored
    MaxWrap,      \* error values presented to HttpServer.authenticate have <= MaxWrap wrappers
    WwwConfigs,   \* subset of {"none", "meta", "meta_client"}: SetOAuthResourceMetadata variants
    ChainWww,     \* WWW-Authenticate variants of the server a chain is installed in
    ChainLen,     \* chains of 1..ChainLen authenticators
    ChainCurated, \* TRUE: outcome alphabet = CuratedOutcomes; FALSE: success + every error with <= ChainWrap wrappers
    ChainWrap

VARIABLES
    pc,      \* "idle" | "chain" | "done"
    chain,   \* the outcomes scripted for the authenticators of the chain under call
    idx,     \* ChainAuthenticate's loop position (1-based)
    ran,     \* indexes of the authenticators invoked so far, in order
    www,     \* WWW-Authenticate configuration of the server the chain is installed in
    hist

vars == <<pc, chain, idx, ran, www, hist>>

--------------------------------------------------------------------------
(* Error values.                                                           *)
WrapKinds == {"w", "u", "n", "jl", "jr", "w2"}

\* docs/unauthorized-spec section 3: the closed set of reason codes
Reasons == {"missing_credential", "invalid_credential", "expired_credential",
            "insufficient_scope", "proxy_required", "unauthorized"}

\* "teapot" stands for an AuthFailure whose Reason is outside the closed set
\* (AuthReason is a string type, nothing stops a callback from inventing one).
Bases ==
    [k : {"unavail"}, p : {"0", "7", "30"}]                 \* AuthUnavailableError{RetryAfter: p}
      \cup [k : {"failure"}, p : Reasons \cup {"", "teapot"}]  \* AuthFailure{Reason: p}
      \cup [k : {"rpc"}, p : {"ValueError", "PermissionError", "TypeError", "RuntimeError"}]
      \cup [k : {"other"}, p : {""}]                        \* errors.New(...)

SeqsUpTo(S, n) == UNION {[1..m -> S] : m \in 0..n}

Errors(n) == {[k |-> b.k, p |-> b.p, w |-> ws] : b \in Bases, ws \in SeqsUpTo(WrapKinds, n)}

HttpErrors == Errors(MaxWrap)     \* constant-level, evaluated once

Err(k, p, w) == [k |-> k, p |-> p, w |-> w]
OkOutcome == [k |-> "ok", p |-> "", w |-> <<>>]

--------------------------------------------------------------------------
(* The walks the code performs (operational).                              *)

\* errors.As(err, **AuthUnavailableError): is the node under the i innermost
\* wrappers, or anything errors.As reaches from it, an *AuthUnavailableError?
\* Node i is the base wrapped by e.w[1..i].  A join-like node offers its
\* children in order; the sibling of the wrapped error is a plain error.
RECURSIVE AsUnavailable(_, _)
AsUnavailable(e, i) ==
    IF i = 0 THEN e.k = "unavail"
    ELSE LET kind == e.w[i] IN
         CASE kind \in {"w", "u"} -> AsUnavailable(e, i - 1)      \* Unwrap() error
           [] kind = "n"          -> FALSE                        \* no Unwrap: the walk ends
           [] kind = "jl"         -> AsUnavailable(e, i - 1) \/ FALSE   \* children <<inner, plain>>
           [] kind \in {"jr", "w2"} -> FALSE \/ AsUnavailable(e, i - 1) \* children <<plain, inner>>

\* asAuthFailure: for err != nil { err.[*AuthFailure]?  err.(interface{Unwrap() error})? }
RECURSIVE LoopAuthFailure(_, _)
LoopAuthFailure(e, i) ==
    IF i = 0 THEN e.k = "failure"
    ELSE IF e.w[i] \in {"w", "u"}       \* the only shapes with an Unwrap() error method
         THEN LoopAuthFailure(e, i - 1)
         ELSE FALSE

\* rpcErr, isRpc := err.[*RpcError]
AssertRpc(e) == e.w = <<>> /\ e.k = "rpc"

Top(e) == Len(e.w)

\* AuthUnavailableError.retryAfterSeconds, rendered by strconv.Itoa
RetryAfterHeader(e) == IF e.p = "0" THEN "5" ELSE e.p

\* classifyAuthError followed by writeUnauthorized's empty-reason default
ClassifyReason(e) ==
    IF LoopAuthFailure(e, Top(e))
    THEN (IF e.p = "" THEN "unauthorized" ELSE e.p)
    ELSE IF AssertRpc(e)
         THEN (IF e.p = "PermissionError" THEN "insufficient_scope" ELSE "unauthorized")
         ELSE "unauthorized"

\* the branch HttpServer.authenticate takes for a non-nil error
Branch(e) ==
    IF AsUnavailable(e, Top(e)) THEN "unavailable"
    ELSE IF LoopAuthFailure(e, Top(e))
            \/ (AssertRpc(e) /\ (e.p = "ValueError" \/ e.p = "PermissionError"))
         THEN "rejected"
         ELSE "internal"

\* the response the server writes for error e under WWW-Authenticate config c
Response(e, c) ==
    CASE Branch(e) = "unavailable" ->
            [status |-> 503, retry_after |-> RetryAfterHeader(e)]
      [] Branch(e) = "rejected" ->
            LET r == ClassifyReason(e)
                common == [status |-> 401, cache |-> "no-store", www |-> c,
                           reason |-> r, body_reason |-> r]
            IN IF e.k = "failure" /\ e.p = "teapot"
               THEN common                   \* an invented reason is passed through verbatim
               ELSE [status |-> 401, cache |-> "no-store", www |-> c,
                     reason |-> r, body_reason |-> r, reason_closed |-> r \in Reasons]
      [] OTHER -> [status |-> 500]

--------------------------------------------------------------------------
Record(step) ==
    /\ hist' = Append(hist, step)
    /\ (Mode = "edges") => EmitTrace(hist')
    /\ (Mode = "tree" /\ Len(hist') = Depth) => EmitTrace(hist')

\* a step the driver needs but that is not worth a behaviour of its own
Note(step) == hist' = Append(hist, step)

Budget == (Mode = "tree") => Len(hist) < Depth

--------------------------------------------------------------------------
(* HttpServer.authenticate, one action per exit.                           *)

Authenticate_NoCallback(c) ==       \* h.authenticateFunc == nil
    /\ pc = "idle" /\ "http" \in Parts /\ Budget
    /\ pc' = "done" /\ UNCHANGED <<chain, idx, ran, www>>
    /\ Record([a |-> "Authenticate_NoCallback", args |-> [www |-> c],
               exp |-> [passed |-> TRUE, principal |-> "", authenticated |-> FALSE]])

Authenticate_Accept(c) ==           \* err == nil
    /\ pc = "idle" /\ "http" \in Parts /\ Budget
    /\ pc' = "done" /\ UNCHANGED <<chain, idx, ran, www>>
    /\ Record([a |-> "Authenticate_Accept", args |-> [www |-> c],
               exp |-> [passed |-> TRUE, principal |-> "a1", authenticated |-> TRUE]])

Authenticate_Unavailable(e, c) ==   \* errors.As(err, &unavailable)
    /\ pc = "idle" /\ "http" \in Parts /\ Budget
    /\ Branch(e) = "unavailable"
    /\ pc' = "done" /\ UNCHANGED <<chain, idx, ran, www>>
    /\ Record([a |-> "Authenticate_Unavailable", args |-> [err |-> e, www |-> c],
               exp |-> Response(e, c)])

Authenticate_Rejected(e, c) ==      \* asAuthFailure || direct ValueError/PermissionError
    /\ pc = "idle" /\ "http" \in Parts /\ Budget
    /\ Branch(e) = "rejected"
    /\ pc' = "done" /\ UNCHANGED <<chain, idx, ran, www>>
    /\ Record([a |-> "Authenticate_Rejected", args |-> [err |-> e, www |-> c],
               exp |-> Response(e, c)])

Authenticate_InternalError(e, c) == \* everything else
    /\ pc = "idle" /\ "http" \in Parts /\ Budget
    /\ Branch(e) = "internal"
    /\ pc' = "done" /\ UNCHANGED <<chain, idx, ran, www>>
    /\ Record([a |-> "Authenticate_InternalError", args |-> [err |-> e, www |-> c],
               exp |-> Response(e, c)])

--------------------------------------------------------------------------
(* ChainAuthenticate: the loop, one action per decision.                   *)

\* the outcome alphabet of DESIGN 5/C23, made of error values of the same algebra
CuratedOutcomes ==
    { OkOutcome,
      Err("rpc", "ValueError", <<>>),            \* "not mine": the only outcome the chain moves past
      Err("rpc", "ValueError", <<"w">>),         \* wrapped ValueError: not returned directly
      Err("rpc", "PermissionError", <<>>),
      Err("rpc", "TypeError", <<>>),
      Err("unavail", "7", <<>>),
      Err("unavail", "0", <<"w">>),              \* wrapped outage must still stop the chain
      Err("unavail", "30", <<"jr">>),            \* outage inside an errors.Join
      Err("unavail", "7", <<"n">>),              \* outage hidden behind an opaque type: an "other" error
      Err("failure", "expired_credential", <<>>),
      Err("failure", "invalid_credential", <<"u">>),
      Err("other", "", <<>>) }

Outcomes == IF ChainCurated THEN CuratedOutcomes ELSE {OkOutcome} \cup Errors(ChainWrap)

Chains == UNION {[1..n -> Outcomes] : n \in 1..ChainLen}

\* what the driver sees of the chain's return value
ResultOk(i)   == [kind |-> "ok", from |-> i]         \* authenticator i's AuthContext
ResultErr(i)  == [kind |-> "err", from |-> i]        \* authenticator i's error value, as returned
ResultNone    == [kind |-> "exhausted", from |-> 0]  \* the chain's own error

\* what a server that has the chain installed answers (for information: composition
\* of the two halves of C23; "exhausted" is the chain's own direct ValueError)
ChainHttp(res, c) ==
    CASE res.kind = "ok"  -> [passed |-> TRUE, principal |-> res.from]
      [] res.kind = "err" -> Response(chain[res.from], c)
      [] OTHER            -> Response(Err("rpc", "ValueError", <<>>), c)

Chain_Build(ch, c) ==
    /\ pc = "idle" /\ "chain" \in Parts /\ Budget
    /\ pc' = "chain" /\ chain' = ch /\ idx' = 1 /\ ran' = <<>> /\ www' = c
    /\ Note([a |-> "Chain_Build", args |-> [chain |-> ch, www |-> c]])

Chain_Return(name, res) ==
    /\ pc' = "done" /\ UNCHANGED <<chain, idx, www>>
    /\ Record([a |-> name, args |-> [x |-> 0],
               exp |-> [ran |-> ran', result |-> res, type |-> IF res.kind = "exhausted" THEN "ValueError" ELSE "",
                        http |-> ChainHttp(res, www), ran_http |-> ran']])

Cur == chain[idx]

Chain_Success ==                     \* ac, err := auth(r); err == nil
    /\ pc = "chain" /\ idx <= Len(chain) /\ Budget
    /\ Cur.k = "ok"
    /\ ran' = Append(ran, idx)
    /\ Chain_Return("Chain_Success", ResultOk(idx))

Chain_StopUnavailable ==             \* errors.As(err, &unavailable): return nil, err
    /\ pc = "chain" /\ idx <= Len(chain) /\ Budget
    /\ Cur.k # "ok" /\ AsUnavailable(Cur, Top(Cur))
    /\ ran' = Append(ran, idx)
    /\ Chain_Return("Chain_StopUnavailable", ResultErr(idx))

Chain_FallThrough ==                 \* err.[*RpcError] with Type "ValueError": continue
    /\ pc = "chain" /\ idx <= Len(chain) /\ Budget
    /\ Cur.k # "ok" /\ ~AsUnavailable(Cur, Top(Cur))
    /\ AssertRpc(Cur) /\ Cur.p = "ValueError"
    /\ ran' = Append(ran, idx) /\ idx' = idx + 1
    /\ UNCHANGED <<pc, chain, www, hist>>

Chain_Propagate ==                   \* anything else: return nil, err
    /\ pc = "chain" /\ idx <= Len(chain) /\ Budget
    /\ Cur.k # "ok" /\ ~AsUnavailable(Cur, Top(Cur))
    /\ ~(AssertRpc(Cur) /\ Cur.p = "ValueError")
    /\ ran' = Append(ran, idx)
    /\ Chain_Return("Chain_Propagate", ResultErr(idx))

Chain_Exhausted ==                   \* loop ran off the end
    /\ pc = "chain" /\ idx > Len(chain) /\ Budget
    /\ ran' = ran
    /\ Chain_Return("Chain_Exhausted", ResultNone)

--------------------------------------------------------------------------
Init ==
    /\ pc = "idle" /\ chain = <<>> /\ idx = 0 /\ ran = <<>> /\ www = "none"
    /\ hist = << [a |-> "Init", args |-> [MaxWrap |-> MaxWrap, ChainLen |-> ChainLen]] >>

Next ==
    \/ /\ pc = "idle" /\ "http" \in Parts      \* guards first: TLC must not enumerate the domains elsewhere
       /\ \/ \E c \in WwwConfigs : Authenticate_NoCallback(c) \/ Authenticate_Accept(c)
          \/ \E e \in HttpErrors, c \in WwwConfigs :
                \/ Authenticate_Unavailable(e, c)
                \/ Authenticate_Rejected(e, c)
                \/ Authenticate_InternalError(e, c)
    \/ /\ pc = "idle" /\ "chain" \in Parts
       /\ \E ch \in Chains, c \in ChainWww : Chain_Build(ch, c)
    \/ /\ pc = "chain"
       /\ \/ Chain_Success \/ Chain_StopUnavailable \/ Chain_FallThrough
          \/ Chain_Propagate \/ Chain_Exhausted

Spec == Init /\ [][Next]_vars

View == <<pc, chain, idx, ran, www>>

--------------------------------------------------------------------------
(* C23, first sentence -- stated over the structure of the error value.    *)

\* "An AuthUnavailableError anywhere in the error chain": the base is one, and
\* no wrapper above it hides what it wraps.
UnavailableAnywhere(e) ==
    e.k = "unavail" /\ \A j \in DOMAIN e.w : e.w[j] # "n"

\* "an AuthFailure in the Unwrap chain": the base is one, and it is reached by
\* calling Unwrap() error repeatedly -- every wrapper has that method.
FailureInUnwrapChain(e) ==
    e.k = "failure" /\ \A j \in DOMAIN e.w : e.w[j] \in {"w", "u"}

\* "an RpcError of type ValueError or PermissionError returned directly"
RejectionReturnedDirectly(e) ==
    e.k = "rpc" /\ e.w = <<>> /\ e.p \in {"ValueError", "PermissionError"}

Last == hist'[Len(hist')]

IsAuthStep(s) == s.a \in {"Authenticate_Unavailable", "Authenticate_Rejected", "Authenticate_InternalError"}

StatusMapping ==
    [][ IsAuthStep(Last) =>
          LET e == Last.args.err  x == Last.exp IN
          IF UnavailableAnywhere(e)
          THEN /\ x.status = 503
               /\ x.retry_after = (IF e.p = "0" THEN "5" ELSE e.p)    \* its Retry-After, default 5
          ELSE IF FailureInUnwrapChain(e) \/ RejectionReturnedDirectly(e)
          THEN /\ x.status = 401
               /\ x.cache = "no-store"
               /\ x.www = Last.args.www                             \* the configured WWW-Authenticate
               \* a reason code from the closed set, whenever the callback named none or one of the set
               /\ ~(e.k = "failure" /\ e.p \notin Reasons \cup {""}) =>
                      ("reason_closed" \in DOMAIN x /\ x.reason_closed /\ x.reason \in Reasons)
          ELSE x.status = 500 ]_vars

\* beyond C23's wording, what unauthorized.go documents: a named reason is the one reported
ReasonNamed ==
    [][ (IsAuthStep(Last) /\ Last.exp.status = 401) =>
          LET e == Last.args.err  x == Last.exp IN
          /\ (e.k = "failure" /\ e.p # "") => x.reason = e.p
          /\ (e.k = "rpc" /\ e.p = "PermissionError") => x.reason = "insufficient_scope"
          /\ x.body_reason = x.reason ]_vars

(* C23, second sentence.                                                   *)
\* "moves on only past a directly returned ValueError RpcError"
MovesPast(o) == o.k = "rpc" /\ o.p = "ValueError" /\ o.w = <<>>

Min(S) == CHOOSE m \in S : \A n \in S : m <= n
UpTo(n) == [i \in 1..n |-> i]

ChainStopsCorrectly ==
    [][ (pc = "chain" /\ pc' = "done") =>
          LET stops == {i \in 1..Len(chain) : ~MovesPast(chain[i])}   \* a success, an outage or any other error
              x == Last.exp
          IN IF stops = {}
             THEN x.ran = UpTo(Len(chain)) /\ x.result.kind = "exhausted"
             ELSE LET k == Min(stops) IN
                  /\ x.ran = UpTo(k)                                   \* nobody after k is consulted
                  /\ x.result = [kind |-> IF chain[k].k = "ok" THEN "ok" ELSE "err", from |-> k] ]_vars

\* on the viewed state: the loop has consulted exactly the authenticators before idx,
\* and every one of them declined with a direct ValueError
ChainLoopInv ==
    pc = "chain" => /\ ran = UpTo(idx - 1)
                    /\ \A i \in 1..(idx - 1) : MovesPast(chain[i])
                    /\ idx <= Len(chain) + 1
=============================================================================
