SPECIFICATION Spec
CONSTANTS
    Mode = "mc"
    Depth = 0
    Parts = {"chain"}
    MaxWrap = 0
    WwwConfigs = {"meta"}
    ChainWww = {"meta"}
    ChainLen = 2
    ChainCurated = FALSE
    ChainWrap = 1
VIEW View
INVARIANTS ChainLoopInv
PROPERTIES StatusMapping ReasonNamed ChainStopsCorrectly
CHECK_DEADLOCK FALSE
