SPECIFICATION Spec
CONSTANTS
    Mode = "edges"
    Depth = 0
    Parts = {"chain"}
    MaxWrap = 0
    WwwConfigs = {"meta"}
    ChainWww = {"meta"}
    ChainLen = 2
    ChainCurated = FALSE
    ChainWrap = 1
VIEW View
CHECK_DEADLOCK FALSE
