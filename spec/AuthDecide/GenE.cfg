SPECIFICATION Spec
CONSTANTS
    Mode = "edges"
    Depth = 0
    Parts = {"http", "chain"}
    MaxWrap = 2
    WwwConfigs = {"none", "meta", "meta_client"}
    ChainWww = {"meta"}
    ChainLen = 3
    ChainCurated = TRUE
    ChainWrap = 0
VIEW View
CHECK_DEADLOCK FALSE
