SPECIFICATION Spec
CONSTANTS
    Mode = "mc"
    Depth = 0
    Parts = {"http"}
    MaxWrap = 3
    WwwConfigs = {"none", "meta", "meta_client"}
    ChainWww = {"meta"}
    ChainLen = 3
    ChainCurated = TRUE
    ChainWrap = 0
VIEW View
INVARIANTS ChainLoopInv
PROPERTIES StatusMapping ReasonNamed ChainStopsCorrectly
CHECK_DEADLOCK FALSE
