SPECIFICATION Spec
CONSTANTS
    NumChunks = 1
    MaxParallel = 2
    Hedging = TRUE
    MaxHedges = 0
    Kinds = {"ok", "err", "short", "whole200"}
    HedgeKinds = {"ok", "err", "short", "whole200"}
    Probes = {"parallel", "headError", "noRanges", "small", "tooLarge"}
    Fixed = TRUE
    Eager = TRUE
    Mode = "edges"
    Depth = 0
VIEW View
CHECK_DEADLOCK FALSE
