SPECIFICATION FairSpec
CONSTANTS
    NumChunks = 3
    MaxParallel = 2
    Hedging = FALSE
    MaxHedges = 0
    Kinds = {"ok", "err", "short", "whole200"}
    HedgeKinds = {"ok", "err", "short", "whole200"}
    Probes = {"parallel", "headError", "noRanges", "small", "tooLarge"}
    Fixed = TRUE
    Eager = FALSE
    Mode = "mc"
    Depth = 0
INVARIANTS Safety
PROPERTIES ResultsWriteOnce Terminates
CHECK_DEADLOCK FALSE
