SPECIFICATION Spec
CONSTANTS
    NumChunks = 4
    MaxParallel = 8
    Hedging = TRUE
    MaxHedges = 0
    Kinds = {"ok", "err"}
    HedgeKinds = {"ok", "err"}
    Probes = {"parallel"}
    Fixed = TRUE
    Eager = TRUE
    Mode = "paths"
    Depth = 0

CHECK_DEADLOCK FALSE
