SPECIFICATION Spec
CONSTANTS
    NumChunks = 4
    MaxParallel = 8
    Hedging = TRUE
    MaxHedges = 0
    Kinds = {"ok", "err", "short", "whole200"}
    Probes = {"parallel"}
    Fixed = TRUE
    Eager = TRUE
    Mode = "paths"
    Depth = 0

CHECK_DEADLOCK FALSE
