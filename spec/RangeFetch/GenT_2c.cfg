SPECIFICATION Spec
CONSTANTS
    NumChunks = 2
    MaxParallel = 1
    Hedging = TRUE
    MaxHedges = 0
    Kinds = {"ok", "err", "short", "whole200"}
    HedgeKinds = {"ok", "err", "short", "whole200"}
    Probes = {"parallel", "headError", "noRanges", "small", "tooLarge"}
    Fixed = TRUE
    Eager = TRUE
    Mode = "paths"
    Depth = 0

CHECK_DEADLOCK FALSE
