\* Pre-fix design (Fixed = FALSE: the code as found). EXPECTED RESULT: TLC reports
\* "Invariant ResultExactOrError is violated" (a short / whole-body-200 answer is concatenated).
\* Not in module.json (bin/check treats a violated model as a tool error); run by hand:
\*   tlc -config Prefix_safety.cfg RangeFetch.tla
SPECIFICATION Spec
CONSTANTS
    NumChunks = 3
    MaxParallel = 2
    Hedging = TRUE
    MaxHedges = 2
    Kinds = {"ok", "err", "short", "whole200"}
    HedgeKinds = {"ok", "err", "short", "whole200"}
    Probes = {"parallel", "headError", "noRanges", "small", "tooLarge"}
    Fixed = FALSE
    Eager = FALSE
    Mode = "mc"
    Depth = 0
INVARIANTS ResultExactOrError
CHECK_DEADLOCK FALSE
