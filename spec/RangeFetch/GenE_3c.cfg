SPECIFICATION Spec
CONSTANTS
    NumChunks = 3
    MaxParallel = 2
    Hedging = TRUE
    MaxHedges = 2
    Kinds = {"ok", "err", "short", "whole200"}
    HedgeKinds = {"ok", "err", "short", "whole200"}
    Probes = {"parallel", "headError", "noRanges", "small", "tooLarge"}
    Fixed = TRUE
    Eager = TRUE
    Mode = "edges"
    Depth = 0
VIEW View
CHECK_DEADLOCK FALSE
