SPECIFICATION FairSpec
CONSTANTS
    NumChunks = 1
    MaxParallel = 1
    Hedging = TRUE
    MaxHedges = 0
    Kinds = {"ok", "err", "short", "whole200"}
    HedgeKinds = {"ok", "err", "short", "whole200"}
    Probes = {"parallel", "headError", "noRanges", "small", "tooLarge"}
    Fixed = TRUE
    Eager = FALSE
    Mode = "mc"
    Depth = 0
INVARIANTS Safety
PROPERTIES ResultsWriteOnce Terminates
CHECK_DEADLOCK FALSE
