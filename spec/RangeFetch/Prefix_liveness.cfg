\* Pre-fix design (Fixed = FALSE: the code as found). EXPECTED RESULT: TLC reports
\* "Temporal properties were violated" for Terminates: a chunk fails, the others succeed,
\* and the receive loop stutters forever in pc = "recv" with an empty channel (Hung).
\*   tlc -config Prefix_liveness.cfg RangeFetch.tla
SPECIFICATION FairSpec
CONSTANTS
    NumChunks = 3
    MaxParallel = 2
    Hedging = TRUE
    MaxHedges = 2
    Kinds = {"ok", "err", "short", "whole200"}
    HedgeKinds = {"ok", "err", "short", "whole200"}
    Probes = {"parallel", "headError", "noRanges", "small", "tooLarge"}
    Fixed = FALSE
    Eager = FALSE
    Mode = "mc"
    Depth = 0
INVARIANTS TypeOK
PROPERTIES Terminates
CHECK_DEADLOCK FALSE
