SPECIFICATION Spec
CONSTANTS
    NumChunks = 4
    MaxParallel = 8
    Hedging = TRUE
    MaxHedges = 1
    Kinds = {"ok"}
    HedgeKinds = {"ok", "err", "short"}
    Probes = {"parallel"}
    Fixed = TRUE
    Eager = TRUE
    Mode = "paths"
    Depth = 0
CHECK_DEADLOCK FALSE
