----------------------------- MODULE RangeFetch -----------------------------
(***************************************************************************)
(* FetchWithParallelRangeRequests of vgi-rpc-go (vgirpc/external.go):      *)
(* probe with HEAD, fall back to one GET or split the resource into        *)
(* NumChunks range requests fetched by one goroutine per attempt (bounded  *)
(* by a semaphore of MaxParallel), a receive loop that stores the first    *)
(* successful answer per chunk, launches at most one speculative duplicate *)
(* ("hedge") per pending chunk, and finally concatenates the chunks.       *)
(*                                                                         *)
(* The module is written the way the code does it: one action per branch   *)
(* of the probe, of fetchChunk and of the receive loop.  The property C32  *)
(* (returns, in bounded time, exactly the resource or an error; hedged     *)
(* duplicates never change the result) is stated declaratively at the end. *)
(*                                                                         *)
(* CONSTANT Fixed selects the design:                                      *)
(*   Fixed = FALSE  the code as found: the receive loop runs               *)
(*                  `for chunksRemaining > 0`, and fetchChunk accepts any  *)
(*                  200/206 body as the chunk's bytes.                     *)
(*   Fixed = TRUE   proposed_fix_C32.diff: the loop also stops when no     *)
(*                  result is outstanding (`expected > 0`), and fetchChunk *)
(*                  turns a body whose length is not the requested range   *)
(*                  length into a failed attempt.                          *)
(*                                                                         *)
(* Data is abstract: a chunk answer is "good" (exactly the bytes of that   *)
(* range) or "bad" (any other byte string).  Time is abstract: the code    *)
(* hedges when  now - launch > median(completion times) * multiplier;      *)
(* all chunks share one launch stamp, so at one call of maybeHedge the     *)
(* test has the same outcome for every chunk -- a single nondeterministic  *)
(* boolean (MaybeHedge_NotDue / MaybeHedge_Fire).                          *)
(***************************************************************************)
EXTENDS Integers, Sequences, FiniteSets, TLC, VerifEmit

CONSTANTS
    NumChunks,     \* number of range requests the resource is split into (>= 1)
    MaxParallel,   \* cfg.MaxParallelRequests (semaphore capacity, >= 1)
    Hedging,       \* cfg.SpeculativeRetryMultiplier > 0
    MaxHedges,     \* cfg.MaxSpeculativeHedges (0 = unlimited)
    Kinds,         \* server behaviours offered to first attempts, subset of {"ok","err","short","whole200"}
    HedgeKinds,    \* server behaviours offered to hedged duplicates
    Probes,        \* probe outcomes offered, subset of ProbeKinds
    Fixed,         \* see above
    Eager,         \* TRUE: only schedules in which the receive loop runs whenever it can
                   \*       (what a harness that gates only the server replies can force)
    Mode,          \* "mc" | "edges" | "tree" | "paths"
    Depth

ProbeKinds == {"parallel", "headError", "noRanges", "small", "tooLarge"}

VARIABLES
    pc,            \* "probe" | "simple" | "launch" | "recv" | "hedge" | "assemble" | "done"
    nextLaunch,    \* next chunk index the launch loop will start
    att,           \* attempt state: [Attempts -> {"none","waiting","running","sent"}]
    chan,          \* resultCh: sequence of [c, res, h], res in {"good","bad","err"}
    results,       \* results[c] in {"none","good","bad"}
    expected,      \* attempts launched and not yet received
    remaining,     \* chunksRemaining
    hedged,        \* hedgedChunks
    firstErr,      \* firstErr != nil
    completions,   \* len(completionTimes)
    ret,           \* "none" | "exact" | "wrong" | "error"
    errchunk,      \* chunk index named in the returned error, -1 if none
    first,         \* first[c]: what the first received answer for chunk c was ("none","good","bad","err")
    anyFault,      \* some received answer was not the exact range
    trail,         \* generation only: the steps taken since the last rest point
    hist

sv   == <<pc, nextLaunch, att, chan, results, expected, remaining, hedged,
          firstErr, completions, ret, errchunk, first, anyFault>>
vars == <<pc, nextLaunch, att, chan, results, expected, remaining, hedged,
          firstErr, completions, ret, errchunk, first, anyFault, trail, hist>>

Chunks   == 0..(NumChunks - 1)
Attempts == Chunks \X BOOLEAN          \* <<chunk, isHedge>>

Running  == {a \in Attempts : att[a] = "running"}
Waiting  == {a \in Attempts : att[a] = "waiting"}
Alive    == Running \cup Waiting

\* What fetchChunk puts into the result for a server behaviour.
\* A 200 carrying the whole resource is the exact range iff there is one chunk.
DataOf(kind) ==
    CASE kind = "ok"       -> "good"
      [] kind = "err"      -> "err"
      [] kind = "short"    -> IF Fixed THEN "err" ELSE "bad"
      [] kind = "whole200" -> IF NumChunks = 1 THEN "good"
                              ELSE IF Fixed THEN "err" ELSE "bad"

\* Loop head `for chunksRemaining > 0 [&& expected > 0]`.
LoopHead(rem, exp) ==
    IF rem > 0 /\ (~Fixed \/ exp > 0) THEN "recv" ELSE "assemble"

--------------------------------------------------------------------------
(* Observation for the harness.  The driver acts only by answering         *)
(* requests and can look only when everything has come to rest, so `exp`   *)
(* describes rest points: the function returned, or the receive loop waits *)
(* on an empty channel and no goroutine can move without the server.       *)
CanAcquire(at) ==
    /\ \E a \in Attempts : at[a] = "waiting"
    /\ Cardinality({a \in Attempts : at[a] = "running"}) < MaxParallel

AtRest(p, ch, at) ==
    \/ p = "done"
    \/ p = "recv" /\ ch = <<>> /\ ~CanAcquire(at)

\* The requests the server currently holds, as the sorted list of their chunk
\* indices (an attempt and its hedge are the same request to the server).
ReqList(at) ==
    LET R == {a \in Attempts : at[a] = "running"}
        Key(a) == 2 * a[1] + (IF a[2] THEN 1 ELSE 0)
        F[S \in SUBSET R] ==
            IF S = {} THEN <<>>
            ELSE LET m == CHOOSE x \in S : \A y \in S : Key(x) <= Key(y)
                 IN <<m[1]>> \o F[S \ {m}]
    IN F[R]

\* `held` and `dupsafe` are the two clauses of C32 as a harness can judge them on
\* any implementation: at rest the call is neither blocked for good nor returned
\* with other bytes than the resource; and when a hedge was launched and the
\* first answer to every chunk was good -- or no answer at all was faulty --
\* the call returned the resource (no failure out of a duplicate).
DupSafe(p, r, hd, fs, af) ==
    (p = "done" /\ hd # {} /\ ((\A c \in Chunks : fs[c] = "good") \/ ~af)) => r = "exact"

Obs(p, ch, at, r, ec, hd, fs, af) ==
    IF ~AtRest(p, ch, at) THEN [busy |-> TRUE]
    ELSE LET rr == IF p = "done" THEN r
                   ELSE IF \E a \in Attempts : at[a] \in {"waiting", "running"}
                        THEN "pending" ELSE "blocked"
         IN [ret |-> rr,
             errchunk |-> IF p = "done" THEN ec ELSE -1,
             reqs |-> IF p = "done" THEN <<>> ELSE ReqList(at),
             held |-> rr \notin {"blocked", "wrong"},
             dupsafe |-> DupSafe(p, r, hd, fs, af)]

HungIn(p, ch, at) ==
    p = "recv" /\ ch = <<>> /\ \A a \in Attempts : at[a] \notin {"waiting", "running"}

ObsNext == Obs(pc', chan', att', ret', errchunk', hedged', first', anyFault')

Record(name, args) ==
    LET step == [a |-> name, args |-> args, exp |-> ObsNext] IN
    /\ hist' = IF Mode = "mc" THEN hist ELSE Append(hist, step)
    \* The harness observes at rest points only.  Keeping the steps since the last
    \* rest point in the VIEW makes edges mode enumerate every (rest state, run of
    \* steps to the next rest state) pair instead of merging the unobserved
    \* states in between.
    /\ trail' = IF Mode = "mc" \/ AtRest(pc', chan', att') THEN <<>>
              ELSE Append(trail, [a |-> name, args |-> args])
    /\ (Mode = "edges") => EmitTrace(hist')
    /\ (Mode = "tree" /\ Len(hist') = Depth) => EmitTrace(hist')
    \* "paths": every maximal behaviour (the call returned, or hangs for good)
    /\ (Mode = "paths" /\ (pc' = "done" \/ HungIn(pc', chan', att'))) => EmitTrace(hist')

Budget == (Mode = "tree") => Len(hist) < Depth
NoArgs == [x |-> 0]

--------------------------------------------------------------------------
(* Probe: HEAD, then the decision between one GET and range requests.      *)
Probe(kind) ==
    /\ Budget /\ pc = "probe" /\ kind \in Probes
    /\ CASE kind = "parallel" -> pc' = "launch" /\ UNCHANGED <<ret, errchunk>>
         [] kind = "tooLarge" -> pc' = "done" /\ ret' = "error" /\ errchunk' = -1
         [] OTHER             -> pc' = "simple" /\ UNCHANGED <<ret, errchunk>>
    /\ UNCHANGED <<nextLaunch, att, chan, results, expected, remaining, hedged,
                   firstErr, completions>>
    /\ UNCHANGED <<first, anyFault>>
    /\ Record("Probe", [kind |-> kind])

\* fetchSimple: one GET; 200 + body is returned as is, anything else is an error.
SimpleGet(kind) ==
    /\ Budget /\ pc = "simple" /\ kind \in {"ok", "err"}
    /\ pc' = "done"
    /\ ret' = IF kind = "ok" THEN "exact" ELSE "error"
    /\ errchunk' = -1
    /\ UNCHANGED <<nextLaunch, att, chan, results, expected, remaining, hedged,
                   firstErr, completions>>
    /\ UNCHANGED <<first, anyFault>>
    /\ Record("SimpleGet", [kind |-> kind])

--------------------------------------------------------------------------
(* Launch loop: `go fetchChunk(i, false)` for i = 0..numChunks-1.          *)
Launch ==
    /\ Budget /\ pc = "launch"
    /\ IF nextLaunch < NumChunks
       THEN /\ att' = [att EXCEPT ![<<nextLaunch, FALSE>>] = "waiting"]
            /\ nextLaunch' = nextLaunch + 1
            /\ pc' = pc
       ELSE /\ pc' = LoopHead(remaining, expected)
            /\ UNCHANGED <<att, nextLaunch>>
    /\ UNCHANGED <<chan, results, expected, remaining, hedged, firstErr,
                   completions, ret, errchunk>>
    /\ UNCHANGED <<first, anyFault>>
    /\ Record("Launch", NoArgs)

(* fetchChunk, goroutine side.                                             *)
\* `sem <- struct{}{}`
Acquire(a) ==
    /\ Budget /\ att[a] = "waiting" /\ pc # "done"
    /\ Cardinality(Running) < MaxParallel
    \* Without contention (a slot for every possible attempt) the order in which
    \* goroutines pass the semaphore is invisible; Eager schedules take one order.
    /\ (Eager /\ MaxParallel >= 2 * NumChunks) =>
           \A b \in Waiting : 2 * a[1] + (IF a[2] THEN 1 ELSE 0) <= 2 * b[1] + (IF b[2] THEN 1 ELSE 0)
    /\ att' = [att EXCEPT ![a] = "running"]
    /\ UNCHANGED <<pc, nextLaunch, chan, results, expected, remaining, hedged,
                   firstErr, completions, ret, errchunk>>
    /\ UNCHANGED <<first, anyFault>>
    /\ Record("Acquire", [c |-> a[1], h |-> a[2]])

\* The server answers attempt a with behaviour `kind`; the goroutine appends to
\* completionTimes (data results only), sends on resultCh and releases the
\* semaphore.  In Eager schedules the server answers only while the receive
\* loop waits on an empty channel and every free slot has been taken.
Complete(a, kind) ==
    /\ Budget /\ att[a] = "running" /\ pc # "done"
    /\ kind \in (IF a[2] THEN HedgeKinds ELSE Kinds)
    /\ Eager => (pc = "recv" /\ chan = <<>> /\ ~CanAcquire(att))
    /\ LET d == DataOf(kind) IN
       /\ chan' = Append(chan, [c |-> a[1], res |-> d, h |-> a[2]])
       /\ completions' = IF d = "err" THEN completions ELSE completions + 1
    /\ att' = [att EXCEPT ![a] = "sent"]
    /\ UNCHANGED <<pc, nextLaunch, results, expected, remaining, hedged,
                   firstErr, ret, errchunk>>
    /\ UNCHANGED <<first, anyFault>>
    /\ Record("Complete", [c |-> a[1], h |-> a[2], kind |-> kind])

--------------------------------------------------------------------------
(* Receive loop: `cr := <-resultCh; expected--` and then one of the        *)
(* branches, split exactly as the code splits them.                        *)
Hd == chan[1]
CanRecv == pc = "recv" /\ chan # <<>>
NoteFirst == /\ first' = IF first[Hd.c] = "none" THEN [first EXCEPT ![Hd.c] = Hd.res] ELSE first
             /\ anyFault' = (anyFault \/ Hd.res # "good")

\* cr.err != nil && results[cr.index] != nil  -> continue
Recv_ErrChunkAlreadyDone ==
    /\ Budget /\ CanRecv /\ Hd.res = "err" /\ results[Hd.c] # "none"
    /\ chan' = Tail(chan) /\ expected' = expected - 1
    /\ pc' = LoopHead(remaining, expected - 1)
    /\ UNCHANGED <<nextLaunch, att, results, remaining, hedged, firstErr,
                   completions, ret, errchunk>>
    /\ NoteFirst
    /\ Record("Recv_ErrChunkAlreadyDone", [c |-> Hd.c, h |-> Hd.h])

\* cr.err != nil, chunk still missing, other attempts outstanding -> continue
Recv_ErrKeepWaiting ==
    /\ Budget /\ CanRecv /\ Hd.res = "err" /\ results[Hd.c] = "none"
    /\ ~(expected - 1 <= 0 /\ remaining > 0)
    /\ chan' = Tail(chan) /\ expected' = expected - 1
    /\ firstErr' = TRUE
    /\ pc' = LoopHead(remaining, expected - 1)
    /\ UNCHANGED <<nextLaunch, att, results, remaining, hedged, completions,
                   ret, errchunk>>
    /\ NoteFirst
    /\ Record("Recv_ErrKeepWaiting", [c |-> Hd.c, h |-> Hd.h])

\* cr.err != nil, chunk still missing, nothing outstanding -> break
Recv_ErrNoAttemptsLeft ==
    /\ Budget /\ CanRecv /\ Hd.res = "err" /\ results[Hd.c] = "none"
    /\ expected - 1 <= 0 /\ remaining > 0
    /\ chan' = Tail(chan) /\ expected' = expected - 1
    /\ firstErr' = TRUE
    /\ pc' = "assemble"
    /\ UNCHANGED <<nextLaunch, att, results, remaining, hedged, completions,
                   ret, errchunk>>
    /\ NoteFirst
    /\ Record("Recv_ErrNoAttemptsLeft", [c |-> Hd.c, h |-> Hd.h])

\* data for a chunk that had none: store it, chunksRemaining--
Recv_OkFirst ==
    /\ Budget /\ CanRecv /\ Hd.res # "err" /\ results[Hd.c] = "none"
    /\ chan' = Tail(chan) /\ expected' = expected - 1
    /\ results' = [results EXCEPT ![Hd.c] = Hd.res]
    /\ remaining' = remaining - 1
    /\ pc' = IF remaining - 1 > 0 THEN "hedge" ELSE "assemble"
    /\ UNCHANGED <<nextLaunch, att, hedged, firstErr, completions, ret, errchunk>>
    /\ NoteFirst
    /\ Record("Recv_OkFirst", [c |-> Hd.c, h |-> Hd.h])

\* data for a chunk that already has some: dropped
Recv_OkDuplicate ==
    /\ Budget /\ CanRecv /\ Hd.res # "err" /\ results[Hd.c] # "none"
    /\ chan' = Tail(chan) /\ expected' = expected - 1
    /\ pc' = IF remaining > 0 THEN "hedge" ELSE "assemble"
    /\ UNCHANGED <<nextLaunch, att, results, remaining, hedged, firstErr,
                   completions, ret, errchunk>>
    /\ NoteFirst
    /\ Record("Recv_OkDuplicate", [c |-> Hd.c, h |-> Hd.h])

--------------------------------------------------------------------------
(* maybeHedge, one action per exit.                                        *)
BudgetSpent == MaxHedges > 0 /\ Cardinality(hedged) >= MaxHedges
Eligible    == {c \in Chunks : results[c] = "none" /\ c \notin hedged}

\* the chunks one due call hedges: eligible ones in index order while the budget lasts
FireSet ==
    LET room == IF MaxHedges > 0 THEN MaxHedges - Cardinality(hedged) ELSE NumChunks
    IN {c \in Eligible : Cardinality({d \in Eligible : d < c}) < room}

HedgeReturn(name, S) ==
    /\ pc' = LoopHead(remaining, expected + Cardinality(S))
    /\ expected' = expected + Cardinality(S)
    /\ hedged' = hedged \cup S
    /\ att' = [a \in Attempts |-> IF a[2] /\ a[1] \in S THEN "waiting" ELSE att[a]]
    /\ UNCHANGED <<nextLaunch, chan, results, remaining, firstErr, completions,
                   ret, errchunk>>
    /\ UNCHANGED <<first, anyFault>>
    /\ Record(name, [hedges |-> S])

MaybeHedge_Disabled ==
    /\ Budget /\ pc = "hedge" /\ ~Hedging
    /\ HedgeReturn("MaybeHedge_Disabled", {})

MaybeHedge_BudgetSpent ==
    /\ Budget /\ pc = "hedge" /\ Hedging /\ BudgetSpent
    /\ HedgeReturn("MaybeHedge_BudgetSpent", {})

MaybeHedge_TooFewCompletions ==
    /\ Budget /\ pc = "hedge" /\ Hedging /\ ~BudgetSpent /\ completions < 2
    /\ HedgeReturn("MaybeHedge_TooFewCompletions", {})

\* elapsed <= threshold (or nothing is eligible)
MaybeHedge_NotDue ==
    /\ Budget /\ pc = "hedge" /\ Hedging /\ ~BudgetSpent /\ completions >= 2
    /\ HedgeReturn("MaybeHedge_NotDue", {})

\* elapsed > threshold: hedge every eligible chunk while the budget lasts
MaybeHedge_Fire ==
    /\ Budget /\ pc = "hedge" /\ Hedging /\ ~BudgetSpent /\ completions >= 2
    /\ Eligible # {}
    /\ HedgeReturn("MaybeHedge_Fire", FireSet)

--------------------------------------------------------------------------
(* After the loop: cancel, look for a missing chunk, concatenate.          *)
Assemble ==
    /\ Budget /\ pc = "assemble"
    /\ pc' = "done"
    /\ LET missing == {c \in Chunks : results[c] = "none"} IN
       IF missing # {}
       THEN /\ ret' = "error"
            /\ errchunk' = CHOOSE c \in missing : \A d \in missing : c <= d
       ELSE /\ ret' = IF \A c \in Chunks : results[c] = "good" THEN "exact" ELSE "wrong"
            /\ errchunk' = -1
    /\ UNCHANGED <<nextLaunch, att, chan, results, expected, remaining, hedged,
                   firstErr, completions>>
    /\ UNCHANGED <<first, anyFault>>
    /\ Record("Assemble", NoArgs)

--------------------------------------------------------------------------
Init ==
    /\ pc = "probe"
    /\ nextLaunch = 0
    /\ att = [a \in Attempts |-> "none"]
    /\ chan = <<>>
    /\ results = [c \in Chunks |-> "none"]
    /\ expected = NumChunks
    /\ remaining = NumChunks
    /\ hedged = {}
    /\ firstErr = FALSE
    /\ completions = 0
    /\ ret = "none"
    /\ errchunk = -1
    /\ first = [c \in Chunks |-> "none"]
    /\ anyFault = FALSE
    /\ trail = <<>>
    /\ hist = << [a |-> "Init",
                  args |-> [NumChunks |-> NumChunks, MaxParallel |-> MaxParallel,
                            Hedging |-> Hedging, MaxHedges |-> MaxHedges,
                            Fixed |-> Fixed],
                  exp |-> [busy |-> TRUE]] >>

Goroutines ==
    \/ \E a \in Attempts : Acquire(a)
    \/ \E a \in Attempts, k \in Kinds \cup HedgeKinds : Complete(a, k)

Caller ==
    \/ \E k \in ProbeKinds : Probe(k)
    \/ \E k \in {"ok", "err"} : SimpleGet(k)
    \/ Launch
    \/ Recv_ErrChunkAlreadyDone \/ Recv_ErrKeepWaiting \/ Recv_ErrNoAttemptsLeft
    \/ Recv_OkFirst \/ Recv_OkDuplicate
    \/ MaybeHedge_Disabled \/ MaybeHedge_BudgetSpent \/ MaybeHedge_TooFewCompletions
    \/ MaybeHedge_NotDue \/ MaybeHedge_Fire
    \/ Assemble

Next == Goroutines \/ Caller

Spec == Init /\ [][Next]_vars

\* Every server answer arrives eventually (finite latency), goroutines and the
\* caller keep running when they can.
FairSpec == Spec /\ WF_vars(Goroutines) /\ WF_vars(Caller)

--------------------------------------------------------------------------
(* C32.                                                                    *)
\* ... returns either exactly the bytes of the resource or an error ...
ResultExactOrError == (pc = "done") => (ret \in {"exact", "error"})

\* ... in bounded time: with every request answered, the call returns.
Terminates == <>(pc = "done")

\* ... and hedged duplicates never change the result: what was stored for a
\* chunk is never replaced, a lost duplicate never fails a call that holds
\* every chunk, and an error names a chunk no attempt delivered.
ResultsWriteOnce ==
    [][\A c \in Chunks : results[c] # "none" => results'[c] = results[c]]_vars
CompleteMeansSuccess ==
    (pc = "done" /\ \A c \in Chunks : results[c] = "good") => ret = "exact"
HedgedDuplicatesHarmless == DupSafe(pc, ret, hedged, first, anyFault)
ErrorNamesMissingChunk ==
    (pc = "done" /\ ret = "error" /\ errchunk >= 0) =>
        (results[errchunk] = "none" /\ firstErr)

(* Bookkeeping the loop relies on (why `expected > 0` is the right exit).  *)
ExpectedCountsUnreceived ==
    (pc \in {"recv", "hedge", "assemble"}) =>
        expected = Cardinality(Alive) + Len(chan)
RemainingCountsMissing ==
    remaining = Cardinality({c \in Chunks : results[c] = "none"})
\* resultCh (capacity 2*numChunks) never blocks a sender; the semaphore bounds
\* concurrent requests; at most one hedge per chunk and within the budget.
ChannelNeverFull == Len(chan) <= 2 * NumChunks
ParallelBounded  == Cardinality(Running) <= MaxParallel
HedgeBudget      == MaxHedges > 0 => Cardinality(hedged) <= MaxHedges
TypeOK ==
    /\ pc \in {"probe", "simple", "launch", "recv", "hedge", "assemble", "done"}
    /\ expected \in 0..(2 * NumChunks) /\ remaining \in 0..NumChunks
    /\ hedged \subseteq Chunks
Safety == /\ TypeOK /\ ResultExactOrError /\ CompleteMeansSuccess
          /\ HedgedDuplicatesHarmless
          /\ ErrorNamesMissingChunk /\ ExpectedCountsUnreceived
          /\ RemainingCountsMissing /\ ChannelNeverFull /\ ParallelBounded
          /\ HedgeBudget

(* The hang of the code as found, as a state predicate: the loop waits for *)
(* a result nobody will send.  MC_prefix.cfg checks that ~Hung is VIOLATED.*)
Hung == HungIn(pc, chan, att)
NeverHung == ~Hung

View == <<sv, trail>>
=============================================================================
