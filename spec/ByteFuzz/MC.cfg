SPECIFICATION Spec
CONSTANTS
    Routes <- AllRoutes
    ByteMuts <- AllByteMuts
    WholeMuts <- AllWholeMuts
    MetaMuts <- AllMetaMuts
    Positions <- AllPositions
    Probes = {"same", "unary"}
    Members = 1
    Mode = "mc"
    Depth = 0
VIEW View
INVARIANTS TypeOK ProcessSurvives PipeAnsweredOrClosed HttpAlwaysAnswered
PROPERTIES NextRequestServed NothingEscapes
CHECK_DEADLOCK FALSE
