------------------------------ MODULE ByteFuzz ------------------------------
(***************************************************************************)
(* Byte-level half of property C03 of vgi-rpc-go: no byte sequence a       *)
(* client sends -- on a pipe or on an HTTP route -- crashes the server or  *)
(* aborts an HTTP exchange.                                                *)
(*                                                                         *)
(* The server is modelled by what a client can tell about it:              *)
(*   proc  : the server process, "up" or "dead";                           *)
(*   conn  : the current pipe connection, "none" | "open" | "closed";      *)
(*   out   : the responses written on that connection, a sequence over     *)
(*           {"error", "result"} (complete IPC streams) possibly ending in *)
(*           "partial" (a stream cut short because the input broke off);   *)
(*   http  : the answer to the last HTTP request, [complete, class].       *)
(* A client ACTION is a body sent to a ROUTE.  The body is a VALID request *)
(* of that route (built, and for continuations carrying real tokens minted *)
(* by a real /init) to which one MUTATION of a class m has been applied at *)
(* a position class p -- or an arbitrary byte string.  What the bytes make *)
(* the server do is not determined at this level of abstraction, so the    *)
(* reaction is a nondeterministic choice among the exits of the code       *)
(* (serveOne / ReadRequest / dispatch on a pipe; the handle* functions     *)
(* over HTTP); the mutation class only narrows the choice where it is      *)
(* obvious.  C03 is the statement that EVERY such exit leaves the process  *)
(* up, the pipe connection closed by the server with only complete answers *)
(* before, the HTTP exchange completed with a status -- and that the next  *)
(* valid request is served.  That is model-checked here over all exits;    *)
(* TLC enumerates (route x mutation class x position class x probe) and    *)
(* the driver sends several seeded members of each case to a real Server / *)
(* HttpServer running in a child process.                                  *)
(***************************************************************************)
EXTENDS Naturals, Sequences, FiniteSets, TLC, VerifEmit

CONSTANTS
    Routes,      \* subset of AllRoutes
    ByteMuts,    \* byte-level mutation classes offered (position classes apply)
    WholeMuts,   \* whole-body replacements
    MetaMuts,    \* structural edits (re-rendered): metadata keys, rows, columns, payloads, tokens, headers
    Positions,   \* position classes for ByteMuts
    Probes,      \* follow-up probes: "same" (a valid request of the same route) | "unary"
    Members,     \* seeded members of the case sent per behaviour
    Mode, Depth

VARIABLES proc, conn, out, http, pc, case, hist
vars == <<proc, conn, out, http, pc, case, hist>>

--------------------------------------------------------------------------
PipeRoutes == {"p_unary", "p_rich", "p_prod", "p_exch", "p_describe"}
HttpRoutes == {"h_unary", "h_rich", "h_init", "h_exchange", "h_cont", "h_describe", "h_upload", "h_introspect"}
AllRoutes  == PipeRoutes \cup HttpRoutes
(* p_unary / h_unary : scripted unary method (u_val / u_void)              *)
(* p_rich  / h_rich  : a conformance method with containers, optionals,    *)
(*                     decimals, dictionaries or a nested binary payload   *)
(* p_prod  / p_exch  : stream call = request stream + tick / input stream  *)
(* h_init            : POST /{m}/init of a producer or exchange method     *)
(* h_exchange        : POST /exch/exchange with the tokens of a real init  *)
(* h_cont            : POST /prod/exchange with the cursor of a real init  *)
(* *_describe        : __describe__                                        *)
(* h_upload          : POST /__upload_url__/init                           *)
(* h_introspect      : POST /__introspect_token__ (JSON body)              *)
IsPipe(r) == r \in PipeRoutes
MultiStream(r) == r \in {"p_prod", "p_exch"}     \* the valid body has more than one IPC stream
HasTokens(r) == r \in {"h_exchange", "h_cont"}
IsIPC(r) == r # "h_introspect"

AllByteMuts  == {"flip", "word", "insert", "delete", "dup", "trunc"}
AllPositions == {"schema", "batchmeta", "body", "frame", "eos", "later"}
AllWholeMuts == {"empty", "random", "ascii", "framed_noise", "schema_noise", "concat2", "append_junk", "swap_streams"}
MetaKeyMuts  == {"drop_method", "drop_rv", "bad_rv", "badutf8_method", "unknown_method", "add_location",
                 "add_shm_ptr", "add_shm_segment", "add_loglevel", "add_cancel", "dup_keys", "huge_value"}
ShapeMuts    == {"rows0", "rows2", "rows0_location", "rows0_shm", "col_reorder", "col_retype", "col_extra",
                 "col_missing", "col_null"}
NestedMuts   == {"nested_equal", "nested_reordered", "nested_retyped", "nested_garbage"}
TokenMuts    == {"tok_garble", "tok_drop", "tok_swap", "tok_other_route"}
HeaderMuts   == {"enc_zstd", "enc_gzip", "ct_wrong"}
AllMetaMuts  == MetaKeyMuts \cup ShapeMuts \cup NestedMuts \cup TokenMuts \cup HeaderMuts

\* which (route, mutation, position) combinations exist
Applies(r, m, p) ==
    \/ /\ m \in AllByteMuts
       /\ p \in AllPositions
       /\ (p = "later") => MultiStream(r)
       /\ IsIPC(r) \/ p = "body"               \* a JSON body has no framing: every byte is "body"
    \/ /\ m \in AllWholeMuts /\ p = "n/a"
       /\ (m = "swap_streams") => MultiStream(r)
       /\ (m \in {"schema_noise", "concat2"}) => IsIPC(r)
    \/ /\ m \in MetaKeyMuts \cup ShapeMuts /\ p = "n/a" /\ IsIPC(r)
       /\ (m \in {"col_reorder", "col_retype", "col_extra", "col_missing", "col_null", "rows2"}) =>
              r \notin {"p_describe", "h_describe", "h_cont"}      \* those bodies have no columns
    \* nested payloads: a binary column carrying an ArrowSerializable value (rich
    \* routes), and the wrapped form every method accepts -- one binary column
    \* "request" holding the IPC-serialised parameter batch
    \/ /\ m \in NestedMuts /\ p = "n/a"
       /\ r \in {"p_unary", "p_rich", "p_prod", "p_exch", "h_unary", "h_rich", "h_init", "h_upload"}
    \/ /\ m \in TokenMuts /\ p = "n/a" /\ HasTokens(r)
    \/ /\ m \in HeaderMuts /\ p = "n/a" /\ ~IsPipe(r)

Cases == {c \in [r : Routes, m : ByteMuts \cup WholeMuts \cup MetaMuts, p : Positions \cup {"n/a"}, probe : Probes] :
             Applies(c.r, c.m, c.p)}

--------------------------------------------------------------------------
(* The exits of the code.                                                  *)
(* Pipe, one turn of the serve loop (server_serve.go: serveOne):           *)
(*   eof          ReadRequest sees a clean end of input: Serve returns     *)
(*   bad_frame    ReadRequest fails below the protocol (IPC framing /      *)
(*                flatbuffers / truncated): Serve returns, nothing written *)
(*   bad_request  ReadRequest returns an RpcError (no/invalid method, no/  *)
(*                unsupported version, row count): error stream, loop on   *)
(*   refused      dispatch refuses (unknown method, version gate,          *)
(*                parameters do not bind, shm resolve): error stream,      *)
(*                stream input drained, loop on                            *)
(*   handled      the handler ran (its panic is recovered): result or      *)
(*                error stream, loop on                                    *)
(*   broken_input a stream call whose input stream breaks off: the output  *)
(*                stream is cut short and Serve returns                    *)
PipeTurns == {"eof", "bad_frame", "bad_request", "refused", "handled_error", "handled_result", "broken_input"}
Terminal(t) == t \in {"eof", "bad_frame", "broken_input"}
Answer(t) == CASE t \in {"bad_request", "refused", "handled_error"} -> <<"error">>
               [] t = "handled_result" -> <<"result">>
               [] t = "broken_input"   -> <<"partial">>
               [] OTHER                -> <<>>

\* the byte string is consumed as up to MaxTurns turns, the last one terminal
MaxTurns == 3
PipeReactions == UNION {{q \in [1..n -> PipeTurns] :
                            /\ Terminal(q[n])
                            /\ \A i \in 1..(n-1) : ~Terminal(q[i])} : n \in 1..MaxTurns}

\* narrowing by mutation class where the class decides the first turn
FirstTurns(c) ==
    CASE c.m = "empty" -> {"eof"}
      [] c.m \in {"random", "ascii", "framed_noise", "schema_noise"} -> {"eof", "bad_frame", "bad_request"}
      [] c.m = "trunc" /\ c.p \in {"schema", "batchmeta", "body"} -> {"bad_frame"}
      [] c.m \in {"drop_method", "drop_rv", "bad_rv", "badutf8_method"} -> {"bad_request"}
      [] c.m = "unknown_method" -> {"refused"}
      [] OTHER -> PipeTurns
PipeReactionsOf(c) == {q \in PipeReactions : q[1] \in FirstTurns(c)}

(* HTTP, the exits of handleUnary / handleStreamInit / handleStreamExchange *)
(* / handleUploadURLInit / handleIntrospectToken: each writes a status.    *)
HttpExits == {"media_type",     \* 415: not the Arrow content type
              "body_read",      \* 400 / 413: body unreadable, undecodable coding, over a cap
              "bad_request",    \* 400: ReadRequest failed (framing or protocol)
              "not_found",      \* 404: unknown method / route
              "bad_token",      \* 400: continuation token missing, forged, foreign, expired
              "refused",        \* 4xx/5xx with an error stream: version gate, parameters do not bind
              "handled_error",  \* 500-class / 200 with an error stream: the handler failed
              "handled_result", \* 200
              "json_refusal"}   \* introspection: every unusable body is the one "unresolved" answer
HttpExitsOf(c) ==
    CASE c.r = "h_introspect" -> {"json_refusal", "handled_result", "media_type"}
      [] c.m = "ct_wrong" -> {"media_type"}
      [] c.m \in {"enc_zstd", "enc_gzip"} -> {"body_read", "bad_request", "handled_result", "handled_error", "refused"}
      [] c.m = "empty" -> {"bad_request", "body_read"}
      [] OTHER -> HttpExits \ {"json_refusal"}

--------------------------------------------------------------------------
Record(step) == hist' = Append(hist, step)
RecordLast(step) == hist' = Append(hist, step) /\ ((Mode # "mc") => EmitTrace(hist'))

Choose(c) ==
    /\ pc = "choose"
    /\ case' = c
    /\ pc' = IF HasTokens(c.r) THEN "establish" ELSE "mutant"
    /\ UNCHANGED <<proc, conn, out, http, hist>>

(* A real /init on the route's method: the tokens the mutants will carry.  *)
Establish ==
    /\ pc = "establish" /\ proc = "up"
    /\ http' = [complete |-> TRUE, exit |-> "handled_result"]
    /\ pc' = "mutant"
    /\ Record([a |-> "Establish", args |-> [r |-> case.r], exp |-> [established |-> TRUE]])
    /\ UNCHANGED <<proc, conn, out, case>>

MutantStep(reaction) ==
    [a |-> "Mutant",
     args |-> [r |-> case.r, m |-> case.m, p |-> case.p, n |-> Members,
               allowed |-> IF IsPipe(case.r) THEN {q[1] : q \in PipeReactionsOf(case)} ELSE HttpExitsOf(case)],
     \* per member: nothing escapes, nothing hangs, nothing dies, the next valid request is served
     exp |-> [escaped |-> 0, hung |-> 0, unanswered |-> 0, next_unserved |-> 0,
              fatal_alloc |-> 0, fatal_other |-> 0]]

(* Pipe: the server consumes the bytes turn by turn and returns.           *)
PipeMutant(q) ==
    /\ pc = "mutant" /\ proc = "up" /\ IsPipe(case.r)
    /\ conn' = "closed"                                    \* Serve returned; the harness closes the writer
    /\ out' = Answer(q[1]) \o (IF Len(q) > 1 THEN Answer(q[2]) ELSE <<>>) \o (IF Len(q) > 2 THEN Answer(q[3]) ELSE <<>>)
    /\ proc' = "up"
    /\ pc' = "probe"
    /\ Record(MutantStep(q))
    /\ UNCHANGED <<http, case>>

(* HTTP: one of the handler's exits; every one writes a status.            *)
HttpMutant(e) ==
    /\ pc = "mutant" /\ proc = "up" /\ ~IsPipe(case.r)
    /\ http' = [complete |-> TRUE, exit |-> e]
    /\ proc' = "up"
    /\ pc' = "probe"
    /\ Record(MutantStep(e))
    /\ UNCHANGED <<conn, out, case>>

(* The next request -- on a fresh pipe connection / the next HTTP request. *)
Probe ==
    /\ pc = "probe" /\ proc = "up"
    /\ IF IsPipe(case.r)
       THEN conn' = "closed" /\ out' = <<"result">> /\ UNCHANGED http
       ELSE http' = [complete |-> TRUE, exit |-> "handled_result"] /\ UNCHANGED <<conn, out>>
    /\ pc' = "done"
    /\ RecordLast([a |-> "Probe", args |-> [r |-> case.r, probe |-> case.probe],
                   exp |-> [probe |-> "served"]])
    /\ UNCHANGED <<proc, case>>

NoCase == [r |-> "none", m |-> "none", p |-> "n/a", probe |-> "same"]

Init ==
    /\ proc = "up" /\ conn = "none" /\ out = <<>>
    /\ http = [complete |-> TRUE, exit |-> "handled_result"]
    /\ pc = "choose" /\ case = NoCase
    /\ hist = << [a |-> "Init", args |-> [members |-> Members], exp |-> [x |-> 0]] >>

\* model checking explores every exit; generation takes one representative
\* (the driver cannot choose the exit -- the bytes do)
Next ==
    \/ \E c \in Cases : Choose(c)
    \/ Establish
    \/ IF Mode = "mc"
       THEN \/ \E q \in PipeReactionsOf(case) : PipeMutant(q)
            \/ \E e \in HttpExitsOf(case) : HttpMutant(e)
       ELSE \/ (IsPipe(case.r) /\ PipeMutant(CHOOSE q \in PipeReactionsOf(case) : TRUE))
            \/ (~IsPipe(case.r) /\ case.r # "none" /\ HttpMutant(CHOOSE e \in HttpExitsOf(case) : TRUE))
    \/ Probe

Spec == Init /\ [][Next]_vars

View == <<proc, conn, out, http, pc, case>>

--------------------------------------------------------------------------
(*                      C03 (byte-level), declaratively                    *)
TypeOK ==
    /\ proc \in {"up", "dead"}
    /\ conn \in {"none", "open", "closed"}
    /\ pc \in {"choose", "establish", "mutant", "probe", "done"}

\* the server process keeps running
ProcessSurvives == proc = "up"

\* over a pipe the server either answers with complete streams or closes:
\* once it has reacted, the connection is closed by the server and everything
\* before a possible cut-short stream is a complete answer
PipeAnsweredOrClosed ==
    (pc \in {"probe", "done"} /\ IsPipe(case.r)) =>
        /\ conn = "closed"
        /\ \A i \in 1..Len(out) : out[i] = "partial" => i = Len(out)

\* over HTTP every request receives a complete response with a status
HttpAlwaysAnswered == http.complete

\* ... and the next request is served (the probe step is always enabled
\* after a mutant and predicts a served request)
Last == hist'[Len(hist')]
NextRequestServed ==
    [][ (hist' # hist /\ Last.a = "Probe") => (proc = "up" /\ Last.exp.probe = "served") ]_vars
NothingEscapes ==
    [][ (hist' # hist /\ Last.a = "Mutant") =>
          /\ Last.exp.escaped = 0 /\ Last.exp.hung = 0 /\ Last.exp.unanswered = 0
          /\ Last.exp.next_unserved = 0 /\ Last.exp.fatal_alloc = 0 /\ Last.exp.fatal_other = 0
          /\ proc' = "up" ]_vars
=============================================================================
