SPECIFICATION Spec
CONSTANTS
    Routes <- AllRoutes
    ByteMuts <- AllByteMuts
    WholeMuts <- AllWholeMuts
    MetaMuts <- AllMetaMuts
    Positions <- AllPositions
    Probes = {"same", "unary"}
    Members = 25
    Mode = "edges"
    Depth = 0
VIEW View

CHECK_DEADLOCK FALSE
