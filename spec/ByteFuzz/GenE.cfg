SPECIFICATION Spec
CONSTANTS
    Routes <- AllRoutes
    ByteMuts <- AllByteMuts
    WholeMuts <- AllWholeMuts
    MetaMuts <- AllMetaMuts
    Positions <- AllPositions
    Probes = {"same"}
    Members = 8
    Mode = "edges"
    Depth = 0
VIEW View

CHECK_DEADLOCK FALSE
