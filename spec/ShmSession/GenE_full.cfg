SPECIFICATION Spec
CONSTANTS
    Mode = "edges"
    Depth = 0
    MaxCalls = 2
    Calls <- FullCalls
    Probes <- TreeCalls
    Segs <- FullSegs
    Holds = {"now", "call", "session"}
    Fixed = TRUE
VIEW View
CHECK_DEADLOCK FALSE
