SPECIFICATION Spec
CONSTANTS
    Mode = "tree"
    Depth = 10
    MaxCalls = 8
    Calls <- QuickCalls
    Probes <- QuickCalls
    Segs <- FullSegs
    Holds = {"now", "call", "session"}
    Fixed = TRUE
CHECK_DEADLOCK FALSE
