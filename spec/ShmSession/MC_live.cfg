SPECIFICATION FairSpec
CONSTANTS
    Mode = "mc"
    Depth = 0
    MaxCalls = 2
    Calls <- TreeCalls
    Probes <- HistCalls
    Segs <- HistSegs
    Holds = {"now", "session"}
    Fixed = TRUE
VIEW View
INVARIANTS InFrame NeverDies
PROPERTIES Answered
CHECK_DEADLOCK FALSE
