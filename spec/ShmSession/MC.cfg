SPECIFICATION Spec
CONSTANTS
    Mode = "mc"
    Depth = 0
    MaxCalls = 3
    Calls <- McCalls
    Probes <- TreeCalls
    Segs <- QuickSegs
    Holds = {"now", "call", "session"}
    Fixed = TRUE
VIEW View
INVARIANTS InFrame NeverDies OnlyHeldRegions TableConsistent
PROPERTIES SameAsPlain EmptyAfterRelease NoLeak ServerFreesWhatItResolved RogueRefused OneResponsePerCall
CHECK_DEADLOCK FALSE
