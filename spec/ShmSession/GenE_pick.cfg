SPECIFICATION Spec
CONSTANTS
    Mode = "edges"
    Depth = 0
    MaxCalls = 2
    Calls <- PickFirst
    Probes <- PickCalls
    Segs <- PickSegs
    Holds = {"pick"}
    Fixed = TRUE
VIEW View
CHECK_DEADLOCK FALSE
