SPECIFICATION Spec
CONSTANTS
    Mode = "tree"
    Depth = 5
    MaxCalls = 3
    Calls <- HistCalls
    Probes <- HistCalls
    Segs <- HistSegs
    Holds = {"now", "session"}
    Fixed = TRUE
CHECK_DEADLOCK FALSE
