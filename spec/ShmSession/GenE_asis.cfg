SPECIFICATION Spec
CONSTANTS
    Mode = "edges"
    Depth = 0
    MaxCalls = 2
    Calls <- QuickCalls
    Probes <- TreeCalls
    Segs <- QuickSegs
    Holds = {"now", "session"}
    Fixed = FALSE
VIEW View
CHECK_DEADLOCK FALSE
