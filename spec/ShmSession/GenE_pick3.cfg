SPECIFICATION Spec
CONSTANTS
    Mode = "edges"
    Depth = 0
    MaxCalls = 3
    Calls <- PickCalls
    Probes <- PickCalls
    Segs <- PickSegs
    Holds = {"pick"}
    Fixed = TRUE
VIEW View
CHECK_DEADLOCK FALSE
