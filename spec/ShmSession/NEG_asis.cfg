SPECIFICATION Spec
CONSTANTS
    Mode = "mc"
    Depth = 0
    MaxCalls = 2
    Calls <- TreeCalls
    Probes <- HistCalls
    Segs <- HistSegs
    Holds = {"now"}
    Fixed = FALSE
VIEW View
INVARIANTS InFrame NeverDies
PROPERTIES RogueRefused OneResponsePerCall
CHECK_DEADLOCK FALSE
