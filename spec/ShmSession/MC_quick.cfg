SPECIFICATION Spec
CONSTANTS
    Mode = "mc"
    Depth = 0
    MaxCalls = 2
    Calls <- McCalls
    Probes <- HistCalls
    Segs <- McSegs
    Holds = {"now", "session"}
    Fixed = TRUE
VIEW View
INVARIANTS InFrame NeverDies OnlyHeldRegions TableConsistent
PROPERTIES SameAsPlain EmptyAfterRelease NoLeak ServerFreesWhatItResolved RogueRefused OneResponsePerCall
CHECK_DEADLOCK FALSE
