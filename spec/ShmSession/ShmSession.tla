----------------------------- MODULE ShmSession -----------------------------
(***************************************************************************)
(* One pipe connection of a vgi-rpc-go server whose client owns a POSIX    *)
(* shared-memory segment (vgirpc/server_serve.go shmConnState + serveOne,  *)
(* server_unary.go, server_stream.go, shm.go MaybeWriteToShm /             *)
(* AllocateAndWrite / ResolveShmBatch / FreeOffset).                       *)
(*                                                                         *)
(* The client (the harness) created the segment.  Per request it may       *)
(* advertise (segment name, size) in the request metadata, send the        *)
(* request batch itself or an exchange input as a *pointer batch* (zero    *)
(* rows + offset/length of a region it wrote into the segment), and it     *)
(* resolves and frees every pointer batch it receives on a call on which   *)
(* it engaged shared memory (advertised, or sent the request as pointer).  *)
(* A session in which the client never advertises and never sends a        *)
(* pointer is a plain pipe session: the same actions, every shm branch     *)
(* taking its "no segment" exit.                                           *)
(*                                                                         *)
(* The protocol is lockstep: the client touches the segment only while the *)
(* server is parked on an empty wire, so client and server steps alternate *)
(* and the allocation table evolves deterministically.  `inq` is the wire  *)
(* towards the server (items not yet consumed), `outq` the wire towards    *)
(* the client.                                                             *)
(*                                                                         *)
(* Sizes are whole *units*.  A batch of class z occupies exactly Units(z)  *)
(* units when written to the segment (the harness pads payloads so that    *)
(* the serialized stream is an exact multiple of the unit).  The writer's  *)
(* conservative pre-check (canFitLocked(bufferSize + 4096)) asks for the   *)
(* region plus a slack smaller than one unit: a gap between regions must   *)
(* be strictly larger than the region, the tail may be exactly as large    *)
(* when the data area carries a remainder that covers the slack            *)
(* (seg.rem = 1).  Class "S" is below the minimum-batch-size gate of       *)
(* MaybeWriteToShm, "L" and "H" are at or above it.                        *)
(*                                                                         *)
(* Property C36: (a) the decoded results of every call equal those of the  *)
(* plain session; (b) once the client has released every pointer it        *)
(* received the table is empty; (c) the server frees every client region   *)
(* it resolved; (d) a pointer batch on a connection that never advertised  *)
(* is answered with an IOError and the session stays in frame.             *)
(*                                                                         *)
(* The client may keep SEVERAL response pointers at once (policies         *)
(* "session" and "pick") and, under "pick", is done with them one at a     *)
(* time in an order of its own (ReleaseOne: oldest, newest, middle), so    *)
(* that later regions -- the server's results and the client's own         *)
(* requests / inputs -- are first-fitted into holes BETWEEN live regions.  *)
(* `hmeta` remembers per outstanding pointer its size and whether anything *)
(* written since overlaps it: (a) is also required of what the client      *)
(* reads through a pointer later (HeldIntact: after every call and at      *)
(* every release), every release finds its region (freed), and table       *)
(* entries are matched one-to-one with the pointers held (leak).           *)
(*                                                                         *)
(* Fixed = TRUE is the design the property asks for; Fixed = FALSE is what *)
(* vgirpc did when this module was written (see PointerRefused and         *)
(* Stream_Input_Unresolvable): kept as named alternatives.  NEG_asis.cfg   *)
(* model-checks the pre-fix design (InFrame, NeverDies, RogueRefused and   *)
(* OneResponsePerCall are violated); GenE_asis.cfg generates its           *)
(* behaviours (replayed with every key judged they match the pre-fix code  *)
(* exactly, as the Fixed = TRUE behaviours match the patched code).        *)
(***************************************************************************)
EXTENDS Naturals, Sequences, FiniteSets, TLC, VerifEmit

CONSTANTS
    Mode,      \* "mc" | "edges" | "tree"
    Depth,     \* tree mode: number of hist entries at which a behaviour is emitted
    MaxCalls,  \* calls per session
    Calls,     \* call alphabet of the first call
    Probes,    \* call alphabet of the later calls
    Segs,      \* segment size classes [cap, rem]
    Holds,     \* when the client frees the pointers it received: "now" | "call" | "session" (all at
               \* once, at a moment of its choosing) | "pick" (one at a time, in any order, between calls)
    Fixed      \* TRUE: refusals drain a stream's input, unresolvable input pointers are refused

VARIABLES
    seg,       \* [cap |-> data units, rem |-> 0 | 1]
    hold,      \* the client's release policy
    attached,  \* shmConnState.seg # nil
    table,     \* allocation table: sequence of <<off, len, tag>> in offset order (units); the tag is
               \* not in the segment: 0 = written by the server, k > 0 = the client's k-th region of
               \* the call in progress
    held,      \* offsets of pointers the client received and has not freed yet
    hmeta,     \* parallel to held: <<units, intact>>; intact = no region written to the segment since the
               \* pointer was received overlaps the pointer's region (what the client reads through the
               \* pointer is still the result it was given)
    cpc,       \* client: "idle" | "in" | "out" | "tail"
    spc,       \* server: "read" | "ensure" | "resolve" | "expose" | "nosegcheck" | "dispatch" |
               \*         "unary" | "sinit" | "sin" | "turn" | "drain" | "misdrain" | "dead"
    cur,       \* the call in progress
    req,       \* server: the request being served [ptr, off]
    eng,       \* server: req.Shm # nil
    ceng,      \* client: it engaged shared memory on this call
    inq,       \* client -> server items not yet consumed
    outq,      \* server -> client items not yet consumed
    inval,     \* server: the input batch of the running turn
    ix,        \* client: inputs written
    tx,        \* server: turns run
    more,      \* client: the last thing it received was a data batch
    respdone,  \* client: it has seen the end of the response stream
    inclosed,  \* client: it closed its input stream
    mine,      \* client: regions it allocated on this call: sequence of [off, taken]
    resp,      \* client: decoded response batches of this call
    xfer,      \* client: per received data batch <<via, off, why>> (how it travelled)
    sent,      \* client: how the request and the inputs actually went: sequence of "inl" | "ptr"
    rogue,     \* "ok" | "d" (pointer without any segment on the connection) | "x" (pointer on a call that
               \* did not engage the attached segment: outside C36)
    extra,     \* response streams nobody asked for
    ncalls,
    closed,
    hist

vars == <<seg, hold, attached, table, held, hmeta, cpc, spc, cur, req, eng, ceng, inq, outq, inval, ix, tx,
          more, respdone, inclosed, mine, resp, xfer, sent, rogue, extra, ncalls, closed, hist>>

--------------------------------------------------------------------------
(* The allocation table (as in ShmAlloc.tla) and the two-step writer.      *)
Off(e) == e[1]
End(e) == e[1] + e[2]
GapBefore(t, i) == Off(t[i]) - (IF i = 1 THEN 0 ELSE End(t[i-1]))
TailStart(t) == IF Len(t) = 0 THEN 0 ELSE End(t[Len(t)])
InsertAt(t, i, e) == SubSeq(t, 1, i-1) \o <<e>> \o SubSeq(t, i, Len(t))
RemoveAt(t, i) == SubSeq(t, 1, i-1) \o SubSeq(t, i+1, Len(t))

\* allocateLocked(n): first fit
AllocResult(t, n, tag) ==
    LET S == {i \in 1..Len(t) : GapBefore(t, i) >= n} IN
    IF S # {}
    THEN LET i == CHOOSE j \in S : \A k \in S : j <= k
             o == IF i = 1 THEN 0 ELSE End(t[i-1])
         IN [ok |-> TRUE, off |-> o, table |-> InsertAt(t, i, <<o, n, tag>>)]
    ELSE IF seg.cap - TailStart(t) >= n
         THEN [ok |-> TRUE, off |-> TailStart(t), table |-> Append(t, <<TailStart(t), n, tag>>)]
         ELSE [ok |-> FALSE, off |-> 0, table |-> t]

\* freeAtLocked(o): remove exactly the region starting at o
FreeAt(t, o) ==
    LET S == {i \in 1..Len(t) : Off(t[i]) = o}
    IN IF S = {} THEN t ELSE RemoveAt(t, CHOOSE i \in S : TRUE)

RECURSIVE FreeAll(_, _)
FreeAll(t, os) == IF os = <<>> THEN t ELSE FreeAll(FreeAt(t, Head(os)), Tail(os))

\* canFitLocked(estimate): the region plus a slack of less than one unit
PreCheck(t, n) ==
    \/ \E i \in 1..Len(t) : GapBefore(t, i) > n
    \/ seg.cap - TailStart(t) > n
    \/ (seg.cap - TailStart(t) = n /\ seg.rem = 1)

\* AllocateAndWrite: pre-check, then exact first-fit allocation
Write(t, n, tag) ==
    IF ~PreCheck(t, n) THEN [ok |-> FALSE, off |-> 0, table |-> t] ELSE AllocResult(t, n, tag)

\* the table as the segment header shows it
RECURSIVE Hdr(_)
Hdr(t) == IF t = <<>> THEN <<>> ELSE << <<Head(t)[1], Head(t)[2]>> >> \o Hdr(Tail(t))
\* the client's own regions still in the table
MineLeft(t) == SelectSeq(t, LAMBDA e : e[3] > 0)
NotMine(t) == SelectSeq(t, LAMBDA e : e[3] = 0)

Units(z) == CASE z = "S" -> 1 [] z = "L" -> 2 [] z = "H" -> 3 [] OTHER -> 1
AboveGate(z) == z \in {"L", "H"}

--------------------------------------------------------------------------
(* Wire items.                                                             *)
(*  towards the server: [t |-> "req", ptr, off]   [t |-> "in", ptr, off, z] *)
(*                      [t |-> "eos", first]   (first: the stream had no batch) *)
(*  towards the client: <<"log", msg>>  <<"data", z, m, via, off, why>>     *)
(*                      <<"exc", type>>  <<"eos">>                          *)
Eos == <<"eos">>
Exc(t) == <<"exc", t>>
LogB == <<"log", "log-1">>
IsStream(c) == c.k \in {"prod", "exch"}
LogsOf(c) == IF c.logs = 1 THEN <<LogB>> ELSE <<>>

\* MaybeWriteToShm as reached from serveUnary / the flush loop of serveStream, for an
\* output of class o.z (o.m: emitted with user metadata -> written as it is)
ServerWrite(o) ==
    IF o.m THEN [b |-> <<"data", o.z, o.m, "inline", 0, "meta">>, table |-> table]
    ELSE IF ~eng THEN [b |-> <<"data", o.z, o.m, "inline", 0, "noshm">>, table |-> table]
    ELSE IF ~AboveGate(o.z) THEN [b |-> <<"data", o.z, o.m, "inline", 0, "gate">>, table |-> table]
    ELSE LET w == Write(table, Units(o.z), 0) IN
         IF w.ok THEN [b |-> <<"data", o.z, o.m, "shm", w.off, "shm">>, table |-> w.table]
         ELSE [b |-> <<"data", o.z, o.m, "inline", 0, "nofit">>, table |-> table]

\* A region of n units written at o: every outstanding pointer whose region it overlaps no longer
\* shows the result it was received for.
Hit(o, n, ho, hn) == o < ho + hn /\ ho < o + n
RECURSIVE SpoilFrom(_, _, _, _, _)
SpoilFrom(j, hs, hm, o, n) ==
    IF j > Len(hm) THEN <<>>
    ELSE << <<hm[j][1], hm[j][2] /\ ~Hit(o, n, hs[j], hm[j][1])>> >> \o SpoilFrom(j + 1, hs, hm, o, n)
Spoil(hs, hm, ok, o, n) == IF ok THEN SpoilFrom(1, hs, hm, o, n) ELSE hm
SpoilByBatch(hs, hm, b) == Spoil(hs, hm, b[4] = "shm", b[5], Units(b[2]))
RECURSIVE AllOk(_)
AllOk(hm) == IF hm = <<>> THEN TRUE ELSE Head(hm)[2] /\ AllOk(Tail(hm))
\* freeAtLocked finds a region exactly at o
Backed(t, o) == \E i \in 1..Len(t) : Off(t[i]) = o
RECURSIVE AllBacked(_, _)
AllBacked(t, hs) == IF hs = <<>> THEN TRUE ELSE Backed(t, Head(hs)) /\ AllBacked(FreeAt(t, Head(hs)), Tail(hs))

--------------------------------------------------------------------------
(* The plain session, stated directly: what a call answers when no shared   *)
(* memory is involved.                                                     *)
RECURSIVE DataSeq(_)
DataSeq(os) == IF os = <<>> THEN <<>> ELSE << <<"data", Head(os).z, Head(os).m>> >> \o DataSeq(Tail(os))

PlainRes(c) ==
    CASE c.k = "unary" -> LogsOf(c) \o (IF c.fail THEN << Exc("ValueError") >> ELSE DataSeq(c.out))
      [] OTHER -> IF c.fail THEN << Exc("ValueError") >>
                  ELSE IF c.out = <<>> THEN <<>> ELSE LogsOf(c) \o DataSeq(c.out)

--------------------------------------------------------------------------
(* Call alphabets.                                                         *)
O(z, m) == [z |-> z, m |-> m]
I(z, f) == [z |-> z, f |-> f]
SeqsUpTo(S, n) == UNION { [1..k -> S] : k \in 0..n }
RECURSIVE MapIn(_)
MapIn(ts) == IF ts = <<>> THEN <<>> ELSE << I(Head(ts)[1], Head(ts)[2]) >> \o MapIn(Tail(ts))
RECURSIVE MapOut(_)
MapOut(ts) == IF ts = <<>> THEN <<>> ELSE << O(Head(ts)[3], FALSE) >> \o MapOut(Tail(ts))
RECURSIVE MapO(_)
MapO(zs) == IF zs = <<>> THEN <<>> ELSE << O(Head(zs), FALSE) >> \o MapO(Tail(zs))
Norm(s) == [i \in 1..Len(s) |-> s[i]]

Call(k, adv, rq, fail, logs, out, ins) ==
    [k |-> k, adv |-> adv, rq |-> rq, fail |-> fail, logs |-> logs, out |-> out, ins |-> ins]

UnaryCalls(zs) == { Call("unary", a, r, FALSE, 0, <<O(z, FALSE)>>, <<>>) :
                      a \in BOOLEAN, r \in {"inl", "ptr"}, z \in zs }
ProdCalls(zs, n) == { Call("prod", a, r, FALSE, 0, MapO(Norm(s)), <<>>) :
                        a \in BOOLEAN, r \in {"inl", "ptr"}, s \in SeqsUpTo(zs, n) }
\* an exchange turn: <<input class, input form, output class>>
ExchCalls(ts1, ts2) ==
    { Call("exch", a, r, FALSE, 0, MapOut(Norm(s)), MapIn(Norm(s))) :
        a \in BOOLEAN, r \in {"inl", "ptr"},
        s \in {<<>>} \cup {<<t>> : t \in ts1} \cup {<<t, u>> : t \in ts2, u \in ts2} }
AllTurns(zs) == zs \X {"inl", "ptr"} \X zs
\* error paths, logs and annotated batches with everything engaged
SpecialCalls ==
    { Call("unary", TRUE, "ptr", TRUE, 1, <<O("L", FALSE)>>, <<>>),
      Call("unary", TRUE, "inl", FALSE, 1, <<O("L", FALSE)>>, <<>>),
      Call("unary", FALSE, "inl", FALSE, 1, <<O("L", FALSE)>>, <<>>),
      Call("prod", TRUE, "ptr", TRUE, 0, <<O("L", FALSE)>>, <<>>),
      Call("prod", TRUE, "inl", FALSE, 1, <<O("L", TRUE), O("L", FALSE)>>, <<>>),
      Call("exch", TRUE, "inl", TRUE, 0, <<O("L", FALSE)>>, <<I("L", "ptr")>>),
      Call("exch", FALSE, "inl", TRUE, 0, <<O("L", FALSE)>>, <<I("S", "ptr")>>),
      Call("exch", TRUE, "ptr", FALSE, 1, <<O("L", TRUE), O("S", FALSE)>>, <<I("L", "ptr"), I("S", "ptr")>>) }

SL == {"S", "L"}
SLH == {"S", "L", "H"}
T4 == { <<"S", "inl", "L">>, <<"S", "ptr", "S">>, <<"L", "inl", "S">>, <<"L", "ptr", "L">> }
T2 == { <<"S", "ptr", "L">>, <<"L", "ptr", "L">> }
QuickCalls == UnaryCalls(SL) \cup ProdCalls(SL, 2) \cup ExchCalls(AllTurns(SL), T2) \cup SpecialCalls
FullCalls == UnaryCalls(SLH) \cup ProdCalls(SLH, 2) \cup ExchCalls(AllTurns(SLH), T4) \cup SpecialCalls
\* small alphabets for exhaustive histories: one of each kind and form
TreeCalls ==
    { Call("unary", TRUE, "inl", FALSE, 0, <<O("L", FALSE)>>, <<>>),
      Call("unary", FALSE, "inl", FALSE, 0, <<O("L", FALSE)>>, <<>>),
      Call("unary", FALSE, "ptr", FALSE, 0, <<O("L", FALSE)>>, <<>>),
      Call("unary", FALSE, "inl", FALSE, 0, <<O("S", FALSE)>>, <<>>),
      Call("prod", TRUE, "inl", FALSE, 0, <<O("L", FALSE), O("L", FALSE)>>, <<>>),
      Call("prod", FALSE, "ptr", FALSE, 0, <<O("L", FALSE), O("S", FALSE)>>, <<>>),
      Call("exch", TRUE, "inl", FALSE, 0, <<O("L", FALSE), O("L", FALSE)>>, <<I("L", "ptr"), I("S", "inl")>>),
      Call("exch", FALSE, "inl", FALSE, 0, <<O("L", FALSE)>>, <<I("L", "ptr")>>),
      Call("exch", FALSE, "ptr", FALSE, 0, <<O("S", FALSE), O("L", FALSE)>>, <<I("S", "ptr"), I("L", "inl")>>),
      Call("exch", FALSE, "inl", FALSE, 0, <<>>, <<>>),
      Call("exch", FALSE, "ptr", FALSE, 0, <<>>, <<>>) }
HistCalls ==
    { Call("unary", TRUE, "inl", FALSE, 0, <<O("L", FALSE)>>, <<>>),
      Call("unary", FALSE, "inl", FALSE, 0, <<O("L", FALSE)>>, <<>>),
      Call("unary", FALSE, "ptr", FALSE, 0, <<O("L", FALSE)>>, <<>>),
      Call("prod", TRUE, "inl", FALSE, 0, <<O("L", FALSE), O("L", FALSE)>>, <<>>),
      Call("prod", FALSE, "ptr", FALSE, 0, <<O("L", FALSE), O("S", FALSE)>>, <<>>),
      Call("exch", TRUE, "inl", FALSE, 0, <<O("L", FALSE), O("L", FALSE)>>, <<I("L", "ptr"), I("S", "inl")>>),
      Call("exch", FALSE, "inl", FALSE, 0, <<O("L", FALSE)>>, <<I("L", "ptr")>>) }
\* calls of a client that keeps its pointers: results of two and three units (a freed hole of two
\* takes the former and not the latter), several pointers per call, requests and inputs of the
\* client's own that land in the holes as well
PickCalls ==
    { Call("unary", TRUE, "inl", FALSE, 0, <<O("L", FALSE)>>, <<>>),
      Call("unary", TRUE, "inl", FALSE, 0, <<O("H", FALSE)>>, <<>>),
      Call("unary", FALSE, "ptr", FALSE, 0, <<O("L", FALSE)>>, <<>>),
      Call("prod", TRUE, "inl", FALSE, 0, <<O("L", FALSE), O("H", FALSE)>>, <<>>),
      Call("prod", TRUE, "ptr", FALSE, 0, <<O("H", FALSE), O("L", FALSE)>>, <<>>),
      Call("exch", TRUE, "inl", FALSE, 0, <<O("L", FALSE), O("L", FALSE)>>, <<I("L", "ptr"), I("S", "ptr")>>) }
\* first calls that leave three pointers (so that there is a middle one to release)
PickFirst ==
    { Call("prod", TRUE, "inl", FALSE, 0, <<O("L", FALSE), O("H", FALSE), O("L", FALSE)>>, <<>>),
      Call("prod", FALSE, "ptr", FALSE, 0, <<O("L", FALSE), O("L", FALSE), O("H", FALSE)>>, <<>>),
      Call("prod", TRUE, "inl", FALSE, 0, <<O("L", FALSE), O("H", FALSE)>>, <<>>),
      Call("exch", TRUE, "inl", FALSE, 0, <<O("L", FALSE), O("L", FALSE)>>, <<I("L", "ptr"), I("S", "ptr")>>) }
PickMcCalls ==
    { Call("unary", TRUE, "inl", FALSE, 0, <<O("L", FALSE)>>, <<>>),
      Call("unary", FALSE, "ptr", FALSE, 0, <<O("H", FALSE)>>, <<>>),
      Call("prod", TRUE, "inl", FALSE, 0, <<O("L", FALSE), O("H", FALSE)>>, <<>>),
      Call("exch", TRUE, "inl", FALSE, 0, <<O("L", FALSE), O("L", FALSE)>>, <<I("L", "ptr"), I("S", "ptr")>>) }
PickSegs == { [cap |-> 5, rem |-> 1], [cap |-> 8, rem |-> 0], [cap |-> 40, rem |-> 0] }
PickMcSegs == { [cap |-> 7, rem |-> 1], [cap |-> 40, rem |-> 0] }
McCalls == UnaryCalls({"L"}) \cup ProdCalls(SL, 1) \cup ExchCalls(AllTurns(SL), {}) \cup SpecialCalls

QuickSegs == { [cap |-> 1, rem |-> 0], [cap |-> 2, rem |-> 1], [cap |-> 3, rem |-> 0],
               [cap |-> 5, rem |-> 0], [cap |-> 40, rem |-> 0] }
HistSegs == { [cap |-> 1, rem |-> 1], [cap |-> 3, rem |-> 0], [cap |-> 5, rem |-> 1] }
McSegs == { [cap |-> 1, rem |-> 1], [cap |-> 3, rem |-> 0], [cap |-> 40, rem |-> 0] }
FullSegs == { [cap |-> c, rem |-> r] : c \in {1, 2, 3, 5}, r \in {0, 1} }
            \cup { [cap |-> 4, rem |-> 0], [cap |-> 7, rem |-> 1], [cap |-> 40, rem |-> 1] }

--------------------------------------------------------------------------
Record(step) ==
    /\ hist' = IF Mode = "mc" THEN <<step>> ELSE Append(hist, step)
    /\ (Mode = "edges") => EmitTrace(hist')
    /\ (Mode = "tree" /\ Len(hist') = Depth) => EmitTrace(hist')
Silent == hist' = hist
\* tree mode: the last entry of a behaviour is the Close step
Budget == (Mode = "tree") => Len(hist) < Depth - 1

\* the server has consumed everything and waits for more (or is gone)
ServerParked == \/ spc = "dead"
                \/ (inq = <<>> /\ spc \in {"read", "sin", "drain", "misdrain"})

--------------------------------------------------------------------------
(* Client.                                                                 *)

\* place(): AllocateAndWrite of a client batch of n units; falls back to inline
Start(c) ==
    /\ LET w == IF c.rq = "ptr" THEN Write(table, 1, 1) ELSE [ok |-> FALSE, off |-> 0, table |-> table] IN
       /\ table' = w.table
       /\ hmeta' = Spoil(held, hmeta, w.ok, w.off, 1)
       /\ mine' = IF w.ok THEN << [off |-> w.off, taken |-> FALSE] >> ELSE <<>>
       /\ sent' = << IF w.ok THEN "ptr" ELSE "inl" >>
       /\ inq' = Append(inq, [t |-> "req", ptr |-> w.ok, off |-> w.off])
       /\ ceng' = (c.adv \/ w.ok)
    /\ cur' = c
    /\ cpc' = IF IsStream(c) THEN "in" ELSE "tail"
    /\ ncalls' = ncalls + 1
    /\ ix' = 0 /\ more' = TRUE /\ respdone' = FALSE /\ inclosed' = ~IsStream(c)
    /\ resp' = <<>> /\ xfer' = <<>> /\ rogue' = "ok"
    /\ UNCHANGED <<seg, hold, attached, held, spc, req, eng, outq, inval, tx, extra, closed>>
    /\ Silent

\* number of inputs the client is prepared to write: a producer is ticked until it ends
NIn(c) == IF c.k = "prod" THEN Len(c.out) + 2 ELSE Len(c.ins)

\* The client writes before reading: the first input goes out before any response is read;
\* later inputs only after a data batch answered the previous one.
SendInput ==
    /\ cpc = "in" /\ ServerParked /\ ~inclosed /\ ix < NIn(cur) /\ more
    /\ LET i == IF cur.k = "prod" THEN I("S", "inl") ELSE cur.ins[ix + 1]
           w == IF i.f = "ptr" THEN Write(table, Units(i.z), Len(mine) + 1)
                ELSE [ok |-> FALSE, off |-> 0, table |-> table] IN
       /\ table' = w.table
       /\ hmeta' = Spoil(held, hmeta, w.ok, w.off, Units(i.z))
       /\ mine' = IF w.ok THEN Append(mine, [off |-> w.off, taken |-> FALSE]) ELSE mine
       /\ sent' = Append(sent, IF w.ok THEN "ptr" ELSE "inl")
       /\ inq' = Append(inq, [t |-> "in", ptr |-> w.ok, off |-> w.off, z |-> i.z])
    /\ ix' = ix + 1
    /\ cpc' = "out"
    /\ UNCHANGED <<seg, hold, attached, held, spc, cur, req, eng, ceng, outq, inval, tx, more, respdone,
                   inclosed, resp, xfer, rogue, extra, ncalls, closed>>
    /\ Silent

CloseInput ==
    /\ cpc = "in" /\ ServerParked /\ ~inclosed /\ (ix >= NIn(cur) \/ ~more)
    /\ inq' = Append(inq, [t |-> "eos", first |-> (ix = 0)])
    /\ inclosed' = TRUE
    /\ cpc' = "tail"
    /\ UNCHANGED <<seg, hold, attached, table, held, hmeta, spc, cur, req, eng, ceng, outq, inval, ix, tx, more,
                   respdone, mine, resp, xfer, sent, rogue, extra, ncalls, closed>>
    /\ Silent

\* what the client makes of one received batch: [r: decoded batch, free: offsets to release]
Decode(b) ==
    IF b[1] # "data" THEN [r |-> b, ptr |-> FALSE, off |-> 0]
    ELSE IF b[4] = "shm" /\ ~ceng
         THEN [r |-> <<"ptr">>, ptr |-> FALSE, off |-> 0]   \* not engaged: a zero-row batch is what it is
         ELSE [r |-> <<"data", b[2], b[3]>>, ptr |-> (b[4] = "shm"), off |-> b[5]]

\* index of the first item of q that ends a recv(): a non-log batch or the end of the stream
RECURSIVE StopAt(_, _)
StopAt(q, i) == IF i > Len(q) THEN 0 ELSE IF q[i][1] # "log" THEN i ELSE StopAt(q, i + 1)

\* Consume(n): take the first n items of outq
RECURSIVE Decoded(_)
Decoded(q) == IF q = <<>> THEN <<>> ELSE
              (IF Head(q)[1] = "eos" THEN <<>> ELSE << Decode(Head(q)).r >>) \o Decoded(Tail(q))
RECURSIVE Xfers(_)
Xfers(q) == IF q = <<>> THEN <<>> ELSE
            (IF Head(q)[1] = "data" THEN << <<Head(q)[4], Head(q)[5], Head(q)[6]>> >> ELSE <<>>) \o Xfers(Tail(q))
RECURSIVE PtrOffs(_)
PtrOffs(q) == IF q = <<>> THEN <<>> ELSE
              (IF Decode(Head(q)).ptr THEN << Decode(Head(q)).off >> ELSE <<>>) \o PtrOffs(Tail(q))

RECURSIVE PtrMeta(_)
PtrMeta(q) == IF q = <<>> THEN <<>> ELSE
              (IF Decode(Head(q)).ptr THEN << <<Units(Head(q)[2]), TRUE>> >> ELSE <<>>) \o PtrMeta(Tail(q))

Take(n) ==
    LET q == SubSeq(outq, 1, n) IN
    /\ outq' = SubSeq(outq, n + 1, Len(outq))
    /\ resp' = resp \o Decoded(q)
    /\ xfer' = xfer \o Xfers(q)
    /\ IF hold = "now"
       THEN table' = FreeAll(table, PtrOffs(q)) /\ held' = held /\ hmeta' = hmeta
       ELSE table' = table /\ held' = held \o PtrOffs(q) /\ hmeta' = hmeta \o PtrMeta(q)

\* recv(): up to and including the next data / exception batch or the end of the stream
Recv ==
    /\ cpc = "out" /\ ServerParked /\ outq # <<>>
    /\ LET n == StopAt(outq, 1) IN
       /\ n > 0
       /\ Take(n)
       /\ more' = (outq[n][1] = "data")
       /\ respdone' = (outq[n][1] = "eos")
    /\ cpc' = "in"
    /\ UNCHANGED <<seg, hold, attached, spc, cur, req, eng, ceng, inq, inval, ix, tx, inclosed, mine,
                   sent, rogue, extra, ncalls, closed>>
    /\ Silent

\* position of the first end-of-stream in q (0: none)
RECURSIVE EosAt(_, _)
EosAt(q, i) == IF i > Len(q) THEN 0 ELSE IF q[i][1] = "eos" THEN i ELSE EosAt(q, i + 1)
RECURSIVE CountEos(_)
CountEos(q) == IF q = <<>> THEN 0 ELSE (IF Head(q)[1] = "eos" THEN 1 ELSE 0) + CountEos(Tail(q))

\* finishResponse(): the rest of the response stream
RecvRest ==
    /\ cpc = "tail" /\ ServerParked /\ ~respdone
    /\ LET n == EosAt(outq, 1) IN
       /\ n > 0
       /\ Take(n)
    /\ respdone' = TRUE
    /\ more' = FALSE
    /\ UNCHANGED <<seg, hold, attached, cpc, spc, cur, req, eng, ceng, inq, inval, ix, tx, inclosed, mine,
                   sent, rogue, extra, ncalls, closed>>
    /\ Silent

\* The server died before answering (only the pre-fix design gets here).
RecvNothing ==
    /\ cpc \in {"out", "tail"} /\ ~respdone /\ spc = "dead" /\ EosAt(outq, 1) = 0 /\ StopAt(outq, 1) = 0
    /\ respdone' = TRUE /\ more' = FALSE
    /\ resp' = Append(resp, <<"closed">>)
    /\ cpc' = IF cpc = "out" THEN "in" ELSE cpc
    /\ UNCHANGED <<seg, hold, attached, table, held, hmeta, spc, cur, req, eng, ceng, inq, outq, inval, ix, tx,
                   inclosed, mine, xfer, sent, rogue, extra, ncalls, closed>>
    /\ Silent

\* Gone(n, t): for each of the client's n regions, whether it has left the table
RECURSIVE GoneFrom(_, _, _)
GoneFrom(k, n, t) == IF k > n THEN <<>> ELSE << ~(\E i \in 1..Len(t) : t[i][3] = k) >> \o GoneFrom(k + 1, n, t)
Gone(ms, t) == GoneFrom(1, Len(ms), t)
RECURSIVE Taken(_)
Taken(ms) == IF ms = <<>> THEN <<>> ELSE << Head(ms).taken >> \o Taken(Tail(ms))
\* entries of the table beyond those the pointers the client holds account for, one entry per pointer
Unaccounted(t, hs) == Len(t) - Cardinality({o \in {hs[j] : j \in 1..Len(hs)} : Backed(t, o)})
RECURSIVE Col(_, _)
Col(xs, k) == IF xs = <<>> THEN <<>> ELSE << Head(xs)[k] >> \o Col(Tail(xs), k)

\* The call is over: the response was read to its end, the input stream is closed and the
\* server is parked again.  The table is read through the second attachment; then the client
\* cleans up the regions of its own the server did not take and (policy "call") frees what it holds.
EndCall ==
    /\ cpc = "tail" /\ ServerParked /\ respdone /\ inclosed
    /\ LET t1 == NotMine(table)
           h2 == IF hold = "call" THEN <<>> ELSE held
           t2 == IF hold = "call" THEN FreeAll(t1, held) ELSE t1
           stray == CountEos(outq)
       IN
       /\ table' = t2 /\ held' = h2
       /\ hmeta' = IF hold = "call" THEN <<>> ELSE hmeta
       /\ outq' = <<>>
       /\ extra' = extra + stray
       /\ Record([a |-> "Call", args |-> [c |-> cur, cls |-> rogue, n |-> ncalls],
                  exp |-> [res |-> resp, plain |-> PlainRes(cur),
                           cfreed |-> Gone(mine, table),
                           leak |-> Unaccounted(t2, h2),
                           intact |-> AllOk(hmeta),
                           extra |-> stray, alive |-> (spc # "dead"),
                           m_taken |-> Taken(mine), m_sent |-> sent,
                           m_via |-> Col(xfer, 1), m_offs |-> Col(xfer, 2), m_why |-> Col(xfer, 3),
                           m_tbl |-> Hdr(table), m_held |-> Len(h2)]
                          @@ (IF rogue = "ok" THEN [same |-> (resp = PlainRes(cur))] ELSE [x \in {} |-> 0])])
    /\ cpc' = "idle"
    /\ mine' = <<>> /\ resp' = <<>> /\ xfer' = <<>> /\ sent' = <<>>
    /\ UNCHANGED <<seg, hold, attached, spc, cur, req, eng, ceng, inq, inval, ix, tx, more, respdone,
                   inclosed, rogue, ncalls, closed>>

\* policy "session": the client releases what it holds at a moment of its choosing
Release ==
    /\ hold # "pick" /\ cpc = "idle" /\ ServerParked /\ ~closed /\ held # <<>> /\ Budget
    /\ table' = FreeAll(table, held)
    /\ held' = <<>> /\ hmeta' = <<>>
    /\ Record([a |-> "Release", args |-> [n |-> Len(held), cls |-> "ok"],
               exp |-> [clean |-> (table' = <<>>), intact |-> AllOk(hmeta), freed |-> AllBacked(table, held),
                        m_tbl |-> Hdr(table')]])
    /\ UNCHANGED <<seg, hold, attached, cpc, spc, cur, req, eng, ceng, inq, outq, inval, ix, tx, more, respdone,
                   inclosed, mine, resp, xfer, sent, rogue, extra, ncalls, closed>>

\* policy "pick": the client holds several pointers at once and is done with them in an order of its
\* own (oldest first, newest first, from the middle): it reads the result through the pointer once
\* more and releases the region.  The server's next regions land in the holes this leaves between
\* the regions still in use, not only at the tail.
ReleaseOne ==
    /\ hold = "pick" /\ cpc = "idle" /\ ServerParked /\ ~closed /\ held # <<>> /\ Budget
    /\ \E k \in 1..Len(held) :
         /\ table' = FreeAt(table, held[k])
         /\ held' = RemoveAt(held, k) /\ hmeta' = RemoveAt(hmeta, k)
         /\ Record([a |-> "ReleaseOne", args |-> [k |-> k, n |-> Len(held), cls |-> "ok"],
                    exp |-> [intact |-> hmeta[k][2], freed |-> Backed(table, held[k]),
                             leak |-> Unaccounted(table', held'), m_tbl |-> Hdr(table')]
                            @@ (IF held' = <<>> THEN [clean |-> (table' = <<>>)] ELSE [x \in {} |-> 0])])
    /\ UNCHANGED <<seg, hold, attached, cpc, spc, cur, req, eng, ceng, inq, outq, inval, ix, tx, more, respdone,
                   inclosed, mine, resp, xfer, sent, rogue, extra, ncalls, closed>>

\* the client releases whatever it still holds and closes the connection
Close ==
    /\ cpc = "idle" /\ ServerParked /\ ~closed
    /\ (Mode = "tree") => Len(hist) = Depth - 1
    /\ table' = FreeAll(table, held)
    /\ held' = <<>> /\ hmeta' = <<>>
    /\ closed' = TRUE
    /\ Record([a |-> "Close", args |-> [n |-> Len(held), cls |-> "ok"],
               exp |-> [clean |-> (table' = <<>>), intact |-> AllOk(hmeta), freed |-> AllBacked(table, held),
                        exited |-> TRUE, extra |-> 0, m_tbl |-> Hdr(table')]])
    /\ UNCHANGED <<seg, hold, attached, cpc, spc, cur, req, eng, ceng, inq, outq, inval, ix, tx, more, respdone,
                   inclosed, mine, resp, xfer, sent, rogue, extra, ncalls>>

--------------------------------------------------------------------------
(* Server.                                                                 *)
SrvUnchW == UNCHANGED <<seg, hold, held, cpc, cur, ceng, ix, more, respdone, inclosed, resp, xfer, sent,
                        extra, ncalls, closed>>
SrvUnch == SrvUnchW /\ UNCHANGED hmeta
RECURSIVE Mark(_, _)
Mark(ms, o) == IF ms = <<>> THEN <<>> ELSE
               << IF Head(ms).off = o THEN [off |-> o, taken |-> TRUE] ELSE Head(ms) >> \o Mark(Tail(ms), o)
MarkTaken(o) == Mark(mine, o)

\* ---- wire.go ReadRequest: one stream, drained to its end
ReadRequest_OK ==
    /\ spc = "read" /\ inq # <<>> /\ Head(inq).t = "req"
    /\ req' = Head(inq) /\ inq' = Tail(inq)
    /\ spc' = "ensure"
    /\ UNCHANGED <<attached, table, eng, outq, inval, tx, mine, rogue>> /\ SrvUnch /\ Silent

\* client closed: io.EOF ends the serve loop
ReadRequest_EOF ==
    /\ spc = "read" /\ inq = <<>> /\ closed
    /\ spc' = "dead"
    /\ UNCHANGED <<attached, table, req, eng, inq, outq, inval, tx, mine, rogue>> /\ SrvUnch /\ Silent

\* An input stream where a request was expected (a refusal left it behind; reachable only
\* with Fixed = FALSE).  Its first batch is taken for a request, the stream is drained to its
\* end and answered "missing vgi_rpc.method"; a stream without a batch reads as end of input.
ReadRequest_Misframed ==
    /\ spc = "read" /\ inq # <<>> /\ Head(inq).t = "in"
    /\ inq' = Tail(inq)
    /\ spc' = "misdrain"
    /\ UNCHANGED <<attached, table, req, eng, outq, inval, tx, mine, rogue>> /\ SrvUnch /\ Silent
Misdrain_Batch ==
    /\ spc = "misdrain" /\ inq # <<>> /\ Head(inq).t = "in"
    /\ inq' = Tail(inq)
    /\ UNCHANGED <<attached, table, spc, req, eng, outq, inval, tx, mine, rogue>> /\ SrvUnch /\ Silent
Misdrain_EOS ==
    /\ spc = "misdrain" /\ inq # <<>> /\ Head(inq).t = "eos"
    /\ inq' = Tail(inq)
    /\ outq' = outq \o << Exc("ProtocolError"), Eos >>
    /\ spc' = "read"
    /\ UNCHANGED <<attached, table, req, eng, inval, tx, mine, rogue>> /\ SrvUnch /\ Silent
ReadRequest_EmptyStream ==
    /\ spc = "read" /\ inq # <<>> /\ Head(inq).t = "eos"
    /\ inq' = Tail(inq)
    /\ spc' = "dead"
    /\ UNCHANGED <<attached, table, req, eng, outq, inval, tx, mine, rogue>> /\ SrvUnch /\ Silent

\* ---- shmConnState.ensure
Ensure_Attach ==
    /\ spc = "ensure" /\ cur.adv /\ ~attached
    /\ attached' = TRUE /\ spc' = "resolve"
    /\ UNCHANGED <<table, req, eng, inq, outq, inval, tx, mine, rogue>> /\ SrvUnch /\ Silent
Ensure_Reuse ==
    /\ spc = "ensure" /\ attached
    /\ spc' = "resolve"
    /\ UNCHANGED <<attached, table, req, eng, inq, outq, inval, tx, mine, rogue>> /\ SrvUnch /\ Silent
Ensure_None ==
    /\ spc = "ensure" /\ ~cur.adv /\ ~attached
    /\ eng' = FALSE
    /\ spc' = "nosegcheck"
    /\ UNCHANGED <<attached, table, req, inq, outq, inval, tx, mine, rogue>> /\ SrvUnch /\ Silent

\* ---- serveOne: a pointer request is resolved through the segment and its region freed
ResolveRequest_Pointer ==
    /\ spc = "resolve" /\ req.ptr
    /\ table' = FreeAt(table, req.off)
    /\ mine' = MarkTaken(req.off)
    /\ spc' = "expose"
    /\ UNCHANGED <<attached, req, eng, inq, outq, inval, tx, rogue>> /\ SrvUnch /\ Silent
ResolveRequest_Inline ==
    /\ spc = "resolve" /\ ~req.ptr
    /\ spc' = "expose"
    /\ UNCHANGED <<attached, table, req, eng, inq, outq, inval, tx, mine, rogue>> /\ SrvUnch /\ Silent
\* req.Shm is set only when the client engaged shm on THIS request
Expose ==
    /\ spc = "expose"
    /\ eng' = (cur.adv \/ req.ptr)
    /\ spc' = "dispatch"
    /\ UNCHANGED <<attached, table, req, inq, outq, inval, tx, mine, rogue>> /\ SrvUnch /\ Silent

\* ---- serveOne: pointer batch and no segment on the connection
PointerRefused ==
    /\ spc = "nosegcheck" /\ req.ptr
    /\ outq' = outq \o << Exc("IOError"), Eos >>
    /\ rogue' = "d"
    \* the client of a stream call writes its input stream whatever the answer
    /\ spc' = IF IsStream(cur) /\ Fixed THEN "drain" ELSE "read"
    /\ UNCHANGED <<attached, table, req, eng, inq, inval, tx, mine>> /\ SrvUnch /\ Silent
NoSegment_Pass ==
    /\ spc = "nosegcheck" /\ ~req.ptr
    /\ spc' = "dispatch"
    /\ UNCHANGED <<attached, table, req, eng, inq, outq, inval, tx, mine, rogue>> /\ SrvUnch /\ Silent

Dispatch ==
    /\ spc = "dispatch"
    /\ spc' = IF IsStream(cur) THEN "sinit" ELSE "unary"
    /\ tx' = 0
    /\ UNCHANGED <<attached, table, req, eng, inq, outq, inval, mine, rogue>> /\ SrvUnch /\ Silent

\* ---- serveUnary
Unary_Error ==
    /\ spc = "unary" /\ cur.fail
    /\ outq' = outq \o LogsOf(cur) \o << Exc("ValueError"), Eos >>
    /\ spc' = "read"
    /\ UNCHANGED <<attached, table, req, eng, inq, inval, tx, mine, rogue>> /\ SrvUnch /\ Silent
Unary_Result ==
    /\ spc = "unary" /\ ~cur.fail
    /\ LET w == ServerWrite(cur.out[1]) IN
       /\ table' = w.table
       /\ hmeta' = SpoilByBatch(held, hmeta, w.b)
       /\ outq' = outq \o LogsOf(cur) \o << w.b, Eos >>
    /\ spc' = "read"
    /\ UNCHANGED <<attached, req, eng, inq, inval, tx, mine, rogue>> /\ SrvUnchW /\ Silent

\* ---- serveStream
Stream_InitError ==
    /\ spc = "sinit" /\ cur.fail
    /\ outq' = outq \o << Exc("ValueError"), Eos >>
    /\ spc' = "drain"
    /\ UNCHANGED <<attached, table, req, eng, inq, inval, tx, mine, rogue>> /\ SrvUnch /\ Silent
Stream_InitOK ==
    /\ spc = "sinit" /\ ~cur.fail
    /\ spc' = "sin"
    /\ UNCHANGED <<attached, table, req, eng, inq, outq, inval, tx, mine, rogue>> /\ SrvUnch /\ Silent

Stream_InputEOS ==
    /\ spc = "sin" /\ inq # <<>> /\ Head(inq).t = "eos"
    /\ inq' = Tail(inq)
    /\ outq' = Append(outq, Eos)
    /\ spc' = "read"
    /\ UNCHANGED <<attached, table, req, eng, inval, tx, mine, rogue>> /\ SrvUnch /\ Silent
Stream_Input_Inline ==
    /\ spc = "sin" /\ inq # <<>> /\ Head(inq).t = "in" /\ ~Head(inq).ptr
    /\ inq' = Tail(inq)
    /\ inval' = "rows"
    /\ spc' = "turn"
    /\ UNCHANGED <<attached, table, req, eng, outq, tx, mine, rogue>> /\ SrvUnch /\ Silent
\* a pointer input is resolved through req.Shm and its region freed before the handler runs
Stream_Input_Resolve ==
    /\ spc = "sin" /\ inq # <<>> /\ Head(inq).t = "in" /\ Head(inq).ptr /\ eng
    /\ inq' = Tail(inq)
    /\ table' = FreeAt(table, Head(inq).off)
    /\ mine' = MarkTaken(Head(inq).off)
    /\ inval' = "rows"
    /\ spc' = "turn"
    /\ UNCHANGED <<attached, req, eng, outq, tx, rogue>> /\ SrvUnch /\ Silent
\* a pointer input on a call without req.Shm: refused (Fixed) / handed to the handler as the
\* zero-row batch it is on the wire (before the fix)
Stream_Input_Unresolvable ==
    /\ spc = "sin" /\ inq # <<>> /\ Head(inq).t = "in" /\ Head(inq).ptr /\ ~eng
    /\ inq' = Tail(inq)
    /\ rogue' = IF attached THEN "x" ELSE "d"
    /\ IF Fixed
       THEN /\ outq' = outq \o << Exc("IOError"), Eos >>
            /\ spc' = "drain" /\ inval' = inval
       ELSE /\ outq' = outq /\ inval' = "empty" /\ spc' = "turn"
    /\ UNCHANGED <<attached, table, req, eng, tx, mine>> /\ SrvUnch /\ Silent

\* the producer has emitted everything: Finish()
Turn_Finish ==
    /\ spc = "turn" /\ cur.k = "prod" /\ tx >= Len(cur.out)
    /\ outq' = Append(outq, Eos)
    /\ spc' = "drain"
    /\ UNCHANGED <<attached, table, req, eng, inq, inval, tx, mine, rogue>> /\ SrvUnch /\ Silent
\* one data batch per turn, after the logs of the turn; flushed through MaybeWriteToShm
Turn_Emit ==
    /\ spc = "turn" /\ (cur.k = "exch" \/ tx < Len(cur.out))
    /\ LET o == IF inval = "empty" THEN O("E", FALSE) ELSE cur.out[tx + 1]
           w == ServerWrite(o)
           logs == IF tx = 0 THEN LogsOf(cur) ELSE <<>> IN
       /\ table' = w.table
       /\ hmeta' = SpoilByBatch(held, hmeta, w.b)
       /\ outq' = outq \o logs \o << w.b >>
    /\ tx' = tx + 1
    /\ spc' = "sin"
    /\ UNCHANGED <<attached, req, eng, inq, inval, mine, rogue>> /\ SrvUnchW /\ Silent

\* drainInputStream / the trailing drain of serveStream: nothing is resolved, nothing freed
Drain_Batch ==
    /\ spc = "drain" /\ inq # <<>> /\ Head(inq).t = "in"
    /\ inq' = Tail(inq)
    /\ UNCHANGED <<attached, table, spc, req, eng, outq, inval, tx, mine, rogue>> /\ SrvUnch /\ Silent
Drain_EOS ==
    /\ spc = "drain" /\ inq # <<>> /\ Head(inq).t = "eos"
    /\ inq' = Tail(inq)
    /\ spc' = "read"
    /\ UNCHANGED <<attached, table, req, eng, outq, inval, tx, mine, rogue>> /\ SrvUnch /\ Silent

--------------------------------------------------------------------------
Init ==
    /\ seg \in Segs /\ hold \in Holds
    /\ attached = FALSE /\ table = <<>> /\ held = <<>> /\ hmeta = <<>>
    /\ cpc = "idle" /\ spc = "read"
    /\ cur = [k |-> "none"] /\ req = [t |-> "req", ptr |-> FALSE, off |-> 0]
    /\ eng = FALSE /\ ceng = FALSE
    /\ inq = <<>> /\ outq = <<>> /\ inval = "rows" /\ ix = 0 /\ tx = 0
    /\ more = FALSE /\ respdone = FALSE /\ inclosed = FALSE
    /\ mine = <<>> /\ resp = <<>> /\ xfer = <<>> /\ sent = <<>> /\ rogue = "ok"
    /\ extra = 0 /\ ncalls = 0 /\ closed = FALSE
    /\ hist = << [a |-> "Init", args |-> [cap |-> seg.cap, rem |-> seg.rem, hold |-> hold, fixed |-> Fixed],
                  exp |-> [ok |-> TRUE]] >>

\* a new call starts only between calls, when the server is parked in ReadRequest
StartCall ==
    /\ cpc = "idle" /\ ServerParked /\ ~closed /\ ncalls < MaxCalls /\ Budget
    /\ \E c \in (IF ncalls = 0 THEN Calls ELSE Probes) : Start(c)

Client == StartCall \/ SendInput \/ CloseInput \/ Recv \/ RecvRest \/ RecvNothing
          \/ EndCall \/ Release \/ ReleaseOne \/ Close
Server == ReadRequest_OK \/ ReadRequest_EOF \/ ReadRequest_Misframed \/ Misdrain_Batch \/ Misdrain_EOS
          \/ ReadRequest_EmptyStream \/ Ensure_Attach \/ Ensure_Reuse \/ Ensure_None
          \/ ResolveRequest_Pointer \/ ResolveRequest_Inline \/ Expose \/ PointerRefused \/ NoSegment_Pass
          \/ Dispatch \/ Unary_Error \/ Unary_Result \/ Stream_InitError \/ Stream_InitOK
          \/ Stream_InputEOS \/ Stream_Input_Inline \/ Stream_Input_Resolve \/ Stream_Input_Unresolvable
          \/ Turn_Finish \/ Turn_Emit \/ Drain_Batch \/ Drain_EOS
Next == Client \/ Server
Spec == Init /\ [][Next]_vars
FairSpec == Spec /\ WF_vars(Server) /\ WF_vars(SendInput \/ CloseInput \/ Recv \/ RecvRest \/ RecvNothing \/ EndCall)

--------------------------------------------------------------------------
(* C36.                                                                    *)
Last == hist'[Len(hist')]
IsCall == hist' # hist /\ Last.a = "Call"

\* (a) whatever the segment size, the advertisement pattern, the forms the client chose and
\* its release policy, a call answers what it answers in a plain session
SameAsPlain ==
    [][ (IsCall /\ Last.args.cls = "ok") => (Last.exp.res = PlainRes(Last.args.c) /\ Last.exp.same) ]_vars

\* (b) once the client has released every pointer it received the table is empty
OnlyHeldRegions ==
    (cpc = "idle") => \A i \in 1..Len(table) : \E j \in 1..Len(held) : held[j] = Off(table[i])
EmptyAfterRelease ==
    [][ /\ (hist' # hist /\ Last.a \in {"Release", "Close"}) => (Last.exp.clean /\ table' = <<>>)
        /\ (hist' # hist /\ Last.a = "ReleaseOne" /\ held' = <<>>) => (Last.exp.clean /\ table' = <<>>)
        /\ (hist' # hist /\ Last.a = "ReleaseOne") => Last.exp.leak = 0 ]_vars
\* (a), for a client that keeps several pointers and reads through them later: whatever is written
\* to the segment while a pointer is outstanding, the pointer still shows the result it was given for,
\* and its region is there to be released
HeldIntact ==
    [][ /\ IsCall => Last.exp.intact
        /\ (hist' # hist /\ Last.a \in {"Release", "ReleaseOne", "Close"}) => (Last.exp.intact /\ Last.exp.freed) ]_vars
HeldBacked ==
    (cpc = "idle") => \A j \in 1..Len(held) :
        /\ hmeta[j][2]
        /\ Cardinality({i \in 1..Len(table) : Off(table[i]) = held[j]}) = 1
        /\ \E i \in 1..Len(table) : Off(table[i]) = held[j] /\ table[i][2] = hmeta[j][1]
NoLeak == [][ IsCall => Last.exp.leak = 0 ]_vars

\* (c) every client region the server resolved is gone from the table when the call is over
ServerFreesWhatItResolved ==
    [][ IsCall => \A i \in 1..Len(Last.exp.cfreed) : Last.exp.m_taken[i] => Last.exp.cfreed[i] ]_vars

\* (d) a pointer on a connection without any segment is answered with an IOError and nothing
\* else, the connection survives and stays in frame ...
RogueRefused ==
    [][ (IsCall /\ Last.args.cls = "d") =>
          /\ Last.exp.res # <<>> /\ Last.exp.res[Len(Last.exp.res)] = Exc("IOError")
          /\ Last.exp.alive /\ Last.exp.extra = 0 ]_vars
\* ... whenever the server reads a request, the next thing on the wire is a request
InFrame == (spc = "read" /\ inq # <<>>) => Head(inq).t = "req"
NeverDies == (spc = "dead") => (closed /\ inq = <<>>)
OneResponsePerCall == [][ IsCall => (Last.exp.extra = 0 /\ Last.exp.alive) ]_vars

TableConsistent ==
    /\ \A i \in 1..Len(table)-1 : End(table[i]) <= Off(table[i+1])
    /\ \A i \in 1..Len(table) : table[i][2] > 0 /\ End(table[i]) <= seg.cap

\* every call is eventually over
Answered == (cpc # "idle") ~> (cpc = "idle")

View == <<seg, hold, attached, table, held, hmeta, cpc, spc, cur, req, eng, ceng, inq, outq, inval, ix, tx,
          more, respdone, inclosed, mine, resp, xfer, sent, rogue, extra, ncalls, closed>>
=============================================================================
