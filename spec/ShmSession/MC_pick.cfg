SPECIFICATION Spec
CONSTANTS
    Mode = "mc"
    Depth = 0
    MaxCalls = 3
    Calls <- PickMcCalls
    Probes <- PickMcCalls
    Segs <- PickMcSegs
    Holds = {"pick"}
    Fixed = TRUE
VIEW View
INVARIANTS InFrame NeverDies OnlyHeldRegions HeldBacked TableConsistent
PROPERTIES SameAsPlain EmptyAfterRelease NoLeak HeldIntact ServerFreesWhatItResolved OneResponsePerCall
CHECK_DEADLOCK FALSE
