\* Near-twin schemas: same column names, type ids and nullability, differing only in what a
\* digest of a schema may drop (field/schema metadata, fixed_size_binary width, list element
\* nullability).  Two methods of one server, every ordered combination.
SPECIFICATION Spec
CONSTANTS
    Names = {"a", "b"}
    Gens = {"ProducerWithHeader", "Exchange"}
    Params = {"P1"}
    Results = {"Rint"}
    Outs = {"O3", "O3t"}
    Ins = {"I3", "I3t"}
    Hdrs = {"H2", "H2t"}
    ServiceNames = {}
    ServerIds = {}
    Versions = {}
    MaxRegs = 2
    ApiHash = FALSE
    Mode = "edges"
    Depth = 0
VIEW View
CHECK_DEADLOCK FALSE
