SPECIFICATION Spec
CONSTANTS
    Names = {"a"}
    Gens = {"Unary", "ProducerWithHeader"}
    Params = {"P1"}
    Results = {"Rint"}
    Outs = {"O1"}
    Ins = {"I1"}
    Hdrs = {"H1"}
    ServiceNames = {"", "S1"}
    ServerIds = {"", "I1"}
    Versions = {"", "1.2.3"}
    MaxRegs = 1
    ApiHash = TRUE
    Mode = "mc"
    Depth = 0
VIEW View
INVARIANTS RegsBounded
PROPERTIES C09_ListsSurface C09_HashIsReference C09_HashCanonical C09_SameOverTransports
CHECK_DEADLOCK FALSE
