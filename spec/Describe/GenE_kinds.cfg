SPECIFICATION Spec
CONSTANTS
    Names = {"a", "e_acute"}
    Gens = {"Unary", "UnaryVoid", "Producer", "ProducerWithHeader", "Exchange", "ExchangeWithHeader", "DynamicStreamWithHeader"}
    Params = {"P0", "P1", "P2", "P3"}
    Results = {"Rint", "Rstr", "Rptr", "Rstruct"}
    Outs = {"O1", "O2", "NIL"}
    Ins = {"I1", "I2", "NIL"}
    Hdrs = {"H0", "H1", "NIL"}
    ServiceNames = {}
    ServerIds = {}
    Versions = {}
    MaxRegs = 1
    ApiHash = FALSE
    Mode = "edges"
    Depth = 0
VIEW View
CHECK_DEADLOCK FALSE
