------------------------------ MODULE Describe ------------------------------
(***************************************************************************)
(* The __describe__ introspection surface of vgi-rpc-go                    *)
(* (vgirpc/describe.go, server.go, server_register.go, server_serve.go,    *)
(* http_helpers.go).                                                       *)
(*                                                                         *)
(* A Server is configured by a sequence of calls: the seven registration   *)
(* generics (each stores a methodInfo under the method name, replacing an  *)
(* earlier registration of the same name), SetServiceName, SetServerID,    *)
(* SetProtocolVersion.  At any point a client may fetch __describe__ over  *)
(* a pipe (Server.serveDescribe) or over HTTP (HttpServer.handleDescribe), *)
(* and the application may call Server.ProtocolHash(), whose result is     *)
(* frozen by a sync.Once at its first call.                                *)
(*                                                                         *)
(* The actions are written the way the code does it (methodInfo fields,    *)
(* buildDescribeBatch's branches, computeProtocolHash's parallel slices).  *)
(* Property C09 is stated once, declaratively, in terms of the             *)
(* registration CALLS (section "C09") and model-checked against them.      *)
(*                                                                         *)
(* Method names are byte strings: the row order the property demands is    *)
(* the order of the UTF-8 bytes, so the spec carries the bytes.  Schemas   *)
(* are opaque palette ids; the harness owns, per id, the Go type or Arrow  *)
(* schema that is registered and, written independently, the Arrow schema  *)
(* the served bytes must decode to.  SHA-256 is abstracted by its          *)
(* pre-image: a "frame" is the exact byte string fed to the digest, given  *)
(* as a sequence of tokens the harness renders to bytes.                   *)
(***************************************************************************)
EXTENDS Integers, Sequences, FiniteSets, TLC, VerifEmit

CONSTANTS
    Names,          \* labels (see NameBytes) of the method names offered to the registration calls
    Gens,           \* registration generics offered
    Params,         \* palette of parameter struct types
    Results,        \* palette of unary result types
    Outs,           \* palette of stream output schemas  (may contain "NIL": the call panics)
    Ins,            \* palette of exchange input schemas  (may contain "NIL": the call panics)
    Hdrs,           \* palette of header schemas (may contain "NIL": accepted, served as null)
    ServiceNames,   \* labels offered to SetServiceName ("" = the empty string)
    ServerIds,      \* labels offered to SetServerID
    Versions,       \* canonical versions offered to SetProtocolVersion ("" = opt out)
    MaxRegs,        \* bound on the number of registration calls
    ApiHash,        \* BOOLEAN: offer Server.ProtocolHash()
    Mode,           \* "mc" | "edges" | "tree"
    Depth           \* tree mode: emit behaviours of exactly this length

VARIABLES
    regs,           \* the accepted registration calls, in call order: <<[name, call, info]>>
    svc, sid, pver, \* service name label, server id label, declared protocol version ("" = unset)
    httpUp,         \* the HttpServer has served a request (its lazy InitPages ran)
    hashCache,      \* <<>> or <<frame>>: what Server.ProtocolHash()'s sync.Once froze
    hist

vars == <<regs, svc, sid, pver, httpUp, hashCache, hist>>

NIL   == "NIL"      \* a nil *arrow.Schema handed to / stored by a registration
EMPTY == "EMPTY"    \* arrow.NewSchema(nil, nil)
NULL  == "NULL"     \* a null cell in the describe batch

WireVersion     == "1"   \* vgirpc.ProtocolVersion (wire framing version)
DescribeVersion == "4"   \* vgirpc.DescribeVersion

--------------------------------------------------------------------------
(* Method names.  The adversarial palette: a prefix pair (a, aa), case      *)
(* (A sorts before __x sorts before a), a two-byte UTF-8 name, the empty   *)
(* name, and a pair whose UTF-16 code-unit order is the reverse of its     *)
(* UTF-8 byte order (U+FF5E vs U+10000).                                   *)
NameBytes(n) ==
    CASE n = "a"        -> <<97>>
      [] n = "b"        -> <<98>>
      [] n = "aa"       -> <<97, 97>>
      [] n = "A"        -> <<65>>
      [] n = "e_acute"  -> <<195, 169>>
      [] n = "__x"      -> <<95, 95, 120>>
      [] n = "empty"    -> <<>>
      [] n = "U+FF5E"   -> <<239, 189, 158>>
      [] n = "U+10000"  -> <<240, 144, 128, 128>>

Min(x, y) == IF x <= y THEN x ELSE y

\* lexicographic order of byte strings (what Go's sort.Strings implements)
BytesLess(x, y) ==
    \E k \in 0..Min(Len(x), Len(y)) :
        /\ \A i \in 1..k : x[i] = y[i]
        /\ \/ (k = Len(x) /\ k < Len(y))
           \/ (k < Len(x) /\ k < Len(y) /\ x[k+1] < y[k+1])

--------------------------------------------------------------------------
(* Registration: what each generic stores in methodInfo                    *)
(* (server_register.go).                                                   *)
Info(type, hasResultType, p, resultSchema, out, inp, hasHeader, hdr) ==
    [Type |-> type, HasResultType |-> hasResultType, ParamsSchema |-> p,
     ResultSchema |-> resultSchema, OutputSchema |-> out, InputSchema |-> inp,
     HasHeader |-> hasHeader, HeaderSchema |-> hdr]

Call(gen, p, r, out, inp, hdr) ==
    [gen |-> gen, p |-> p, r |-> r, out |-> out, inp |-> inp, hdr |-> hdr]

\* the calls offered, per generic ("-" marks an argument the generic does not take)
CallsOf(gen) ==
    CASE gen = "Unary"     -> {Call(gen, p, r, "-", "-", "-") : p \in Params, r \in Results}
      [] gen = "UnaryVoid" -> {Call(gen, p, "-", "-", "-", "-") : p \in Params}
      [] gen = "Producer"  -> {Call(gen, x[1], "-", x[2], "-", "-") : x \in Params \X Outs}
      [] gen = "ProducerWithHeader" ->
             {Call(gen, x[1], "-", x[2], "-", x[3]) : x \in Params \X Outs \X Hdrs}
      [] gen = "Exchange"  -> {Call(gen, x[1], "-", x[2], x[3], "-") : x \in Params \X Outs \X Ins}
      [] gen = "ExchangeWithHeader" ->
             {Call(gen, x[1], "-", x[2], x[3], x[4]) : x \in Params \X Outs \X Ins \X Hdrs}
      [] gen = "DynamicStreamWithHeader" ->
             {Call(gen, x[1], "-", "-", "-", x[2]) : x \in Params \X Hdrs}

\* the generic panics before touching s.methods
Panics(c) ==
    \/ c.gen \in {"Producer", "ProducerWithHeader", "Exchange", "ExchangeWithHeader"} /\ c.out = NIL
    \/ c.gen \in {"Exchange", "ExchangeWithHeader"} /\ c.inp = NIL

StoredInfo(c) ==
    CASE c.gen = "Unary"     -> Info("unary", TRUE, c.p, c.r, NIL, NIL, FALSE, NIL)
      [] c.gen = "UnaryVoid" -> Info("unary", FALSE, c.p, EMPTY, NIL, NIL, FALSE, NIL)
      [] c.gen = "Producer"  -> Info("producer", FALSE, c.p, EMPTY, c.out, NIL, FALSE, NIL)
      [] c.gen = "ProducerWithHeader" -> Info("producer", FALSE, c.p, EMPTY, c.out, NIL, TRUE, c.hdr)
      [] c.gen = "Exchange"  -> Info("exchange", FALSE, c.p, EMPTY, c.out, c.inp, FALSE, NIL)
      [] c.gen = "ExchangeWithHeader" -> Info("exchange", FALSE, c.p, EMPTY, c.out, c.inp, TRUE, c.hdr)
      [] c.gen = "DynamicStreamWithHeader" -> Info("dynamic", FALSE, c.p, EMPTY, NIL, NIL, TRUE, c.hdr)

\* s.methods: a map, so a later registration of a name replaces the earlier one
Registered(rs) == {rs[i].name : i \in 1..Len(rs)}
LastIndex(rs, n) == CHOOSE i \in 1..Len(rs) :
                        rs[i].name = n /\ \A j \in (i+1)..Len(rs) : rs[j].name # n
Methods(rs) == [n \in Registered(rs) |-> rs[LastIndex(rs, n)].info]

--------------------------------------------------------------------------
(* Frames: the exact byte string fed to SHA-256.  A frame is a sequence of *)
(* bytes in which -1 is a hole, plus the references that fill the holes in *)
(* order: the concrete service name chosen for a label, or the schema      *)
(* bytes SERVED in a given row and column of the describe batch (id names  *)
(* what those bytes must decode to).  Two frames are equal iff they render *)
(* to the same bytes under every concretisation.                           *)
B(bytes) == [bytes |-> bytes, refs |-> <<>>]
Ref(kind, v, row, id) == [bytes |-> <<-1>>, refs |-> <<[ref |-> kind, v |-> v, row |-> row, id |-> id]>>]
SvcRef(label) == Ref("svc", label, 0, "")
Ipc(row, col, id) == Ref(col, "", row, id)        \* col: "params" | "result" | "header"; row is 1-based
f ++ g == [bytes |-> f.bytes \o g.bytes, refs |-> f.refs \o g.refs]
NoBytes == B(<<>>)

RECURSIVE CatAll(_)          \* concatenation of a sequence of frames
CatAll(fs) == IF Len(fs) = 0 THEN NoBytes ELSE Head(fs) ++ CatAll(Tail(fs))

\* ASCII
A_describe_v  == <<118, 103, 105, 95, 114, 112, 99, 46, 100, 101, 115, 99, 114, 105, 98, 101, 46, 118>>  \* "vgi_rpc.describe.v"
A_GoRpcServer == <<71, 111, 82, 112, 99, 83, 101, 114, 118, 101, 114>>
A_unary       == <<117, 110, 97, 114, 121>>
A_stream      == <<115, 116, 114, 101, 97, 109>>
A_bar == <<124>>   A_0 == <<48>>   A_1 == <<49>>   A_4 == <<52>>   A_dash == <<45>>
US == <<31>>       \* unit separator: starts a row
RS == <<30>>       \* record separator: between the fields of a row

Ascii(s) == CASE s = "unary" -> A_unary [] s = "stream" -> A_stream
              [] s = "1" -> A_1 [] s = "4" -> A_4 [] s = "0" -> A_0 [] s = "-" -> A_dash

WireVersionBytes     == Ascii(WireVersion)
DescribeVersionBytes == Ascii(DescribeVersion)

--------------------------------------------------------------------------
(* availableMethods + sort.Strings: the keys of the map in any order, then *)
(* selection of the least remaining name.                                  *)
RECURSIVE SortedLabels(_)
SortedLabels(S) ==
    IF S = {} THEN <<>>
    ELSE LET m == CHOOSE x \in S : \A y \in S \ {x} : BytesLess(NameBytes(x), NameBytes(y))
         IN <<m>> \o SortedLabels(S \ {m})

\* protocolName := s.serviceName, "GoRpcServer" when empty
ProtocolNameOf(s) == IF s = "" THEN [lit |-> "GoRpcServer"] ELSE [svc |-> s]
ProtocolNameFrame(s) == IF s = "" THEN B(A_GoRpcServer) ELSE SvcRef(s)

(* buildDescribeBatch: one row per sorted name plus the parallel slices    *)
(* that computeProtocolHash consumes.                                       *)
BuildDescribeBatch(m, serviceName, serverId, protoVer) ==
    LET names == SortedLabels(DOMAIN m)
        n == Len(names)
        inf(i) == m[names[i]]
        methodTypeStrs == [i \in 1..n |-> IF inf(i).Type = "unary" THEN "unary" ELSE "stream"]
        hasReturns == [i \in 1..n |-> inf(i).Type = "unary" /\ inf(i).HasResultType]
        paramsIPC == [i \in 1..n |-> inf(i).ParamsSchema]
        resultIPC == [i \in 1..n |-> IF inf(i).OutputSchema # NIL
                                      THEN inf(i).OutputSchema ELSE inf(i).ResultSchema]
        hasHeaders == [i \in 1..n |-> inf(i).HasHeader]
        headerIPC == [i \in 1..n |-> IF inf(i).HasHeader /\ inf(i).HeaderSchema # NIL
                                      THEN inf(i).HeaderSchema ELSE NULL]
        isExchanges == [i \in 1..n |-> -1]       \* v4 always emits null
        \* computeProtocolHash: h.Write by h.Write
        rowFrame(i) ==
            B(US) ++ B(NameBytes(names[i]))
            ++ B(RS) ++ B(Ascii(methodTypeStrs[i]))
            ++ B(RS) ++ B(IF hasReturns[i] THEN A_1 ELSE A_0)
            ++ B(RS) ++ B(IF hasHeaders[i] THEN A_1 ELSE A_0)
            ++ B(RS) ++ B(CASE isExchanges[i] = 1 -> A_1 [] isExchanges[i] = 0 -> A_0 [] OTHER -> A_dash)
            ++ B(RS) ++ Ipc(i, "params", paramsIPC[i])
            ++ B(RS) ++ Ipc(i, "result", resultIPC[i])
            ++ B(RS) ++ (IF headerIPC[i] # NULL THEN Ipc(i, "header", headerIPC[i]) ELSE NoBytes)
        frame == B(A_describe_v) ++ B(DescribeVersionBytes) ++ B(A_bar) ++ B(WireVersionBytes) ++ B(A_bar)
                 ++ ProtocolNameFrame(serviceName) ++ B(A_bar)
                 ++ CatAll([i \in 1..n |-> rowFrame(i)])
        rows == [i \in 1..n |->
                    [name |-> NameBytes(names[i]), method_type |-> methodTypeStrs[i],
                     has_return |-> hasReturns[i], params |-> paramsIPC[i], result |-> resultIPC[i],
                     has_header |-> hasHeaders[i], header |-> headerIPC[i], is_exchange |-> NULL]]
        meta == [protocol_name |-> ProtocolNameOf(serviceName), request_version |-> WireVersion,
                 describe_version |-> DescribeVersion,
                 server_id |-> IF serverId # "" THEN serverId ELSE "<absent>",
                 protocol_version |-> IF protoVer # "" THEN protoVer ELSE "<absent>"]
    IN [rows |-> rows, meta |-> meta, frame |-> frame]

--------------------------------------------------------------------------
(* The reference algorithm (vgi_rpc/introspect.py compute_protocol_hash,   *)
(* DESIGN 5 C09), over the rows of a describe payload, in payload order:   *)
(*   SHA-256( "vgi_rpc.describe.v4|1|" protocol_name "|"                   *)
(*            { 0x1f name 0x1e method_type 0x1e ret 0x1e hdr 0x1e exch     *)
(*              0x1e params_ipc 0x1e result_ipc 0x1e header_ipc }* )       *)
(* ret, hdr: "1" | "0"; exch: "1" | "0" | "-" for null; header_ipc: no     *)
(* bytes when null.                                                        *)
Flag(b) == IF b THEN A_1 ELSE A_0
RefRowFrame(i, row) ==
    B(US \o row.name \o RS \o Ascii(row.method_type) \o RS \o Flag(row.has_return) \o RS
      \o Flag(row.has_header) \o RS
      \o (CASE row.is_exchange = "true" -> A_1 [] row.is_exchange = "false" -> A_0 [] OTHER -> A_dash)
      \o RS)
    ++ Ipc(i, "params", row.params) ++ B(RS) ++ Ipc(i, "result", row.result) ++ B(RS)
    ++ (IF row.header = NULL THEN NoBytes ELSE Ipc(i, "header", row.header))

RefFrame(protocolName, rows) ==
    B(A_describe_v \o A_4 \o A_bar \o A_1 \o A_bar)
    ++ (IF DOMAIN protocolName = {"lit"} THEN B(A_GoRpcServer) ELSE SvcRef(protocolName.svc))
    ++ B(A_bar)
    ++ CatAll([i \in 1..Len(rows) |-> RefRowFrame(i, rows[i])])

--------------------------------------------------------------------------
Observed == {"Describe", "ProtocolHash", "RegisterPanics"}

Record(step) ==
    /\ hist' = IF Mode = "mc" THEN <<step>> ELSE Append(hist, step)   \* mc: properties read only the last step
    /\ (Mode = "edges" /\ step.a \in Observed) => EmitTrace(hist')
    /\ (Mode = "tree" /\ Len(hist') = Depth) => EmitTrace(hist')

Budget == (Mode = "tree") => Len(hist) < Depth

NoArgs == [x |-> 0]

(* A registration generic that accepts its arguments.                      *)
Register(n, c) ==
    /\ Budget
    /\ Len(regs) < MaxRegs
    /\ ~Panics(c)
    /\ regs' = Append(regs, [name |-> n, call |-> c, info |-> StoredInfo(c)])
    /\ UNCHANGED <<svc, sid, pver, httpUp, hashCache>>
    /\ Record([a |-> "Register", args |-> [name |-> NameBytes(n), call |-> c], exp |-> [panicked |-> FALSE]])

(* A registration generic that panics on a nil output/input schema.        *)
RegisterPanics(n, c) ==
    /\ Budget
    /\ Len(regs) < MaxRegs
    /\ Panics(c)
    /\ UNCHANGED <<regs, svc, sid, pver, httpUp, hashCache>>
    /\ Record([a |-> "RegisterPanics", args |-> [name |-> NameBytes(n), call |-> c], exp |-> [panicked |-> TRUE]])

SetServiceName(s) ==
    /\ Budget /\ s # svc
    /\ svc' = s
    /\ UNCHANGED <<regs, sid, pver, httpUp, hashCache>>
    /\ Record([a |-> "SetServiceName", args |-> [v |-> s], exp |-> NoArgs])

SetServerID(s) ==
    /\ Budget /\ s # sid
    /\ sid' = s
    /\ UNCHANGED <<regs, svc, pver, httpUp, hashCache>>
    /\ Record([a |-> "SetServerID", args |-> [v |-> s], exp |-> NoArgs])

SetProtocolVersion(v) ==
    /\ Budget /\ v # pver
    /\ pver' = v
    /\ UNCHANGED <<regs, svc, sid, httpUp, hashCache>>
    /\ Record([a |-> "SetProtocolVersion", args |-> [v |-> v], exp |-> NoArgs])

(* One client fetches __describe__ over a pipe (serveDescribe) and over    *)
(* HTTP (handleDescribe); both call buildDescribeBatch on the live map.    *)
Describe ==
    /\ Budget
    /\ LET pipe == BuildDescribeBatch(Methods(regs), svc, sid, pver)     \* Server.serveDescribe
           http == BuildDescribeBatch(Methods(regs), svc, sid, pver)     \* HttpServer.handleDescribe
           ref(v) == RefFrame(v.meta.protocol_name, v.rows)
       IN /\ httpUp' = TRUE
          /\ UNCHANGED <<regs, svc, sid, pver, hashCache>>
          /\ Record([a |-> "Describe",
                     \* the reference frame over the served rows (identical for both transports, see C09_HashCanonical)
                     args |-> [frame |-> ref(pipe)],
                     exp |-> [pipe_rows |-> pipe.rows, http_rows |-> http.rows,
                              pipe_meta |-> pipe.meta, http_meta |-> http.meta,
                              \* "ref": the served hash is SHA-256 of the reference frame over the served rows
                              pipe_hash |-> IF pipe.frame = ref(pipe) THEN "ref" ELSE "differs",
                              http_hash |-> IF http.frame = ref(http) THEN "ref" ELSE "differs",
                              same |-> (pipe.rows = http.rows /\ pipe.meta = http.meta /\ pipe.frame = http.frame),
                              stable |-> TRUE,     \* same digest as every earlier describe of this surface (any order)
                              xproc |-> TRUE]])    \* same digest from a second process registering in another order

(* Server.ProtocolHash(): sync.Once around buildDescribeBatch.             *)
ProtocolHash ==
    /\ Budget /\ ApiHash
    /\ LET now == BuildDescribeBatch(Methods(regs), svc, sid, pver).frame
           got == IF hashCache = <<>> THEN now ELSE hashCache[1]
       IN /\ hashCache' = <<got>>
          /\ UNCHANGED <<regs, svc, sid, pver, httpUp>>
          /\ Record([a |-> "ProtocolHash", args |-> NoArgs,
                     exp |-> [api_fresh |-> (got = now)]])   \* equals the hash a describe serves now

Init ==
    /\ regs = <<>> /\ svc = "" /\ sid = "" /\ pver = ""
    /\ httpUp = FALSE /\ hashCache = <<>>
    /\ hist = << [a |-> "Init", args |-> [MaxRegs |-> MaxRegs], exp |-> NoArgs] >>

Next ==
    \/ \E n \in Names, g \in Gens : \E c \in CallsOf(g) : Register(n, c) \/ RegisterPanics(n, c)
    \/ \E s \in ServiceNames : SetServiceName(s)
    \/ \E s \in ServerIds : SetServerID(s)
    \/ \E v \in Versions : SetProtocolVersion(v)
    \/ Describe
    \/ ProtocolHash

Spec == Init /\ [][Next]_vars

--------------------------------------------------------------------------
(* C09.  Stated over the registration calls as the application made them.  *)
Last == hist'[Len(hist')]
IsDescribe == Last.a = "Describe"

\* the call that currently defines method n
CurrentCall(n) == regs[LastIndex(regs, n)].call

HeaderGens == {"ProducerWithHeader", "ExchangeWithHeader", "DynamicStreamWithHeader"}

\* the row the property demands for a method registered by call c
SpecRow(n, c) ==
    [name |-> NameBytes(n),
     method_type |-> IF c.gen \in {"Unary", "UnaryVoid"} THEN "unary" ELSE "stream",
     has_return |-> (c.gen = "Unary"),
     params |-> c.p,
     result |-> CASE c.gen = "Unary" -> c.r
                  [] c.gen \in {"UnaryVoid", "DynamicStreamWithHeader"} -> EMPTY
                  [] OTHER -> c.out,
     has_header |-> (c.gen \in HeaderGens),
     header |-> IF c.gen \in HeaderGens /\ c.hdr # NIL THEN c.hdr ELSE NULL,
     is_exchange |-> NULL]

Surface == {SpecRow(n, CurrentCall(n)) : n \in Registered(regs)}

StrictlySorted(rows) ==
    \A i \in 1..(Len(rows) - 1) : BytesLess(rows[i].name, rows[i+1].name)

\* every registered method exactly once, in sorted order, with its type, flags and schemas
ListsSurface(rows) ==
    /\ StrictlySorted(rows)
    /\ Len(rows) = Cardinality(Registered(regs))
    /\ {rows[i] : i \in 1..Len(rows)} = Surface

\* the canonical payload of a surface, built from the SET of rows (no order available)
RECURSIVE CanonRows(_)
CanonRows(S) ==
    IF S = {} THEN <<>>
    ELSE LET m == CHOOSE r \in S : \A q \in S \ {r} : BytesLess(r.name, q.name)
         IN <<m>> \o CanonRows(S \ {m})

C09_ListsSurface ==
    [][ IsDescribe => ListsSurface(Last.exp.pipe_rows) /\ ListsSurface(Last.exp.http_rows) ]_vars

\* the hash is the reference digest of the served payload ...
C09_HashIsReference ==
    [][ IsDescribe => Last.exp.pipe_hash = "ref" /\ Last.exp.http_hash = "ref" ]_vars

\* ... and a function of the surface and protocol name only: not of the registration
\* order, replaced registrations, server id, declared protocol version, transport, or
\* anything ProtocolHash() cached
C09_HashCanonical ==
    [][ IsDescribe =>
          /\ Last.args.frame = RefFrame(ProtocolNameOf(svc), CanonRows(Surface))
          /\ RefFrame(Last.exp.http_meta.protocol_name, Last.exp.http_rows) = Last.args.frame ]_vars

C09_SameOverTransports ==
    [][ IsDescribe =>
          /\ Last.exp.same
          /\ Last.exp.pipe_rows = Last.exp.http_rows
          /\ Last.exp.pipe_hash = Last.exp.http_hash ]_vars

\* registration never half-happens
RegsBounded == Len(regs) <= MaxRegs

View == <<regs, svc, sid, pver, httpUp, hashCache>>
=============================================================================
