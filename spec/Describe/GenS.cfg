SPECIFICATION Spec
CONSTANTS
    Names = {"a", "b", "aa", "A", "e_acute", "__x", "empty", "U+FF5E", "U+10000"}
    Gens = {"Unary", "UnaryVoid", "Producer", "ProducerWithHeader", "Exchange", "ExchangeWithHeader", "DynamicStreamWithHeader"}
    Params = {"P0", "P1", "P2", "P3"}
    Results = {"Rint", "Rstr", "Rptr", "Rstruct"}
    Outs = {"O1", "O2", "NIL"}
    Ins = {"I1", "I2", "NIL"}
    Hdrs = {"H0", "H1", "NIL"}
    ServiceNames = {"", "S1", "S2"}
    ServerIds = {"", "I1"}
    Versions = {"", "1.2.3", "0.0.0"}
    MaxRegs = 8
    ApiHash = TRUE
    Mode = "tree"
    Depth = 14

CHECK_DEADLOCK FALSE
