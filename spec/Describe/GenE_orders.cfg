SPECIFICATION Spec
CONSTANTS
    Names = {"a", "b", "aa", "A", "e_acute", "__x"}
    Gens = {"ExchangeWithHeader"}
    Params = {"P1"}
    Results = {"Rint"}
    Outs = {"O1"}
    Ins = {"I1"}
    Hdrs = {"H1"}
    ServiceNames = {}
    ServerIds = {}
    Versions = {}
    MaxRegs = 3
    ApiHash = FALSE
    Mode = "edges"
    Depth = 0
VIEW View
CHECK_DEADLOCK FALSE
