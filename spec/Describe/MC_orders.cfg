SPECIFICATION Spec
CONSTANTS
    Names = {"a", "b", "aa", "A", "e_acute", "__x"}
    Gens = {"Unary", "ExchangeWithHeader"}
    Params = {"P1"}
    Results = {"Rint"}
    Outs = {"O1"}
    Ins = {"I1"}
    Hdrs = {"H1"}
    ServiceNames = {}
    ServerIds = {}
    Versions = {}
    MaxRegs = 3
    ApiHash = FALSE
    Mode = "mc"
    Depth = 0
VIEW View
INVARIANTS RegsBounded
PROPERTIES C09_ListsSurface C09_HashIsReference C09_HashCanonical C09_SameOverTransports
CHECK_DEADLOCK FALSE
