SPECIFICATION Spec
CONSTANTS
    Names = {"a", "aa", "A"}
    Gens = {"Unary", "UnaryVoid", "ProducerWithHeader", "DynamicStreamWithHeader"}
    Params = {"P1"}
    Results = {"Rint"}
    Outs = {"O1", "NIL"}
    Ins = {"I1"}
    Hdrs = {"H1", "NIL"}
    ServiceNames = {"S1"}
    ServerIds = {}
    Versions = {}
    MaxRegs = 2
    ApiHash = FALSE
    Mode = "mc"
    Depth = 0
VIEW View
INVARIANTS RegsBounded
PROPERTIES C09_ListsSurface C09_HashIsReference C09_HashCanonical C09_SameOverTransports
CHECK_DEADLOCK FALSE
