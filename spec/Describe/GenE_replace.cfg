SPECIFICATION Spec
CONSTANTS
    Names = {"a", "aa"}
    Gens = {"Unary", "UnaryVoid", "Producer", "ProducerWithHeader", "Exchange", "ExchangeWithHeader", "DynamicStreamWithHeader"}
    Params = {"P0", "P3"}
    Results = {"Rstr", "Rstruct"}
    Outs = {"O2"}
    Ins = {"I2"}
    Hdrs = {"H0", "NIL"}
    ServiceNames = {}
    ServerIds = {}
    Versions = {}
    MaxRegs = 2
    ApiHash = FALSE
    Mode = "edges"
    Depth = 0
VIEW View
CHECK_DEADLOCK FALSE
