SPECIFICATION Spec
CONSTANTS
    Names = {"empty", "U+FF5E", "U+10000", "a", "A"}
    Gens = {"UnaryVoid", "DynamicStreamWithHeader"}
    Params = {"P2"}
    Results = {"Rint"}
    Outs = {"O1"}
    Ins = {"I1"}
    Hdrs = {"H1"}
    ServiceNames = {"S1"}
    ServerIds = {}
    Versions = {}
    MaxRegs = 3
    ApiHash = FALSE
    Mode = "edges"
    Depth = 0
VIEW View
CHECK_DEADLOCK FALSE
