SPECIFICATION Spec
CONSTANTS
    Names = {"a", "A"}
    Gens = {"Unary", "ProducerWithHeader"}
    Params = {"P1"}
    Results = {"Rint"}
    Outs = {"O1"}
    Ins = {"I1"}
    Hdrs = {"H1"}
    ServiceNames = {"", "S1", "S2"}
    ServerIds = {"", "I1"}
    Versions = {"", "1.2.3"}
    MaxRegs = 1
    ApiHash = TRUE
    Mode = "edges"
    Depth = 0
VIEW View
CHECK_DEADLOCK FALSE
