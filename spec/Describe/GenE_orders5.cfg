SPECIFICATION Spec
CONSTANTS
    Names = {"a", "aa", "A", "e_acute", "__x"}
    Gens = {"Unary"}
    Params = {"P1"}
    Results = {"Rint"}
    Outs = {"O1"}
    Ins = {"I1"}
    Hdrs = {"H1"}
    ServiceNames = {}
    ServerIds = {}
    Versions = {}
    MaxRegs = 5
    ApiHash = FALSE
    Mode = "edges"
    Depth = 0
VIEW View
CHECK_DEADLOCK FALSE
