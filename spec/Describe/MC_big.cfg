SPECIFICATION Spec
CONSTANTS
    Names = {"a", "aa", "A", "e_acute"}
    Gens = {"Unary", "UnaryVoid", "Producer", "ProducerWithHeader", "Exchange", "ExchangeWithHeader", "DynamicStreamWithHeader"}
    Params = {"P1"}
    Results = {"Rint"}
    Outs = {"O1", "NIL"}
    Ins = {"I1"}
    Hdrs = {"H1", "NIL"}
    ServiceNames = {"", "S1"}
    ServerIds = {"", "I1"}
    Versions = {"", "1.2.3"}
    MaxRegs = 2
    ApiHash = FALSE
    Mode = "mc"
    Depth = 0
VIEW View
INVARIANTS RegsBounded
PROPERTIES C09_ListsSurface C09_HashIsReference C09_HashCanonical C09_SameOverTransports
CHECK_DEADLOCK FALSE
