SPECIFICATION Spec
CONSTANTS
    DataUnits = 2
    Sizes = {1, 2, 3}
    MaxAllocs = 4094
    MaxWrites = 1
    Schemas = {"plain", "strings", "nested", "topdict", "dict_struct", "dict_list", "dict_map", "dict_deep", "mixed", "mixed_nested"}
    ColClasses = {}
    MaxCols = 0
    RowClasses = {"zero", "one", "many"}
    MdClasses = {"none", "some", "collide"}
    PtrClasses = {"exact", "nonnum_off", "nonnum_len", "empty_off", "empty_len", "missing_len", "neg_off", "neg_len", "huge_off", "huge_len", "wrap_sum", "off_gt_half", "len_near_half", "beyond_end", "at_end", "past_end", "in_header", "len0", "short", "long"}
    Writers = {"direct", "maybe"}
    Variant = {"fast_path_for_nested"}
    Mode = "mc"
    Depth = 0
VIEW View
INVARIANTS TableConsistent RegionsHoldTheirStream
PROPERTIES ReadBackEqual PointerResolves PointerSafe WriteAtomic
CHECK_DEADLOCK FALSE
