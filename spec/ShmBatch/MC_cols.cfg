SPECIFICATION Spec
CONSTANTS
    DataUnits = 2
    Sizes = {1, 3}
    MaxAllocs = 4094
    MaxWrites = 1
    Schemas = {"mixed", "mixed_nested"}
    ColClasses = {"p", "s", "n", "t", "d"}
    MaxCols = 3
    RowClasses = {"zero", "one", "many"}
    MdClasses = {"none", "collide"}
    PtrClasses = {"exact", "long", "short", "neg_len", "beyond_end"}
    Writers = {"direct", "maybe"}
    Variant = {}
    Mode = "mc"
    Depth = 0
VIEW View
INVARIANTS TableConsistent RegionsHoldTheirStream ClassificationOrderIndependent
PROPERTIES ReadBackEqual PointerResolves PointerSafe WriteAtomic
CHECK_DEADLOCK FALSE
