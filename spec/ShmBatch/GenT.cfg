SPECIFICATION Spec
CONSTANTS
    DataUnits = 3
    Sizes = {1, 2}
    MaxAllocs = 3
    MaxWrites = 4
    Schemas = {"strings", "mixed"}
    ColClasses = {}
    MaxCols = 0
    RowClasses = {"many"}
    MdClasses = {"some"}
    PtrClasses = {"exact", "wrap_sum"}
    Writers = {"direct"}
    Variant = {}
    Mode = "tree"
    Depth = 5
CHECK_DEADLOCK FALSE
