SPECIFICATION Spec
CONSTANTS
    DataUnits = 3
    Sizes = {1, 2}
    MaxAllocs = 3
    MaxWrites = 3
    Schemas = {"strings", "mixed", "dict_deep"}
    RowClasses = {"one", "many"}
    MdClasses = {"some"}
    PtrClasses = {"exact", "wrap_sum"}
    Writers = {"direct", "maybe"}
    Variant = {}
    Mode = "tree"
    Depth = 5
CHECK_DEADLOCK FALSE
