SPECIFICATION Spec
CONSTANTS
    DataUnits = 4
    Sizes = {1, 2, 3, 5}
    MaxAllocs = 2
    MaxWrites = 3
    Schemas = {"plain", "topdict", "dict_struct"}
    ColClasses = {}
    MaxCols = 0
    RowClasses = {"many"}
    MdClasses = {"none"}
    PtrClasses = {"exact", "long", "short", "beyond_end", "neg_len"}
    Writers = {"direct", "maybe"}
    Variant = {}
    Mode = "mc"
    Depth = 0
VIEW ViewT
INVARIANTS TableConsistent RegionsHoldTheirStream
PROPERTIES ReadBackEqual PointerResolves PointerSafe WriteAtomic
CHECK_DEADLOCK FALSE
