SPECIFICATION Spec
CONSTANTS
    DataUnits = 6
    Sizes = {1, 2, 3, 7}
    MaxAllocs = 4
    MaxWrites = 12
    Schemas = {"plain", "strings", "nested", "topdict", "dict_struct", "dict_list", "dict_map", "dict_deep", "mixed", "mixed_nested"}
    ColClasses = {"p", "s", "n", "t", "d"}
    MaxCols = 2
    RowClasses = {"zero", "one", "many"}
    MdClasses = {"none", "some", "collide"}
    PtrClasses = {"exact", "nonnum_off", "nonnum_len", "empty_off", "empty_len", "missing_len", "neg_off", "neg_len", "huge_off", "huge_len", "wrap_sum", "off_gt_half", "len_near_half", "beyond_end", "at_end", "past_end", "in_header", "len0", "short", "long"}
    Writers = {"direct", "maybe"}
    Variant = {}
    Mode = "tree"
    Depth = 30
CHECK_DEADLOCK FALSE
