SPECIFICATION Spec
CONSTANTS
    DataUnits = 2
    Sizes = {1}
    MaxAllocs = 4094
    MaxWrites = 1
    Schemas = {}
    ColClasses = {"p", "s", "n", "t", "d"}
    MaxCols = 3
    RowClasses = {"one", "many"}
    MdClasses = {"some"}
    PtrClasses = {"exact"}
    Writers = {"direct", "maybe"}
    Variant = {}
    Mode = "edges"
    Depth = 0
VIEW View
CHECK_DEADLOCK FALSE
