------------------------------ MODULE ShmBatch ------------------------------
(***************************************************************************)
(* Batches in a shared-memory segment of vgi-rpc-go (vgirpc/shm.go):       *)
(* AllocateAndWrite / MaybeWriteToShm write an Arrow batch into a region   *)
(* of the segment, ReadBatch materialises a region, a zero-row *pointer    *)
(* batch* carries (offset, length) as two decimal strings in its custom    *)
(* metadata, and ResolveShmBatch turns a pointer batch back into the       *)
(* batch.  Property C35.                                                   *)
(*                                                                         *)
(* What is modelled, the way the code does it:                             *)
(*  - the allocation table (first fit, copied from ShmAlloc) and the       *)
(*    conservative pre-check  canFitLocked(estimateSerializedSize)  that   *)
(*    runs before it;                                                      *)
(*  - the three write paths chosen from the schema (top-level dictionary   *)
(*    => stream stored stripped of schema and EOS; dictionary only below   *)
(*    the top level => full stream through the IPC writer; otherwise the   *)
(*    record-batch-payload fast path, which emits no dictionary messages); *)
(*    a schema is a SEQUENCE of column classes, the classifiers of the     *)
(*    writer (schemaHasTopLevelDictionary, schemaHasNestedDictionary) and  *)
(*    of the reader (ReadBatch: schemaHasTopLevelDictionary) walk that     *)
(*    sequence, and the layout the writer leaves in the region is kept     *)
(*    apart from the layout the reader assumes;                            *)
(*  - the segment memory, unit by unit: a write leaves the stream of that  *)
(*    write in its region, a free leaves the bytes where they are;         *)
(*  - the pointer strings, parsed as the code parses them                  *)
(*    (strconv.ParseUint for the offset, strconv.Atoi for the length),     *)
(*    ReadBatch's bounds check in wrapping unsigned arithmetic, the slice  *)
(*    expression that traps when low > high, and the recover in            *)
(*    ResolveShmBatch;                                                     *)
(*  - the metadata merge of makeShmPointerBatch and the key replacement    *)
(*    of ResolveShmBatch.                                                  *)
(*                                                                         *)
(* Arithmetic is scaled down: lengths and offsets of regions are in UNITS  *)
(* (the driver makes every written stream exactly  n * unit  bytes long);  *)
(* pointer arithmetic is in TICKS, two per unit, so that a pointer can be  *)
(* shorter or longer than a region by less than a unit.  M plays 2^64 and  *)
(* H = M/2 plays 2^63.  The header occupies ticks [0, HdrT).               *)
(***************************************************************************)
EXTENDS Integers, Sequences, FiniteSets, TLC, VerifEmit

CONSTANTS
    DataUnits,    \* size of the data area in units
    Sizes,        \* serialized stream lengths (units) offered to the write actions
    MaxAllocs,    \* capacity of the allocation table
    MaxWrites,    \* write actions are offered until this many writes succeeded (keeps the model finite)
    Schemas,      \* named schema classes, subset of AllSchemas
    ColClasses,   \* column classes of the enumerated schemas, subset of AllColClasses
    MaxCols,      \* every sequence of 1..MaxCols column classes over ColClasses is a schema (0: none)
    RowClasses,   \* subset of {"zero","one","many"}
    MdClasses,    \* custom batch metadata: subset of {"none","some","collide"}
    PtrClasses,   \* pointer (offset,length) string classes, subset of AllPtrClasses
    Writers,      \* which write entry points are offered: subset of {"direct", "maybe"}
    Variant,      \* set of deliberate deviations; {} = the code as it is (others: negative tests of the model)
    Mode,         \* "mc" | "edges" | "tree"
    Depth

VARIABLES
    table,   \* allocation table: sequence of <<off, len>> (units, relative to the data area) in offset order
    mem,     \* segment memory: data unit -> <<w, k>> = k-th unit of the stream of write w; <<0,0>> = never written
    info,    \* one record per successful write w (1..Len(info)): what was written, where, and how
    hist

vars == <<table, mem, info, hist>>

AllSchemas == {"plain", "strings", "nested", "topdict",
               "dict_struct", "dict_list", "dict_map", "dict_deep", "mixed", "mixed_nested"}
AllPtrClasses ==
    {"exact",
     \* malformed
     "nonnum_off", "nonnum_len", "empty_off", "empty_len", "missing_len",
     \* negative
     "neg_off", "neg_len",
     \* overflowing: do not fit the integer type, or offset + length wraps
     "huge_off", "huge_len", "wrap_sum",
     \* out of segment
     "off_gt_half", "len_near_half", "beyond_end", "at_end", "past_end",
     \* inside the segment but not a written region (nothing promised beyond safety)
     "in_header", "len0", "short", "long"}

\* column classes: p = fixed-width, s = string/binary, n = list/struct/map without a dictionary,
\*                 t = dictionary column, d = list/struct/map with a dictionary somewhere below
AllColClasses == {"p", "s", "n", "t", "d"}

ASSUME Schemas \subseteq AllSchemas /\ PtrClasses \subseteq AllPtrClasses
ASSUME ColClasses \subseteq AllColClasses /\ MaxCols \in Nat

--------------------------------------------------------------------------
(* Scaled-down integers.                                                   *)
T    == 2                         \* ticks per unit
HdrT == T                         \* the header is one unit long
ST   == HdrT + T * DataUnits      \* segment size in ticks
M    == 4 * (ST + 2 * T)          \* plays 2^64
H    == M \div 2                  \* plays 2^63

Abs(o) == HdrT + T * o            \* data-area unit offset -> absolute tick offset

--------------------------------------------------------------------------
(* Schemas.  A schema is a descriptor [name, cols]: cols is the sequence of *)
(* column classes in field order.  The named classes stand for the column   *)
(* groups the driver draws for them (each group one or more columns, the     *)
(* groups in ANY order -- see ClassificationOrderIndependent); a "seq"       *)
(* schema has exactly the columns of its sequence, in that order.            *)
NamedCols(nm) ==
    CASE nm = "plain"        -> <<"p">>
      [] nm = "strings"      -> <<"s", "p">>
      [] nm = "nested"       -> <<"n">>
      [] nm = "topdict"      -> <<"t">>
      [] nm = "dict_struct"  -> <<"d">>
      [] nm = "dict_list"    -> <<"d">>
      [] nm = "dict_map"     -> <<"d">>
      [] nm = "dict_deep"    -> <<"d">>
      [] nm = "mixed"        -> <<"p", "s", "t", "d", "n">>
      [] nm = "mixed_nested" -> <<"p", "s", "n", "d">>

\* explicit tuples (Append), not function values: they end up in the state variable info
RECURSIVE ColSeqsOfLen(_)
ColSeqsOfLen(k) == IF k = 0 THEN {<<>>}
                   ELSE {Append(q, c) : q \in ColSeqsOfLen(k - 1), c \in ColClasses}
ColSeqs == UNION {ColSeqsOfLen(k) : k \in 1..MaxCols}

SchemaDescs == {[name |-> nm, cols |-> NamedCols(nm)] : nm \in Schemas}
               \cup {[name |-> "seq", cols |-> q] : q \in ColSeqs}

(* The classifiers, the way vgirpc/shm.go walks schema.Fields().             *)
ColIsDict(c)  == c = "t"              \* f.Type.(*arrow.DictionaryType)
ColHasDict(c) == c \in {"t", "d"}     \* typeHasDictionary(f.Type)
MinOf(S) == CHOOSE i \in S : \A j \in S : i <= j

\* schemaHasTopLevelDictionary: some top-level field is a dictionary
SchemaHasTopDict(cols) == \E i \in 1..Len(cols) : ColIsDict(cols[i])
\* schemaHasNestedDictionary: no top-level dictionary field, and some field holds one below
\* (deviation "nested_single_pass": one pass that lets the FIRST dictionary-bearing field decide)
SchemaHasNestedDict(cols) ==
    IF "nested_single_pass" \in Variant
    THEN LET D == {i \in 1..Len(cols) : ColHasDict(cols[i])}
         IN D # {} /\ ~ColIsDict(cols[MinOf(D)])
    ELSE ~SchemaHasTopDict(cols) /\ \E i \in 1..Len(cols) : ColHasDict(cols[i])

\* AllocateAndWrite's three-way branch (deviation "nested_first": the two tests swapped)
Path(sd) ==
    LET top    == SchemaHasTopDict(sd.cols)
        nested == SchemaHasNestedDict(sd.cols) /\ "fast_path_for_nested" \notin Variant IN
    IF "nested_first" \in Variant
    THEN (IF nested THEN "serialize_full" ELSE IF top THEN "serialize_stripped" ELSE "payload_fast_path")
    ELSE (IF top THEN "serialize_stripped" ELSE IF nested THEN "serialize_full" ELSE "payload_fast_path")
\* what the write leaves in the region
Layout(sd) == IF Path(sd) = "serialize_stripped" THEN "stripped" ELSE "full"
\* what ReadBatch takes the region for, from the schema it is handed
ReaderLayout(sd) == IF SchemaHasTopDict(sd.cols) THEN "stripped" ELSE "full"
\* the fast path emits no dictionary messages: a stream with dictionary-encoded
\* columns or children written that way cannot be decoded to the batch
Intact(sd) == ~(Path(sd) = "payload_fast_path" /\ \E i \in 1..Len(sd.cols) : ColHasDict(sd.cols[i]))

\* Which path a schema takes and how its region is read depends on WHICH column classes
\* occur, never on where they stand or how often (checked as an invariant by the MC cfgs).
ColSet(cols) == {cols[i] : i \in 1..Len(cols)}
ClassificationOrderIndependent ==
    \A a, b \in SchemaDescs :
        ColSet(a.cols) = ColSet(b.cols) =>
            /\ Path(a) = Path(b) /\ Layout(a) = Layout(b)
            /\ ReaderLayout(a) = ReaderLayout(b) /\ Intact(a) = Intact(b)

(* estimateSerializedSize = top-level buffer bytes + 4096.  ex = by how many  *)
(* units the estimate exceeds the real stream length (0: estimate <= length). *)
(* Only flat schemas with many rows can be made to exceed by a whole unit.    *)
EstExtra(sd, rw) == IF sd.name \in {"plain", "strings"} /\ rw = "many" THEN {0, 1} ELSE {0}

\* MaybeWriteToShm's size gate (top-level buffer bytes against the threshold)
GateClasses(rw) == IF rw = "many" THEN {"below", "above"} ELSE {"below"}

--------------------------------------------------------------------------
(* Allocation table -- first fit, as allocateLocked / canFitLocked /       *)
(* freeAtLocked do it (same model as spec/ShmAlloc).                        *)
Off(e) == e[1]
Len_(e) == e[2]
End(e) == e[1] + e[2]

GapBefore(t, i) == Off(t[i]) - (IF i = 1 THEN 0 ELSE End(t[i-1]))
TailStart(t) == IF Len(t) = 0 THEN 0 ELSE End(t[Len(t)])
FirstGapIndex(t, n) ==
    LET G == {i \in 1..Len(t) : GapBefore(t, i) >= n}
    IN IF G = {} THEN 0 ELSE CHOOSE i \in G : \A j \in G : i <= j
InsertAt(t, i, e) == SubSeq(t, 1, i-1) \o <<e>> \o SubSeq(t, i, Len(t))
RemoveAt(t, i) == SubSeq(t, 1, i-1) \o SubSeq(t, i+1, Len(t))

CanFit(t, n) ==
    /\ n > 0
    /\ Len(t) < MaxAllocs
    /\ \/ \E i \in 1..Len(t) : GapBefore(t, i) >= n
       \/ DataUnits - TailStart(t) >= n

AllocResult(t, n) ==
    IF n <= 0 \/ Len(t) >= MaxAllocs
    THEN [ok |-> FALSE, off |-> 0, table |-> t]
    ELSE LET i == FirstGapIndex(t, n) IN
         IF i # 0
         THEN LET o == IF i = 1 THEN 0 ELSE End(t[i-1])
              IN [ok |-> TRUE, off |-> o, table |-> InsertAt(t, i, <<o, n>>)]
         ELSE IF DataUnits - TailStart(t) >= n
              THEN [ok |-> TRUE, off |-> TailStart(t), table |-> Append(t, <<TailStart(t), n>>)]
              ELSE [ok |-> FALSE, off |-> 0, table |-> t]

FreeResult(t, o) ==
    LET R == {i \in 1..Len(t) : Off(t[i]) = o}
    IN IF R = {} THEN [ok |-> FALSE, table |-> t]
       ELSE [ok |-> TRUE, table |-> RemoveAt(t, CHOOSE i \in R : TRUE)]

\* AllocateAndWrite up to the allocation: pre-check on the estimate, then first fit on the length
AllocForWrite(t, n, ex) ==
    IF ~CanFit(t, n + ex) THEN [ok |-> FALSE, off |-> 0, table |-> t]
    ELSE AllocResult(t, n)

Live(w) == \E i \in 1..Len(table) : table[i] = <<info[w].off, info[w].len>> /\ mem[info[w].off] = <<w, 1>>
LiveWrites == {w \in 1..Len(info) : Live(w)}

--------------------------------------------------------------------------
(* Custom metadata, abstractly a set of <<key, value-tag>>.  "off"/"len"    *)
(* are the pointer keys, "src" the source key; value tag "user" = supplied  *)
(* with the batch, "ptr" = written by makeShmPointerBatch, "seg" = the      *)
(* segment name.                                                            *)
PtrKeys == {"off", "len"}
CustomMd(md) == CASE md = "none"    -> {}
                  [] md = "some"    -> {<<"c1", "user">>, <<"c2", "user">>}
                  [] md = "collide" -> {<<"c1", "user">>, <<"off", "user">>, <<"len", "user">>}

\* makeShmPointerBatch: pointer keys first, then every other key of the batch
PointerMd(md) == {<<"off", "ptr">>, <<"len", "ptr">>} \cup {kv \in CustomMd(md) : kv[1] \notin PtrKeys}

\* ResolveShmBatch: drop the pointer keys, append the source key
ResolvedMd(pmd) ==
    (IF "keep_pointer_keys" \in Variant THEN pmd ELSE {kv \in pmd : kv[1] \notin PtrKeys})
    \cup {<<"src", "seg">>}

\* the projection the driver reports
MdObs(rmd, md) ==
    [ptrkeys |-> \E kv \in rmd : kv[1] \in PtrKeys,
     source  |-> IF <<"src", "seg">> \in rmd THEN "segment" ELSE "absent",
     custom  |-> IF {kv \in rmd : kv[1] \notin PtrKeys \cup {"src"}}
                    = {kv \in CustomMd(md) : kv[1] \notin PtrKeys}
                 THEN "kept" ELSE "changed"]

--------------------------------------------------------------------------
(* Pointer strings.  A decimal string is abstracted to its kind and, when   *)
(* it is an optionally signed digit string, its value.                      *)
Num(v)  == [k |-> "num", v |-> v]
Junk    == [k |-> "junk", v |-> 0]       \* not a digit string
Empty   == [k |-> "empty", v |-> 0]      \* key present, value ""
Missing == [k |-> "missing", v |-> 0]    \* key absent (the code reads "")

\* the (offset, length) strings of class pc for a region at absolute tick a of n ticks
PtrStrings(pc, a, n) ==
    CASE pc = "exact"         -> [off |-> Num(a),        len |-> Num(n)]
      [] pc = "nonnum_off"    -> [off |-> Junk,          len |-> Num(n)]
      [] pc = "nonnum_len"    -> [off |-> Num(a),        len |-> Junk]
      [] pc = "empty_off"     -> [off |-> Empty,         len |-> Num(n)]
      [] pc = "empty_len"     -> [off |-> Num(a),        len |-> Empty]
      [] pc = "missing_len"   -> [off |-> Num(a),        len |-> Missing]
      [] pc = "neg_off"       -> [off |-> Num(0 - 1),    len |-> Num(n)]
      [] pc = "neg_len"       -> [off |-> Num(a),        len |-> Num(0 - 1)]
      [] pc = "huge_off"      -> [off |-> Num(M),        len |-> Num(n)]
      [] pc = "huge_len"      -> [off |-> Num(a),        len |-> Num(H)]
      [] pc = "wrap_sum"      -> [off |-> Num(M - 1),    len |-> Num(n + 1)]
      [] pc = "off_gt_half"   -> [off |-> Num(H + a),    len |-> Num(n)]
      [] pc = "len_near_half" -> [off |-> Num(a),        len |-> Num(H - 1)]
      [] pc = "beyond_end"    -> [off |-> Num(ST - 1),   len |-> Num(2)]
      [] pc = "at_end"        -> [off |-> Num(ST),       len |-> Num(n)]
      [] pc = "past_end"      -> [off |-> Num(ST + T),   len |-> Num(n)]
      [] pc = "in_header"     -> [off |-> Num(0),        len |-> Num(1)]
      [] pc = "len0"          -> [off |-> Num(a),        len |-> Num(0)]
      [] pc = "short"         -> [off |-> Num(a),        len |-> Num(n - 1)]
      [] pc = "long"          -> [off |-> Num(a),        len |-> Num(n + 1)]

\* strconv.ParseUint(s, 10, 64): digits only, value below 2^64
ParseUint(s) == IF s.k = "num" /\ s.v >= 0 /\ s.v < M THEN [ok |-> TRUE, v |-> s.v] ELSE [ok |-> FALSE, v |-> 0]
\* strconv.Atoi(s): optional sign and digits, value in [-2^63, 2^63)
Atoi(s)      == IF s.k = "num" /\ s.v >= 0 - H /\ s.v < H THEN [ok |-> TRUE, v |-> s.v] ELSE [ok |-> FALSE, v |-> 0]

\* the strings do not denote a region inside the segment (see Invalid below, where C35 is stated)
MustFail(p) ==
    \/ p.off.k # "num" \/ p.len.k # "num"
    \/ p.off.v < 0 \/ p.len.v < 0
    \/ p.off.v >= M \/ p.len.v >= H
    \/ p.off.v + p.len.v > ST

--------------------------------------------------------------------------
(* Reading.                                                                 *)
UnitOf(tick) == (tick - HdrT) \div T

\* the stream of write w is complete at its place in memory m (inf = the write records)
StreamAtM(m, inf, w) == \A k \in 1..inf[w].len : m[inf[w].off + k - 1] = <<w, k>>
StreamAt(w) == StreamAtM(mem, info, w)

(* Decode ticks [a, e) with the schema of write w (the pointer batch carries *)
(* that schema): the IPC reader returns the first record batch of a complete  *)
(* stream that starts at a, and ignores what follows.                         *)
\*   result r: "batch" (the batch of write x) | "error"
DecodeM(m, inf, a, e, w) ==
    IF a >= e \/ a < HdrT \/ (a - HdrT) % T # 0 THEN [r |-> "error", x |-> 0]
    ELSE LET c == m[UnitOf(a)] IN
         IF c[2] # 1 THEN [r |-> "error", x |-> 0]
         ELSE LET x == c[1] IN
              IF /\ StreamAtM(m, inf, x) /\ inf[x].off = UnitOf(a)
                 /\ e >= a + T * inf[x].len
                 /\ Layout(inf[x].sc) = ReaderLayout(inf[w].sc)
              THEN (IF Intact(inf[x].sc) THEN [r |-> "batch", x |-> x] ELSE [r |-> "error", x |-> 0])
              ELSE [r |-> "error", x |-> 0]

(* ReadBatch(offset, length, schema) on machine integers:                    *)
(*   end := offset + uint64(length)             (wraps)                       *)
(*   if end > size  -> error                                                  *)
(*   region := data[offset:end]                 (traps when offset > end,     *)
(*                                               or when end > len(data))     *)
\*   result r: "batch" | "error" | "trap";  oob: the slice reached beyond the mapping
ReadBatchM(m, inf, off, len, w) ==
    LET end == (off + (len % M)) % M IN
    IF end > ST /\ "no_bounds_check" \notin Variant
    THEN [r |-> "error", x |-> 0, oob |-> FALSE]
    ELSE IF end > ST THEN [r |-> "trap", x |-> 0, oob |-> TRUE]
    ELSE IF off > end THEN [r |-> "trap", x |-> 0, oob |-> FALSE]
    ELSE LET d == DecodeM(m, inf, off, end, w) IN [r |-> d.r, x |-> d.x, oob |-> FALSE]
ReadBatch(off, len, w) == ReadBatchM(mem, info, off, len, w)

\* what a reader of the peer attachment gets for write w with the (offset, length) the writer reported
ReadBackObs(m, inf, w) ==
    LET rb == ReadBatchM(m, inf, Abs(inf[w].off), T * inf[w].len, w) IN
    [ok |-> rb.r = "batch",
     schema_eq |-> rb.r = "batch" /\ inf[rb.x].sc = inf[w].sc,
     values_eq |-> rb.r = "batch" /\ rb.x = w]

(* ResolveShmBatch on a pointer batch: parse both strings, ReadBatch, then    *)
(* rebuild the metadata; a trap below is recovered into an error.             *)
ResolveResult(p, w) ==
    LET o == ParseUint(p.off)  l == Atoi(p.len) IN
    IF ~o.ok \/ ~l.ok THEN [r |-> "error", x |-> 0, oob |-> FALSE, escaped |-> FALSE]
    ELSE LET rb == ReadBatch(o.v, l.v, w) IN
         IF rb.r = "trap"
         THEN IF "no_recover" \in Variant
              THEN [r |-> "trap", x |-> 0, oob |-> rb.oob, escaped |-> TRUE]
              ELSE [r |-> "error", x |-> 0, oob |-> rb.oob, escaped |-> FALSE]
         ELSE [r |-> rb.r, x |-> rb.x, oob |-> rb.oob, escaped |-> FALSE]

--------------------------------------------------------------------------
Record(step) ==
    /\ hist' = Append(hist, step)
    /\ (Mode = "edges") => EmitTrace(hist')
    /\ (Mode = "tree" /\ Len(hist') = Depth) => EmitTrace(hist')

Budget == (Mode = "tree") => Len(hist) < Depth

TableObs(t) == t

\* the region of write w as it ends up in memory
WriteMem(m, w, o, n) == [u \in 0..DataUnits-1 |-> IF u >= o /\ u < o + n THEN <<w, u - o + 1>> ELSE m[u]]

ClassArgs(sd, rw, md, n, ex) == [sc |-> sd.name, cols |-> sd.cols, rows |-> rw, md |-> md, n |-> n, ex |-> ex]

(* AllocateAndWrite(batch) called directly.                                 *)
WriteBatch(sc, rw, md, n, ex) ==
    /\ Budget
    /\ Len(info) < MaxWrites
    /\ LET r == AllocForWrite(table, n, ex)  w == Len(info) + 1 IN
       /\ table' = r.table
       /\ IF r.ok
          THEN /\ mem' = WriteMem(mem, w, r.off, n)
               /\ info' = Append(info, [sc |-> sc, rows |-> rw, md |-> md, off |-> r.off, len |-> n, via |-> "direct"])
          ELSE UNCHANGED <<mem, info>>
       /\ Record([a |-> "WriteBatch", args |-> ClassArgs(sc, rw, md, n, ex),
                  exp |-> [fit |-> r.ok, woff |-> r.off, wlen |-> IF r.ok THEN n ELSE 0,
                           table |-> TableObs(r.table),
                           layout |-> IF r.ok THEN Layout(sc) ELSE "none",
                           w |-> IF r.ok THEN w ELSE 0]
                          \* the region just written, read through the peer attachment
                          @@ (IF r.ok THEN ReadBackObs(mem', info', w) ELSE [nothing_written |-> TRUE])])

(* MaybeWriteToShm(batch, seg): empty batches and batches below the size    *)
(* gate stay on the pipe; otherwise AllocateAndWrite, and on success a       *)
(* pointer batch that carries the batch's own metadata under the pointer     *)
(* keys.                                                                     *)
MaybeWrite(sc, rw, md, n, ex, gate) ==
    /\ Budget
    /\ Len(info) < MaxWrites
    /\ LET try == rw # "zero" /\ gate = "above"
           r == IF try THEN AllocForWrite(table, n, ex) ELSE [ok |-> FALSE, off |-> 0, table |-> table]
           w == Len(info) + 1 IN
       /\ table' = r.table
       /\ IF r.ok
          THEN /\ mem' = WriteMem(mem, w, r.off, n)
               /\ info' = Append(info, [sc |-> sc, rows |-> rw, md |-> md, off |-> r.off, len |-> n, via |-> "maybe"])
          ELSE UNCHANGED <<mem, info>>
       /\ Record([a |-> "MaybeWrite", args |-> ClassArgs(sc, rw, md, n, ex) @@ [gate |-> gate],
                  exp |-> [replaced |-> r.ok,
                           \* the pointer batch: zero rows, same schema, is a pointer batch, (offset, length) = the new table entry
                           pointer |-> IF r.ok
                                       THEN [rows |-> 0, schema_eq |-> TRUE, is_pointer |-> TRUE,
                                             off |-> r.off, len |-> n,
                                             md |-> [ptrkeys |-> TRUE,
                                                     custom |-> IF {kv \in PointerMd(md) : kv[1] \notin PtrKeys}
                                                                   = {kv \in CustomMd(md) : kv[1] \notin PtrKeys}
                                                                THEN "kept" ELSE "changed"]]
                                       ELSE [same_batch |-> TRUE],
                           table |-> TableObs(r.table),
                           layout |-> IF r.ok THEN Layout(sc) ELSE "none",
                           w |-> IF r.ok THEN w ELSE 0]
                          @@ (IF r.ok THEN ReadBackObs(mem', info', w) ELSE [nothing_written |-> TRUE])])

(* ReadBatch(offset, length, schema) with the values AllocateAndWrite        *)
(* returned, for a region that is still allocated.                           *)
ReadBack(w) ==
    /\ Budget
    /\ Live(w)
    /\ UNCHANGED <<table, mem, info>>
    /\ Record([a |-> "ReadBack", args |-> [w |-> w],
               exp |-> ReadBackObs(mem, info, w) @@ [layout |-> Layout(info[w].sc)]])

(* ResolveShmBatch(pointer, seg) for a pointer batch of class pc built for   *)
(* write w (live or already freed).  Which keys the step carries follows     *)
(* what C35 promises for that pointer (batch / error / only safety); the      *)
(* values are what the model of the code computes.                            *)
Resolve(w, pc) ==
    /\ Budget
    /\ w \in 1..Len(info)
    /\ LET p  == PtrStrings(pc, Abs(info[w].off), T * info[w].len)
           rr == ResolveResult(p, w)
           ok == rr.r = "batch"
           safety == [escaped |-> rr.escaped, oob |-> rr.oob] IN
       /\ UNCHANGED <<table, mem, info>>
       /\ Record([a |-> "Resolve",
                  args |-> [w |-> w, pc |-> pc, live |-> Live(w), via |-> info[w].via, p |-> p],
                  exp |-> IF pc = "exact" /\ Live(w)
                          THEN safety @@
                               [ok |-> ok,
                                schema_eq |-> ok /\ info[rr.x].sc = info[w].sc,
                                values_eq |-> ok /\ rr.x = w,
                                md |-> IF ok THEN MdObs(ResolvedMd(PointerMd(info[w].md)), info[w].md)
                                       ELSE [ptrkeys |-> TRUE, source |-> "absent", custom |-> "changed"],
                                release |-> [release |-> ok, off |-> IF ok THEN info[w].off ELSE 0]]
                          ELSE IF MustFail(p)
                          THEN safety @@ [ok |-> ok]
                          \* nothing promised about the outcome; the model's prediction is informative only
                          \* (a region cut short, or holding the stream of a later write: no prediction)
                          ELSE IF pc = "short" \/ (ok /\ rr.x # w) THEN safety
                          ELSE safety @@ [outcome |-> IF ok THEN "batch" ELSE "error"]])

(* FreeOffset(offset) of a live region: the table entry goes, the bytes stay. *)
Free(w) ==
    /\ Budget
    /\ Live(w)
    /\ LET r == FreeResult(table, info[w].off) IN
       /\ table' = r.table
       /\ UNCHANGED <<mem, info>>
       /\ Record([a |-> "Free", args |-> [w |-> w],
                  exp |-> [freed |-> r.ok, table |-> TableObs(r.table)]])

(* ResolveShmBatch on something that is not a pointer batch (IsShmPointerBatch: *)
(* has rows, lacks the offset key, or is a log batch) or without a segment:     *)
(* the input comes back untouched.                                              *)
NonPointerKinds == {"has_rows", "no_offset_key", "log_batch", "nil_segment"}
ResolveNonPointer(kind) ==
    /\ Budget
    /\ UNCHANGED <<table, mem, info>>
    /\ Record([a |-> "ResolveNonPointer", args |-> [kind |-> kind],
               exp |-> [passthrough |-> TRUE, is_pointer |-> kind = "nil_segment"]])

Init ==
    /\ table = <<>>
    /\ mem = [u \in 0..DataUnits-1 |-> <<0, 0>>]
    /\ info = <<>>
    /\ hist = << [a |-> "Init",
                  args |-> [DataUnits |-> DataUnits, MaxAllocs |-> MaxAllocs],
                  exp |-> [table |-> <<>>]] >>

Next ==
    \/ \E sc \in SchemaDescs, rw \in RowClasses, md \in MdClasses, n \in Sizes :
          \E ex \in EstExtra(sc, rw) :
             \/ ("direct" \in Writers /\ WriteBatch(sc, rw, md, n, ex))
             \/ ("maybe" \in Writers /\ \E g \in GateClasses(rw) : MaybeWrite(sc, rw, md, n, ex, g))
    \/ \E w \in 1..Len(info) : ReadBack(w) \/ Free(w) \/ \E pc \in PtrClasses : Resolve(w, pc)
    \/ (Len(info) = 0 /\ \E k \in NonPointerKinds : ResolveNonPointer(k))

Spec == Init /\ [][Next]_vars

--------------------------------------------------------------------------
(* Supporting invariants on the viewed state.                               *)
Sorted   == \A i \in 1..Len(table)-1 : Off(table[i]) < Off(table[i+1])
Disjoint == \A i \in 1..Len(table)-1 : End(table[i]) <= Off(table[i+1])
Inside   == \A i \in 1..Len(table) : Len_(table[i]) > 0 /\ End(table[i]) <= DataUnits
TableConsistent == Sorted /\ Disjoint /\ Inside /\ Len(table) <= MaxAllocs

\* every allocated region holds the complete stream of exactly one write (nothing wrote over it)
RegionsHoldTheirStream ==
    \A i \in 1..Len(table) : \E w \in 1..Len(info) :
        /\ info[w].off = Off(table[i]) /\ info[w].len = Len_(table[i]) /\ StreamAt(w)

--------------------------------------------------------------------------
(* C35, stated once, on the observations of every transition.               *)
Last == hist'[Len(hist')]

(* The pointer a Resolve step presented, read as the mathematical integers   *)
(* its strings denote -- no machine arithmetic here.                         *)
IsNumber(s)    == s.k = "num"
Malformed(p)   == ~IsNumber(p.off) \/ ~IsNumber(p.len)
Negative(p)    == ~Malformed(p) /\ (p.off.v < 0 \/ p.len.v < 0)
Overflowing(p) == ~Malformed(p) /\ ~Negative(p) /\ (p.off.v >= M \/ p.len.v >= H \/ p.off.v + p.len.v >= M)
OutOfSegment(p) == ~Malformed(p) /\ ~Negative(p) /\ p.off.v + p.len.v > ST
Invalid(p)     == Malformed(p) \/ Negative(p) \/ Overflowing(p) \/ OutOfSegment(p)
\* p designates exactly the region AllocateAndWrite reported for write w, and w is still allocated
PointsAt(p, w) == ~Malformed(p) /\ p.off.v = Abs(info[w].off) /\ p.len.v = T * info[w].len /\ Live(w)

\* (1) any batch written to a segment reads back equal in schema and values
ReadBackEqual ==
    [][ (Last.a = "ReadBack" \/ (Last.a \in {"WriteBatch", "MaybeWrite"} /\ Len(info') > Len(info))) =>
            Last.exp.ok /\ Last.exp.schema_eq /\ Last.exp.values_eq ]_vars

\* (2) a pointer batch resolves to that batch, pointer keys replaced by the source key
PointerResolves ==
    [][ (Last.a = "Resolve" /\ PointsAt(Last.args.p, Last.args.w)) =>
            /\ Last.exp.ok /\ Last.exp.schema_eq /\ Last.exp.values_eq
            /\ Last.exp.md = [ptrkeys |-> FALSE, source |-> "segment", custom |-> "kept"] ]_vars

\* (3) malformed / negative / overflowing / out-of-segment pointers: an error;
\*     and no pointer at all makes a panic escape or the mapping be indexed beyond its end
PointerSafe ==
    [][ Last.a = "Resolve" =>
            /\ ~Last.exp.escaped /\ ~Last.exp.oob
            /\ Invalid(Last.args.p) => ("ok" \in DOMAIN Last.exp /\ ~Last.exp.ok) ]_vars

\* a write either fails and changes nothing, or adds exactly the region it reports
WriteAtomic ==
    [][ Last.a \in {"WriteBatch", "MaybeWrite"} =>
          LET ok == IF Last.a = "WriteBatch" THEN Last.exp.fit ELSE Last.exp.replaced
              Old == {table[i] : i \in 1..Len(table)}
              New == {table'[i] : i \in 1..Len(table')} IN
          IF ok THEN \E e \in New : New = Old \cup {e} /\ e \notin Old /\ mem'[Off(e)] = <<Len(info'), 1>>
          ELSE table' = table /\ mem' = mem ]_vars

\* the pointer classes the cfg offers are classified as the class names say
ClassesMeanWhatTheySay ==
    \A n \in 1..(T * DataUnits), a \in HdrT..(ST - 1) :
        LET P(pc) == PtrStrings(pc, a, n) IN
        /\ \A pc \in {"nonnum_off", "nonnum_len", "empty_off", "empty_len", "missing_len"} : Malformed(P(pc))
        /\ \A pc \in {"neg_off", "neg_len"} : Negative(P(pc))
        /\ \A pc \in {"huge_off", "huge_len", "wrap_sum"} : Overflowing(P(pc))
        /\ \A pc \in {"off_gt_half", "len_near_half", "beyond_end", "at_end", "past_end"} : OutOfSegment(P(pc))
        /\ \A pc \in {"in_header", "len0"} : ~Invalid(P(pc))
        /\ ~Invalid(P("exact")) \/ a + n > ST
ASSUME ClassesMeanWhatTheySay

View == <<table, mem, info>>
\* coarser view for the table-interaction cfgs: of past writes keep only what the model's
\* future depends on (classes are covered one write at a time under View)
ViewT == <<table, mem, [w \in 1..Len(info) |-> <<Layout(info[w].sc), ReaderLayout(info[w].sc), Intact(info[w].sc), info[w].off, info[w].len>>]>>
=============================================================================
