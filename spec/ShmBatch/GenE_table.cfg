SPECIFICATION Spec
CONSTANTS
    DataUnits = 3
    Sizes = {1, 2, 4}
    MaxAllocs = 2
    MaxWrites = 3
    Schemas = {"plain", "topdict"}
    ColClasses = {}
    MaxCols = 0
    RowClasses = {"many"}
    MdClasses = {"none"}
    PtrClasses = {"exact", "long"}
    Writers = {"direct"}
    Variant = {}
    Mode = "edges"
    Depth = 0
VIEW ViewT
CHECK_DEADLOCK FALSE
