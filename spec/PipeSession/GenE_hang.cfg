\* every call of the quick alphabet as a call whose response is never read (Hangup)
SPECIFICATION Spec
CONSTANTS
    Mode = "edges"
    Depth = 0
    MaxCalls = 1
    Calls <- McCalls
    Probes <- ProbeCalls
    Debug = FALSE
    HookMode = "ok"
    PvSet = FALSE
    Hang = TRUE
    DrainOnRefusal = TRUE
VIEW View
CHECK_DEADLOCK FALSE
