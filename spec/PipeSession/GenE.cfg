SPECIFICATION Spec
CONSTANTS
    Mode = "edges"
    Depth = 0
    MaxCalls = 1
    Calls <- QuickCalls
    Probes <- ProbeCalls
    Debug = FALSE
    HookMode = "ok"
    PvSet = FALSE
    DrainOnRefusal = TRUE
VIEW View
CHECK_DEADLOCK FALSE
