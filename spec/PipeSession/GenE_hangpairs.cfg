\* a first call, then a probe whose response is never read
SPECIFICATION Spec
CONSTANTS
    Mode = "pairs"
    Depth = 0
    MaxCalls = 2
    Calls <- McCalls
    Probes <- ProbeCalls
    Debug = TRUE
    HookMode = "ok"
    PvSet = FALSE
    Hang = TRUE
    DrainOnRefusal = TRUE
VIEW View
CHECK_DEADLOCK FALSE
