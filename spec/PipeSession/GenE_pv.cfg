SPECIFICATION Spec
CONSTANTS
    Mode = "edges"
    Depth = 0
    MaxCalls = 2
    Calls <- McCalls
    Probes <- ProbeCalls
    Debug = FALSE
    HookMode = "panic_end"
    PvSet = TRUE
    Hang = FALSE
    DrainOnRefusal = TRUE
VIEW View
CHECK_DEADLOCK FALSE
