SPECIFICATION FairSpec
CONSTANTS
    Mode = "mc"
    Depth = 0
    MaxCalls = 2
    Calls <- McCalls
    Probes <- McCalls
    Debug = FALSE
    HookMode = "ok"
    PvSet = TRUE
    Hang = FALSE
    DrainOnRefusal = FALSE
VIEW View
INVARIANTS InFrame NeverMisframed
PROPERTIES OneResponse UnaryContract ErrorTypeStable Lockstep HookBalanced Answered
CHECK_DEADLOCK FALSE
