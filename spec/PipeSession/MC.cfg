SPECIFICATION FairSpec
CONSTANTS
    Mode = "mc"
    Depth = 0
    MaxCalls = 3
    Calls <- McCalls
    Probes <- McCalls
    Debug = FALSE
    HookMode = "ok"
    PvSet = FALSE
    Hang = FALSE
    DrainOnRefusal = TRUE
VIEW View
INVARIANTS InFrame NeverMisframed
PROPERTIES OneResponse UnaryContract ErrorTypeStable Lockstep HookBalanced Answered
CHECK_DEADLOCK FALSE
