SPECIFICATION Spec
CONSTANTS
    Mode = "pairs"
    Depth = 0
    MaxCalls = 2
    Calls <- QuickCalls
    Probes <- ProbeCalls
    Debug = TRUE
    HookMode = "ok"
    PvSet = FALSE
    Hang = FALSE
    DrainOnRefusal = TRUE
VIEW View
CHECK_DEADLOCK FALSE
