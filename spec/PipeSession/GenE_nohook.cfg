SPECIFICATION Spec
CONSTANTS
    Mode = "edges"
    Depth = 0
    MaxCalls = 1
    Calls <- McCalls
    Probes <- ProbeCalls
    Debug = TRUE
    HookMode = "none"
    PvSet = FALSE
    Hang = FALSE
    DrainOnRefusal = TRUE
VIEW View
CHECK_DEADLOCK FALSE
