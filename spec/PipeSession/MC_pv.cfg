SPECIFICATION FairSpec
CONSTANTS
    Mode = "mc"
    Depth = 0
    MaxCalls = 2
    Calls <- McCalls
    Probes <- McCalls
    Debug = TRUE
    HookMode = "panic_end"
    PvSet = TRUE
    Hang = FALSE
    DrainOnRefusal = TRUE
VIEW View
INVARIANTS InFrame NeverMisframed
PROPERTIES OneResponse UnaryContract ErrorTypeStable Lockstep HookBalanced Answered
CHECK_DEADLOCK FALSE
