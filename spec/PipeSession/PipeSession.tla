----------------------------- MODULE PipeSession -----------------------------
(***************************************************************************)
(* One pipe / Unix / TCP connection of a vgi-rpc-go server                 *)
(* (vgirpc/server_serve.go serveOne, server_unary.go, server_stream.go,    *)
(* wire.go ReadRequest).                                                   *)
(*                                                                         *)
(* The wire towards the server is a sequence `inq` of Arrow-IPC *streams*  *)
(* the client has written and the server has not consumed yet.  A request  *)
(* is one stream; a stream-method call is followed by one input stream     *)
(* (ticks / exchange inputs / cancel).  The server is a program counter    *)
(* walking the exits of serveOne -> serveUnary | serveStream, one action   *)
(* per exit, appending response streams to `out`.  The client writes a     *)
(* call completely before reading its response ("the client writes before  *)
(* reading").                                                              *)
(*                                                                         *)
(* Served properties: C02 (framing), C03 (pipe half: no request shape      *)
(* kills the loop), C04 (unary value / error after logs), C05 (error       *)
(* types), C06 (lockstep contract), C37 (hook start/end), C41 (allocation  *)
(* ledger), C36 (shm mode: same results).                                  *)
(***************************************************************************)
EXTENDS Naturals, Sequences, FiniteSets, TLC, VerifEmit

CONSTANTS
    Mode,          \* "mc" | "edges" | "pairs" | "tree"
    Depth,         \* tree mode: number of hist entries at which a behaviour is emitted
    MaxCalls,      \* calls per session
    Calls,         \* the set of call records offered to the client (see cfg-specific sets below)
    Debug,         \* server SetDebugErrors
    HookMode,      \* "none" | "ok" | "panic_start" | "panic_end"
    PvSet,         \* server declares a protocol version
    Probes,        \* calls offered after the first one (what a failed call leaves behind shows here)
    Hang,          \* TRUE: sessions may end with a call whose response the client never reads
    DrainOnRefusal \* TRUE: parameter-mismatch / version-gate exits of a stream call drain the
                   \* client's input stream (the fixed design); FALSE: the code before the fix

VARIABLES
    pc,       \* server position: "read" | "gate" | "hook" | "params" | "unary" | "init" |
              \*                  "header" | "loop" | "close" | "hookend" | "dead"
    inq,      \* streams written by the client, not yet consumed: seq of [t, c] (t = "req"|"input")
    cur,      \* call being served
    out,      \* response streams written for the current call: seq of seq of batches
    ix,       \* stream loop: number of input batches consumed
    tx,       \* stream loop: number of state turns run
    herr,     \* handler error reported to the hook ("" = nil)
    jr,       \* user code that ran for the current call (journal)
    hk,       \* hook events for the current call
    ncalls,   \* calls issued so far
    closed,   \* client closed its write side
    hist

vars == <<pc, inq, cur, out, ix, tx, herr, jr, hk, ncalls, closed, hist>>

--------------------------------------------------------------------------
(* Batches: <<kind, a, b>>                                                 *)
(*   <<"log", level, msg>>   <<"data", value, 0>>   <<"void", 0, 0>>        *)
(*   <<"exc", exception_type, error_kind>>   <<"hdr", 0, 0>>               *)
Log(l, m) == <<"log", l, m>>
Data(v)   == <<"data", v, 0>>
Exc(t, k) == <<"exc", t, k>>

Prio(l) == CASE l = "EXCEPTION" -> 0 [] l = "ERROR" -> 1 [] l = "WARN" -> 2 [] l = "INFO" -> 3
             [] l = "DEBUG" -> 4 [] l = "TRACE" -> 5 [] OTHER -> 6
\* requested level "" means absent: the server defaults to TRACE
ReqPrio(l) == IF l = "" THEN 5 ELSE Prio(l)
\* the logs a handler emitted that the client asked to see, in emission order
Kept(logs, lvl) == SelectSeq(logs, LAMBDA e : Prio(e[1]) <= ReqPrio(lvl))
LogBatches(logs, lvl) == [i \in 1..Len(Kept(logs, lvl)) |-> Log(Kept(logs, lvl)[i][1], Kept(logs, lvl)[i][2])]

\* error outcome class of user code -> (exception_type, error_kind) on the wire
ErrOf(o) ==
    CASE o = "rpcerr"   -> <<"ValueError", "">>
      [] o = "rpcerrk"  -> <<"PermissionError", "custom_kind">>
      [] o = "plain"    -> <<"RuntimeError", "">>
      [] o = "wrapped"  -> <<"RuntimeError", "">>
      [] o = "custom"   -> <<"RuntimeError", "">>
      [] o = "panic"    -> <<"RuntimeError", "">>
      [] o = "panicerr" -> <<"RuntimeError", "">>
      [] OTHER          -> <<"RuntimeError", "">>
IsFail(o) == o \in {"rpcerr", "rpcerrk", "plain", "wrapped", "wraprpc", "wraptyped", "custom", "panic", "panicerr"}

IsStream(c) == c.k = "stream"


--------------------------------------------------------------------------
(* Call alphabets (chosen per cfg with  Calls <- ...).                     *)
Levels == {"ERROR", "INFO", "DEBUG"}
Msg(i) == IF i = 1 THEN "m1" ELSE "m2"
LogSeqs(n) == UNION { {[i \in 1..k |-> <<f[i], Msg(i)>>] : f \in [1..k -> Levels]} : k \in 0..n }
Outcomes == {"value", "rpcerr", "rpcerrk", "plain", "wrapped", "wraprpc", "wraptyped", "custom", "panic", "panicerr"}
PvOpts == IF PvSet THEN {"ok", "bad"} ELSE {"ok"}

UnaryCalls(nlogs, lvls) ==
    [k : {"unary"}, m : {"u_val", "u_void"}, pm : {"ok"}, pv : PvOpts, logs : LogSeqs(nlogs),
     lvl : lvls, o : Outcomes]
    \cup [k : {"unary"}, m : {"u_val", "u_void"}, pm : {"mismatch", "zrowloc"}, pv : PvOpts, logs : {<<>>},
          lvl : {""}, o : {"value"}]

PreSeqs(n) == UNION { [1..k -> {"emit", "emitlogs"}] : k \in 0..n }
ProdTerms == {"finish", "emitfinish", "error", "errlogs", "panic", "emitpanic", "noemit", "emit2"}
ExchTerms == {"finish", "error", "panic", "emitpanic", "noemit", "emit2"}
TurnSeqs(n, terms) == PreSeqs(n) \cup { p \o <<t>> : p \in PreSeqs(n), t \in terms }
HdrOf(m) == m \in {"prodh", "exchh"}
InCombos(nins) == { <<n, c>> \in nins \X (0..3) : c <= n }

TermsOf(m) == IF m \in {"prod", "prodh"} THEN ProdTerms ELSE ExchTerms
CastsOf(m, casts) == IF m \in {"prod", "prodh"} THEN {"eq"} ELSE casts
StreamOK(ms, npre, nins, casts, logsets) ==
    UNION { { [k |-> "stream", m |-> m, hdr |-> HdrOf(m), pm |-> "ok", pv |-> pv, init |-> "ok",
               logs |-> l, lvl |-> "", turns |-> t, nin |-> nc[1], cancel |-> nc[2], cast |-> ca] :
                pv \in PvOpts, l \in logsets, nc \in InCombos(nins), ca \in CastsOf(m, casts),
                t \in TurnSeqs(npre, TermsOf(m)) } : m \in ms }

StreamBad(ms, nins) ==
    { [k |-> "stream", m |-> m, hdr |-> HdrOf(m), pm |-> pm, pv |-> pv, init |-> i,
       logs |-> <<>>, lvl |-> "", turns |-> <<>>, nin |-> n, cancel |-> 0, cast |-> "eq"] :
        m \in ms, pv \in PvOpts, n \in nins,
        pm \in {"ok", "mismatch"}, i \in {"ok", "error", "panic", "nil"} }
    \ { c \in [k : {"stream"}, m : ms, hdr : BOOLEAN, pm : {"ok"}, pv : PvOpts, init : {"ok"},
                logs : {<<>>}, lvl : {""}, turns : {<<>>}, nin : nins, cancel : {0}, cast : {"eq"}] : TRUE }

Garbage == { [k |-> "garbage", g |-> g] :
               g \in {"nomethod", "noversion", "badversion", "tworows", "zerorows"} }
Misc == { [k |-> "describe"], [k |-> "unknown"] }

AllMs == {"prod", "prodh", "exch", "exchh"}
OneLog == { <<>>, << <<"INFO", "m1">> >> }

\* methods that DECLARE a header but whose init handler returns none: no header stream, the init
\* handler's logs travel on the main stream
NoHdrCalls == { [c EXCEPT !.hdr = FALSE] :
                c \in StreamOK({"prodh", "exchh"}, 1, {1, 3}, {"eq"}, { << <<"INFO", "m1">> >> }) }
QuickCalls == NoHdrCalls \cup UnaryCalls(1, {"", "EXCEPTION", "ERROR", "INFO"})
              \cup StreamOK({"prod", "exchh"}, 1, {0, 2}, {"eq", "bad"}, OneLog)
              \cup StreamOK({"prodh", "exch"}, 0, {1, 3}, {"castable"}, {<<>>})
              \cup StreamBad(AllMs, {0, 2}) \cup Garbage \cup Misc
FullCalls == UnaryCalls(2, {"", "EXCEPTION", "ERROR", "WARN", "INFO", "DEBUG", "TRACE"})
             \cup StreamOK(AllMs, 2, {0, 1, 2, 3}, {"eq", "castable", "bad"}, OneLog)
             \cup StreamBad(AllMs, {0, 1, 3}) \cup Garbage \cup Misc
\* probes: what comes after a call; one of each framing shape
ProbeCalls ==
    { [k |-> "unary", m |-> "u_val", pm |-> "ok", pv |-> "ok", logs |-> <<>>, lvl |-> "", o |-> "value"],
      [k |-> "stream", m |-> "prod", hdr |-> FALSE, pm |-> "ok", pv |-> "ok", init |-> "ok", logs |-> <<>>,
       lvl |-> "", turns |-> <<"emit", "emit">>, nin |-> 3, cancel |-> 0, cast |-> "eq"],
      [k |-> "stream", m |-> "exch", hdr |-> FALSE, pm |-> "ok", pv |-> "ok", init |-> "ok", logs |-> <<>>,
       lvl |-> "", turns |-> <<>>, nin |-> 2, cancel |-> 0, cast |-> "eq"] }
\* a small alphabet for exhaustive model checking of multi-call sessions
McCalls == UnaryCalls(0, {""})
           \cup StreamOK({"prod", "exch"}, 0, {0, 2}, {"eq", "bad"}, {<<>>})
           \cup StreamBad({"prod", "exchh"}, {0, 2}) \cup Garbage \cup Misc

--------------------------------------------------------------------------
Record(step) ==
    /\ hist' = IF Mode = "mc" THEN <<step>> ELSE Append(hist, step)
    /\ (Mode = "edges") => EmitTrace(hist')
    \* pairs: one session per (first call, probe); the View below keeps the first call apart
    /\ (Mode = "pairs" /\ ncalls = 2) => EmitTrace(hist')
    /\ (Mode = "tree" /\ Len(hist') = Depth) => EmitTrace(hist')
Silent == hist' = hist

--------------------------------------------------------------------------
(* Client.                                                                 *)
\* input stream of a stream call: nin batches, the cancel-th one (if any) carries vgi_rpc.cancel
InputOf(c) == [t |-> "input", c |-> c]

Call(c) ==
    /\ pc = "read" /\ inq = <<>> /\ ~closed /\ ncalls < MaxCalls
    /\ (Mode = "tree") => Len(hist) < Depth - 1
    /\ inq' = IF IsStream(c) THEN << [t |-> "req", c |-> c], InputOf(c) >>
                              ELSE << [t |-> "req", c |-> c] >>
    /\ ncalls' = ncalls + 1
    /\ UNCHANGED <<pc, cur, out, ix, tx, herr, jr, hk, closed>>
    /\ Silent

CloseConn ==
    /\ pc = "read" /\ inq = <<>> /\ ~closed
    \* seeded walks (tree mode): TLC's simulator picks among the disjuncts of Next, so an
    \* always-enabled close would end half of the walks at each read; close when the walk is full
    /\ (Mode = "tree") => ~(Len(hist) < Depth - 1 /\ ncalls < MaxCalls)
    /\ closed' = TRUE
    /\ UNCHANGED <<pc, inq, cur, out, ix, tx, herr, jr, hk, ncalls>>
    /\ Silent

(* A client that sends a call and closes its read end before the response: every write of the  *)
(* response fails, the serve loop ends.  Which write fails first (header, a log, a data batch)  *)
(* and how far the handler gets depend on buffering, so this one step abstracts all of them;    *)
(* what C37 demands regardless is that whatever dispatch was started is ended exactly once      *)
(* (hookbal), and C03 that the server ends the connection without a panic (ended).              *)
Hangup(c) ==
    /\ Hang /\ pc = "read" /\ inq = <<>> /\ ~closed /\ ncalls < MaxCalls
    /\ (Mode = "tree") => Len(hist) < Depth - 1
    /\ ncalls' = ncalls + 1 /\ closed' = TRUE /\ pc' = "dead"
    /\ UNCHANGED <<inq, cur, out, ix, tx, herr, jr, hk>>
    /\ Record([a |-> "Hangup", args |-> c, exp |-> [hookbal |-> TRUE, ended |-> "clean"]])

--------------------------------------------------------------------------
(* Server.  Finish(...) completes the current call: the response, the      *)
(* journal and the hook log become the step's predicted observation.       *)
ShapeOf(o) == [i \in 1..Len(o) |-> [j \in 1..Len(o[i]) |-> o[i][j][1]]]
Flat(o) == IF o = <<>> THEN <<>> ELSE
           LET RECURSIVE F(_) F(i) == IF i = 0 THEN <<>> ELSE F(i-1) \o o[i] IN F(Len(o))
LogsOf(o) == LET f == SelectSeq(Flat(o), LAMBDA b : b[1] = "log") IN [i \in 1..Len(f) |-> <<f[i][2], f[i][3]>>]
ValsOf(o) == LET f == SelectSeq(Flat(o), LAMBDA b : b[1] = "data") IN [i \in 1..Len(f) |-> f[i][2]]
ErrsOf(o) == LET f == SelectSeq(Flat(o), LAMBDA b : b[1] = "exc") IN [i \in 1..Len(f) |-> <<f[i][2], f[i][3]>>]

Finish(o, j, h, next) ==
    /\ pc' = next
    /\ out' = <<>> /\ jr' = <<>> /\ hk' = <<>> /\ herr' = "" /\ ix' = 0 /\ tx' = 0
    /\ LET base == [shape |-> ShapeOf(o), logs |-> LogsOf(o), vals |-> ValsOf(o),
                    errs |-> ErrsOf(o), journal |-> j, hooks |-> h,
                    tb |-> (Debug /\ ErrsOf(o) # <<>>), leak |-> 0, survived |-> TRUE]
           \* every log and exception batch of a unary call echoes the request id
           e == IF cur.k = "unary" THEN base @@ [rid |-> TRUE] ELSE base
       IN Record([a |-> "Call", args |-> cur, exp |-> e])

\* ---- ReadRequest (wire.go): consume one stream, drained to EOS before validation
ReadRequest_OK ==
    /\ pc = "read" /\ inq # <<>> /\ Head(inq).t = "req"
    /\ Head(inq).c.k \in {"unary", "stream", "describe", "unknown"}
    /\ cur' = Head(inq).c /\ inq' = Tail(inq)
    /\ pc' = "gate"
    /\ UNCHANGED <<out, ix, tx, herr, jr, hk, ncalls, closed>> /\ Silent

\* malformed-but-parseable request: answered with a typed error after the drain
GarbageErr(g) ==
    CASE g = "nomethod"   -> <<"ProtocolError", "">>
      [] g = "badutf8"    -> <<"ProtocolError", "">>
      [] g = "noversion"  -> <<"VersionError", "">>
      [] g = "badversion" -> <<"VersionError", "">>
      [] g = "tworows"    -> <<"ProtocolError", "">>
      [] g = "zerorows"   -> <<"ProtocolError", "">>
      [] OTHER            -> <<"ProtocolError", "">>

ReadRequest_RpcError ==
    /\ pc = "read" /\ inq # <<>> /\ Head(inq).t = "req" /\ Head(inq).c.k = "garbage"
    /\ cur' = Head(inq).c /\ inq' = Tail(inq)
    /\ LET e == GarbageErr(Head(inq).c.g) IN
       /\ pc' = "read"
       /\ out' = <<>> /\ jr' = <<>> /\ hk' = <<>> /\ herr' = "" /\ ix' = 0 /\ tx' = 0
       /\ Record([a |-> "Call", args |-> Head(inq).c,
                  exp |-> [shape |-> << <<"exc">> >>, logs |-> <<>>, vals |-> <<>>,
                           errs |-> << e >>, journal |-> <<>>, hooks |-> <<>>,
                           tb |-> Debug, leak |-> 0, survived |-> TRUE]])
    /\ UNCHANGED <<ncalls, closed>>

\* client closed: io.EOF ends the serve loop cleanly
ReadRequest_EOF ==
    /\ pc = "read" /\ inq = <<>> /\ closed
    /\ pc' = "dead"
    /\ UNCHANGED <<inq, cur, out, ix, tx, herr, jr, hk, ncalls, closed>>
    /\ Record([a |-> "Close", args |-> [x |-> 0],
               exp |-> [exited |-> TRUE, extra |-> 0, leak |-> 0]])

\* An input stream where a request was expected: the previous call left it behind.
\* Only reachable when DrainOnRefusal = FALSE; what follows is outside the contract.
ReadRequest_Misframed ==
    /\ pc = "read" /\ inq # <<>> /\ Head(inq).t = "input"
    /\ pc' = "dead"
    /\ UNCHANGED <<inq, cur, out, ix, tx, herr, jr, hk, ncalls, closed>> /\ Silent

\* ---- serveOne after ReadRequest
Describe ==
    /\ pc = "gate" /\ cur.k = "describe"
    /\ Finish(<< <<Data("describe")>> >>, <<>>, <<>>, "read")
    /\ UNCHANGED <<inq, cur, ncalls, closed>>

UnknownMethod ==
    /\ pc = "gate" /\ cur.k = "unknown"
    /\ Finish(<< <<Exc("AttributeError", "MethodNotImplementedError")>> >>, <<>>, <<>>, "read")
    /\ UNCHANGED <<inq, cur, ncalls, closed>>

Gated == cur.k \in {"unary", "stream"}

VersionGate_Pass ==
    /\ pc = "gate" /\ Gated /\ (~PvSet \/ cur.pv = "ok")
    /\ pc' = "hook"
    /\ UNCHANGED <<inq, cur, out, ix, tx, herr, jr, hk, ncalls, closed>> /\ Silent

\* refusal happens before the dispatch hook starts; a stream call's input stream is on the wire
VersionGate_Refuse ==
    /\ pc = "gate" /\ Gated /\ PvSet /\ cur.pv # "ok"
    /\ inq' = IF IsStream(cur) /\ DrainOnRefusal THEN Tail(inq) ELSE inq
    /\ Finish(<< <<Exc("ProtocolVersionError", "protocol_version_mismatch")>> >>, <<>>, <<>>, "read")
    /\ UNCHANGED <<cur, ncalls, closed>>

HookStart ==
    /\ pc = "hook"
    /\ hk' = CASE HookMode = "none" -> <<>>
               [] HookMode = "panic_start" -> << <<"start_panicked", cur.m>> >>
               [] OTHER -> << <<"start", cur.m>> >>
    /\ pc' = "params"
    /\ UNCHANGED <<inq, cur, out, ix, tx, herr, jr, ncalls, closed>> /\ Silent

\* hook end runs iff start returned normally; err is non-nil iff the response reports an error
HookEvents(h, m, e) ==
    IF HookMode \in {"ok", "panic_end"} THEN Append(h, <<"end", m, e # "">>) ELSE h

ParamsMismatch ==
    /\ pc = "params" /\ cur.pm # "ok"   \* "mismatch": another schema; "zrowloc": an unresolved zero-row pointer batch
    /\ inq' = IF IsStream(cur) /\ DrainOnRefusal THEN Tail(inq) ELSE inq
    /\ Finish(<< <<Exc("TypeError", "")>> >>, <<>>, HookEvents(hk, cur.m, "TypeError"), "read")
    /\ UNCHANGED <<cur, ncalls, closed>>

ParamsOK ==
    /\ pc = "params" /\ cur.pm = "ok"
    /\ pc' = IF IsStream(cur) THEN "init" ELSE "unary"
    /\ UNCHANGED <<inq, cur, out, ix, tx, herr, jr, hk, ncalls, closed>> /\ Silent

\* ---- serveUnary
Unary_Value ==
    /\ pc = "unary" /\ ~IsFail(cur.o)
    /\ LET res == IF cur.m = "u_void" THEN <<"void", 0, 0>> ELSE Data("x") IN
       Finish(<< LogBatches(cur.logs, cur.lvl) \o <<res>> >>, <<"unary">>, HookEvents(hk, cur.m, ""), "read")
    /\ UNCHANGED <<inq, cur, ncalls, closed>>

Unary_Error ==
    /\ pc = "unary" /\ IsFail(cur.o)
    /\ LET e == ErrOf(cur.o) IN
       Finish(<< LogBatches(cur.logs, cur.lvl) \o <<Exc(e[1], e[2])>> >>, <<"unary">>,
              HookEvents(hk, cur.m, e[1]), "read")
    /\ UNCHANGED <<inq, cur, ncalls, closed>>

\* ---- serveStream: init
Init_Fail ==
    /\ pc = "init" /\ cur.init # "ok"
    /\ LET e == IF cur.init = "error" THEN <<"ValueError", "">> ELSE <<"RuntimeError", "">> IN
       \* the error is written inside the data stream; then the client's input stream is drained
       /\ inq' = Tail(inq)
       /\ Finish(<< <<Exc(e[1], e[2])>> >>, <<"init">>, HookEvents(hk, cur.m, e[1]), "read")
    /\ UNCHANGED <<cur, ncalls, closed>>

Init_OK ==
    /\ pc = "init" /\ cur.init = "ok"
    /\ jr' = <<"init">>
    /\ pc' = "header"
    /\ UNCHANGED <<inq, cur, out, ix, tx, herr, hk, ncalls, closed>> /\ Silent

\* header (when the method declares one) is its own stream and carries the init logs;
\* otherwise the init logs open the data stream
WriteHeader ==
    /\ pc = "header"
    /\ out' = IF cur.hdr
              THEN << LogBatches(cur.logs, cur.lvl) \o << <<"hdr", 0, 0>> >>, <<>> >>
              ELSE << LogBatches(cur.logs, cur.lvl) >>
    /\ pc' = "loop"
    /\ UNCHANGED <<inq, cur, ix, tx, herr, jr, hk, ncalls, closed>> /\ Silent

\* ---- serveStream: lockstep loop.  The data stream is the last element of out.
AddOut(bs) == [out EXCEPT ![Len(out)] = out[Len(out)] \o bs]
IsProd == cur.m \in {"prod", "prodh"}
\* outcome of the turn about to run: the script, then the default
TurnOutcome == IF tx < Len(cur.turns) THEN cur.turns[tx + 1]
               ELSE IF IsProd THEN "finish" ELSE "emit"

InputEOS ==
    /\ pc = "loop" /\ ix = cur.nin
    /\ pc' = "close"
    /\ UNCHANGED <<inq, cur, out, ix, tx, herr, jr, hk, ncalls, closed>> /\ Silent

Cancel ==
    /\ pc = "loop" /\ ix < cur.nin /\ cur.cancel = ix + 1
    /\ jr' = Append(jr, "cancel")
    /\ ix' = ix + 1
    /\ pc' = "close"
    /\ UNCHANGED <<inq, cur, out, tx, herr, hk, ncalls, closed>> /\ Silent

CastFail ==
    /\ pc = "loop" /\ ix < cur.nin /\ cur.cancel # ix + 1 /\ ~IsProd /\ cur.cast = "bad"
    /\ out' = AddOut(<< Exc("TypeError", "") >>)
    /\ herr' = "TypeError"
    /\ ix' = ix + 1
    /\ pc' = "close"
    /\ UNCHANGED <<inq, cur, tx, jr, hk, ncalls, closed>> /\ Silent

TurnLogs(t) == IF t \in {"emitlogs"} THEN << Log("INFO", "turn") >> ELSE <<>>

Turn ==
    /\ pc = "loop" /\ ix < cur.nin /\ cur.cancel # ix + 1 /\ (IsProd \/ cur.cast # "bad")
    /\ LET t == TurnOutcome
           call == IF IsProd THEN "produce" ELSE "exchange"
           val == IF IsProd THEN tx + 1 ELSE ix + 1 IN
       /\ jr' = Append(jr, call)
       /\ ix' = ix + 1 /\ tx' = tx + 1
       /\ CASE t \in {"emit", "emitlogs", "emitmeta"} ->
                 /\ out' = AddOut(TurnLogs(t) \o << Data(val) >>)
                 /\ pc' = "loop" /\ herr' = herr
            [] t = "finish" /\ IsProd ->
                 /\ out' = out /\ pc' = "close" /\ herr' = herr
            [] t = "emitfinish" /\ IsProd ->
                 /\ out' = AddOut(<< Data(val) >>) /\ pc' = "close" /\ herr' = herr
            [] t = "finish" /\ ~IsProd ->
                 \* Finish is refused on an exchange: the state gets an error and returns it
                 /\ out' = AddOut(<< Exc("RuntimeError", "") >>) /\ pc' = "close" /\ herr' = "RuntimeError"
            [] t = "error" ->
                 /\ out' = AddOut(<< Exc("ValueError", "") >>) /\ pc' = "close" /\ herr' = "ValueError"
            [] t = "errlogs" ->
                 \* logs emitted through the collector before a failing turn are discarded
                 /\ out' = AddOut(<< Exc("ValueError", "") >>) /\ pc' = "close" /\ herr' = "ValueError"
            \* a turn that fails after emitting delivers nothing but the exception
            [] t \in {"panic", "emitpanic", "noemit", "emit2"} ->
                 /\ out' = AddOut(<< Exc("RuntimeError", "") >>) /\ pc' = "close" /\ herr' = "RuntimeError"
    /\ UNCHANGED <<inq, cur, hk, ncalls, closed>> /\ Silent

\* EOS on the data stream, then drain whatever is left of the client's input stream
CloseAndDrain ==
    /\ pc = "close"
    /\ inq' = Tail(inq)
    /\ Finish(out, jr, HookEvents(hk, cur.m, herr), "read")
    /\ UNCHANGED <<cur, ncalls, closed>>

Init ==
    /\ pc = "read" /\ inq = <<>> /\ cur = [k |-> "none"] /\ out = <<>> /\ ix = 0 /\ tx = 0
    /\ herr = "" /\ jr = <<>> /\ hk = <<>> /\ ncalls = 0 /\ closed = FALSE
    /\ hist = << [a |-> "Init",
                  args |-> [debug |-> Debug, hook |-> HookMode, pvset |-> PvSet],
                  exp |-> [ok |-> TRUE]] >>

Server == ReadRequest_OK \/ ReadRequest_RpcError \/ ReadRequest_EOF \/ ReadRequest_Misframed
          \/ Describe \/ UnknownMethod \/ VersionGate_Pass \/ VersionGate_Refuse \/ HookStart
          \/ ParamsMismatch \/ ParamsOK \/ Unary_Value \/ Unary_Error
          \/ Init_Fail \/ Init_OK \/ WriteHeader \/ InputEOS \/ Cancel \/ CastFail \/ Turn
          \/ CloseAndDrain

\* the first call of a session is drawn from Calls, every later one from Probes (membership
\* tests against these large sets are avoided: TLC re-enumerates them per test)
Next == \/ (ncalls = 0 /\ \E c \in Calls : Call(c) \/ Hangup(c))
        \/ (ncalls > 0 /\ \E c \in Probes : Call(c) \/ Hangup(c))
        \/ CloseConn \/ Server

Spec == Init /\ [][Next]_vars
FairSpec == Spec /\ WF_vars(Server)

--------------------------------------------------------------------------
(* Properties.                                                             *)

\* C02: whenever the server is about to read a request, the next thing on the wire is the
\* first stream of a request -- nothing a previous call left behind.
InFrame == (pc = "read" /\ inq # <<>>) => Head(inq).t = "req"
\* ... and the loop never dies while the client is still talking
NeverMisframed == pc = "dead" => (closed /\ inq = <<>>)

Last == hist'[Len(hist')]
IsCallStep == hist' # hist /\ Last.a = "Call"

\* C02: exactly one complete response per call: an optional header stream then one data stream
OneResponse ==
    [][ IsCallStep =>
          LET s == Last.exp.shape IN
          /\ Len(s) \in {1, 2}
          /\ Len(s) = 2 => (Last.args.k = "stream" /\ Last.args.hdr /\ s[1][Len(s[1])] = "hdr")
          /\ \A i \in 1..Len(s[Len(s)]) : s[Len(s)][i] # "hdr" ]_vars

\* C04: unary: kept logs in emission order, then exactly one result (value/void) or exactly one
\* exception and no result
UnaryContract ==
    [][ (IsCallStep /\ Last.args.k = "unary" /\ Last.args.pm = "ok" /\ (~PvSet \/ Last.args.pv = "ok")) =>
          LET s == Last.exp.shape[1]
              n == Len(s) IN
          /\ Len(Last.exp.shape) = 1
          /\ \A i \in 1..(n-1) : s[i] = "log"
          /\ Last.exp.logs = [i \in 1..Len(Kept(Last.args.logs, Last.args.lvl)) |->
                                 <<Kept(Last.args.logs, Last.args.lvl)[i][1], Kept(Last.args.logs, Last.args.lvl)[i][2]>>]
          /\ IF IsFail(Last.args.o)
             THEN s[n] = "exc" /\ Last.exp.vals = <<>> /\ Len(Last.exp.errs) = 1
             ELSE s[n] \in {"data", "void"} /\ Last.exp.errs = <<>> ]_vars

\* C05: no Go type name on the wire: the type is the RpcError's, a framework wire name, or
\* RuntimeError
WireTypes == {"ValueError", "PermissionError", "TypeError", "RuntimeError", "AttributeError",
              "ProtocolError", "VersionError", "ProtocolVersionError", "IOError", "SerializationError"}
ErrorTypeStable ==
    [][ IsCallStep => \A i \in 1..Len(Last.exp.errs) : Last.exp.errs[i][1] \in WireTypes ]_vars

\* C06: lockstep. Data batches never outnumber consumed inputs; an exchange answers every input
\* it ran with exactly one data batch unless the turn failed; at most one exception, and it is
\* the last batch; cancel runs the hook once and no turn after it.
Count(s, x) == Cardinality({i \in 1..Len(s) : s[i] = x})
Lockstep ==
    [][ (IsCallStep /\ Last.args.k = "stream" /\ Last.args.pm = "ok" /\ Last.args.init = "ok"
           /\ (~PvSet \/ Last.args.pv = "ok")) =>
          LET s == Last.exp.shape[Len(Last.exp.shape)]
              j == Last.exp.journal
              turns == Count(j, "produce") + Count(j, "exchange") IN
          /\ Count(s, "data") <= turns
          /\ turns <= Last.args.nin
          /\ Count(s, "exc") <= 1
          /\ Count(s, "exc") = 1 => s[Len(s)] = "exc"
          /\ (Last.args.m \in {"exch", "exchh"} /\ Count(s, "exc") = 0) => Count(s, "data") = turns
          /\ Count(j, "cancel") <= 1
          /\ Count(j, "cancel") = 1 => j[Len(j)] = "cancel"
          /\ (Count(j, "cancel") = 1) => (turns = Last.args.cancel - 1) ]_vars

\* C37: a hook whose start returned has exactly one end, with err non-nil iff an exception
\* batch went to the client
HookBalanced ==
    [][ IsCallStep =>
          LET h == Last.exp.hooks IN
          IF Len(h) > 0 /\ h[1][1] = "start" /\ HookMode \in {"ok", "panic_end"}
          THEN /\ Len(h) = 2 /\ h[2][1] = "end" /\ h[2][2] = h[1][2]
               /\ h[2][3] = (Last.exp.errs # <<>>)
          ELSE \A i \in 1..Len(h) : h[i][1] # "end" ]_vars

\* every call the client issued is eventually answered and the loop ends when the client closes
Answered == (inq # <<>>) ~> (inq = <<>> /\ pc \in {"read", "dead"})

\* The server keeps nothing from one call to the next, so all first calls lead to the same state and
\* "edges" yields each probe once.  What a call leaves on the wire is exactly what C02 is about, so
\* Mode = "pairs" distinguishes states by the first call of the session: every first call is then
\* followed by every probe in some emitted session.
View == <<pc, inq, cur, out, ix, tx, herr, jr, hk, ncalls, closed,
          IF Mode = "pairs" /\ Len(hist) > 1 THEN hist[2].args ELSE 0>>
=============================================================================
