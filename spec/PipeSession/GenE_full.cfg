SPECIFICATION Spec
CONSTANTS
    Mode = "edges"
    Depth = 0
    MaxCalls = 1
    Calls <- FullCalls
    Probes <- ProbeCalls
    Debug = FALSE
    HookMode = "ok"
    PvSet = FALSE
    Hang = FALSE
    DrainOnRefusal = TRUE
VIEW View
CHECK_DEADLOCK FALSE
