SPECIFICATION Spec
CONSTANTS
    Mode = "edges"
    Depth = 0
    MaxCalls = 2
    Calls <- McCalls
    Probes <- ProbeCalls
    Debug = FALSE
    HookMode = "panic_start"
    PvSet = FALSE
    Hang = FALSE
    DrainOnRefusal = TRUE
VIEW View
CHECK_DEADLOCK FALSE
