SPECIFICATION Spec
CONSTANTS
    Mode = "tree"
    Depth = 12
    MaxCalls = 9
    Calls <- FullCalls
    Probes <- FullCalls
    Debug = FALSE
    HookMode = "ok"
    PvSet = FALSE
    DrainOnRefusal = TRUE

CHECK_DEADLOCK FALSE
