SPECIFICATION Spec
CONSTANTS
    Mode = "tree"
    Depth = 12
    MaxCalls = 12
    Calls <- QuickCalls
    Probes <- QuickCalls
    Debug = FALSE
    HookMode = "ok"
    PvSet = FALSE
    Hang = FALSE
    DrainOnRefusal = TRUE

CHECK_DEADLOCK FALSE
