SPECIFICATION Spec
CONSTANTS
    Tokens = {"zstd", "gzip", "identity", "unk", "empty"}
    MaxLen = 3
    Levels <- LevelsFull
    ValidLevels = {1, 2, 3, 4}
    DefaultLevel = 1
    Contents = {"arrow", "html", "json", "emptyarrow", "preflight"}
    DirectSets = {{}, {"zstd"}, {"gzip"}, {"zstd", "gzip"}}
    Mode = "mc"
    Depth = 0
VIEW View
INVARIANTS TypeOK AdvertisedIsProduced
PROPERTIES WhenCompressed NegotiatedInClientOrder NonArrowNeverCompressed Lossless DirectInClientOrder AdvertisedObserved
CHECK_DEADLOCK FALSE
