SPECIFICATION Spec
CONSTANTS
    Tokens = {"zstd", "gzip", "identity"}
    MaxLen = 3
    Levels <- LevelsNone
    ValidLevels = {1, 2, 3, 4}
    DefaultLevel = 1
    Contents = {"arrow"}
    DirectSets = {{"gzip"}}
    Mode = "mc"
    Depth = 0
VIEW View
INVARIANTS TypeOK AdvertisedIsProduced
PROPERTIES WhenCompressed NegotiatedInClientOrder NonArrowNeverCompressed Lossless DirectInClientOrder AdvertisedObserved
CHECK_DEADLOCK FALSE
