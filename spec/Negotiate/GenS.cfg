SPECIFICATION Spec
CONSTANTS
    Tokens = {"zstd", "gzip", "identity", "unk"}
    MaxLen = 2
    Levels <- LevelsFull
    ValidLevels = {1, 2, 3, 4}
    DefaultLevel = 1
    Contents = {"arrow", "html", "json", "emptyarrow", "preflight"}
    DirectSets = {}
    Mode = "tree"
    Depth = 25
CHECK_DEADLOCK FALSE
