SPECIFICATION Spec
CONSTANTS
    Tokens = {"zstd", "gzip", "identity"}
    MaxLen = 3
    Levels <- LevelsNone
    ValidLevels = {1, 2, 3, 4}
    DefaultLevel = 1
    Contents = {"arrow"}
    DirectSets = {}
    Mode = "edges"
    Depth = 0
VIEW View
CHECK_DEADLOCK FALSE
