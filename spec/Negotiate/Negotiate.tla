------------------------------ MODULE Negotiate ------------------------------
(***************************************************************************)
(* Response-compression negotiation of vgi-rpc-go's HTTP transport          *)
(* (vgirpc/http_compression.go, HttpServer.ServeHTTP in vgirpc/http.go).    *)
(*                                                                         *)
(* The server holds a compression level and the capability value rendered  *)
(* from it (VGI-Supported-Encodings).  A request carries two accept        *)
(* headers, X-VGI-Accept-Encoding ("custom") and Accept-Encoding            *)
(* ("standard"); the response is compressed with the negotiated codec only *)
(* when it is a non-empty Arrow body, and the codec is stamped either in   *)
(* Content-Encoding or in X-VGI-Content-Encoding.                           *)
(*                                                                         *)
(* The operators of the first half are written the way the code computes   *)
(* (parse -> de-duplicate -> merge -> walk; finish()'s canCompress); the    *)
(* property C17 is stated declaratively in the second half and model-      *)
(* checked against them.                                                    *)
(*                                                                         *)
(* A header is a sequence of ABSTRACT tokens                                *)
(*   "zstd" | "gzip" | "identity" | "unk" (a coding this build does not     *)
(*   speak) | "empty" (nothing between two commas).                         *)
(* Letter case, optional white space and ";q=" parameters are not part of  *)
(* the abstract token: the harness draws them when it renders the header   *)
(* string, and the specification says they make no difference.              *)
(***************************************************************************)
EXTENDS Integers, Sequences, FiniteSets, TLC, VerifEmit

CONSTANTS
    Tokens,        \* abstract tokens a client may list
    MaxLen,        \* at most this many tokens per header
    Levels,        \* arguments offered to SetCompressionLevel
    ValidLevels,   \* levels the zstd encoder constructor accepts (klauspost: 1..4)
    DefaultLevel,  \* level of a freshly constructed HttpServer
    Contents,      \* response classes, subset of
                   \*   {"arrow", "html", "json", "emptyarrow", "preflight"}
    DirectSets,    \* producible sets offered to the direct call of chooseResponseEncoding
    Mode,          \* "mc" | "edges" | "tree"
    Depth          \* tree mode: emit behaviours of exactly this length

VARIABLES
    level,         \* HttpServer.zstdEncoderLevel
    advertised,    \* HttpServer.supportedEncodingsValue, as the sequence of codecs it renders
    hist           \* observation/history variable: sequence of step records

vars == <<level, advertised, hist>>

Codecs == {"zstd", "gzip"}
SupportedEncodings == <<"zstd", "gzip">>   \* the server's own order (never the pick order)
CE  == "Content-Encoding"
XCE == "X-VGI-Content-Encoding"

Range(s) == {s[i] : i \in 1..Len(s)}
Headers == UNION {[1..n -> Tokens] : n \in 0..MaxLen}

\* response classes
IsArrow(c)  == c \in {"arrow", "emptyarrow"}          \* Content-Type is the Arrow stream type
NonEmpty(c) == c \in {"arrow", "html", "json"}         \* the handler wrote at least one byte

--------------------------------------------------------------------------
(* Configuration: applyCompressionLevel / producibleResponseEncodings.     *)

ProducibleResponseEncodings(lv) == IF lv <= 0 THEN <<>> ELSE SupportedEncodings

\* every write of the level goes through here and re-renders the capability
ApplyCompressionLevel(l) ==
    LET lv == IF l < 0 THEN 0 ELSE l IN
    /\ level' = lv
    /\ advertised' = ProducibleResponseEncodings(lv)

--------------------------------------------------------------------------
(* parseAcceptEncoding: split at commas; (trim, strip parameters, lower-    *)
(* case: the concretisation); drop empties; first occurrence wins.          *)
ParseAcceptEncoding(h) ==
    LET P[i \in 0..Len(h)] ==
            IF i = 0 THEN <<>>
            ELSE LET out == P[i-1]  tok == h[i] IN
                 IF tok = "empty" THEN out
                 ELSE IF tok \in Range(out) THEN out
                 ELSE Append(out, tok)
    IN P[Len(h)]

(* chooseResponseEncoding(custom, standard, producible):                    *)
(* result [enc, onlyCustom, why]; enc = "" means identity.                  *)
ChooseResponseEncoding(custom, standard, producible) ==
    LET ct == ParseAcceptEncoding(custom)
        st == ParseAcceptEncoding(standard)
    IN
    IF Len(ct) = 0 /\ Len(st) = 0
    THEN [enc |-> "", onlyCustom |-> FALSE, why |-> "NoOffer"]
    ELSE
    LET merged == ct \o SelectSeq(st, LAMBDA t : t \notin Range(ct))
        Walk[i \in 1..(Len(merged) + 1)] ==
            IF i > Len(merged)
            THEN [enc |-> "", onlyCustom |-> FALSE, why |-> "NothingProducible"]
            ELSE IF merged[i] = "identity"
            THEN [enc |-> "", onlyCustom |-> FALSE, why |-> "IdentityOptOut"]
            ELSE IF merged[i] \notin Range(producible)
            THEN Walk[i + 1]
            ELSE [enc |-> merged[i],
                  onlyCustom |-> (merged[i] \in Range(ct)) /\ (merged[i] \notin Range(st)),
                  why |-> "Chosen"]
    IN Walk[1]

(* newCompressWriter / codecPool: which encoder the pool hands out.         *)
GzipLevelFor(z) == IF z > 9 THEN 9 ELSE IF z < 1 THEN -1 ELSE z
EncoderFor(enc, lv) ==
    IF enc = "zstd" THEN [ok |-> lv \in ValidLevels, codec |-> "zstd"]
    ELSE IF enc = "gzip" THEN [ok |-> GzipLevelFor(lv) \in (-2..9), codec |-> "gzip"]
    ELSE [ok |-> FALSE, codec |-> ""]

(* A body on the wire is [enc, of]: payload `of` passed through coding      *)
(* `enc` ("" = as is).  A coding is an invertible function; reading a body *)
(* under another coding than the one applied yields garbage.                *)
Read(coding, wire) == IF wire.enc = coding THEN wire.of ELSE "garbage"

(* ServeHTTP (capability header, preflight exit, negotiation) followed by  *)
(* compressResponseWriter.finish.  c is the response class the route        *)
(* produces; the payload is identified with c.                              *)
ServeHTTP(lv, adv, c, custom, standard) ==
    LET Plain(b) == [branch |-> b, codec |-> "", stamp |-> "none",
                     wire |-> [enc |-> "", of |-> c], adv |-> adv]
    IN
    IF c = "preflight" THEN Plain("Preflight")           \* OPTIONS answers 204 before negotiation
    ELSE LET producible == ProducibleResponseEncodings(lv) IN
    IF Len(producible) = 0 THEN Plain("CompressionOff")
    ELSE LET r == ChooseResponseEncoding(custom, standard, producible) IN
    IF r.enc = "" THEN Plain(r.why)                        \* mux serves the plain writer
    ELSE IF ~IsArrow(c) THEN Plain("PassThrough_NotArrow") \* finish: canCompress is false
    ELSE IF ~NonEmpty(c) THEN Plain("PassThrough_EmptyBody")
    ELSE LET w == EncoderFor(r.enc, lv) IN
         [branch |-> "Compress", codec |-> r.enc,
          stamp |-> IF r.onlyCustom THEN XCE ELSE CE,
          \* the header is stamped before the encoder is checked out; a failed
          \* checkout leaves a stamped response without a body
          wire |-> IF w.ok THEN [enc |-> w.codec, of |-> c] ELSE [enc |-> "", of |-> "nothing"],
          adv |-> adv]

--------------------------------------------------------------------------
(* Observations.                                                            *)
Sorted(S) == SelectSeq(<<"gzip", "identity", "unk", "zstd">>, LAMBDA c : c \in S)
Render(adv) == IF Len(adv) = 0 THEN ""
               ELSE IF Len(adv) = 1 THEN adv[1] ELSE adv[1] \o ", " \o adv[2]

\* what single-codec probes of the configured server show: the codecs it answers with
Probe(lv, adv) ==
    Sorted({c \in Codecs \cup {"unk"} : ServeHTTP(lv, adv, "arrow", <<>>, <<c>>).codec = c})

ConfigObs(ok, lv, adv) ==
    [set_ok |-> ok, adv |-> Sorted(Range(adv)), adv_header |-> Render(adv),
     produces |-> Probe(lv, adv)]

ServeObs(c, r) ==
    LET lossless == Read(r.codec, r.wire) = c IN
    IF c = "emptyarrow"
    THEN \* whether an empty Arrow body is left alone is not part of C17: not judged
         [impl_stamp |-> r.stamp, impl_codec |-> r.codec, lossless |-> lossless,
          adv |-> Sorted(Range(r.adv)), adv_header |-> Render(r.adv)]
    ELSE [stamp |-> r.stamp, codec |-> r.codec, lossless |-> lossless,
          adv |-> Sorted(Range(r.adv)), adv_header |-> Render(r.adv)]

--------------------------------------------------------------------------
Record(step) ==
    /\ hist' = Append(hist, step)
    /\ (Mode = "edges") => EmitTrace(hist')
    /\ (Mode = "tree" /\ Len(hist') = Depth) => EmitTrace(hist')

Budget == (Mode = "tree") => Len(hist) < Depth

(* SetCompressionLevel, one action per exit.                                *)
SetCompressionLevel_Off(l) ==
    /\ Budget
    /\ l <= 0
    /\ ApplyCompressionLevel(0)
    /\ Record([a |-> "SetCompressionLevel_Off", args |-> [level |-> l],
               exp |-> ConfigObs(TRUE, level', advertised')])

SetCompressionLevel_Rejected(l) ==       \* the probe encoder cannot be built
    /\ Budget
    /\ l > 0 /\ l \notin ValidLevels
    /\ UNCHANGED <<level, advertised>>
    /\ Record([a |-> "SetCompressionLevel_Rejected", args |-> [level |-> l],
               exp |-> ConfigObs(FALSE, level, advertised)])

SetCompressionLevel_Apply(l) ==
    /\ Budget
    /\ l > 0 /\ l \in ValidLevels
    /\ ApplyCompressionLevel(l)
    /\ Record([a |-> "SetCompressionLevel_Apply", args |-> [level |-> l],
               exp |-> ConfigObs(TRUE, level', advertised')])

(* One request; one action per exit of ServeHTTP / finish.                  *)
Serve(b, c, cu, st) ==
    /\ Budget
    /\ LET r == ServeHTTP(level, advertised, c, cu, st) IN
       /\ r.branch = b
       /\ UNCHANGED <<level, advertised>>
       /\ Record([a |-> "Serve_" \o b,
                  args |-> [content |-> c, custom |-> cu, standard |-> st],
                  exp |-> ServeObs(c, r)])

Serve_Preflight(c, cu, st)             == Serve("Preflight", c, cu, st)
Serve_CompressionOff(c, cu, st)        == Serve("CompressionOff", c, cu, st)
Serve_NoOffer(c, cu, st)               == Serve("NoOffer", c, cu, st)
Serve_IdentityOptOut(c, cu, st)        == Serve("IdentityOptOut", c, cu, st)
Serve_NothingProducible(c, cu, st)     == Serve("NothingProducible", c, cu, st)
Serve_PassThrough_NotArrow(c, cu, st)  == Serve("PassThrough_NotArrow", c, cu, st)
Serve_PassThrough_EmptyBody(c, cu, st) == Serve("PassThrough_EmptyBody", c, cu, st)
Serve_Compress(c, cu, st)              == Serve("Compress", c, cu, st)

ServeActions == {"Serve_Preflight", "Serve_CompressionOff", "Serve_NoOffer",
                 "Serve_IdentityOptOut", "Serve_NothingProducible",
                 "Serve_PassThrough_NotArrow", "Serve_PassThrough_EmptyBody", "Serve_Compress"}

(* Direct calls of the two pure functions (server state plays no part, so  *)
(* they are enumerated once, right after Init).  The producible argument   *)
(* can be narrower than any configuration of today's server makes it.       *)
AsServerSeq(P) == SelectSeq(SupportedEncodings, LAMBDA c : c \in P)

ChooseDirect(cu, st, P) ==
    /\ Budget
    /\ Len(hist) = 1
    /\ UNCHANGED <<level, advertised>>
    /\ LET r == ChooseResponseEncoding(cu, st, AsServerSeq(P)) IN
       Record([a |-> "ChooseDirect",
               args |-> [custom |-> cu, standard |-> st, producible |-> AsServerSeq(P)],
               exp |-> [codec |-> r.enc,
                        stamp |-> IF r.enc = "" THEN "none"
                                  ELSE IF r.onlyCustom THEN XCE ELSE CE]])

ParseDirect(h) ==
    /\ Budget
    /\ Len(hist) = 1
    /\ DirectSets # {}
    /\ UNCHANGED <<level, advertised>>
    /\ Record([a |-> "ParseDirect", args |-> [header |-> h],
               exp |-> [tokens |-> ParseAcceptEncoding(h)]])

Init ==
    /\ level = DefaultLevel
    /\ advertised = ProducibleResponseEncodings(DefaultLevel)
    /\ hist = << [a |-> "Init", args |-> [default_level |-> DefaultLevel],
                  exp |-> ConfigObs(TRUE, DefaultLevel,
                                    ProducibleResponseEncodings(DefaultLevel))] >>

Next ==
    \/ \E l \in Levels : \/ SetCompressionLevel_Off(l)
                         \/ SetCompressionLevel_Rejected(l)
                         \/ SetCompressionLevel_Apply(l)
    \/ \E c \in Contents, cu \in Headers, st \in Headers :
          \/ Serve_Preflight(c, cu, st)
          \/ Serve_CompressionOff(c, cu, st)
          \/ Serve_NoOffer(c, cu, st)
          \/ Serve_IdentityOptOut(c, cu, st)
          \/ Serve_NothingProducible(c, cu, st)
          \/ Serve_PassThrough_NotArrow(c, cu, st)
          \/ Serve_PassThrough_EmptyBody(c, cu, st)
          \/ Serve_Compress(c, cu, st)
    \/ \E cu \in Headers, st \in Headers, P \in DirectSets : ChooseDirect(cu, st, P)
    \/ \E h \in Headers : ParseDirect(h)

Spec == Init /\ [][Next]_vars

--------------------------------------------------------------------------
(* C17, declaratively.                                                      *)
(*                                                                         *)
(* The client's preference order is its listing: the custom header first,  *)
(* then the standard header.  The server can always answer "identity" and  *)
(* can answer a codec when it can produce it.  The response coding is the  *)
(* acceptable coding listed first; when that is identity, or nothing       *)
(* acceptable is listed, the body is not compressed.                        *)

Listing(custom, standard) == custom \o standard

FirstIdx(s, t) == CHOOSE i \in 1..Len(s) : s[i] = t /\ \A j \in 1..(i-1) : s[j] # t

Preferred(custom, standard, P) ==
    LET s == Listing(custom, standard)
        C == {t \in P \cup {"identity"} : t \in Range(s)}
    IN IF C = {} THEN "none"
       ELSE CHOOSE t \in C : \A u \in C : FirstIdx(s, t) <= FirstIdx(s, u)

SpecCodec(custom, standard, P) ==
    LET w == Preferred(custom, standard, P)
    IN IF w \in {"none", "identity"} THEN "" ELSE w

\* Content-Encoding unless the codec was offered only on the custom header
SpecStamp(codec, custom, standard) ==
    IF codec = "" THEN "none"
    ELSE IF codec \in Range(custom) /\ codec \notin Range(standard) THEN XCE
    ELSE CE

\* what the configured server can produce
CanProduce(lv) == IF lv > 0 THEN Codecs ELSE {}

\* the codecs the server would actually answer some request with
WouldProduce(lv, adv) ==
    {ServeHTTP(lv, adv, c, cu, st).codec :
        c \in Contents, cu \in Headers, st \in Headers} \ {""}

Last == hist'[Len(hist')]
IsServe(s) == s.a \in ServeActions
CodecOf(s) == IF s.args.content = "emptyarrow" THEN s.exp.impl_codec ELSE s.exp.codec
StampOf(s) == IF s.args.content = "emptyarrow" THEN s.exp.impl_stamp ELSE s.exp.stamp

\* "When a response is compressed, ... the codec is the first one the server can
\* produce in the client's preference order ...; an identity listed earlier
\* disables compression.  The codec is stamped in Content-Encoding unless it was
\* offered only on the custom header" - for every response, of whatever class.
WhenCompressed ==
    [][ (IsServe(Last) /\ CodecOf(Last) # "") =>
          /\ CodecOf(Last) = SpecCodec(Last.args.custom, Last.args.standard, CanProduce(level))
          /\ StampOf(Last) = SpecStamp(CodecOf(Last), Last.args.custom, Last.args.standard) ]_vars

\* a non-empty Arrow response IS compressed exactly when the preference order says so
NegotiatedInClientOrder ==
    [][ (IsServe(Last) /\ Last.args.content = "arrow") =>
          /\ Last.exp.codec = SpecCodec(Last.args.custom, Last.args.standard, CanProduce(level))
          /\ Last.exp.stamp = SpecStamp(Last.exp.codec, Last.args.custom, Last.args.standard) ]_vars

\* non-Arrow bodies are never compressed (and nothing is stamped on them)
NonArrowNeverCompressed ==
    [][ (IsServe(Last) /\ ~IsArrow(Last.args.content)) =>
          /\ Last.exp.codec = "" /\ Last.exp.stamp = "none" ]_vars

\* a stamp names the coding of the body, no stamp means the body is the payload
Lossless ==
    [][ IsServe(Last) => /\ Last.exp.lossless
                         /\ (StampOf(Last) = "none") <=> (CodecOf(Last) = "") ]_vars

\* the function itself, for every producible set
DirectInClientOrder ==
    [][ (Last.a = "ChooseDirect") =>
          /\ Last.exp.codec = SpecCodec(Last.args.custom, Last.args.standard,
                                        Range(Last.args.producible))
          /\ Last.exp.stamp = SpecStamp(Last.exp.codec, Last.args.custom, Last.args.standard) ]_vars

\* the advertised capability equals the set the server would actually produce
AdvertisedIsProduced ==
    /\ Range(advertised) = WouldProduce(level, advertised)
    /\ Range(advertised) = CanProduce(level)

AdvertisedObserved ==
    [][ /\ Last.a \notin {"ChooseDirect", "ParseDirect"} => Last.exp.adv = Sorted(CanProduce(level'))
        /\ Last.a \notin (ServeActions \cup {"ChooseDirect", "ParseDirect"})
              => Last.exp.produces = Last.exp.adv ]_vars

\* the stored level always has encoders (SetCompressionLevel validates before storing)
TypeOK ==
    /\ level \in {0} \cup ValidLevels
    /\ advertised \in {<<>>, SupportedEncodings}

View == <<level, advertised>>

(* Level sets for the cfgs (a cfg file cannot spell a negative number).     *)
LevelsFull  == {-1, 0, 1, 2, 3, 4, 5, 9, 11, 12}
LevelsQuick == {-1, 0, 1, 4, 9}
LevelsOne   == {4}
LevelsNone  == {}
=============================================================================
