SPECIFICATION Spec
CONSTANTS
    Tokens = {"zstd", "gzip", "identity", "unk", "empty"}
    MaxLen = 3
    Levels <- LevelsOne
    ValidLevels = {1, 2, 3, 4}
    DefaultLevel = 1
    Contents = {"arrow"}
    DirectSets = {{"gzip"}}
    Mode = "edges"
    Depth = 0
VIEW View
CHECK_DEADLOCK FALSE
