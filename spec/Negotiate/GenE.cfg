SPECIFICATION Spec
CONSTANTS
    Tokens = {"zstd", "gzip", "identity", "unk", "empty"}
    MaxLen = 2
    Levels <- LevelsQuick
    ValidLevels = {1, 2, 3, 4}
    DefaultLevel = 1
    Contents = {"arrow", "html", "json", "emptyarrow", "preflight"}
    DirectSets = {{"zstd"}, {"gzip"}}
    Mode = "edges"
    Depth = 0
VIEW View
CHECK_DEADLOCK FALSE
