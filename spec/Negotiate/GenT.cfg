SPECIFICATION Spec
CONSTANTS
    Tokens = {"zstd", "gzip", "identity"}
    MaxLen = 1
    Levels <- LevelsQuick
    ValidLevels = {1, 2, 3, 4}
    DefaultLevel = 1
    Contents = {"arrow", "html"}
    DirectSets = {}
    Mode = "tree"
    Depth = 4
CHECK_DEADLOCK FALSE
