SPECIFICATION Spec
CONSTANTS
    Mode = "edges"
    Depth = 0
    Parts = {"bearer", "xfcc", "cn"}
    Unescape = "quote"
    BearerTail = 4
    XKeys = {"K_hash", "K_cert", "K_subject", "K_uri", "K_dns", "K_by", "K_chain"}
    XAtoms = {"c", "COMMA", "SEMI", "EQ", "Q", "SP", "PC", "PQ", "PN", "ESC", "ESCBS"}
    XLen = 2
    XElems = 3
    XPairs = 3
    XSlots = 3
    XWs = {FALSE, TRUE}
    X2Keys = {}
    X2Atoms = {}
    CnAtoms = {"c0", "ESC", "EQ", "SP", "ESCBS"}
    CnLen = 3
    NoiseSyms = {}
    NoiseLen = 0
VIEW View
PROPERTIES BearerExact XfccAgreesWithGrammar XfccIdentityIsCN
CHECK_DEADLOCK FALSE
