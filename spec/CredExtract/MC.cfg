SPECIFICATION Spec
CONSTANTS
    Mode = "mc"
    Depth = 0
    Parts = {"bearer", "xfcc", "xfcc2", "cn", "noise"}
    Unescape = "quote"
    BearerTail = 3
    XKeys = {"K_hash", "K_cert", "K_subject", "K_uri", "K_dns", "K_by", "K_chain"}
    XAtoms = {"c", "COMMA", "SEMI", "EQ", "Q", "SP", "PC", "PQ", "ESC", "ESCBS"}
    XLen = 2
    XElems = 2
    XPairs = 2
    XSlots = 2
    XWs = {FALSE, TRUE}
    X2Keys = {"K_hash", "K_cert"}
    X2Atoms = {"c", "COMMA", "Q", "ESC", "ESCBS"}
    CnAtoms = {"c0", "ESC", "EQ", "SP", "ESCBS"}
    CnLen = 2
    NoiseSyms = {"K_hash", "K_cert", "EQ", "Q", "BS", "COMMA", "SEMI", "SP", "c1", "PC"}
    NoiseLen = 3
VIEW View
PROPERTIES BearerExact XfccAgreesWithGrammar XfccIdentityIsCN
CHECK_DEADLOCK FALSE
