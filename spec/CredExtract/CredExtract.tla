----------------------------- MODULE CredExtract -----------------------------
(***************************************************************************)
(* Credential extractors of vgi-rpc-go (C24).                              *)
(*                                                                         *)
(*   BearerAuthenticate / BearerAuthenticateStatic      vgirpc/bearer.go   *)
(*   ParseXfcc / splitRespectingQuotes / unescapeQuoted                    *)
(*   extractCN / MtlsAuthenticateXfcc                   vgirpc/mtls.go     *)
(*                                                                         *)
(* Strings are sequences of lexical TOKENS.  The Go driver turns every     *)
(* token into bytes (an injective, fixed-length concretisation drawn from  *)
(* the seed), so equality of token sequences is equality of byte strings.  *)
(*                                                                         *)
(*   "Bearer" "bearer" "BEARER" "Basic"   scheme words                     *)
(*   "x" "y"        token chunks;  "x1" = x with one byte changed,         *)
(*                  "X" = x with the case of one letter flipped            *)
(*   "K_hash" ...   XFCC key names (matched case-insensitively)            *)
(*   "EQ" "Q" "BS" "COMMA" "SEMI" "SP" "TAB" "NL"   = " \ , ; space tab \n *)
(*   "PC" "PQ" "PN" the percent escapes %2C %22 %0A                        *)
(*   "CN" "cn" "O"  attribute types of a distinguished name                *)
(*   any other      an opaque chunk of letters and digits                  *)
(*                                                                         *)
(* The XFCC header GRAMMAR is Envoy's: a header is elements separated by   *)
(* ",", an element is key=value pairs separated by ";", a value that       *)
(* contains , ; or = is double-quoted, and a double quote inside a quoted  *)
(* value is written \" (nothing else is an escape: a backslash of an RFC   *)
(* 2253 subject such as CN=Doe\, John travels as it is).  Render writes an *)
(* abstract header down in that grammar; ParseXfcc is the code's           *)
(* algorithm, character by character, over the rendered tokens; the        *)
(* property says the two are inverse.                                      *)
(***************************************************************************)
EXTENDS Naturals, Sequences, FiniteSets, TLC, VerifEmit

CONSTANTS
    Mode, Depth,
    Parts,        \* subset of {"bearer", "xfcc", "xfcc2", "cn", "noise"}
    Unescape,     \* "quote": only \" is an escape (the grammar); "any": \x -> x for every x (mtls.go as found)
    BearerTail,   \* after "Bearer ": every sequence of <= BearerTail tail symbols
    XKeys,        \* keys offered to the focus pair
    XAtoms,       \* value atoms offered to the focus pair
    XLen,         \* focus value: <= XLen atoms
    XElems, XPairs, XSlots,   \* header shapes: <= XElems elements of <= XPairs pairs, <= XSlots pairs in all
    XWs,          \* subset of BOOLEAN: optional whitespace after separators
    X2Keys, X2Atoms,          \* two focus pairs (part "xfcc2"): their keys and (single) atoms
    CnAtoms, CnLen,           \* CN values: <= CnLen atoms
    NoiseSyms, NoiseLen       \* part "noise": every token string of <= NoiseLen symbols

VARIABLES pc, hist
vars == <<pc, hist>>

--------------------------------------------------------------------------
(* Generic helpers on token sequences.                                     *)
SeqsUpTo(S, n) == UNION {[1..m -> S] : m \in 0..n}

RECURSIVE Cat(_)
Cat(ss) == IF ss = <<>> THEN <<>> ELSE Head(ss) \o Cat(Tail(ss))

Min(S) == CHOOSE m \in S : \A n \in S : m <= n
Max(S) == CHOOSE m \in S : \A n \in S : m >= n

\* strings.TrimSpace
RECURSIVE TrimL(_)
TrimL(s) == IF s # <<>> /\ Head(s) \in {"SP", "TAB", "NL"} THEN TrimL(Tail(s)) ELSE s
RECURSIVE TrimR(_)
TrimR(s) == IF s # <<>> /\ s[Len(s)] \in {"SP", "TAB", "NL"} THEN TrimR(SubSeq(s, 1, Len(s) - 1)) ELSE s
Trim(s) == TrimR(TrimL(s))

\* strings.IndexByte, 1-based, 0 when absent
IndexOf(s, ch) == LET I == {i \in DOMAIN s : s[i] = ch} IN IF I = {} THEN 0 ELSE Min(I)

Record(step) ==
    /\ hist' = Append(hist, step)
    /\ (Mode = "edges") => EmitTrace(hist')
    /\ (Mode = "tree" /\ Len(hist') = Depth) => EmitTrace(hist')

Budget == (Mode = "tree") => Len(hist) < Depth

Done == pc' = "done"

--------------------------------------------------------------------------
(*                              BEARER                                     *)
--------------------------------------------------------------------------
TokUniverse == { <<>>, <<"x">>, <<"x", "y">>, <<"y">> }
TokenSets == {T \in SUBSET TokUniverse : T # {} /\ Cardinality(T) <= 3}

TailSyms == {"x", "y", "x1", "X", "SP", "TAB"}
GoodPrefix == <<"Bearer", "SP">>
BrokenPrefixes == { <<"bearer", "SP">>, <<"BEARER", "SP">>, <<"Bearer">>, <<"Bearer", "TAB">>,
                    <<"SP", "Bearer", "SP">>, <<"Basic", "SP">>, <<>> }

\* header values presented to an authenticator configured with token set T
BearerHeaders(T) ==
    {GoodPrefix \o tail : tail \in SeqsUpTo(TailSyms, BearerTail)}
      \cup {p \o t : p \in BrokenPrefixes, t \in T}

\* strings.HasPrefix(authHeader, "Bearer ")
HasBearerPrefix(h) == Len(h) >= 2 /\ h[1] = "Bearer" /\ h[2] = "SP"

\* the constant-time scan: every entry compared, first match kept (keys of a map are distinct)
ScanMatch(T, tok) == {t \in T : t = tok}

BearerStep(name, T, present, h, accept, ident, why) ==
    /\ Done
    /\ Record([a |-> name,
               args |-> [tokens |-> T, present |-> present, hdr |-> h],
               exp |-> [accept |-> accept, identity |-> ident, err_type |-> why]])

Bearer_Missing(T, present) ==          \* r.Header.Get("Authorization") == ""
    /\ pc = "idle" /\ Budget
    /\ BearerStep("Bearer_Missing", T, present, <<>>, FALSE, "none", "ValueError")

Bearer_NotBearerScheme(T, h) ==        \* !strings.HasPrefix(authHeader, "Bearer ")
    /\ pc = "idle" /\ Budget
    /\ h # <<>> /\ ~HasBearerPrefix(h)
    /\ BearerStep("Bearer_NotBearerScheme", T, TRUE, h, FALSE, "none", "ValueError")

Bearer_UnknownToken(T, h) ==           \* match == nil after the scan
    /\ pc = "idle" /\ Budget
    /\ h # <<>> /\ HasBearerPrefix(h)
    /\ ScanMatch(T, SubSeq(h, 3, Len(h))) = {}
    /\ BearerStep("Bearer_UnknownToken", T, TRUE, h, FALSE, "none", "ValueError")

Bearer_Match(T, h) ==                  \* return match, nil
    /\ pc = "idle" /\ Budget
    /\ h # <<>> /\ HasBearerPrefix(h)
    /\ LET M == ScanMatch(T, SubSeq(h, 3, Len(h))) IN
       /\ M # {}
       /\ BearerStep("Bearer_Match", T, TRUE, h, TRUE, [tok |-> CHOOSE t \in M : TRUE], "")

BearerNext ==
    \E T \in TokenSets :
       \/ \E present \in BOOLEAN : Bearer_Missing(T, present)
       \/ \E h \in BearerHeaders(T) :
             \/ Bearer_NotBearerScheme(T, h)
             \/ Bearer_UnknownToken(T, h)
             \/ Bearer_Match(T, h)

--------------------------------------------------------------------------
(*                          XFCC: the grammar                              *)
--------------------------------------------------------------------------
KeyToks == {"K_hash", "K_cert", "K_subject", "K_uri", "K_dns", "K_by", "K_chain"}
DecodedKeys == {"K_cert", "K_uri", "K_by"}       \* the URL-encoded fields

\* value atoms -> content characters; "ESC" is an RFC 2253 escaped comma, "ESCBS" an RFC 2253
\* escaped backslash (a subject whose value ends in a backslash ends  \\\\  right before the
\* closing quote: the backslashes of a subject always come in pairs)
Expand(atom) == CASE atom = "ESC" -> <<"BS", "COMMA">> [] atom = "ESCBS" -> <<"BS", "BS">> [] OTHER -> <<atom>>
Content(atoms) == Cat([i \in DOMAIN atoms |-> Expand(atoms[i])])

\* a value must be quoted when it contains a separator, "=", a quote or a backslash,
\* or when it starts/ends with whitespace
NeedsQuote(s) ==
    \/ \E i \in DOMAIN s : s[i] \in {"COMMA", "SEMI", "EQ", "Q", "BS"}
    \/ (s # <<>> /\ (s[1] = "SP" \/ s[Len(s)] = "SP"))

Vals(atoms, n) ==
    {[q |-> q, s |-> Content(as)] : as \in SeqsUpTo(atoms, n), q \in BOOLEAN}
      \ {v \in [q : {FALSE}, s : {Content(as) : as \in SeqsUpTo(atoms, n)}] : NeedsQuote(v.s)}

\* a double quote inside a quoted value is written \" ; nothing else is touched
EscapeQuotes(s) == Cat([i \in DOMAIN s |-> IF s[i] = "Q" THEN <<"BS", "Q">> ELSE <<s[i]>>])

RenderVal(p) == IF p.q THEN <<"Q">> \o EscapeQuotes(p.s) \o <<"Q">> ELSE p.s
RenderPair(p) == <<p.key, "EQ">> \o RenderVal(p)

RECURSIVE Join(_, _)
Join(parts, sep) ==
    IF Len(parts) = 0 THEN <<>>
    ELSE IF Len(parts) = 1 THEN parts[1]
    ELSE parts[1] \o sep \o Join(Tail(parts), sep)

RenderElem(el, ws) ==
    Join([i \in DOMAIN el |-> RenderPair(el[i])], IF ws THEN <<"SEMI", "SP">> ELSE <<"SEMI">>)
Render(h) ==
    Join([i \in DOMAIN h.elems |-> RenderElem(h.elems[i], h.ws)], IF h.ws THEN <<"COMMA", "SP">> ELSE <<"COMMA">>)

(* what the grammar says the header means (declarative) *)
UrlDecode(s) == [i \in DOMAIN s |-> CASE s[i] = "PC" -> "COMMA" [] s[i] = "PQ" -> "Q"
                                      [] s[i] = "PN" -> "NL" [] OTHER -> s[i]]

FieldOf(el, key) ==          \* keys other than DNS occur at most once per element (by construction)
    LET I == {i \in DOMAIN el : el[i].key = key} IN
    IF I = {} THEN <<>>
    ELSE LET v == el[CHOOSE i \in I : TRUE].s IN IF key \in DecodedKeys THEN UrlDecode(v) ELSE v

DnsOf(el) == LET d == SelectSeq(el, LAMBDA p : p.key = "K_dns") IN [i \in DOMAIN d |-> d[i].s]

Meaning(h) ==
    [i \in DOMAIN h.elems |->
        [hash |-> FieldOf(h.elems[i], "K_hash"), cert |-> FieldOf(h.elems[i], "K_cert"),
         subject |-> FieldOf(h.elems[i], "K_subject"), uri |-> FieldOf(h.elems[i], "K_uri"),
         dns |-> DnsOf(h.elems[i]), by |-> FieldOf(h.elems[i], "K_by")]]

--------------------------------------------------------------------------
(*                  XFCC: the parser, as mtls.go does it                   *)
--------------------------------------------------------------------------
\* splitRespectingQuotes(text, delimiter)
RECURSIVE SplitRQ(_, _, _, _, _)
SplitRQ(text, d, i, inq, cur) ==
    IF i > Len(text) THEN <<cur>>
    ELSE LET ch == text[i] IN
         IF ch = "Q" THEN SplitRQ(text, d, i + 1, ~inq, Append(cur, ch))
         ELSE IF ch = "BS" /\ inq /\ i + 1 <= Len(text)
              THEN SplitRQ(text, d, i + 2, inq, cur \o <<ch, text[i + 1]>>)
         ELSE IF ch = d /\ ~inq THEN <<cur>> \o SplitRQ(text, d, i + 1, inq, <<>>)
         ELSE SplitRQ(text, d, i + 1, inq, Append(cur, ch))

Split(text, d) == SplitRQ(text, d, 1, FALSE, <<>>)

\* unescapeQuoted.  As found: regexp \\(.) -> $1 ("." does not match a newline).
\* The grammar knows one escape only.
Escapable(ch) == IF Unescape = "any" THEN ch # "NL" ELSE ch = "Q"

RECURSIVE UnescapeFrom(_, _)
UnescapeFrom(t, i) ==
    IF i > Len(t) THEN <<>>
    ELSE IF t[i] = "BS" /\ i < Len(t) /\ Escapable(t[i + 1])
         THEN <<t[i + 1]>> \o UnescapeFrom(t, i + 2)
         ELSE <<t[i]>> \o UnescapeFrom(t, i + 1)

StripQuotes(v) ==
    IF Len(v) >= 2 /\ v[1] = "Q" /\ v[Len(v)] = "Q"
    THEN UnescapeFrom(SubSeq(v, 2, Len(v) - 1), 1)
    ELSE v

\* one "key=value" pair of an element
PairKV(raw) ==
    LET p == Trim(raw)  eq == IndexOf(p, "EQ") IN
    IF p = <<>> \/ eq = 0 THEN [ok |-> FALSE, key |-> "?", val |-> <<>>]
    ELSE LET k == Trim(SubSeq(p, 1, eq - 1))
             key == IF Len(k) = 1 /\ k[1] \in KeyToks THEN k[1] ELSE "?"
             v == StripQuotes(Trim(SubSeq(p, eq + 1, Len(p))))
         IN [ok |-> TRUE, key |-> key, val |-> IF key \in DecodedKeys THEN UrlDecode(v) ELSE v]

EmptyElem == [hash |-> <<>>, cert |-> <<>>, subject |-> <<>>, uri |-> <<>>, dns |-> <<>>, by |-> <<>>]

Assign(el, kv) ==
    CASE kv.key = "K_hash"    -> [el EXCEPT !.hash = kv.val]
      [] kv.key = "K_cert"    -> [el EXCEPT !.cert = kv.val]
      [] kv.key = "K_subject" -> [el EXCEPT !.subject = kv.val]
      [] kv.key = "K_uri"     -> [el EXCEPT !.uri = kv.val]
      [] kv.key = "K_dns"     -> [el EXCEPT !.dns = Append(@, kv.val)]
      [] kv.key = "K_by"      -> [el EXCEPT !.by = kv.val]
      [] OTHER                -> el          \* unknown key (Chain, ...): ignored

RECURSIVE FoldPairs(_, _, _)
FoldPairs(pairs, i, el) ==
    IF i > Len(pairs) THEN el
    ELSE LET kv == PairKV(pairs[i]) IN FoldPairs(pairs, i + 1, IF kv.ok THEN Assign(el, kv) ELSE el)

ParseXfcc(text) ==
    LET parts == Split(text, "COMMA")
        raws  == [i \in DOMAIN parts |-> Trim(parts[i])]
        keep  == SelectSeq(raws, LAMBDA r : r # <<>>)
    IN [i \in DOMAIN keep |-> FoldPairs(Split(keep[i], "SEMI"), 1, EmptyElem)]

\* extractCN: regexp (?:\\.|[^,])+ finds the comma-separated parts, a backslash takes
\* the next character with it; the first part that reads CN=<something> wins
RECURSIVE DnParts(_, _, _)
DnParts(s, i, cur) ==
    LET flush == IF cur = <<>> THEN <<>> ELSE <<cur>> IN
    IF i > Len(s) THEN flush
    ELSE IF s[i] = "BS" /\ i < Len(s) /\ s[i + 1] # "NL" THEN DnParts(s, i + 2, cur \o <<s[i], s[i + 1]>>)
    ELSE IF s[i] = "COMMA" THEN flush \o DnParts(s, i + 1, <<>>)
    ELSE DnParts(s, i + 1, Append(cur, s[i]))

ExtractCN(subject) ==
    LET parts == DnParts(subject, 1, <<>>)
        tr    == [i \in DOMAIN parts |-> Trim(parts[i])]
        I     == {i \in DOMAIN tr : Len(tr[i]) >= 3 /\ tr[i][1] \in {"CN", "cn"} /\ tr[i][2] = "EQ"}
    IN IF I = {} THEN <<>> ELSE SubSeq(tr[Min(I)], 3, Len(tr[Min(I)]))

\* the harness compares common names with RFC 2253 comma escapes removed, so that an
\* implementation may return either  Doe\, John  or  Doe, John  -- but not  Doe
RECURSIVE DropCommaEscapes(_)
DropCommaEscapes(s) ==
    IF s = <<>> THEN <<>>
    ELSE IF Len(s) >= 2 /\ s[1] = "BS" /\ s[2] = "COMMA" THEN <<"COMMA">> \o DropCommaEscapes(SubSeq(s, 3, Len(s)))
    ELSE <<s[1]>> \o DropCommaEscapes(Tail(s))

\* class of a rendered header, for finding signatures: does a quoted value carry a
\* backslash that is not the \" escape?
HasForeignBackslash(text) ==
    \E i \in DOMAIN text : text[i] = "BS" /\ (i = Len(text) \/ text[i + 1] # "Q")
ClassOf(text) == IF HasForeignBackslash(text) THEN "backslash" ELSE "plain"

--------------------------------------------------------------------------
(*              XFCC: the headers TLC builds from the grammar              *)
--------------------------------------------------------------------------
\* element sizes, e.g. <<2, 1>> = two pairs, then one pair
Sum(f) == LET RECURSIVE S(_) S(i) == IF i = 0 THEN 0 ELSE f[i] + S(i - 1) IN S(Len(f))
Shapes == {sh \in UNION {[1..n -> 1..XPairs] : n \in 1..XElems} : Sum(sh) <= XSlots}

SlotNo(sh, e, p) == Sum(SubSeq(sh, 1, e - 1)) + p
Positions(sh) == {x \in (DOMAIN sh) \X (1..XPairs) : x[2] <= sh[x[1]]}

ChunkName(prefix, n) == prefix \o ToString(n)

\* every pair that is not under test is DNS=<chunk>: multi-valued, so it never collides
Filler(n) == [key |-> "K_dns", q |-> FALSE, s |-> <<ChunkName("f", n)>>]

\* the plain atom "c" of a value in slot n becomes the chunk c<n>
Localise(v, n) == [q |-> v.q, s |-> [i \in DOMAIN v.s |-> IF v.s[i] = "c" THEN ChunkName("c", n) ELSE v.s[i]]]

BuildHeader(sh, focus, ws) ==      \* focus: function from a set of positions to [key, q, s]
    [ws |-> ws,
     elems |-> [e \in DOMAIN sh |->
                 [p \in 1..sh[e] |->
                    LET n == SlotNo(sh, e, p) IN
                    IF <<e, p>> \in DOMAIN focus
                    THEN LET v == Localise(focus[<<e, p>>], n) IN [key |-> focus[<<e, p>>].key, q |-> v.q, s |-> v.s]
                    ELSE Filler(n)]]]

FocusPairs(keys, vals) == {[key |-> k, q |-> v.q, s |-> v.s] : k \in keys, v \in vals}

\* no key other than DNS twice in one element (the grammar does not say which would win)
NoDuplicateKeys(h) ==
    \A e \in DOMAIN h.elems : \A i, j \in DOMAIN h.elems[e] :
        (i # j /\ h.elems[e][i].key = h.elems[e][j].key) => h.elems[e][i].key = "K_dns"

ParseStep(name, h, text) ==
    /\ Done
    /\ Record([a |-> name, cls |-> ClassOf(text),
               args |-> [hdr |-> h, text |-> text],
               exp |-> [elems |-> ParseXfcc(text), count |-> Len(ParseXfcc(text)), total |-> TRUE]])

\* one pair under test, everywhere in every shape
Xfcc_Parse1 ==
    /\ pc = "idle" /\ Budget
    /\ \E sh \in Shapes, ws \in XWs : \E pos \in Positions(sh) :
       \E fp \in FocusPairs(XKeys, Vals(XAtoms, XLen)) :
          LET h == BuildHeader(sh, [x \in {pos} |-> fp], ws) IN
          ParseStep("Xfcc_Parse", h, Render(h))

\* two pairs under test (errors of the quote state that cancel out)
Xfcc_Parse2 ==
    /\ pc = "idle" /\ Budget
    /\ \E sh \in Shapes, ws \in XWs : \E pos1, pos2 \in Positions(sh) :
       /\ SlotNo(sh, pos1[1], pos1[2]) < SlotNo(sh, pos2[1], pos2[2])
       /\ \E fp1, fp2 \in FocusPairs(X2Keys, Vals(X2Atoms, 1)) :
            LET h == BuildHeader(sh, (pos1 :> fp1) @@ (pos2 :> fp2), ws) IN
            /\ NoDuplicateKeys(h)
            /\ ParseStep("Xfcc_Parse", h, Render(h))

\* arbitrary token strings: the parser is total, and the model above predicts it
Xfcc_ParseNoise ==
    /\ pc = "idle" /\ Budget
    /\ \E text \in SeqsUpTo(NoiseSyms, NoiseLen) :
          /\ Done
          /\ Record([a |-> "Xfcc_ParseNoise", cls |-> ClassOf(text),
                     args |-> [text |-> text],
                     exp |-> [total |-> TRUE, noise_elems |-> ParseXfcc(text)]])

--------------------------------------------------------------------------
(*                 XFCC: the default identity (CN of subject)              *)
--------------------------------------------------------------------------
CnVals ==
    {v \in {Content(as) : as \in SeqsUpTo(CnAtoms, CnLen)} :
        v # <<>> /\ v[1] # "SP" /\ v[Len(v)] # "SP"}

\* organisation values: a harmless one, and one whose escaped comma is followed by
\* text that reads like another RDN
OVals == { <<"o1">>, <<"o1", "BS", "COMMA", "CN", "EQ", "z9">> }

Rdn(attr, val) == [attr |-> attr, val |-> val]

\* distinguished names with at most one CN
DNs ==
    {<<Rdn("CN", v)>> : v \in CnVals}
      \cup {<<Rdn("CN", v), Rdn("O", o)>> : v \in CnVals, o \in OVals}
      \cup {<<Rdn("O", o), Rdn("CN", v)>> : v \in CnVals, o \in OVals}
      \cup {<<Rdn("O", o), Rdn("cn", v)>> : v \in CnVals, o \in {<<"o1">>}}
      \cup {<<Rdn("O", o)>> : o \in OVals}

RenderDn(dn, ws) ==
    Join([i \in DOMAIN dn |-> <<dn[i].attr, "EQ">> \o dn[i].val], IF ws THEN <<"COMMA", "SP">> ELSE <<"COMMA">>)

\* the common name of a DN, by structure
CnOf(dn) ==
    LET I == {i \in DOMAIN dn : dn[i].attr \in {"CN", "cn"}} IN
    IF I = {} THEN <<>> ELSE dn[CHOOSE i \in I : TRUE].val

\* an element carrying subject dn between two other fields; the empty DN = no Subject pair at all
NoSubject == <<>>
SubjectElem(dn, n, ws) ==
    IF dn = NoSubject
    THEN << [key |-> "K_hash", q |-> FALSE, s |-> <<ChunkName("h", n)>>] >>
    ELSE << [key |-> "K_hash", q |-> FALSE, s |-> <<ChunkName("h", n)>>],
            [key |-> "K_subject", q |-> TRUE, s |-> RenderDn(dn, ws)],
            [key |-> "K_uri", q |-> FALSE, s |-> <<ChunkName("u", n)>>] >>

Distractor(n) == <<Rdn("CN", <<ChunkName("d", n)>>), Rdn("O", <<"o2">>)>>

\* n elements; the one the configuration selects carries dn, the others a distractor
CnHeader(n, sel, dn, ws) ==
    LET at == IF sel = "last" THEN n ELSE 1 IN
    [ws |-> ws,
     elems |-> [e \in 1..n |-> IF e = at THEN SubjectElem(dn, e, ws) ELSE SubjectElem(Distractor(e), e, ws)],
     dns |-> [e \in 1..n |-> IF e = at THEN dn ELSE Distractor(e)]]

AuthStep(name, args, text, accept, principal) ==
    /\ Done
    /\ Record([a |-> name, cls |-> ClassOf(text), args |-> args,
               exp |-> [xaccept |-> accept, principal |-> principal,
                        domain |-> IF accept THEN "mtls" ELSE "", err_type |-> IF accept THEN "" ELSE "ValueError"]])

Xfcc_Auth_Missing ==                 \* r.Header.Get(...) == ""
    /\ pc = "idle" /\ Budget
    /\ \E present \in BOOLEAN, sel \in {"", "first", "last"} :
          AuthStep("Xfcc_Auth_Missing", [present |-> present, text |-> <<>>, sel |-> sel], <<>>, FALSE, <<>>)

Xfcc_Auth_Empty ==                   \* len(ParseXfcc(headerValue)) == 0
    /\ pc = "idle" /\ Budget
    /\ \E text \in {<<"SP">>, <<"COMMA">>, <<"SP", "COMMA", "SP">>, <<"COMMA", "COMMA">>}, sel \in {"", "last"} :
          /\ ParseXfcc(text) = <<>>
          /\ AuthStep("Xfcc_Auth_Empty", [present |-> TRUE, text |-> text, sel |-> sel], text, FALSE, <<>>)

Xfcc_Auth_Default ==                 \* Validate == nil: principal := extractCN(elem.Subject)
    /\ pc = "idle" /\ Budget
    /\ \E n \in 1..XElems, sel \in {"", "first", "last"}, ws \in XWs, dn \in DNs \cup {NoSubject} :
          LET h == CnHeader(n, sel, dn, ws)
              text == Render(h)
              els == ParseXfcc(text)
              el == IF sel = "last" THEN els[Len(els)] ELSE els[1]
          IN /\ els # <<>>
             /\ AuthStep("Xfcc_Auth_Default", [present |-> TRUE, text |-> text, sel |-> sel, hdr |-> h],
                         text, TRUE, DropCommaEscapes(ExtractCN(el.subject)))

--------------------------------------------------------------------------
Init ==
    /\ pc = "idle"
    /\ hist = << [a |-> "Init", args |-> [Unescape |-> Unescape]] >>

Next ==
    \/ /\ "bearer" \in Parts /\ pc = "idle" /\ BearerNext
    \/ /\ "xfcc" \in Parts /\ Xfcc_Parse1
    \/ /\ "xfcc2" \in Parts /\ Xfcc_Parse2
    \/ /\ "noise" \in Parts /\ Xfcc_ParseNoise
    \/ /\ "cn" \in Parts /\ (Xfcc_Auth_Missing \/ Xfcc_Auth_Empty \/ Xfcc_Auth_Default)

Spec == Init /\ [][Next]_vars

View == pc

--------------------------------------------------------------------------
(*                        C24, stated declaratively                        *)
--------------------------------------------------------------------------
Last == hist'[Len(hist')]

\* "accepts a request exactly when the Authorization header is 'Bearer ' followed by one
\*  of the configured tokens byte-for-byte, and then yields that token's identity"
BearerExact ==
    [][ Last.a \in {"Bearer_Missing", "Bearer_NotBearerScheme", "Bearer_UnknownToken", "Bearer_Match"} =>
          LET T == Last.args.tokens
              h == Last.args.hdr
              hit == {t \in T : Last.args.present /\ h = <<"Bearer", "SP">> \o t}
          IN /\ Last.exp.accept <=> (hit # {})
             /\ Last.exp.accept => Last.exp.identity.tok \in hit ]_vars

\* "the XFCC parser agrees with the header grammar for every input -- quoted commas and
\*  semicolons never split an element, URL-encoded fields are decoded"
XfccAgreesWithGrammar ==
    [][ Last.a = "Xfcc_Parse" =>
          /\ Last.exp.count = Len(Last.args.hdr.elems)
          /\ Last.exp.elems = Meaning(Last.args.hdr) ]_vars

\* "the default XFCC identity is the CN of the selected element's subject"
XfccIdentityIsCN ==
    [][ Last.a = "Xfcc_Auth_Default" =>
          LET h == Last.args.hdr
              at == IF Last.args.sel = "last" THEN Len(h.dns) ELSE 1
              dn == h.dns[at]
          IN Last.exp.principal = DropCommaEscapes(CnOf(dn)) ]_vars
=============================================================================
