SPECIFICATION Spec
CONSTANTS
    Mode = "edges"
    Depth = 0
    Parts = {"xfcc2", "noise"}
    Unescape = "quote"
    BearerTail = 0
    XKeys = {}
    XAtoms = {}
    XLen = 0
    XElems = 3
    XPairs = 3
    XSlots = 3
    XWs = {FALSE}
    X2Keys = {"K_hash", "K_cert", "K_dns"}
    X2Atoms = {"c", "COMMA", "SEMI", "Q", "ESC", "PC", "ESCBS"}
    CnAtoms = {}
    CnLen = 0
    NoiseSyms = {"K_hash", "EQ", "Q", "BS", "COMMA", "SEMI", "SP", "c1"}
    NoiseLen = 5
VIEW View
PROPERTIES BearerExact XfccAgreesWithGrammar XfccIdentityIsCN
CHECK_DEADLOCK FALSE
