SPECIFICATION Spec
CONSTANTS
    Mode = "edges"
    Depth = 0
    Parts = {"xfcc"}
    Unescape = "quote"
    BearerTail = 0
    XKeys = {"K_hash", "K_cert", "K_subject", "K_dns", "K_chain"}
    XAtoms = {"c", "COMMA", "SEMI", "EQ", "Q", "SP", "PC", "PQ", "ESC", "ESCBS"}
    XLen = 3
    XElems = 2
    XPairs = 2
    XSlots = 2
    XWs = {FALSE}
    X2Keys = {}
    X2Atoms = {}
    CnAtoms = {}
    CnLen = 0
    NoiseSyms = {}
    NoiseLen = 0
VIEW View
PROPERTIES BearerExact XfccAgreesWithGrammar XfccIdentityIsCN
CHECK_DEADLOCK FALSE
