SPECIFICATION TraceSpec
CONSTANTS
    NSess = 80
    NThr = 16
    Prin = {"a", "b", "anon"}
    Worker = {"w1", "w2", "w3"}
    SealFails = {"w3"}
    TTLs = {1}
    MaxNow = 0
    MaxReq = 100000000
    MaxOps = 100000000
    MaxReaps = 100000000
    ResumeScripts = {"noop"}
    OpenScripts = {"open"}
    Routes = {"unary", "pinit", "pcont", "xturn"}
    Toks = {"own", "bad"}
    Lags = {0}
    AadBinds = TRUE
    Mode = "trace"
    Depth = 0
    Serial = FALSE
    Det = FALSE
    Probe = FALSE
    TraceExpired <- TrExpired
CONSTRAINT HighWater
INVARIANTS MutualExclusion CloseAtMostOnce CloseExactlyOnceAtRest CloseAccounting NoLockLeak LockHolderSane Isolation HandlerSeesOwnSession
POSTCONDITION ReportHighWater
CHECK_DEADLOCK FALSE
