SPECIFICATION Spec
CONSTANTS
    NSess = 2
    NThr = 3
    Prin = {"a", "b"}
    Worker = {"w1", "w2"}
    SealFails = {}
    TTLs = {1, 2}
    MaxNow = 3
    MaxReq = 5
    MaxOps = 2
    MaxReaps = 2
    ResumeScripts = {"noop", "close", "panic", "close_open"}
    OpenScripts = {"open", "open_panic", "open_close"}
    Routes = {"unary", "pinit", "pcont", "xturn"}
    Toks = {"own", "bad"}
    Lags = {0}
    AadBinds = TRUE
    Mode = "classes"
    Depth = 0
    Serial = FALSE
    Det = TRUE
    Probe = TRUE
    TraceExpired <- NoOracle
VIEW View
CHECK_DEADLOCK FALSE
