--------------------------- MODULE Trace_Sticky ---------------------------
(***************************************************************************)
(* Trace validation (binding V) for C29: free-running executions of the    *)
(* real sticky-session code (16 client goroutines, the real reaper         *)
(* goroutine, an operator goroutine) are recorded at the verif hook points *)
(* and must be behaviours of Sticky.                                       *)
(*                                                                         *)
(* Every event is recorded inside the critical section that performs the   *)
(* step it reports (registry steps under r.mu, lock steps while holding    *)
(* entry.lock, user-code steps by the goroutine itself) and stamped by one *)
(* recorder mutex, so the log is a total order in which conflicting steps  *)
(* appear in their real order; steps that do not conflict commute.  Each   *)
(* event names the Sticky action it claims to be and that action's         *)
(* parameters; TLC checks that the action is enabled in the state reached  *)
(* so far and evaluates every invariant of C29 in every state.             *)
(*                                                                         *)
(* Wall-clock time is not modelled: whether an entry was past its TTL is   *)
(* taken from the recorded execution (TraceExpired).                       *)
(***************************************************************************)
EXTENDS Sticky, Json

VARIABLES ti, i
tvars == <<vars, ti, i>>

Traces == JsonDeserialize("trace.json").traces
NT == Len(Traces)
Tr == Traces[ti].ev
E == Tr[i]

TrExpired(s) ==
    IF ti > NT \/ i > Len(Tr) THEN FALSE
    ELSE CASE E.ev = "get"  -> E.out = "evict"
           [] E.ev = "reap" -> s \in {E.set[k] : k \in 1..Len(E.set)}
           [] OTHER -> FALSE

Have == ti <= NT /\ i <= Len(Tr)
SetOf(q) == {q[k] : k \in 1..Len(q)}

Step ==
    /\ Have
    /\ LET e == E IN
       CASE e.ev = "plain" -> StartPlain(e.t, e.prin, e.w, e.script, e.ttl, e.accept)
         [] e.ev = "resume_fail" ->
                \/ Resume_TokenFail(e.t, e.s, e.prin, e.w, e.tok, e.script, e.route)
                \/ Resume_WrongWorker(e.t, e.s, e.prin, e.w, e.tok, e.script, e.route)
         [] e.ev = "resume_ok" -> Resume_TokenOK(e.t, e.s, e.prin, e.w, e.tok, e.script, e.route)
         [] e.ev = "delete_fail" -> Delete_TokenFail(e.t, e.s, e.prin, e.w, e.tok)
         [] e.ev = "delete_ok" -> Delete_TokenOK(e.t, e.s, e.prin, e.w, e.tok)
         [] e.ev = "get" ->
                /\ rq[e.t].s = e.s
                /\ \/ e.out = "miss" /\ Get_Miss(e.t)
                   \/ e.out = "evict" /\ Get_ExpiredEvict(e.t)
                   \/ e.out = "mismatch" /\ Get_PrinMismatch(e.t)
                   \/ e.out = "hit" /\ Get_Hit(e.t)
         [] e.ev = "locked" -> rq[e.t].ent = e.s /\ EntryLock(e.t)
         [] e.ev = "hbegin" ->      \* user code of a resumed request starts: it holds the lock of what it sees
                /\ pc[e.t] = "inh" /\ rq[e.t].lk = e.saw /\ lock[e.saw] = e.t
                /\ UNCHANGED vars
         [] e.ev = "tick" ->        \* a Produce / Exchange call starts: it must still hold the session
                /\ rq[e.t].lk # 0 => lock[rq[e.t].lk] = e.t
                /\ H_Tick(e.t)
                /\ e.saw = (IF rq[e.t].bound # 0 /\ ~rq[e.t].sclosed THEN rq[e.t].bound ELSE 0)
         [] e.ev = "open" ->
                IF e.ok THEN Open_OK(e.t) /\ rq'[e.t].cur = e.s ELSE Open_Draining(e.t)
         [] e.ev = "open_guard" -> Open_Guard(e.t) /\ rq'[e.t].err = e.err
         [] e.ev = "seal_ok" -> Seal_OK(e.t)
         [] e.ev = "close" ->
                IF e.ok
                THEN /\ reg[e.s].in
                     /\ (H_Close_Hit(e.t) \/ Del_Close_Hit(e.t) \/ Seal_Fail_Hit(e.t))
                     /\ ~reg'[e.s].in
                ELSE /\ ~reg[e.s].in
                     /\ (H_Close_Miss(e.t) \/ Del_Close_Miss(e.t) \/ Seal_Fail_Miss(e.t))
         [] e.ev = "close_unbound" -> H_Close_Unbound(e.t)
         [] e.ev = "closed" ->      \* state.Close() ran, on the goroutine of actor e.t
                /\ pending[e.s] = e.t
                /\ IF e.t \in Thr
                   THEN Evict_RunClose(e.t) \/ H_RunClose(e.t) \/ Del_RunClose(e.t) \/ Rollback_RunClose(e.t)
                   ELSE IF e.t = RP THEN Reap_RunClose ELSE Op_RunClose
                /\ closed'[e.s] = closed[e.s] + 1
         [] e.ev = "finish" -> Finish(e.t)
         [] e.ev = "del_finish" -> Del_Finish(e.t)
         [] e.ev = "reap" ->
                /\ Reap(e.w, 0)
                /\ {s \in Sess : pending'[s] = RP} = SetOf(e.set)
         [] e.ev = "drain" -> SetDrain(e.w, e.v)
         [] e.ev = "shutdown" ->
                /\ Shutdown_Remove(e.w)
                /\ {s \in Sess : pending'[s] = OP} = SetOf(e.set)
         [] e.ev = "shutdown_done" -> Shutdown_Done
    /\ i' = i + 1 /\ ti' = ti

\* end of one recorded execution: the recorder stopped every client and shut every worker down;
\* the model must be at rest too (then CloseExactlyOnceAtRest and NoLockLeak have been evaluated there)
Finished ==
    /\ ti <= NT /\ i > Len(Tr)
    /\ AtRest
    /\ ti' = ti + 1 /\ i' = 1
    /\ reg' = [s \in Sess |-> NoEntry] /\ sinfo' = [s \in Sess |-> NoInfo]
    /\ closed' = [s \in Sess |-> 0] /\ lock' = [s \in Sess |-> 0] /\ pending' = [s \in Sess |-> 0]
    /\ draining' = [w \in Worker |-> FALSE] /\ down' = [w \in Worker |-> FALSE]
    /\ now' = 0 /\ pc' = [t \in Thr |-> "idle"] /\ rq' = [t \in Thr |-> NoReq]
    /\ op' = [pc |-> "idle", w |-> "-"] /\ cnt' = [req |-> 0, ops |-> 0, reaps |-> 0]
    /\ UNCHANGED <<hist, how>>

TInit == Init /\ ti = 1 /\ i = 1 /\ TLCSet(2, 0)
TNext == Step \/ Finished
TraceSpec == TInit /\ [][TNext]_tvars

Accepted == ti > NT
AcceptAndStop == Accepted => /\ PrintT(<<"TRACE-ACCEPTED", NT>>)
                             /\ TLCSet("exit", TRUE)
Progress == ti * 1000000 + i
HighWater ==
    /\ AcceptAndStop
    /\ IF Progress > TLCGet(2) THEN TLCSet(2, Progress) ELSE TRUE
ReportHighWater == PrintT(<<"TRACE-HIGHWATER", TLCGet(2)>>)
=============================================================================
