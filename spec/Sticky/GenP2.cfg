SPECIFICATION Spec
CONSTANTS
    NSess = 1
    NThr = 2
    Prin = {"a"}
    Worker = {"w1"}
    SealFails = {}
    TTLs = {1}
    MaxNow = 2
    MaxReq = 3
    MaxOps = 1
    MaxReaps = 1
    ResumeScripts = {"noop", "close"}
    OpenScripts = {"open"}
    Routes = {"unary", "pinit", "pcont", "xturn"}
    Toks = {"own"}
    Lags = {0}
    AadBinds = TRUE
    Mode = "classes"
    Depth = 0
    Serial = FALSE
    Det = TRUE
    Probe = TRUE
    TraceExpired <- NoOracle
VIEW View
CHECK_DEADLOCK FALSE
