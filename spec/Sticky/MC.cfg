SPECIFICATION Spec
CONSTANTS
    NSess = 2
    NThr = 3
    Prin = {"a"}
    Worker = {"w1"}
    SealFails = {}
    TTLs = {1}
    MaxNow = 2
    MaxReq = 4
    MaxOps = 1
    MaxReaps = 1
    ResumeScripts = {"noop", "close"}
    OpenScripts = {"open"}
    Routes = {"unary", "pinit"}
    Toks = {"own", "bad"}
    Lags = {0}
    AadBinds = TRUE
    Mode = "mc"
    Depth = 0
    Serial = FALSE
    Det = FALSE
    Probe = FALSE
    TraceExpired <- NoOracle
VIEW View
INVARIANTS TypeOK MutualExclusion CloseAtMostOnce CloseExactlyOnceAtRest CloseAccounting NoLockLeak LockHolderSane Isolation HandlerSeesOwnSession
PROPERTIES DrainRefusesOpen NoResurrection
CHECK_DEADLOCK FALSE
