SPECIFICATION Spec
CONSTANTS
    NSess = 2
    NThr = 1
    Prin = {"a", "b", "anon"}
    Worker = {"w1", "w2", "w3"}
    SealFails = {"w3"}
    TTLs = {1, 2}
    MaxNow = 4
    MaxReq = 6
    MaxOps = 2
    MaxReaps = 2
    ResumeScripts = {"noop", "close", "panic", "close_panic", "close_open"}
    OpenScripts = {"open", "open_panic", "open_close", "open_open", "close"}
    Routes = {"unary", "pinit", "pcont", "xturn"}
    Toks = {"own", "bad"}
    Lags = {0, 1}
    AadBinds = TRUE
    Mode = "classes"
    Depth = 0
    Serial = TRUE
    Det = TRUE
    Probe = FALSE
    TraceExpired <- NoOracle
VIEW View
CHECK_DEADLOCK FALSE
