------------------------------- MODULE Sticky -------------------------------
(***************************************************************************)
(* HTTP sticky sessions of vgi-rpc-go (vgirpc/sticky.go, sticky_context.go,*)
(* http_sticky.go) — property C29.                                         *)
(*                                                                         *)
(* One action per critical section / decision point of the code:           *)
(*                                                                         *)
(*  resume request  installStickyOnRequestNoCtx: open the token (pure),    *)
(*                  server-id check (pure), registry.get under r.mu        *)
(*                  {miss, expired-evict, principal mismatch, hit},        *)
(*                  entry.lock.Lock(), the handler (scripted user code     *)
(*                  that may CloseSession / OpenSession / panic), and      *)
(*                  stickyCleanup.ReleaseLock after the response.          *)
(*  open request    the handler calls ctx.OpenSession: Accept guard,       *)
(*                  "already bound" guard, registry.open under r.mu        *)
(*                  {draining, ok}, sealSessionToken {ok, fail+rollback}.  *)
(*  delete route    handleStickyDelete: token, get, Lock, registry.close,  *)
(*                  Unlock.                                                *)
(*  reaper          drainExpired: atomic removal of the expired set under  *)
(*                  r.mu, then one closeSessionState per removed entry     *)
(*                  outside r.mu.                                          *)
(*  operator        DrainHandle.Drain / ClearDrain / Shutdown (atomic      *)
(*                  removal of everything, closes outside r.mu, then       *)
(*                  stopReaper).                                           *)
(*                                                                         *)
(* closeSessionState always runs OUTSIDE r.mu, after the entry left the    *)
(* map; it is therefore its own action (`*_RunClose`), and `pending[s]`    *)
(* names the actor that removed entry s and still owes its Close.  The     *)
(* per-session mutex lives on the entry object, which outlives its removal *)
(* from the map: lock[s] is meaningful for removed sessions too.           *)
(*                                                                         *)
(* A session id is 12 random bytes, never reused: a slot s of Sess is used *)
(* at most once.  Each worker (HttpServer with its own server id and       *)
(* registry; all workers share the token key) owns the sessions opened on  *)
(* it: sinfo[s].home.  The token of s becomes known to clients when the    *)
(* opening request's response is written (sinfo[s].pub).                   *)
(*                                                                         *)
(* Configurations: MC*.cfg model-check the properties at the end of this   *)
(* module (Mode "mc").  GenE/GenS3.cfg emit one witness schedule per        *)
(* transition class (Mode "classes", Det = TRUE: only interleavings a      *)
(* gated replay realises deterministically; Probe = TRUE: Lock() attempts  *)
(* on a held session are steps of their own).  GenSeq.cfg emits sequential *)
(* histories (Serial = TRUE), replayable without hook points.  Trace.cfg   *)
(* (Mode "trace") drives the same actions from a recorded execution.       *)
(***************************************************************************)
EXTENDS Naturals, Sequences, FiniteSets, TLC, VerifEmit

CONSTANTS
    NSess,          \* session slots 1..NSess
    NThr,           \* request threads 1..NThr (each runs one request at a time)
    Prin,           \* caller identities
    Worker,         \* workers
    SealFails,      \* workers whose server id is > 255 bytes: sealSessionToken fails
    TTLs,           \* ttl values a handler may pass to OpenSession (time units)
    MaxNow,         \* clock bound
    MaxReq,         \* total number of requests started
    MaxOps,         \* total number of operator calls
    MaxReaps,       \* total number of reaper sweeps
    ResumeScripts,  \* handler scripts of resume requests (names, see ScriptOps)
    OpenScripts,    \* handler scripts of token-less requests
    Routes,         \* HTTP routes a session-bearing request may take: "unary" (POST /m), "pinit" (producer
                    \* POST /m/init: the init handler AND the first Produce tick run in this request),
                    \* "pcont" (producer continuation POST /m/exchange: a Produce tick), "xturn" (exchange
                    \* turn POST /m/exchange: an Exchange call)
    Toks,           \* token classes a client presents: "own" (as issued), "bad" (altered)
    Lags,           \* staleness of the reaper's tick time: drainExpired(now - lag)
    AadBinds,       \* TRUE = the code: the token's AEAD AAD binds it to the caller identity
    Mode,           \* "mc" | "edges" | "classes" | "tree" | "trace"
    Depth,
    Serial,         \* generation: one actor at a time (sequential histories, need no gates)
    Det,            \* generation: only schedules a gated replay realises deterministically
    Probe,          \* include EntryLock_Wait (a Lock() attempt that blocks)
    TraceExpired(_) \* Mode = "trace" only: the recorded execution's own verdict "entry s is past its
                    \* TTL" (recorded executions run on the wall clock, which is not modelled);
                    \* every other cfg substitutes NoOracle

Sess == 1..NSess
Thr  == 1..NThr
RP   == NThr + 1      \* actor id of the reaper
OP   == NThr + 2      \* actor id of the operator

VARIABLES
    reg,       \* reg[s] = [in, exp, prin]: entry of s in its home registry map (in = present)
    sinfo,     \* sinfo[s] = [used, home, owner, pub]: static facts about slot s
    closed,    \* closed[s] = number of times state.Close() ran
    lock,      \* lock[s] = thread holding entry.lock, 0 = free
    pending,   \* pending[s] = actor that removed s from the map and has not run Close yet, 0 = none
    draining,  \* draining[w]
    down,      \* down[w]: Shutdown completed, reaper goroutine stopped
    now,
    pc,        \* pc[t]
    rq,        \* rq[t]: the request thread t is serving, and its stickySink / stickyCleanup
    op,        \* operator: [pc, w]
    cnt,       \* budgets used: [req, ops, reaps]
    how,       \* how[s]: the way session s ended ("-" while it has not).  Bookkeeping for the class
               \* signature of generated schedules only (constant in Mode "mc" / "trace"): a request
               \* that resolved the entry before it ended, and locks it afterwards, is a class per way
    hist

vars == <<reg, sinfo, closed, lock, pending, draining, down, now, pc, rq, op, cnt, how, hist>>

NoReq == [kind |-> "-", route |-> "-", s |-> 0, prin |-> "-", w |-> "-", tok |-> "-", ops |-> <<>>, ttl |-> 0,
          accept |-> FALSE,
          cur |-> 0,          \* sid local to OpenSession between registry.open and seal
          ent |-> 0,          \* entry returned by registry.get
          lk |-> 0,           \* stickyCleanup.entry: session whose lock this request holds
          bound |-> 0,        \* sink.sessionID when sink.hasSession
          sclosed |-> FALSE,  \* sink.closed
          minted |-> 0,       \* session whose token is in sink.mintedToken
          err |-> "-"]        \* error the handler is about to return

\* handler scripts: the operations user code performs, in order, before it returns
ScriptOps(n) ==
    CASE n = "noop"        -> <<>>
      [] n = "close"       -> <<"close">>
      [] n = "panic"       -> <<"panic">>
      [] n = "close_panic" -> <<"close", "panic">>
      [] n = "close_close" -> <<"close", "close">>
      [] n = "close_open"  -> <<"close", "open">>
      [] n = "open"        -> <<"open">>
      [] n = "open_panic"  -> <<"open", "panic">>
      [] n = "open_close"  -> <<"open", "close">>
      [] n = "open_open"   -> <<"open", "open">>

\* user code of a session-bearing request, by route.  "tick" is one Produce / Exchange call; on
\* /init it follows the init handler inside the same request — the session lock taken by
\* installStickyOnRequest must cover both, it is released only by the deferred ReleaseLock.
RouteOps(route, n) ==
    CASE route = "unary" -> ScriptOps(n)
      [] route = "pinit" -> ScriptOps(n) \o <<"tick">>
      [] OTHER           -> <<"tick">>
RouteOK(route, n) == route \in {"unary", "pinit"} \/ n = "noop"

NoEntry == [in |-> FALSE, exp |-> 0, prin |-> "-"]
NoInfo  == [used |-> FALSE, home |-> "-", owner |-> "-", pub |-> FALSE]

\* pcs in which user code of the request is running (handler entered, not returned)
HPcs == {"inh", "hclosing", "sealing", "rollback"}

--------------------------------------------------------------------------
(* Observation: what the harness can see of the real system after a step. *)
\* closed: Close() calls per state object; live: entry still in the registry map; inh: requests
\* inside user code per session they bear; locked: entries whose lock is held — also entries that
\* have left the map, the mutex lives on the entry object (not reported while a goroutine is
\* blocked in Lock(): the hand-over is not observable step by step); stuck: requests that can never
\* complete — none, ever: every lock holder is a running request (LockHolderSane) that can finish
\* and then releases it (NoLockLeak), which is what the harness probes by letting everything in
\* flight run to completion after the last step of a schedule.
Proj(cl, rg, pcs, rqs, lk) ==
    [closed |-> [s \in Sess |-> cl[s]],
     live   |-> [s \in Sess |-> rg[s].in],
     inh    |-> [s \in Sess |-> {t \in Thr : pcs[t] \in HPcs /\ (rqs[t].lk = s \/ rqs[t].minted = s)}],
     stuck  |-> {}]
    @@ (IF \E t \in Thr : pcs[t] = "lockwait" THEN <<>>
        ELSE [locked |-> {s \in Sess : lk[s] # 0}])

Tracked == Mode \notin {"mc", "trace"}
EndedAs(a) == CASE a = "Get_ExpiredEvict" -> "expiry-inline"
                [] a = "H_Close_Hit" -> "close"
                [] a = "Del_Close_Hit" -> "delete"
                [] a = "Seal_Fail_Hit" -> "rollback"
                [] a = "Reap" -> "expiry-reaper"
                [] a = "Shutdown_Remove" -> "shutdown"
                [] OTHER -> "?"

Record(step, sig) ==
    /\ how' = IF Tracked
              THEN [s \in Sess |-> IF reg[s].in /\ ~reg'[s].in THEN EndedAs(step.a) ELSE how[s]]
              ELSE how
    /\ hist' = CASE Mode = "trace" -> hist
                 [] Mode = "mc"    -> hist
                 [] OTHER          -> Append(hist, step)
    /\ (Mode = "edges") => EmitTrace(hist')
    /\ (Mode = "classes") => EmitOncePerClass(ToString(sig), hist')
    /\ (Mode = "tree" /\ Len(hist') = Depth) => EmitTrace(hist')

Budget == (Mode = "tree") => Len(hist) < Depth

\* Class of a transition (Mode = "classes": one witness behaviour per class).  The state is
\* abstracted to what decides the outcome of the actions: per session its life-cycle phase,
\* whether it is locked / its token is out; per thread where it is and what it will still do;
\* the parameters of an action are replaced by their relation to the state.
NoOracle(s) == FALSE
\* entry.expiresAt.Before(n)
Expired(s, n) == IF Mode = "trace" THEN TraceExpired(s) ELSE reg[s].exp < n

SessClass(s) ==
    IF ~sinfo[s].used THEN "free"
    ELSE IF reg[s].in THEN (IF Expired(s, now) THEN "stale" ELSE "live")
    ELSE IF pending[s] # 0 THEN "closing" ELSE "gone"

AbsState ==
    << [s \in Sess |-> <<SessClass(s), lock[s] # 0, sinfo[s].pub,
                          IF \E t \in Thr : pc[t] \in {"prelock", "lockwait"} /\ rq[t].ent = s
                          THEN how[s] ELSE "-">>],
       [t \in Thr |-> <<pc[t], rq[t].kind, rq[t].route, rq[t].ops, rq[t].bound # 0, rq[t].sclosed>>],
       op.pc, {s \in Sess : pending[s] = RP} # {} >>

SigArgs(args) ==
    CASE "tok" \in DOMAIN args ->
            << args.prin = sinfo[args.s].owner, args.w = sinfo[args.s].home, args.tok,
               SessClass(args.s), lock[args.s] # 0,
               IF "script" \in DOMAIN args THEN args.script ELSE <<>>,
               IF "route" \in DOMAIN args THEN args.route ELSE "-" >>
      [] "accept" \in DOMAIN args ->
            << draining[args.w], args.w \in SealFails, args.script, args.accept >>
      [] "lag" \in DOMAIN args ->
            << args.lag, {SessClass(s) : s \in {x \in Sess : sinfo[x].used /\ sinfo[x].home = args.w}} >>
      [] "w" \in DOMAIN args ->
            << draining[args.w], down[args.w],
               {SessClass(s) : s \in {x \in Sess : sinfo[x].used /\ sinfo[x].home = args.w}} >>
      [] OTHER -> << args >>

St(a, t, args, exp) ==
    Record([a |-> a, t |-> t, args |-> args,
            exp |-> exp @@ Proj(closed', reg', pc', rq', lock')],
           <<a, SigArgs(args), AbsState>>)

--------------------------------------------------------------------------
ReaperBusy == \E s \in Sess : pending[s] = RP
ThreadBusy == \E t \in Thr : pc[t] # "idle"
Busy == ThreadBusy \/ ReaperBusy \/ op.pc # "idle"

\* a waiter whose Lock() can return: in reality it already has (Det: take it first)
WakeReady(t) == pc[t] = "lockwait" /\ lock[rq[t].ent] = 0
Settled == Det => ~\E t \in Thr : WakeReady(t)
Waiting == \E t \in Thr : pc[t] = "lockwait"

\* guard of every action that starts an actor
CanStart == Budget /\ Settled /\ (Serial => ~Busy)
\* guard of every action that continues an actor
CanStep == Budget /\ Settled

FreeSlots == {s \in Sess : ~sinfo[s].used}
\* open requests in flight that may still allocate a slot
OpenersInFlight == {t \in Thr : pc[t] # "idle" /\ "open" \in {rq[t].ops[i] : i \in 1..Len(rq[t].ops)}}

\* idle threads are interchangeable: a new request always takes the lowest idle one
\* (symmetry reduction; every behaviour has a relabelling of this form)
Pick(t) == pc[t] = "idle" /\ \A u \in Thr : pc[u] = "idle" => t <= u

Done(t) == /\ pc' = [pc EXCEPT ![t] = "idle"]
           /\ rq' = [rq EXCEPT ![t] = NoReq]

\* openSessionToken succeeds / fails.  Complementary in every mode but "trace": a recorded execution
\* is accepted whichever of the two layers (AEAD AAD, registry principal check) turned a foreign
\* identity away, and whichever of the server-id check and the per-worker registry turned a foreign
\* worker away — the property is about the outcome (session_lost), not the layer.
TokenOpens(s, p, tok) == tok = "own" /\ (p = sinfo[s].owner \/ ~AadBinds \/ Mode = "trace")
TokenFails(s, p, tok) == tok # "own" \/ (p # sinfo[s].owner /\ (AadBinds \/ Mode = "trace"))
WorkerOK(s, w) == w = sinfo[s].home \/ Mode = "trace"
\* the entry of the presented session is in the registry of the worker serving request t
Present(t) == reg[rq[t].s].in /\ sinfo[rq[t].s].home = rq[t].w

--------------------------------------------------------------------------
(* Requests without a session token: the handler may call OpenSession.    *)
StartPlain(t, p, w, script, ttl, acc) ==
    /\ CanStart /\ Pick(t) /\ cnt.req < MaxReq
    /\ Cardinality(FreeSlots) > Cardinality(OpenersInFlight)
    /\ pc' = [pc EXCEPT ![t] = "inh"]
    /\ rq' = [rq EXCEPT ![t] = [NoReq EXCEPT !.kind = "plain", !.route = "unary", !.prin = p, !.w = w, !.ops = ScriptOps(script),
                                              !.ttl = ttl, !.accept = acc]]
    /\ cnt' = [cnt EXCEPT !.req = @ + 1]
    /\ UNCHANGED <<reg, sinfo, closed, lock, pending, draining, down, now, op>>
    /\ St("StartPlain", t, [prin |-> p, w |-> w, script |-> ScriptOps(script), ttl |-> ttl, accept |-> acc],
          [entered |-> TRUE, saw |-> 0])

(* Requests carrying VGI-Session: token of slot s as issued ("own") or altered. *)
\* openSessionToken fails (alteration, or AAD of another identity): session_lost, no shared state
\* touched (pure: these requests do not even consume the request budget)
Resume_TokenFail(t, s, p, w, tok, script, route) ==
    /\ RouteOK(route, script)
    /\ CanStart /\ Pick(t) /\ cnt.req < MaxReq /\ sinfo[s].pub
    /\ TokenFails(s, p, tok)
    /\ UNCHANGED <<reg, sinfo, closed, lock, pending, draining, down, now, pc, rq, op, cnt>>
    /\ St("Resume_TokenFail", t, [s |-> s, prin |-> p, w |-> w, tok |-> tok, route |-> route, script |-> RouteOps(route, script)],
          [lost |-> TRUE, res |-> "lost"])

\* token opens, but it names another worker's server id
Resume_WrongWorker(t, s, p, w, tok, script, route) ==
    /\ RouteOK(route, script)
    /\ CanStart /\ Pick(t) /\ cnt.req < MaxReq /\ sinfo[s].pub
    /\ TokenOpens(s, p, tok) /\ w # sinfo[s].home
    /\ UNCHANGED <<reg, sinfo, closed, lock, pending, draining, down, now, pc, rq, op, cnt>>
    /\ St("Resume_WrongWorker", t, [s |-> s, prin |-> p, w |-> w, tok |-> tok, route |-> route, script |-> RouteOps(route, script)],
          [lost |-> TRUE, res |-> "lost"])

Resume_TokenOK(t, s, p, w, tok, script, route) ==
    /\ RouteOK(route, script)
    /\ CanStart /\ Pick(t) /\ cnt.req < MaxReq /\ sinfo[s].pub
    /\ TokenOpens(s, p, tok) /\ WorkerOK(s, w)
    /\ Cardinality(FreeSlots) > Cardinality(OpenersInFlight) \/ ~\E i \in 1..Len(ScriptOps(script)) : ScriptOps(script)[i] = "open" \/ route \notin {"unary", "pinit"}
    /\ pc' = [pc EXCEPT ![t] = "get"]
    /\ rq' = [rq EXCEPT ![t] = [NoReq EXCEPT !.kind = "resume", !.route = route, !.s = s, !.prin = p, !.w = w,
                                              !.tok = tok, !.ops = RouteOps(route, script), !.ttl = 1,
                                              !.accept = TRUE]]
    /\ cnt' = [cnt EXCEPT !.req = @ + 1]
    /\ UNCHANGED <<reg, sinfo, closed, lock, pending, draining, down, now, op>>
    /\ St("Resume_TokenOK", t, [s |-> s, prin |-> p, w |-> w, tok |-> tok, route |-> route, script |-> RouteOps(route, script)],
          [lost |-> FALSE])

Delete_TokenFail(t, s, p, w, tok) ==
    /\ CanStart /\ Pick(t) /\ cnt.req < MaxReq /\ sinfo[s].pub
    /\ TokenFails(s, p, tok) \/ w # sinfo[s].home
    /\ UNCHANGED <<reg, sinfo, closed, lock, pending, draining, down, now, pc, rq, op, cnt>>
    /\ St("Delete_TokenFail", t, [s |-> s, prin |-> p, w |-> w, tok |-> tok],
          [lost |-> TRUE, res |-> "d200"])

Delete_TokenOK(t, s, p, w, tok) ==
    /\ CanStart /\ Pick(t) /\ cnt.req < MaxReq /\ sinfo[s].pub
    /\ TokenOpens(s, p, tok) /\ WorkerOK(s, w)
    /\ pc' = [pc EXCEPT ![t] = "get"]
    /\ rq' = [rq EXCEPT ![t] = [NoReq EXCEPT !.kind = "delete", !.s = s, !.prin = p, !.w = w, !.tok = tok]]
    /\ cnt' = [cnt EXCEPT !.req = @ + 1]
    /\ UNCHANGED <<reg, sinfo, closed, lock, pending, draining, down, now, op>>
    /\ St("Delete_TokenOK", t, [s |-> s, prin |-> p, w |-> w, tok |-> tok], [lost |-> FALSE])

--------------------------------------------------------------------------
(* sessionRegistry.get — one critical section under r.mu, four exits.      *)
LostRes(t) == IF rq[t].kind = "delete" THEN "d200" ELSE "lost"

Get_Miss(t) ==
    /\ CanStep /\ pc[t] = "get" /\ ~Present(t)
    /\ Done(t)
    /\ UNCHANGED <<reg, sinfo, closed, lock, pending, draining, down, now, op, cnt>>
    /\ St("Get_Miss", t, [s |-> rq[t].s], [lost |-> TRUE, res |-> LostRes(t)])

\* expired: delete from the map under r.mu; Close is owed by this thread, outside r.mu
Get_ExpiredEvict(t) ==
    LET s == rq[t].s IN
    /\ CanStep /\ pc[t] = "get" /\ Present(t) /\ Expired(s, now)
    /\ reg' = [reg EXCEPT ![s].in = FALSE]
    /\ pending' = [pending EXCEPT ![s] = t]
    /\ pc' = [pc EXCEPT ![t] = "evict"]
    /\ UNCHANGED <<sinfo, closed, lock, draining, down, now, rq, op, cnt>>
    /\ St("Get_ExpiredEvict", t, [s |-> s], [evicted |-> TRUE])

Evict_RunClose(t) ==
    LET s == rq[t].s IN
    /\ CanStep /\ pc[t] = "evict" /\ pending[s] = t
    /\ closed' = [closed EXCEPT ![s] = @ + 1]
    /\ pending' = [pending EXCEPT ![s] = 0]
    /\ Done(t)
    /\ UNCHANGED <<reg, sinfo, lock, draining, down, now, op, cnt>>
    /\ St("Evict_RunClose", t, [s |-> s], [lost |-> TRUE, res |-> LostRes(t)])

\* defence in depth: unreachable while AadBinds (the AAD already failed)
Get_PrinMismatch(t) ==
    LET s == rq[t].s IN
    /\ CanStep /\ pc[t] = "get" /\ Present(t) /\ ~Expired(s, now) /\ reg[s].prin # rq[t].prin
    /\ Done(t)
    /\ UNCHANGED <<reg, sinfo, closed, lock, pending, draining, down, now, op, cnt>>
    /\ St("Get_PrinMismatch", t, [s |-> s], [lost |-> TRUE, res |-> LostRes(t)])

Get_Hit(t) ==
    LET s == rq[t].s IN
    /\ CanStep /\ pc[t] = "get" /\ Present(t) /\ ~Expired(s, now) /\ reg[s].prin = rq[t].prin
    /\ pc' = [pc EXCEPT ![t] = "prelock"]
    /\ rq' = [rq EXCEPT ![t].ent = s]
    /\ UNCHANGED <<reg, sinfo, closed, lock, pending, draining, down, now, op, cnt>>
    /\ St("Get_Hit", t, [s |-> s], [lost |-> FALSE])

--------------------------------------------------------------------------
(* entry.lock.Lock() — the entry object was obtained before; it may have  *)
(* left the map since.                                                     *)
EntryLock(t) ==
    LET s == rq[t].ent IN
    /\ Budget /\ pc[t] \in {"prelock", "lockwait"} /\ lock[s] = 0
    /\ (Det /\ pc[t] = "prelock") => (Settled /\ ~\E u \in Thr : pc[u] = "lockwait" /\ rq[u].ent = s)
    /\ lock' = [lock EXCEPT ![s] = t]
    /\ IF rq[t].kind = "resume"
       THEN \* installResumed, then the init handler — or, on a continuation / exchange turn, framework
            \* code up to the Produce / Exchange call ("locked": lock held, no user code running yet)
            /\ pc' = [pc EXCEPT ![t] = IF rq[t].route \in {"unary", "pinit"} THEN "inh" ELSE "locked"]
            /\ rq' = [rq EXCEPT ![t].lk = s, ![t].bound = s]
       ELSE /\ pc' = [pc EXCEPT ![t] = "dlocked"]
            /\ rq' = [rq EXCEPT ![t].lk = s]
    /\ UNCHANGED <<reg, sinfo, closed, pending, draining, down, now, op, cnt>>
    /\ St(IF pc[t] = "lockwait" THEN "EntryLock_Wake" ELSE "EntryLock", t, [s |-> s],
          [blocked |-> FALSE,
           \* what the init handler sees on entry; a continuation / exchange turn has no init handler
           saw |-> IF rq[t].kind = "resume" /\ rq[t].route \in {"unary", "pinit"} THEN s ELSE 0])

\* Lock() called while another request holds the session: the caller blocks
EntryLock_Wait(t) ==
    LET s == rq[t].ent IN
    /\ Probe /\ CanStep /\ pc[t] = "prelock" /\ lock[s] # 0
    /\ Det => ~\E u \in Thr : pc[u] = "lockwait" /\ rq[u].ent = s
    /\ pc' = [pc EXCEPT ![t] = "lockwait"]
    /\ UNCHANGED <<reg, sinfo, closed, lock, pending, draining, down, now, rq, op, cnt>>
    /\ St("EntryLock_Wait", t, [s |-> s], [blocked |-> TRUE])

--------------------------------------------------------------------------
(* The handler: scripted user code.  pc = "inh" is "between two operations".*)
NextOp(t) == IF rq[t].ops = <<>> THEN "ret" ELSE Head(rq[t].ops)
Pop(t) == Tail(rq[t].ops)

\* ctx.OpenSession guards (no shared state)
Open_Guard(t) ==
    LET why == CASE ~rq[t].accept -> "noaccept"
                 [] rq[t].bound # 0 /\ ~rq[t].sclosed -> "already"
                 [] OTHER -> "-" IN
    /\ CanStep /\ pc[t] = "inh" /\ NextOp(t) = "open" /\ why # "-"
    /\ rq' = [rq EXCEPT ![t].ops = <<>>, ![t].err = why]
    /\ UNCHANGED <<reg, sinfo, closed, lock, pending, draining, down, now, pc, op, cnt>>
    /\ St("Open_Guard", t, [x |-> 0], [err |-> why, refused |-> TRUE])

OpenAllowed(t) == rq[t].accept /\ (rq[t].bound = 0 \/ rq[t].sclosed)

\* registry.open under r.mu: draining
Open_Draining(t) ==
    /\ CanStep /\ pc[t] = "inh" /\ NextOp(t) = "open" /\ OpenAllowed(t) /\ draining[rq[t].w]
    /\ rq' = [rq EXCEPT ![t].ops = <<>>, ![t].err = "draining"]
    /\ UNCHANGED <<reg, sinfo, closed, lock, pending, draining, down, now, pc, op, cnt>>
    /\ St("Open_Draining", t, [x |-> 0], [err |-> "draining", refused |-> TRUE])

\* registry.open under r.mu: insert
Open_OK(t) ==
    /\ CanStep /\ pc[t] = "inh" /\ NextOp(t) = "open" /\ OpenAllowed(t) /\ ~draining[rq[t].w]
    /\ FreeSlots # {}
    /\ LET s == CHOOSE x \in FreeSlots : \A y \in FreeSlots : x <= y IN
       /\ reg' = [reg EXCEPT ![s] = [in |-> TRUE, exp |-> now + rq[t].ttl, prin |-> rq[t].prin]]
       /\ sinfo' = [sinfo EXCEPT ![s] = [used |-> TRUE, home |-> rq[t].w, owner |-> rq[t].prin, pub |-> FALSE]]
       /\ pc' = [pc EXCEPT ![t] = "sealing"]
       /\ rq' = [rq EXCEPT ![t].ops = Pop(t), ![t].cur = s]
       /\ UNCHANGED <<closed, lock, pending, draining, down, now, op, cnt>>
       /\ St("Open_OK", t, [slot |-> s, ttl |-> rq[t].ttl], [refused |-> FALSE])

Seal_OK(t) ==
    LET s == rq[t].cur IN
    /\ CanStep /\ pc[t] = "sealing" /\ rq[t].w \notin SealFails
    /\ pc' = [pc EXCEPT ![t] = "inh"]
    /\ rq' = [rq EXCEPT ![t].bound = s, ![t].sclosed = FALSE, ![t].minted = s, ![t].cur = 0]
    /\ UNCHANGED <<reg, sinfo, closed, lock, pending, draining, down, now, op, cnt>>
    /\ St("Seal_OK", t, [s |-> s], [err |-> "-"])

\* seal failed: roll back with registry.close(sid) — hit: the entry is still in the map
Seal_Fail_Hit(t) ==
    LET s == rq[t].cur IN
    /\ CanStep /\ pc[t] = "sealing" /\ rq[t].w \in SealFails /\ reg[s].in
    /\ reg' = [reg EXCEPT ![s].in = FALSE]
    /\ pending' = [pending EXCEPT ![s] = t]
    /\ pc' = [pc EXCEPT ![t] = "rollback"]
    /\ UNCHANGED <<sinfo, closed, lock, draining, down, now, rq, op, cnt>>
    /\ St("Seal_Fail_Hit", t, [s |-> s], [removed |-> TRUE])

Rollback_RunClose(t) ==
    LET s == rq[t].cur IN
    /\ CanStep /\ pc[t] = "rollback" /\ pending[s] = t
    /\ closed' = [closed EXCEPT ![s] = @ + 1]
    /\ pending' = [pending EXCEPT ![s] = 0]
    /\ pc' = [pc EXCEPT ![t] = "inh"]
    /\ rq' = [rq EXCEPT ![t].ops = <<>>, ![t].err = "sealfail", ![t].cur = 0]
    /\ UNCHANGED <<reg, sinfo, lock, draining, down, now, op, cnt>>
    /\ St("Rollback_RunClose", t, [s |-> s], [err |-> "sealfail"])

\* ... miss: the reaper or Shutdown removed (and closes) it in between
Seal_Fail_Miss(t) ==
    LET s == rq[t].cur IN
    /\ CanStep /\ pc[t] = "sealing" /\ rq[t].w \in SealFails /\ ~reg[s].in
    /\ pc' = [pc EXCEPT ![t] = "inh"]
    /\ rq' = [rq EXCEPT ![t].ops = <<>>, ![t].err = "sealfail", ![t].cur = 0]
    /\ UNCHANGED <<reg, sinfo, closed, lock, pending, draining, down, now, op, cnt>>
    /\ St("Seal_Fail_Miss", t, [s |-> s], [err |-> "sealfail"])

\* one Produce / Exchange call of the stream state: user code that reads ctx.Session()
H_Tick(t) ==
    /\ CanStep /\ pc[t] \in {"inh", "locked"} /\ NextOp(t) = "tick"
    /\ rq' = [rq EXCEPT ![t].ops = Pop(t)]
    /\ pc' = [pc EXCEPT ![t] = "inh"]
    /\ UNCHANGED <<reg, sinfo, closed, lock, pending, draining, down, now, op, cnt>>
    /\ St("H_Tick", t, [route |-> rq[t].route],
          [saw |-> IF rq[t].bound # 0 /\ ~rq[t].sclosed THEN rq[t].bound ELSE 0])

\* ctx.CloseSession: no session bound to this request
H_Close_Unbound(t) ==
    /\ CanStep /\ pc[t] = "inh" /\ NextOp(t) = "close" /\ rq[t].bound = 0
    /\ rq' = [rq EXCEPT ![t].ops = Pop(t)]
    /\ UNCHANGED <<reg, sinfo, closed, lock, pending, draining, down, now, pc, op, cnt>>
    /\ St("H_Close_Unbound", t, [x |-> 0], [hit |-> FALSE])

\* registry.close(sid) under r.mu: hit
H_Close_Hit(t) ==
    LET s == rq[t].bound IN
    /\ CanStep /\ pc[t] = "inh" /\ NextOp(t) = "close" /\ s # 0 /\ reg[s].in
    /\ reg' = [reg EXCEPT ![s].in = FALSE]
    /\ pending' = [pending EXCEPT ![s] = t]
    /\ pc' = [pc EXCEPT ![t] = "hclosing"]
    /\ UNCHANGED <<sinfo, closed, lock, draining, down, now, rq, op, cnt>>
    /\ St("H_Close_Hit", t, [s |-> s], [removed |-> TRUE])

H_RunClose(t) ==
    LET s == rq[t].bound IN
    /\ CanStep /\ pc[t] = "hclosing" /\ pending[s] = t
    /\ closed' = [closed EXCEPT ![s] = @ + 1]
    /\ pending' = [pending EXCEPT ![s] = 0]
    /\ pc' = [pc EXCEPT ![t] = "inh"]
    /\ rq' = [rq EXCEPT ![t].ops = Pop(t), ![t].sclosed = TRUE]
    /\ UNCHANGED <<reg, sinfo, lock, draining, down, now, op, cnt>>
    /\ St("H_RunClose", t, [s |-> s], [hit |-> TRUE])

\* registry.close(sid): miss — somebody else removed it (and owes / ran the Close)
H_Close_Miss(t) ==
    LET s == rq[t].bound IN
    /\ CanStep /\ pc[t] = "inh" /\ NextOp(t) = "close" /\ s # 0 /\ ~reg[s].in
    /\ rq' = [rq EXCEPT ![t].ops = Pop(t), ![t].sclosed = TRUE]
    /\ UNCHANGED <<reg, sinfo, closed, lock, pending, draining, down, now, pc, op, cnt>>
    /\ St("H_Close_Miss", t, [s |-> s], [hit |-> FALSE])

\* the handler returns / panics; the response is written (VGI-Session header flushed
\* by stickyResponseWriter even on a panic); deferred ReleaseLock unlocks cleanup.entry
Finish(t) ==
    LET r == rq[t]
        res == IF NextOp(t) = "panic" THEN "panic" ELSE IF r.err # "-" THEN r.err ELSE "ok" IN
    /\ CanStep /\ pc[t] = "inh" /\ NextOp(t) \in {"ret", "panic"}
    /\ lock' = IF r.lk # 0 THEN [lock EXCEPT ![r.lk] = 0] ELSE lock
    /\ sinfo' = IF r.minted # 0 THEN [sinfo EXCEPT ![r.minted].pub = TRUE] ELSE sinfo
    /\ Done(t)
    /\ UNCHANGED <<reg, closed, pending, draining, down, now, op, cnt>>
    /\ St("Finish", t, [x |-> 0],
          [lost |-> FALSE, res |-> res, tokhdr |-> r.minted, closehdr |-> r.sclosed])

--------------------------------------------------------------------------
(* handleStickyDelete after Lock(): registry.close(sid), Unlock, 204.      *)
Del_Close_Hit(t) ==
    LET s == rq[t].ent IN
    /\ CanStep /\ pc[t] = "dlocked" /\ reg[s].in
    /\ reg' = [reg EXCEPT ![s].in = FALSE]
    /\ pending' = [pending EXCEPT ![s] = t]
    /\ pc' = [pc EXCEPT ![t] = "dclosing"]
    /\ UNCHANGED <<sinfo, closed, lock, draining, down, now, rq, op, cnt>>
    /\ St("Del_Close_Hit", t, [s |-> s], [removed |-> TRUE])

Del_RunClose(t) ==
    LET s == rq[t].ent IN
    /\ CanStep /\ pc[t] = "dclosing" /\ pending[s] = t
    /\ closed' = [closed EXCEPT ![s] = @ + 1]
    /\ pending' = [pending EXCEPT ![s] = 0]
    /\ pc' = [pc EXCEPT ![t] = "dunlock"]
    /\ UNCHANGED <<reg, sinfo, lock, draining, down, now, rq, op, cnt>>
    /\ St("Del_RunClose", t, [s |-> s], [hit |-> TRUE])

Del_Close_Miss(t) ==
    LET s == rq[t].ent IN
    /\ CanStep /\ pc[t] = "dlocked" /\ ~reg[s].in
    /\ pc' = [pc EXCEPT ![t] = "dunlock"]
    /\ UNCHANGED <<reg, sinfo, closed, lock, pending, draining, down, now, rq, op, cnt>>
    /\ St("Del_Close_Miss", t, [s |-> s], [hit |-> FALSE])

Del_Finish(t) ==
    /\ CanStep /\ pc[t] = "dunlock"
    /\ lock' = [lock EXCEPT ![rq[t].lk] = 0]
    /\ Done(t)
    /\ UNCHANGED <<reg, sinfo, closed, pending, draining, down, now, op, cnt>>
    /\ St("Del_Finish", t, [x |-> 0], [lost |-> FALSE, res |-> "d204"])

--------------------------------------------------------------------------
(* Reaper: drainExpired(tick time) on worker w.                            *)
Reap(w, lag) ==
    LET S == {s \in Sess : sinfo[s].used /\ sinfo[s].home = w /\ reg[s].in
                           /\ (IF Mode = "trace" THEN TraceExpired(s) ELSE reg[s].exp + lag < now)} IN
    /\ CanStart /\ ~ReaperBusy /\ ~down[w] /\ cnt.reaps < MaxReaps
    /\ reg' = [s \in Sess |-> IF s \in S THEN [reg[s] EXCEPT !.in = FALSE] ELSE reg[s]]
    /\ pending' = [s \in Sess |-> IF s \in S THEN RP ELSE pending[s]]
    /\ cnt' = [cnt EXCEPT !.reaps = @ + 1]
    /\ UNCHANGED <<sinfo, closed, lock, draining, down, now, pc, rq, op>>
    /\ St("Reap", RP, [w |-> w, lag |-> lag], [removed |-> Cardinality(S)])

\* closes of a batch: one at a time in the code (MC); Det: the whole batch in one step,
\* because the order inside a batch is Go's map iteration order
RunCloseBy(who, name) ==
    LET P == {s \in Sess : pending[s] = who} IN
    /\ CanStep /\ P # {}
    /\ \E C \in (IF Det THEN {P} ELSE {{s} : s \in P}) :
        /\ closed' = [s \in Sess |-> IF s \in C THEN closed[s] + 1 ELSE closed[s]]
        /\ pending' = [s \in Sess |-> IF s \in C THEN 0 ELSE pending[s]]
        /\ UNCHANGED <<reg, sinfo, lock, draining, down, now, pc, rq, op, cnt>>
        /\ St(name, who, [n |-> Cardinality(C)], [left |-> Cardinality(P \ C)])

Reap_RunClose == RunCloseBy(RP, "Reap_RunClose")

--------------------------------------------------------------------------
(* Operator: DrainHandle.                                                  *)
SetDrain(w, v) ==
    /\ CanStart /\ op.pc = "idle" /\ cnt.ops < MaxOps /\ draining[w] # v
    /\ draining' = [draining EXCEPT ![w] = v]
    /\ cnt' = [cnt EXCEPT !.ops = @ + 1]
    /\ UNCHANGED <<reg, sinfo, closed, lock, pending, down, now, pc, rq, op>>
    /\ St(IF v THEN "Drain" ELSE "ClearDrain", OP, [w |-> w], [draining |-> v])

\* registry.shutdown(): swap the map under r.mu
Shutdown_Remove(w) ==
    LET S == {s \in Sess : sinfo[s].used /\ sinfo[s].home = w /\ reg[s].in} IN
    /\ CanStart /\ op.pc = "idle" /\ cnt.ops < MaxOps
    /\ reg' = [s \in Sess |-> IF s \in S THEN [reg[s] EXCEPT !.in = FALSE] ELSE reg[s]]
    /\ pending' = [s \in Sess |-> IF s \in S THEN OP ELSE pending[s]]
    /\ op' = [pc |-> "closing", w |-> w]
    /\ cnt' = [cnt EXCEPT !.ops = @ + 1]
    /\ UNCHANGED <<sinfo, closed, lock, draining, down, now, pc, rq>>
    /\ St("Shutdown_Remove", OP, [w |-> w], [removed |-> Cardinality(S)])

Op_RunClose == op.pc = "closing" /\ RunCloseBy(OP, "Op_RunClose")

\* stopReaper: waits for a sweep of that worker's reaper that is in progress
Shutdown_Done ==
    /\ CanStep /\ op.pc = "closing" /\ ~\E s \in Sess : pending[s] = OP
    /\ ~\E s \in Sess : pending[s] = RP /\ sinfo[s].home = op.w
    /\ down' = [down EXCEPT ![op.w] = TRUE]
    /\ op' = [pc |-> "idle", w |-> "-"]
    /\ UNCHANGED <<reg, sinfo, closed, lock, pending, draining, now, pc, rq, cnt>>
    /\ St("Shutdown_Done", OP, [w |-> op.w], [returned |-> TRUE])

--------------------------------------------------------------------------
Tick ==
    /\ CanStart /\ now < MaxNow
    /\ Det => ~Waiting          \* a goroutine blocked on a mutex holds virtual time still
    /\ now' = now + 1
    /\ UNCHANGED <<reg, sinfo, closed, lock, pending, draining, down, pc, rq, op, cnt>>
    /\ St("Tick", 0, [d |-> 1], [now |-> now'])

\* at rest: nothing in flight; the harness probes every live entry's lock
AtRest == ~Busy
Quiesce ==
    /\ Budget /\ AtRest /\ Mode # "mc"
    /\ UNCHANGED <<reg, sinfo, closed, lock, pending, draining, down, now, pc, rq, op, cnt>>
    /\ St("Quiesce", 0, [x |-> 0], [rest |-> TRUE])

--------------------------------------------------------------------------
Init ==
    /\ reg = [s \in Sess |-> NoEntry]
    /\ sinfo = [s \in Sess |-> NoInfo]
    /\ closed = [s \in Sess |-> 0]
    /\ lock = [s \in Sess |-> 0]
    /\ pending = [s \in Sess |-> 0]
    /\ draining = [w \in Worker |-> FALSE]
    /\ down = [w \in Worker |-> FALSE]
    /\ now = 0
    /\ pc = [t \in Thr |-> "idle"]
    /\ rq = [t \in Thr |-> NoReq]
    /\ op = [pc |-> "idle", w |-> "-"]
    /\ cnt = [req |-> 0, ops |-> 0, reaps |-> 0]
    /\ how = [s \in Sess |-> "-"]
    /\ (Mode = "classes") => TLCSet(1, {})
    /\ hist = << [a |-> "Init", t |-> 0,
                  args |-> [NSess |-> NSess, NThr |-> NThr, Prin |-> Prin, Worker |-> Worker,
                            SealFails |-> SealFails, Serial |-> Serial],
                  exp |-> [ok |-> TRUE]] >>

ThreadNext(t) ==
    \/ \E p \in Prin, w \in Worker, sc \in OpenScripts, ttl \in TTLs, acc \in BOOLEAN :
            StartPlain(t, p, w, sc, ttl, acc)
    \/ \E s \in Sess, p \in Prin, w \in Worker, tok \in Toks, sc \in ResumeScripts, ro \in Routes :
            \/ Resume_TokenFail(t, s, p, w, tok, sc, ro)
            \/ Resume_WrongWorker(t, s, p, w, tok, sc, ro)
            \/ Resume_TokenOK(t, s, p, w, tok, sc, ro)
    \/ \E s \in Sess, p \in Prin, w \in Worker, tok \in Toks :
            \/ Delete_TokenFail(t, s, p, w, tok)
            \/ Delete_TokenOK(t, s, p, w, tok)
    \/ Get_Miss(t) \/ Get_ExpiredEvict(t) \/ Evict_RunClose(t) \/ Get_PrinMismatch(t) \/ Get_Hit(t)
    \/ EntryLock(t) \/ EntryLock_Wait(t)
    \/ Open_Guard(t) \/ Open_Draining(t) \/ Open_OK(t)
    \/ Seal_OK(t) \/ Seal_Fail_Hit(t) \/ Rollback_RunClose(t) \/ Seal_Fail_Miss(t)
    \/ H_Tick(t)
    \/ H_Close_Unbound(t) \/ H_Close_Hit(t) \/ H_RunClose(t) \/ H_Close_Miss(t)
    \/ Finish(t)
    \/ Del_Close_Hit(t) \/ Del_RunClose(t) \/ Del_Close_Miss(t) \/ Del_Finish(t)

Next ==
    \/ \E t \in Thr : ThreadNext(t)
    \/ \E w \in Worker, lag \in Lags : Reap(w, lag)
    \/ Reap_RunClose
    \/ \E w \in Worker, v \in BOOLEAN : SetDrain(w, v)
    \/ \E w \in Worker : Shutdown_Remove(w)
    \/ Op_RunClose \/ Shutdown_Done
    \/ Tick
    \/ Quiesce

Spec == Init /\ [][Next]_vars

--------------------------------------------------------------------------
(* C29, stated declaratively.                                              *)

InHandler(t) == pc[t] \in HPcs
Bears(t, s) == rq[t].lk = s \/ rq[t].minted = s

\* calls bearing the same session never run concurrently
MutualExclusion ==
    \A s \in Sess : Cardinality({t \in Thr : InHandler(t) /\ Bears(t, s)}) <= 1

\* Close runs at most once, ...
CloseAtMostOnce == \A s \in Sess : closed[s] <= 1

\* ... and exactly once for every session that ended (close, delete, expiry, shutdown,
\* rollback), as soon as nothing is in flight
CloseExactlyOnceAtRest ==
    AtRest => \A s \in Sess : (sinfo[s].used /\ ~reg[s].in) => closed[s] = 1

\* the inductive form: an ended session's Close has run or is owed by exactly one actor;
\* a live session's Close has not run
CloseAccounting ==
    \A s \in Sess :
        /\ ~sinfo[s].used => (~reg[s].in /\ closed[s] = 0 /\ pending[s] = 0)
        /\ (sinfo[s].used /\ reg[s].in) => (closed[s] = 0 /\ pending[s] = 0)
        /\ (sinfo[s].used /\ ~reg[s].in) => closed[s] + (IF pending[s] # 0 THEN 1 ELSE 0) = 1

\* no request leaves a session locked after it completes
NoLockLeak == AtRest => \A s \in Sess : lock[s] = 0
LockHolderSane ==
    \A s \in Sess : lock[s] # 0 =>
        /\ rq[lock[s]].lk = s
        /\ pc[lock[s]] \in HPcs \cup {"locked", "dlocked", "dclosing", "dunlock"}

\* a session resolves only for the caller that opened it, on the worker that opened it,
\* with the token as issued
Isolation ==
    \A t \in Thr : rq[t].ent # 0 =>
        /\ rq[t].prin = sinfo[rq[t].ent].owner
        /\ rq[t].w = sinfo[rq[t].ent].home
        /\ rq[t].tok = "own"
\* ... and user code of a request only ever sees a session it resolved that way or opened itself
HandlerSeesOwnSession ==
    \A t \in Thr : (InHandler(t) /\ rq[t].bound # 0) =>
        /\ rq[t].prin = sinfo[rq[t].bound].owner
        /\ rq[t].w = sinfo[rq[t].bound].home

\* new sessions are refused while draining: a session only ever enters a registry
\* whose drain flag is clear
DrainRefusesOpen ==
    [][\A s \in Sess : (~reg[s].in /\ reg'[s].in) => ~draining[sinfo'[s].home]]_vars

\* a removed session never re-enters the map (ids are not reused)
NoResurrection ==
    [][\A s \in Sess : (sinfo[s].used /\ ~reg[s].in) => ~reg'[s].in]_vars

TypeOK ==
    /\ \A s \in Sess : lock[s] \in 0..NThr /\ pending[s] \in 0..OP /\ closed[s] \in Nat
    /\ now \in 0..MaxNow
    /\ \A t \in Thr : pc[t] \in {"idle", "get", "evict", "prelock", "lockwait", "inh", "hclosing",
                                 "sealing", "rollback", "locked", "dlocked", "dclosing", "dunlock"}

\* NOT claimed by C29 and NOT true of the code (see report): user code of a resumed request
\* can start after the session's Close ran (get hit, then close/expiry, then Lock succeeds)
NoHandlerOnClosedSession ==
    \A t \in Thr : (pc[t] = "inh" /\ rq[t].lk # 0 /\ ~rq[t].sclosed) => closed[rq[t].lk] = 0

View == <<reg, sinfo, closed, lock, pending, draining, down, now, pc, rq, op, cnt, how>>
=============================================================================
