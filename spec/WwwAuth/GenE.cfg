SPECIFICATION Spec
CONSTANTS
    ValueClasses = {"none", "plain", "nameish"}
    ResourceClasses = {"root", "path_slash", "port", "query", "nameish"}
    AuthServerCounts = {1}
    Parser = "whole"
    Mode = "edges"
    Depth = 0
VIEW View
CHECK_DEADLOCK FALSE
