SPECIFICATION Spec
CONSTANTS
    ValueClasses = {"none", "plain", "tiny", "nameish"}
    ResourceClasses = {"root", "root_slash", "path", "path_slash", "deep", "port", "query", "nameish", "ipv6"}
    AuthServerCounts = {1, 2}
    Parser = "whole"
    Mode = "edges"
    Depth = 0
VIEW View
CHECK_DEADLOCK FALSE
