------------------------------ MODULE WwwAuth ------------------------------
(***************************************************************************)
(* WWW-Authenticate round trip of vgi-rpc-go (property C28).               *)
(*                                                                         *)
(*   server side   vgirpc/http.go    SetOAuthResourceMetadata               *)
(*                 vgirpc/oauth.go   Validate, resourceMetadataURLFrom-     *)
(*                                   Resource, buildWWWAuthenticate         *)
(*                 vgirpc/unauthorized.go  writeUnauthorized (the 401)      *)
(*   client side   vgirpc/oauth_client.go  Parse* / parseQuotedParam        *)
(*                                                                         *)
(* The header is a sequence of  name="value"  parameters after the scheme  *)
(* "Bearer".  Values are abstract identifiers ("v:client_id" = whatever    *)
(* concrete string was configured for client_id); the harness draws the    *)
(* concrete strings.  A value accepted by Validate is drawn from           *)
(* [A-Za-z0-9._~-]+ and therefore never contains  ="  - that is what lets  *)
(* the model treat a value as atomic.  Parameter NAMES are not atomic: a   *)
(* name is a sequence of segments so that "one name ends with another"     *)
(* (device_code_client_id ends with client_id) is expressible; that is     *)
(* the only way a search for  n="  can hit something other than the        *)
(* parameter n in a header the server built from valid metadata.           *)
(*                                                                         *)
(* One action per decision point of the code; the C28 property is stated   *)
(* declaratively at the bottom (RoundTrip) and model-checked against the   *)
(* operational actions.                                                    *)
(***************************************************************************)
EXTENDS Naturals, Sequences, FiniteSets, TLC, VerifEmit

CONSTANTS
    ValueClasses,    \* classes offered for each optional string field:
                     \*   "none"    field left empty
                     \*   "plain"   random string over the validation charset
                     \*   "tiny"    one character
                     \*   "nameish" contains / equals a parameter name, "true", "Bearer"
                     \*   "invalid" contains a character outside the charset
    ResourceClasses, \* shapes of the resource URL (see harness): "root",
                     \*   "root_slash", "path", "path_slash", "deep", "port",
                     \*   "query", "nameish", "ipv6", and "empty" (invalid)
    AuthServerCounts,\* subset of {0, 1, 2}: number of authorization servers
    Parser,          \* "whole"     - a parameter is found by its whole name
                     \* "substring" - first occurrence of  n="  anywhere (the
                     \*               code before the C28 fix); kept to show
                     \*               RoundTrip is not vacuous
    Mode,            \* "mc" | "edges" | "tree"
    Depth

VARIABLES
    phase,     \* "start" | "configured" | "rejected" | "challenged" | "done"
    meta,      \* the metadata handed to SetOAuthResourceMetadata
    header,    \* the WWW-Authenticate parameters of the last 401 (<<>> = no header)
    hist

vars == <<phase, meta, header, hist>>

--------------------------------------------------------------------------
StrFields == <<"client_id", "client_secret", "device_code_client_id",
               "device_code_client_secret">>
StrFieldSet == {StrFields[i] : i \in 1..Len(StrFields)}

\* the abstract value configured for field f
ValId(f) == "v:" \o f
UrlId == "v:url"        \* the well-known metadata URL derived from the resource

Metas ==
    [resource : ResourceClasses, nas : AuthServerCounts,
     client_id : ValueClasses, client_secret : ValueClasses,
     device_code_client_id : ValueClasses, device_code_client_secret : ValueClasses,
     flag : BOOLEAN]

NoMeta == [resource |-> "-", nas |-> 0, client_id |-> "none", client_secret |-> "none",
           device_code_client_id |-> "none", device_code_client_secret |-> "none",
           flag |-> FALSE]

--------------------------------------------------------------------------
(* OAuthResourceMetadata.Validate: resource and authorization servers are  *)
(* required; each non-empty optional string must match the charset.        *)
ValidateOK(m) ==
    /\ m.resource # "empty"
    /\ m.nas > 0
    /\ \A f \in StrFieldSet : m[f] # "invalid"

(* buildWWWAuthenticate: fixed emission order, a parameter is emitted only *)
(* when its field is non-empty / the flag is set.                          *)
Param(n, v) == [name |-> n, val |-> v]
Opt(m, f) == IF m[f] = "none" THEN <<>> ELSE <<Param(f, ValId(f))>>

BuildHeader(m) ==
    <<Param("resource_metadata", UrlId)>>
    \o Opt(m, "client_id")
    \o (IF m.flag THEN <<Param("use_id_token_as_bearer", "true")>> ELSE <<>>)
    \o Opt(m, "client_secret")
    \o Opt(m, "device_code_client_id")
    \o Opt(m, "device_code_client_secret")

Names(h) == [i \in 1..Len(h) |-> h[i].name]

--------------------------------------------------------------------------
(* parseQuotedParam(header, n).                                            *)
Segs(n) ==
    CASE n = "device_code_client_id"     -> <<"device_code", "client_id">>
      [] n = "device_code_client_secret" -> <<"device_code", "client_secret">>
      [] OTHER                           -> <<n>>

EndsWith(long, short) ==
    /\ Len(short) <= Len(long)
    /\ SubSeq(long, Len(long) - Len(short) + 1, Len(long)) = short

\* does a search for  n="  hit the parameter named pn ?
Hits(pn, n) ==
    IF Parser = "whole" THEN pn = n
    ELSE EndsWith(Segs(pn), Segs(n))      \* substring search: any name ending in n

ParseParam(h, n) ==
    LET S == {i \in 1..Len(h) : Hits(h[i].name, n)}
    IN IF S = {} THEN ""
       ELSE h[CHOOSE i \in S : \A j \in S : i <= j].val   \* first occurrence wins

ParseAll(h) ==
    [resource_metadata         |-> ParseParam(h, "resource_metadata"),
     client_id                 |-> ParseParam(h, "client_id"),
     client_secret             |-> ParseParam(h, "client_secret"),
     device_code_client_id     |-> ParseParam(h, "device_code_client_id"),
     device_code_client_secret |-> ParseParam(h, "device_code_client_secret"),
     use_id_token_as_bearer    |-> (ParseParam(h, "use_id_token_as_bearer") = "true")]

--------------------------------------------------------------------------
\* behaviours are chains; only the last step of a chain is printed in edges mode
Record(step, final) ==
    /\ hist' = Append(hist, step)
    /\ (Mode = "edges" /\ final) => EmitTrace(hist')
    /\ (Mode = "tree" /\ Len(hist') = Depth) => EmitTrace(hist')

(* HttpServer.SetOAuthResourceMetadata(m)                                  *)
Configure(m) ==
    /\ phase = "start"
    /\ meta' = m
    /\ header' = <<>>
    /\ IF ValidateOK(m)
       THEN /\ phase' = "configured"
            /\ Record([a |-> "Configure", args |-> m, exp |-> [ok |-> TRUE]], FALSE)
       ELSE /\ phase' = "rejected"
            /\ Record([a |-> "Configure", args |-> m, exp |-> [ok |-> FALSE]], FALSE)

(* A request the authenticator refuses: authenticate -> writeUnauthorized. *)
(* The header is present exactly when metadata was accepted.               *)
Challenge ==
    /\ phase \in {"configured", "rejected"}
    /\ meta' = meta
    /\ IF phase = "configured"
       THEN /\ header' = BuildHeader(meta)
            /\ phase' = "challenged"
            /\ Record([a |-> "Challenge", args |-> [x |-> 0],
                       exp |-> [status |-> 401, has_header |-> TRUE]], FALSE)
       ELSE /\ header' = <<>>
            /\ phase' = "done"
            /\ Record([a |-> "Challenge", args |-> [x |-> 0],
                       exp |-> [status |-> 401, has_header |-> FALSE]], TRUE)

(* The client applies the six public Parse* functions to the header value. *)
(* m_scheme / m_names: the challenge as an RFC 7235 tokenizer sees it -     *)
(* the model's account of buildWWWAuthenticate, compared in the same step   *)
(* as the parse results (a difference there is drift, never a verdict, and  *)
(* must not keep the judged comparison from happening).                     *)
Parse ==
    /\ phase = "challenged"
    /\ UNCHANGED <<meta, header>>
    /\ phase' = "done"
    /\ Record([a |-> "Parse", args |-> [x |-> 0],
               exp |-> ParseAll(header) @@ [m_scheme |-> "Bearer", m_names |-> Names(header)]], TRUE)

Init ==
    /\ phase = "start"
    /\ meta = NoMeta
    /\ header = <<>>
    /\ hist = << [a |-> "Init", args |-> [parser |-> Parser], exp |-> [x |-> 0]] >>

Next ==
    \/ (phase = "start" /\ \E m \in Metas : Configure(m))
    \/ Challenge
    \/ Parse

Spec == Init /\ [][Next]_vars

--------------------------------------------------------------------------
(* C28.  For any valid metadata, parsing the header the server emits       *)
(* recovers exactly what was advertised, an absent parameter read as empty.*)
Last == hist'[Len(hist')]

Advertised(m, f) == IF m[f] = "none" THEN "" ELSE ValId(f)

RoundTrip ==
    [][ (Last.a = "Parse") =>
          /\ ValidateOK(meta)
          /\ Last.exp.resource_metadata = UrlId
          /\ \A f \in StrFieldSet : Last.exp[f] = Advertised(meta, f)
          /\ Last.exp.use_id_token_as_bearer = meta.flag ]_vars

(* Around the property: a header is advertised only for metadata that      *)
(* passed validation, it always leads with resource_metadata, and every    *)
(* parameter name occurs at most once.                                     *)
HeaderWellFormed ==
    \/ header = <<>>
    \/ /\ ValidateOK(meta)
       /\ header[1].name = "resource_metadata"
       /\ \A i, j \in 1..Len(header) : header[i].name = header[j].name => i = j

TypeOK ==
    /\ phase \in {"start", "configured", "rejected", "challenged", "done"}
    /\ (phase \in {"challenged"}) => header # <<>>

View == <<phase, meta, header>>
=============================================================================
