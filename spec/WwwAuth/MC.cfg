SPECIFICATION Spec
CONSTANTS
    ValueClasses = {"none", "plain", "nameish", "invalid"}
    ResourceClasses = {"root", "path_slash", "query", "nameish", "empty"}
    AuthServerCounts = {0, 1}
    Parser = "whole"
    Mode = "mc"
    Depth = 0
VIEW View
INVARIANTS TypeOK HeaderWellFormed
PROPERTIES RoundTrip
CHECK_DEADLOCK FALSE
