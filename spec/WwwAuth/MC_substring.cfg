\* The parser as the code had it before the C28 fix (first occurrence of n=" anywhere).
\* TLC must report RoundTrip violated here: this is the non-vacuity witness, it is not
\* part of the mc lists in module.json.
SPECIFICATION Spec
CONSTANTS
    ValueClasses = {"none", "plain"}
    ResourceClasses = {"path"}
    AuthServerCounts = {1}
    Parser = "substring"
    Mode = "mc"
    Depth = 0
VIEW View
INVARIANTS TypeOK HeaderWellFormed
PROPERTIES RoundTrip
CHECK_DEADLOCK FALSE
