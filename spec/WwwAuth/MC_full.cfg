SPECIFICATION Spec
CONSTANTS
    ValueClasses = {"none", "plain", "tiny", "nameish", "invalid"}
    ResourceClasses = {"root", "root_slash", "path", "path_slash", "deep", "port", "query", "nameish", "ipv6", "empty"}
    AuthServerCounts = {0, 1, 2}
    Parser = "whole"
    Mode = "mc"
    Depth = 0
VIEW View
INVARIANTS TypeOK HeaderWellFormed
PROPERTIES RoundTrip
CHECK_DEADLOCK FALSE
