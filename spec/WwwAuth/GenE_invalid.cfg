SPECIFICATION Spec
CONSTANTS
    ValueClasses = {"none", "plain", "invalid"}
    ResourceClasses = {"path", "empty"}
    AuthServerCounts = {0, 1}
    Parser = "whole"
    Mode = "edges"
    Depth = 0
VIEW View
CHECK_DEADLOCK FALSE
